LEAVES = [
    dict(name='dualBootstrap', file='util/inference_util.py', func='_dual_bootstrap',
         kind='func', params={'variances_0': 'A', 'variances_1': 'A', 'variances_2': 'A',
                              'n_rdm': 'A', 'n_pattern': 'A'},
         none=['n_rdm', 'n_pattern'], ret='A'),
    dict(name='dualBootstrapN', file='util/inference_util.py', func='_dual_bootstrap',
         kind='func', params={'variances_0': 'A', 'variances_1': 'A', 'variances_2': 'A',
                              'n_rdm': 'A', 'n_pattern': 'A'}, ret='A'),
    dict(name='correct1dBoth', file='util/inference_util.py', func='_correct_1d',
         kind='func', params={'variance': 'A', 'n_pattern': 'A', 'n_rdm': 'A'}, ret='A'),
    dict(name='correct1dPattern', file='util/inference_util.py', func='_correct_1d',
         kind='func', params={'variance': 'A', 'n_pattern': 'A', 'n_rdm': 'A'},
         none=['n_rdm'], ret='A'),
    dict(name='correct1dRdm', file='util/inference_util.py', func='_correct_1d',
         kind='func', params={'variance': 'A', 'n_pattern': 'A', 'n_rdm': 'A'},
         none=['n_pattern'], ret='A'),
    dict(name='correct1dNone', file='util/inference_util.py', func='_correct_1d',
         kind='func', params={'variance': 'A', 'n_pattern': 'A', 'n_rdm': 'A'},
         none=['n_pattern', 'n_rdm'], ret='A'),
]

_DB = {'variances_0': 'A', 'variances_1': 'A', 'variances_2': 'A', 'n_rdm': 'A', 'n_pattern': 'A'}
LEAVES += [
    # only one of the two counts passed: the plain formula must still be the one used
    dict(name='dualBootstrapR', file='util/inference_util.py', func='_dual_bootstrap',
         kind='func', params=dict(_DB), none=['n_pattern'], ret='A'),
    dict(name='dualBootstrapP', file='util/inference_util.py', func='_dual_bootstrap',
         kind='func', params=dict(_DB), none=['n_rdm'], ret='A'),
    # bootstrap pair test: two-sided doubling and the (N-1)/N p + 1/N shrinkage
    dict(name='bootTwoSided', file='util/inference_util.py', func='bootstrap_pair_tests',
         kind='assign', target='proportions', nth=1, count=3,
         params={'proportions': 'A'}, ret='A'),
    dict(name='bootShrink', file='util/inference_util.py', func='bootstrap_pair_tests',
         kind='assign', target='proportions', nth=2, count=3,
         params={'proportions': 'A', 'len_evaluations': 'A'}, ret='A'),
    # degrees of freedom of the fixed evaluation
    dict(name='fixedDof', file='inference/evaluate.py', func='eval_fixed',
         kind='assign', target='dof', nth=0, count=2,
         params={'evaluations_shape_m1': 'Int'}, ret='Int'),
]


# =====================================================================================
# Round 3: more leaves.
#
# Native py2lean leaves (opaque calls for the Student-t CDF / quantile, the square root, the
# counting reductions) and *derived* leaves: for array expressions and call sites outside the
# scalar subset of py2lean this module first derives, from the current source text (Python
# `ast`), a tiny scalar Python function and writes it to `harness/leaves/_C06_derived.py`;
# py2lean then translates that function as usual.  Every derivation fails closed: an
# unexpected shape of the anchor yields a call of `__underivable__`, which py2lean reports as
# an untranslatable leaf (= broken obligation).  Nothing is cached.
#
# Derivations
#   clamp under the square root     t = x / np.sqrt(np.maximum(v, np.finfo(float).eps))
#                                   -> np.maximum(v, eps)     (t_test_0, t_tests, t_test_nc)
#                                   np.sqrt(np.maximum(model_var, 0)) -> np.maximum(model_var, 0)
#                                   (Result.get_sem, util get_errorbars sem branch and std_eval)
#   Result.get_ci                   ci = [a, b] (t branch) -> a, b with tdist.ppf(prop_cut, self.dof) -> q
#   bootstrap pair proportion       proportions[i_model, j_model] = np.sum(<) / (N - np.sum(==))
#                                   -> lt / (n - eq)    (the comparison operators are part of
#                                   the matched text: `<=` instead of `<` is underivable)
#   call sites                      which expression each wrapper passes as the callee's `dof`,
#                                   `variances`, `noise_ceil` parameter (callee default when the
#                                   argument is not passed), for all_tests / pair_tests / zero_tests /
#                                   nc_tests and Result.test_all / test_pairwise / test_zero / test_noise
#   dispatch on test_type           the callee each wrapper reaches per test_type, as a code
# =====================================================================================
import ast
import os

_SRC = os.environ.get('RSA_REPO_SRC', '/repo/src/rsatoolbox')
_HERE = os.path.dirname(os.path.abspath(__file__))
DERIVED = os.path.join(_HERE, '_C06_derived.py')
_IU = 'util/inference_util.py'
_RES = 'inference/result.py'


class Underivable(Exception):
    pass


_TREES = {}


def _tree(path):
    if path not in _TREES:
        _TREES[path] = ast.parse(open(os.path.join(_SRC, path)).read())
    return _TREES[path]


def _func(path, name):
    for node in ast.walk(_tree(path)):
        if isinstance(node, ast.FunctionDef) and node.name == name:
            return node
    raise Underivable(f'{path}: function {name} not found')


def _assigns(fn, target):
    hits = [n for n in ast.walk(fn) if isinstance(n, ast.Assign) and len(n.targets) == 1
            and ast.unparse(n.targets[0]) == target]
    hits.sort(key=lambda n: n.lineno)
    return hits


def _the_assign(fn, target, nth, count):
    hits = _assigns(fn, target)
    if len(hits) != count:
        raise Underivable(f'expected {count} assignments to {target} in {fn.name}, found {len(hits)}')
    return hits[nth].value


class _Subst(ast.NodeTransformer):
    def __init__(self, subs):
        self.subs, self.used = subs, set()

    def visit(self, node):
        if isinstance(node, ast.expr):
            t = ast.unparse(node)
            if t in self.subs:
                self.used.add(t)
                v = self.subs[t]
                return ast.Constant(value=v) if isinstance(v, int) else ast.Name(id=v, ctx=ast.Load())
        return self.generic_visit(node)


def _substituted(expr, subs, optional=()):
    tr = _Subst(subs)
    new = tr.visit(ast.parse(ast.unparse(expr), mode='eval').body)
    missing = [k for k in subs if k not in tr.used and k not in optional]
    if missing:
        raise Underivable(f'sub-expression(s) {missing} not found in `{ast.unparse(expr)}`')
    return ast.unparse(ast.fix_missing_locations(new))


def _sqrt_arg(expr):
    """the argument of the single np.sqrt(...) call inside `expr`"""
    calls = [n for n in ast.walk(expr) if isinstance(n, ast.Call) and ast.unparse(n.func) == 'np.sqrt']
    if len(calls) != 1 or len(calls[0].args) != 1:
        raise Underivable(f'expected one np.sqrt(.) in `{ast.unparse(expr)}`')
    return calls[0].args[0]


_EPS = 'np.finfo(float).eps'


def _ret(fn):
    rets = [n for n in fn.body if isinstance(n, ast.Return)]
    if len(rets) != 1:
        raise Underivable(f'expected one top-level return in {fn.name}')
    return rets[0].value


def _if_branch(fn, test_type):
    """body of the `if/elif test_type == '<test_type>'` branch of a wrapper"""
    def walk(node):
        if not isinstance(node, ast.If):
            return None
        t = node.test
        if isinstance(t, ast.Compare) and ast.unparse(t.left) == 'test_type' and len(t.ops) == 1 \
                and isinstance(t.ops[0], ast.Eq) and isinstance(t.comparators[0], ast.Constant) \
                and t.comparators[0].value == test_type:
            return node.body
        if len(node.orelse) == 1:
            return walk(node.orelse[0])
        return None
    for node in fn.body:
        b = walk(node)
        if b is not None:
            return b
    raise Underivable(f"{fn.name}: no branch test_type == '{test_type}'")


def _call_in(stmts, target):
    """the call assigned to `target` (possibly as one element of a tuple) within `stmts`"""
    for s in stmts:
        for n in ast.walk(s):
            if isinstance(n, ast.Assign) and len(n.targets) == 1 and ast.unparse(n.targets[0]) == target:
                return n.value
    raise Underivable(f'no assignment to {target}')


def _bound(call, callee_path, callee, param):
    """source text of the expression bound to `param` of `callee` at `call` (its default when
    the argument is not passed)"""
    if not (isinstance(call, ast.Call) and ast.unparse(call.func) == callee):
        raise Underivable(f'`{ast.unparse(call)}` is not a call of {callee}')
    fn = _func(callee_path, callee)
    names = [a.arg for a in fn.args.args]
    defaults = dict(zip(names[len(names) - len(fn.args.defaults):], fn.args.defaults))
    if any(isinstance(a, ast.Starred) for a in call.args) or any(k.arg is None for k in call.keywords):
        raise Underivable('star arguments')
    got = dict(zip(names, call.args))
    for k in call.keywords:
        got[k.arg] = k.value
    if param in got:
        return got[param]
    if param in defaults:
        return defaults[param]
    raise Underivable(f'{callee}: parameter {param} neither passed nor defaulted')


def _ret_call(fn):
    """the single call a Result accessor returns / unpacks"""
    calls = [n for n in ast.walk(fn) if isinstance(n, ast.Call)
             and ast.unparse(n.func) in ('all_tests', 'pair_tests', 'zero_tests', 'nc_tests')]
    if len(calls) != 1:
        raise Underivable(f'{fn.name}: expected exactly one wrapper call')
    return calls[0]


_CALLEE_CODE = {'t_tests': 10, 't_test_0': 11, 't_test_nc': 12, 'bootstrap_pair_tests': 20,
                'np.minimum': 21, 'ranksum_pair_test': 30, 'ranksum_value_test': 31}
_TT = ['t-test', 'bootstrap', 'ranksum']


def _derive():
    out = ['# DERIVED by harness/leaves/C06.py from the source tree under check - do not edit', '']
    specs = []

    def emit(lean_name, params, body_fn, ret='A'):
        pyname = 'd_' + lean_name
        try:
            body = body_fn()
        except Exception as exc:  # noqa: BLE001  (fail closed)
            body = '__underivable__(' + repr(str(exc)) + ')'
        out.append(f'def {pyname}({", ".join(params)}):')
        out.append(f'    return {body}')
        out.append('')
        specs.append(dict(name=lean_name, file=DERIVED, func=pyname, kind='func',
                          params=dict(params), ret=ret))

    A = 'A'
    # ---- clamps under the square roots
    emit('tClampZero', {'variances': A, 'eps': A}, lambda: _substituted(
        _sqrt_arg(_the_assign(_func(_IU, 't_test_0'), 't', 0, 1)), {_EPS: 'eps'}))
    emit('tClampPair', {'variances': A, 'eps': A}, lambda: _substituted(
        _sqrt_arg(_the_assign(_func(_IU, 't_tests'), 't', 0, 2)), {_EPS: 'eps'}))
    emit('tClampNc', {'variances_i': A, 'eps': A}, lambda: _substituted(
        _sqrt_arg(_the_assign(_func(_IU, 't_test_nc'), 't', 0, 1)),
        {_EPS: 'eps', 'variances[i]': 'variances_i'}))
    emit('semClamp', {'model_var': A}, lambda: _substituted(
        _sqrt_arg(_ret([n for n in [_func(_RES, 'get_sem')]][0])), {'self.model_var': 'model_var'}))
    emit('utilSemClampLow', {'model_var': A}, lambda: ast.unparse(
        _sqrt_arg(_the_assign(_func(_IU, 'get_errorbars'), 'errorbar_low', 0, 3))))
    emit('utilSemClampHigh', {'model_var': A}, lambda: ast.unparse(
        _sqrt_arg(_the_assign(_func(_IU, 'get_errorbars'), 'errorbar_high', 0, 3))))
    emit('utilStdClamp', {'model_var': A}, lambda: ast.unparse(
        _sqrt_arg(_the_assign(_func(_IU, 'get_errorbars'), 'std_eval', 0, 1))))

    # ---- Result.get_ci, t branch: ci = [low, high]
    def ci_elt(k):
        v = _the_assign(_func(_RES, 'get_ci'), 'ci', 1, 2)
        if not (isinstance(v, ast.List) and len(v.elts) == 2):
            raise Underivable('get_ci: the t branch does not build a two-element list')
        return _substituted(v.elts[k], {'tdist.ppf(prop_cut, self.dof)': 'q'})
    emit('ciLow', {'means': A, 'std_eval': A, 'q': A}, lambda: ci_elt(0))
    emit('ciHigh', {'means': A, 'std_eval': A, 'q': A}, lambda: ci_elt(1))

    # ---- bootstrap pair proportion
    def boot_prop():
        fn = _func(_IU, 'bootstrap_pair_tests')
        v = _the_assign(fn, 'proportions[i_model, j_model]', 0, 1)
        return _substituted(v, {
            'np.sum(evaluations[:, i_model] < evaluations[:, j_model])': 'lt',
            'np.sum(evaluations[:, i_model] == evaluations[:, j_model])': 'eq',
            'evaluations.shape[0]': 'n'})
    emit('bootProp', {'lt': A, 'eq': A, 'n': A}, boot_prop)

    # ---- call sites: what is passed as dof / variances / noise_ceil
    # codes: 0 model_var, 1 diff_var, 2 noise_ceil_var[:, 0] (lower), 3 noise_ceil_var[:, 1] (upper),
    # 4 the whole noise_ceil_var; ceiling value: 0 mean lower bound, 1 mean upper bound
    var_subs = {'model_var': 0, 'diff_var': 1, 'noise_ceil_var[:, 0]': 2,
                'noise_ceil_var[:, 1]': 3, 'noise_ceil_var': 4}
    VP = {}
    nc_subs = {'np.nanmean(noise_ceil[0])': 0, 'np.nanmean(noise_ceil[1])': 1}

    def code_only(text):
        if not text.strip().isdigit():
            raise Underivable(f'`{text}` is not one of the expected expressions')
        return text
    for wrapper, fam, target, callee in (
            ('all_tests', 'Pair', 'p_pairwise', 't_tests'), ('all_tests', 'Zero', 'p_zero', 't_test_0'),
            ('all_tests', 'Nc', 'p_noise', 't_test_nc'), ('pair_tests', 'Pair', 'p_pairwise', 't_tests'),
            ('zero_tests', 'Zero', 'p_zero', 't_test_0'), ('nc_tests', 'Nc', 'p_noise', 't_test_nc')):
        short = {'all_tests': 'all', 'pair_tests': 'single', 'zero_tests': 'single', 'nc_tests': 'single'}[wrapper]

        def site(wrapper=wrapper, target=target):
            return _call_in(_if_branch(_func(_IU, wrapper), 't-test'), target)
        emit(f'{short}{fam}Dof', {'dof': 'Int'}, lambda site=site, callee=callee: _substituted(
            _bound(site(), _IU, callee, 'dof'), {}, ()), ret='Int')
        emit(f'{short}{fam}Var', VP, lambda site=site, callee=callee: code_only(_substituted(
            _bound(site(), _IU, callee, 'variances'), var_subs, optional=var_subs)), ret='Nat')
        if fam == 'Nc':
            emit(f'{short}NcCeil', {},
                 lambda site=site, callee=callee: code_only(_substituted(
                     _bound(site(), _IU, callee, 'noise_ceil'), nc_subs, optional=nc_subs)), ret='Nat')
    for meth, wrapper, fam in (('test_all', 'all_tests', 'All'), ('test_pairwise', 'pair_tests', 'Pair'),
                               ('test_zero', 'zero_tests', 'Zero'), ('test_noise', 'nc_tests', 'Nc')):
        def rsite(meth=meth):
            return _ret_call(_func(_RES, meth))
        emit(f'result{fam}Dof', {'self_dof': 'Int'}, lambda rsite=rsite, wrapper=wrapper: _substituted(
            _bound(rsite(), _IU, wrapper, 'dof'), {'self.dof': 'self_dof'}, optional=('self.dof',)), ret='Int')
    rv = {'self.model_var': 0, 'self.diff_var': 1, 'self.noise_ceil_var': 4}
    RP = {}
    for meth, wrapper, param, nm in (('test_all', 'all_tests', 'model_var', 'resultAllModelVar'),
                                     ('test_all', 'all_tests', 'diff_var', 'resultAllDiffVar'),
                                     ('test_all', 'all_tests', 'noise_ceil_var', 'resultAllNcVar'),
                                     ('test_pairwise', 'pair_tests', 'diff_var', 'resultPairVar'),
                                     ('test_zero', 'zero_tests', 'model_var', 'resultZeroVar'),
                                     ('test_noise', 'nc_tests', 'noise_ceil_var', 'resultNcVar')):
        emit(nm, RP, lambda meth=meth, wrapper=wrapper, param=param: code_only(_substituted(
            _bound(_ret_call(_func(_RES, meth)), _IU, wrapper, param), rv, optional=rv)), ret='Nat')

    # ---- dispatch on test_type: code of the callee per (wrapper, family, test_type)
    def dispatch(wrapper, target):
        fn = _func(_IU, wrapper)
        parts = []
        for k, tt in enumerate(_TT):
            v = _call_in(_if_branch(fn, tt), target)
            if not isinstance(v, ast.Call):
                raise Underivable(f'{wrapper}/{tt}: {target} is not assigned a call')
            name = ast.unparse(v.func)
            if name not in _CALLEE_CODE:
                raise Underivable(f'{wrapper}/{tt}: unexpected callee {name}')
            parts.append((k, _CALLEE_CODE[name]))
        # a final else must raise (unknown test types are rejected)
        return ' if tt == 0 else '.join([str(parts[0][1]), f'({parts[1][1]} if tt == 1 else ({parts[2][1]} if tt == 2 else 0))'])
    for wrapper, short, fam, target in (('all_tests', 'all', 'Pair', 'p_pairwise'), ('all_tests', 'all', 'Zero', 'p_zero'),
                                        ('all_tests', 'all', 'Nc', 'p_noise'), ('pair_tests', 'single', 'Pair', 'p_pairwise'),
                                        ('zero_tests', 'single', 'Zero', 'p_zero'), ('nc_tests', 'single', 'Nc', 'p_noise')):
        emit(f'{short}{fam}Dispatch', {'tt': 'Nat'}, lambda wrapper=wrapper, target=target: dispatch(wrapper, target),
             ret='Nat')

    text = '\n'.join(out)
    if not (os.path.exists(DERIVED) and open(DERIVED).read() == text):
        with open(DERIVED + '.tmp', 'w') as f:
            f.write(text)
        os.replace(DERIVED + '.tmp', DERIVED)
    return specs


_CDF_ABS = {'stats.t.cdf(np.abs(t), dof)': 'cdf_abs_t'}
_SQ = 'np.sqrt(np.maximum(variances, np.finfo(float).eps))'
_CNT0 = {'(evaluations <= 0).sum(axis=0)': 'count'}
_CNTD = {'(diffs <= 0).sum(axis=0)': 'count'}
_BP = {'count': 'A', 'evaluations_shape_0': 'A'}
LEAVES += [
    # one- and two-sided p-value formulas around the (opaque) Student-t CDF
    dict(name='pOneSided', file=_IU, func='t_test_0', kind='assign', target='p', nth=0, count=1,
         params={'cdf_t': 'A'}, ret='A', opaque={'stats.t.cdf(t, dof)': 'cdf_t'}),
    dict(name='pTwoSidedPair', file=_IU, func='t_tests', kind='assign', target='p', nth=0, count=1,
         params={'cdf_abs_t': 'A'}, ret='A', opaque=_CDF_ABS),
    dict(name='pTwoSidedNc', file=_IU, func='t_test_nc', kind='assign', target='p_i', nth=0, count=1,
         params={'cdf_abs_t': 'A'}, ret='A', opaque=_CDF_ABS),
    # t statistics: quotient by the (opaque) square root of the clamped variance
    dict(name='tQuotZero', file=_IU, func='t_test_0', kind='assign', target='t', nth=0, count=1,
         params={'evaluations': 'A', 'sqrt_clamped': 'A'}, ret='A', opaque={_SQ: 'sqrt_clamped'}),
    dict(name='tQuotPair', file=_IU, func='t_tests', kind='assign', target='t', nth=0, count=2,
         params={'diffs': 'A', 'sqrt_clamped': 'A'}, ret='A', opaque={_SQ: 'sqrt_clamped'}),
    dict(name='tQuotNc', file=_IU, func='t_test_nc', kind='assign', target='t', nth=0, count=1,
         params={'eval_i': 'A', 'noise_ceil': 'A', 'sqrt_clamped': 'A'}, ret='A',
         opaque={'np.sqrt(np.maximum(variances[i], np.finfo(float).eps))': 'sqrt_clamped'}),
    # one-sided bootstrap p-values: (count + 1) / N capped at 1, in all four places
    dict(name='bootZeroAll', file=_IU, func='all_tests', kind='assign', target='p_zero', nth=1, count=3,
         params=_BP, ret='A', opaque=_CNT0),
    dict(name='bootNcAll', file=_IU, func='all_tests', kind='assign', target='p_noise', nth=1, count=3,
         params=_BP, ret='A', opaque=_CNTD),
    dict(name='bootZeroSingle', file=_IU, func='zero_tests', kind='assign', target='p_zero', nth=1, count=3,
         params=_BP, ret='A', opaque=_CNT0),
    dict(name='bootNcSingle', file=_IU, func='nc_tests', kind='assign', target='p_noise', nth=1, count=3,
         params=_BP, ret='A', opaque=_CNTD),
    # confidence intervals / error bars
    dict(name='ciPropCut', file=_RES, func='get_ci', kind='assign', target='prop_cut', nth=0, count=1,
         params={'ci_percent': 'A'}, ret='A'),
    dict(name='ebCiDefault', file=_RES, func='get_errorbars', kind='assign', target='ci_percent', nth=0, count=2,
         params={}, ret='A'),
    dict(name='ebCiPercent', file=_RES, func='get_errorbars', kind='assign', target='ci_percent', nth=1, count=2,
         params={'pct': 'A'}, ret='A', opaque={'float(eb_type[2:])': 'pct'}),
    dict(name='ebLow', file=_RES, func='get_errorbars', kind='assign', target='errorbar_low', nth=1, count=2,
         params={'means': 'A', 'ci_0': 'A'}, ret='A'),
    dict(name='ebHigh', file=_RES, func='get_errorbars', kind='assign', target='errorbar_high', nth=1, count=2,
         params={'means': 'A', 'ci_1': 'A'}, ret='A'),
    dict(name='utilCiDefault', file=_IU, func='get_errorbars', kind='assign', target='CI_percent', nth=0, count=2,
         params={}, ret='A'),
    dict(name='utilPropCut', file=_IU, func='get_errorbars', kind='assign', target='prop_cut', nth=0, count=1,
         params={'CI_percent': 'A'}, ret='A'),
    dict(name='utilEbLow', file=_IU, func='get_errorbars', kind='assign', target='errorbar_low', nth=2, count=3,
         params={'std_eval': 'A', 'q': 'A'}, ret='A', opaque={'tdist.ppf(prop_cut, dof)': 'q'}),
    dict(name='utilEbHigh', file=_IU, func='get_errorbars', kind='assign', target='errorbar_high', nth=2, count=3,
         params={'std_eval': 'A', 'q': 'A'}, ret='A', opaque={'tdist.ppf(prop_cut, dof)': 'q'}),
]
LEAVES += _derive()
