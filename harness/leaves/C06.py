LEAVES = [
    dict(name='dualBootstrap', file='util/inference_util.py', func='_dual_bootstrap',
         kind='func', params={'variances_0': 'A', 'variances_1': 'A', 'variances_2': 'A',
                              'n_rdm': 'A', 'n_pattern': 'A'},
         none=['n_rdm', 'n_pattern'], ret='A'),
    dict(name='dualBootstrapN', file='util/inference_util.py', func='_dual_bootstrap',
         kind='func', params={'variances_0': 'A', 'variances_1': 'A', 'variances_2': 'A',
                              'n_rdm': 'A', 'n_pattern': 'A'}, ret='A'),
    dict(name='correct1dBoth', file='util/inference_util.py', func='_correct_1d',
         kind='func', params={'variance': 'A', 'n_pattern': 'A', 'n_rdm': 'A'}, ret='A'),
    dict(name='correct1dPattern', file='util/inference_util.py', func='_correct_1d',
         kind='func', params={'variance': 'A', 'n_pattern': 'A', 'n_rdm': 'A'},
         none=['n_rdm'], ret='A'),
    dict(name='correct1dRdm', file='util/inference_util.py', func='_correct_1d',
         kind='func', params={'variance': 'A', 'n_pattern': 'A', 'n_rdm': 'A'},
         none=['n_pattern'], ret='A'),
    dict(name='correct1dNone', file='util/inference_util.py', func='_correct_1d',
         kind='func', params={'variance': 'A', 'n_pattern': 'A', 'n_rdm': 'A'},
         none=['n_pattern', 'n_rdm'], ret='A'),
]

_DB = {'variances_0': 'A', 'variances_1': 'A', 'variances_2': 'A', 'n_rdm': 'A', 'n_pattern': 'A'}
LEAVES += [
    # only one of the two counts passed: the plain formula must still be the one used
    dict(name='dualBootstrapR', file='util/inference_util.py', func='_dual_bootstrap',
         kind='func', params=dict(_DB), none=['n_pattern'], ret='A'),
    dict(name='dualBootstrapP', file='util/inference_util.py', func='_dual_bootstrap',
         kind='func', params=dict(_DB), none=['n_rdm'], ret='A'),
    # bootstrap pair test: two-sided doubling and the (N-1)/N p + 1/N shrinkage
    dict(name='bootTwoSided', file='util/inference_util.py', func='bootstrap_pair_tests',
         kind='assign', target='proportions', nth=1, count=3,
         params={'proportions': 'A'}, ret='A'),
    dict(name='bootShrink', file='util/inference_util.py', func='bootstrap_pair_tests',
         kind='assign', target='proportions', nth=2, count=3,
         params={'proportions': 'A', 'len_evaluations': 'A'}, ret='A'),
    # degrees of freedom of the fixed evaluation
    dict(name='fixedDof', file='inference/evaluate.py', func='eval_fixed',
         kind='assign', target='dof', nth=0, count=2,
         params={'evaluations_shape_m1': 'Int'}, ret='Int'),
]
