LEAVES = [
    dict(name='dualBootstrap', file='util/inference_util.py', func='_dual_bootstrap',
         kind='func', params={'variances_0': 'A', 'variances_1': 'A', 'variances_2': 'A',
                              'n_rdm': 'A', 'n_pattern': 'A'},
         none=['n_rdm', 'n_pattern'], ret='A'),
    dict(name='dualBootstrapN', file='util/inference_util.py', func='_dual_bootstrap',
         kind='func', params={'variances_0': 'A', 'variances_1': 'A', 'variances_2': 'A',
                              'n_rdm': 'A', 'n_pattern': 'A'}, ret='A'),
    dict(name='correct1dBoth', file='util/inference_util.py', func='_correct_1d',
         kind='func', params={'variance': 'A', 'n_pattern': 'A', 'n_rdm': 'A'}, ret='A'),
    dict(name='correct1dPattern', file='util/inference_util.py', func='_correct_1d',
         kind='func', params={'variance': 'A', 'n_pattern': 'A', 'n_rdm': 'A'},
         none=['n_rdm'], ret='A'),
    dict(name='correct1dRdm', file='util/inference_util.py', func='_correct_1d',
         kind='func', params={'variance': 'A', 'n_pattern': 'A', 'n_rdm': 'A'},
         none=['n_pattern'], ret='A'),
    dict(name='correct1dNone', file='util/inference_util.py', func='_correct_1d',
         kind='func', params={'variance': 'A', 'n_pattern': 'A', 'n_rdm': 'A'},
         none=['n_pattern', 'n_rdm'], ret='A'),
]

_DB = {'variances_0': 'A', 'variances_1': 'A', 'variances_2': 'A', 'n_rdm': 'A', 'n_pattern': 'A'}
LEAVES += [
    # only one of the two counts passed: the plain formula must still be the one used
    dict(name='dualBootstrapR', file='util/inference_util.py', func='_dual_bootstrap',
         kind='func', params=dict(_DB), none=['n_pattern'], ret='A'),
    dict(name='dualBootstrapP', file='util/inference_util.py', func='_dual_bootstrap',
         kind='func', params=dict(_DB), none=['n_rdm'], ret='A'),
    # bootstrap pair test: two-sided doubling and the (N-1)/N p + 1/N shrinkage
    dict(name='bootTwoSided', file='util/inference_util.py', func='bootstrap_pair_tests',
         kind='assign', target='proportions', nth=1, count=3,
         params={'proportions': 'A'}, ret='A'),
    dict(name='bootShrink', file='util/inference_util.py', func='bootstrap_pair_tests',
         kind='assign', target='proportions', nth=2, count=3,
         params={'proportions': 'A', 'len_evaluations': 'A'}, ret='A'),
    # degrees of freedom of the fixed evaluation
    dict(name='fixedDof', file='inference/evaluate.py', func='eval_fixed',
         kind='assign', target='dof', nth=0, count=2,
         params={'evaluations_shape_m1': 'Int'}, ret='Int'),
]


# =====================================================================================
# Round 3: more leaves.
#
# Native py2lean leaves (opaque calls for the Student-t CDF / quantile, the square root, the
# counting reductions) and *derived* leaves: for array expressions and call sites outside the
# scalar subset of py2lean this module first derives, from the current source text (Python
# `ast`), a tiny scalar Python function and writes it to `harness/leaves/_C06_derived.py`;
# py2lean then translates that function as usual.  Every derivation fails closed: an
# unexpected shape of the anchor yields a call of `__underivable__`, which py2lean reports as
# an untranslatable leaf (= broken obligation).  Nothing is cached.
#
# Derivations
#   clamp under the square root     t = x / np.sqrt(np.maximum(v, np.finfo(float).eps))
#                                   -> np.maximum(v, eps)     (t_test_0, t_tests, t_test_nc)
#                                   np.sqrt(np.maximum(model_var, 0)) -> np.maximum(model_var, 0)
#                                   (Result.get_sem, util get_errorbars sem branch and std_eval)
#   Result.get_ci                   ci = [a, b] (t branch) -> a, b with tdist.ppf(prop_cut, self.dof) -> q
#   bootstrap pair proportion       proportions[i_model, j_model] = np.sum(<) / (N - np.sum(==))
#                                   -> lt / (n - eq)    (the comparison operators are part of
#                                   the matched text: `<=` instead of `<` is underivable)
#   call sites                      which expression each wrapper passes as the callee's `dof`,
#                                   `variances`, `noise_ceil` parameter (callee default when the
#                                   argument is not passed), for all_tests / pair_tests / zero_tests /
#                                   nc_tests and Result.test_all / test_pairwise / test_zero / test_noise
#   dispatch on test_type           the callee each wrapper reaches per test_type, as a code
# =====================================================================================
import ast
import os

_SRC = os.environ.get('RSA_REPO_SRC', '/repo/src/rsatoolbox')
_HERE = os.path.dirname(os.path.abspath(__file__))
DERIVED = os.path.join(_HERE, '_C06_derived.py')
_IU = 'util/inference_util.py'
_RES = 'inference/result.py'


class Underivable(Exception):
    pass


_TREES = {}


def _tree(path):
    if path not in _TREES:
        _TREES[path] = ast.parse(open(os.path.join(_SRC, path)).read())
    return _TREES[path]


def _func(path, name):
    for node in ast.walk(_tree(path)):
        if isinstance(node, ast.FunctionDef) and node.name == name:
            return node
    raise Underivable(f'{path}: function {name} not found')


def _assigns(fn, target):
    hits = [n for n in ast.walk(fn) if isinstance(n, ast.Assign) and len(n.targets) == 1
            and ast.unparse(n.targets[0]) == target]
    hits.sort(key=lambda n: n.lineno)
    return hits


def _the_assign(fn, target, nth, count):
    hits = _assigns(fn, target)
    if len(hits) != count:
        raise Underivable(f'expected {count} assignments to {target} in {fn.name}, found {len(hits)}')
    return hits[nth].value


class _Subst(ast.NodeTransformer):
    def __init__(self, subs):
        self.subs, self.used = subs, set()

    def visit(self, node):
        if isinstance(node, ast.expr):
            t = ast.unparse(node)
            if t in self.subs:
                self.used.add(t)
                v = self.subs[t]
                return ast.Constant(value=v) if isinstance(v, int) else ast.Name(id=v, ctx=ast.Load())
        return self.generic_visit(node)


def _substituted(expr, subs, optional=()):
    tr = _Subst(subs)
    new = tr.visit(ast.parse(ast.unparse(expr), mode='eval').body)
    missing = [k for k in subs if k not in tr.used and k not in optional]
    if missing:
        raise Underivable(f'sub-expression(s) {missing} not found in `{ast.unparse(expr)}`')
    return ast.unparse(ast.fix_missing_locations(new))


def _sqrt_arg(expr):
    """the argument of the single np.sqrt(...) call inside `expr`"""
    calls = [n for n in ast.walk(expr) if isinstance(n, ast.Call) and ast.unparse(n.func) == 'np.sqrt']
    if len(calls) != 1 or len(calls[0].args) != 1:
        raise Underivable(f'expected one np.sqrt(.) in `{ast.unparse(expr)}`')
    return calls[0].args[0]


_EPS = 'np.finfo(float).eps'


def _ret(fn):
    rets = [n for n in fn.body if isinstance(n, ast.Return)]
    if len(rets) != 1:
        raise Underivable(f'expected one top-level return in {fn.name}')
    return rets[0].value


def _if_branch(fn, test_type):
    """body of the `if/elif test_type == '<test_type>'` branch of a wrapper"""
    def walk(node):
        if not isinstance(node, ast.If):
            return None
        t = node.test
        if isinstance(t, ast.Compare) and ast.unparse(t.left) == 'test_type' and len(t.ops) == 1 \
                and isinstance(t.ops[0], ast.Eq) and isinstance(t.comparators[0], ast.Constant) \
                and t.comparators[0].value == test_type:
            return node.body
        if len(node.orelse) == 1:
            return walk(node.orelse[0])
        return None
    for node in fn.body:
        b = walk(node)
        if b is not None:
            return b
    raise Underivable(f"{fn.name}: no branch test_type == '{test_type}'")


def _call_in(stmts, target):
    """the call assigned to `target` (possibly as one element of a tuple) within `stmts`"""
    for s in stmts:
        for n in ast.walk(s):
            if isinstance(n, ast.Assign) and len(n.targets) == 1 and ast.unparse(n.targets[0]) == target:
                return n.value
    raise Underivable(f'no assignment to {target}')


def _bound(call, callee_path, callee, param):
    """source text of the expression bound to `param` of `callee` at `call` (its default when
    the argument is not passed)"""
    if not (isinstance(call, ast.Call) and ast.unparse(call.func) == callee):
        raise Underivable(f'`{ast.unparse(call)}` is not a call of {callee}')
    fn = _func(callee_path, callee)
    names = [a.arg for a in fn.args.args]
    defaults = dict(zip(names[len(names) - len(fn.args.defaults):], fn.args.defaults))
    if any(isinstance(a, ast.Starred) for a in call.args) or any(k.arg is None for k in call.keywords):
        raise Underivable('star arguments')
    got = dict(zip(names, call.args))
    for k in call.keywords:
        got[k.arg] = k.value
    if param in got:
        return got[param]
    if param in defaults:
        return defaults[param]
    raise Underivable(f'{callee}: parameter {param} neither passed nor defaulted')


def _ret_call(fn):
    """the single call a Result accessor returns / unpacks"""
    calls = [n for n in ast.walk(fn) if isinstance(n, ast.Call)
             and ast.unparse(n.func) in ('all_tests', 'pair_tests', 'zero_tests', 'nc_tests')]
    if len(calls) != 1:
        raise Underivable(f'{fn.name}: expected exactly one wrapper call')
    return calls[0]


_CALLEE_CODE = {'t_tests': 10, 't_test_0': 11, 't_test_nc': 12, 'bootstrap_pair_tests': 20,
                'np.minimum': 21, 'ranksum_pair_test': 30, 'ranksum_value_test': 31}
_TT = ['t-test', 'bootstrap', 'ranksum']


def _derive():
    out = ['# DERIVED by harness/leaves/C06.py from the source tree under check - do not edit', '']
    specs = []

    def emit(lean_name, params, body_fn, ret='A'):
        pyname = 'd_' + lean_name
        try:
            body = body_fn()
        except Exception as exc:  # noqa: BLE001  (fail closed)
            body = '__underivable__(' + repr(str(exc)) + ')'
        out.append(f'def {pyname}({", ".join(params)}):')
        out.append(f'    return {body}')
        out.append('')
        specs.append(dict(name=lean_name, file=DERIVED, func=pyname, kind='func',
                          params=dict(params), ret=ret))

    A = 'A'
    # ---- clamps under the square roots
    emit('tClampZero', {'variances': A, 'eps': A}, lambda: _substituted(
        _sqrt_arg(_the_assign(_func(_IU, 't_test_0'), 't', 0, 1)), {_EPS: 'eps'}))
    emit('tClampPair', {'variances': A, 'eps': A}, lambda: _substituted(
        _sqrt_arg(_the_assign(_func(_IU, 't_tests'), 't', 0, 2)), {_EPS: 'eps'}))
    emit('tClampNc', {'variances_i': A, 'eps': A}, lambda: _substituted(
        _sqrt_arg(_the_assign(_func(_IU, 't_test_nc'), 't', 0, 1)),
        {_EPS: 'eps', 'variances[i]': 'variances_i'}))
    emit('semClamp', {'model_var': A}, lambda: _substituted(
        _sqrt_arg(_ret([n for n in [_func(_RES, 'get_sem')]][0])), {'self.model_var': 'model_var'}))
    emit('utilSemClampLow', {'model_var': A}, lambda: ast.unparse(
        _sqrt_arg(_the_assign(_func(_IU, 'get_errorbars'), 'errorbar_low', 0, 3))))
    emit('utilSemClampHigh', {'model_var': A}, lambda: ast.unparse(
        _sqrt_arg(_the_assign(_func(_IU, 'get_errorbars'), 'errorbar_high', 0, 3))))
    emit('utilStdClamp', {'model_var': A}, lambda: ast.unparse(
        _sqrt_arg(_the_assign(_func(_IU, 'get_errorbars'), 'std_eval', 0, 1))))

    # ---- Result.get_ci, t branch: ci = [low, high]
    def ci_elt(k):
        v = _the_assign(_func(_RES, 'get_ci'), 'ci', 1, 2)
        if not (isinstance(v, ast.List) and len(v.elts) == 2):
            raise Underivable('get_ci: the t branch does not build a two-element list')
        return _substituted(v.elts[k], {'tdist.ppf(prop_cut, self.dof)': 'q'})
    emit('ciLow', {'means': A, 'std_eval': A, 'q': A}, lambda: ci_elt(0))
    emit('ciHigh', {'means': A, 'std_eval': A, 'q': A}, lambda: ci_elt(1))

    # ---- bootstrap pair proportion
    def boot_prop():
        fn = _func(_IU, 'bootstrap_pair_tests')
        v = _the_assign(fn, 'proportions[i_model, j_model]', 0, 1)
        return _substituted(v, {
            'np.sum(evaluations[:, i_model] < evaluations[:, j_model])': 'lt',
            'np.sum(evaluations[:, i_model] == evaluations[:, j_model])': 'eq',
            'evaluations.shape[0]': 'n'})
    emit('bootProp', {'lt': A, 'eq': A, 'n': A}, boot_prop)

    # ---- call sites: what is passed as dof / variances / noise_ceil
    # codes: 0 model_var, 1 diff_var, 2 noise_ceil_var[:, 0] (lower), 3 noise_ceil_var[:, 1] (upper),
    # 4 the whole noise_ceil_var; ceiling value: 0 mean lower bound, 1 mean upper bound
    var_subs = {'model_var': 0, 'diff_var': 1, 'noise_ceil_var[:, 0]': 2,
                'noise_ceil_var[:, 1]': 3, 'noise_ceil_var': 4}
    VP = {}
    nc_subs = {'np.nanmean(noise_ceil[0])': 0, 'np.nanmean(noise_ceil[1])': 1}

    def code_only(text):
        if not text.strip().isdigit():
            raise Underivable(f'`{text}` is not one of the expected expressions')
        return text
    for wrapper, fam, target, callee in (
            ('all_tests', 'Pair', 'p_pairwise', 't_tests'), ('all_tests', 'Zero', 'p_zero', 't_test_0'),
            ('all_tests', 'Nc', 'p_noise', 't_test_nc'), ('pair_tests', 'Pair', 'p_pairwise', 't_tests'),
            ('zero_tests', 'Zero', 'p_zero', 't_test_0'), ('nc_tests', 'Nc', 'p_noise', 't_test_nc')):
        short = {'all_tests': 'all', 'pair_tests': 'single', 'zero_tests': 'single', 'nc_tests': 'single'}[wrapper]

        def site(wrapper=wrapper, target=target):
            return _call_in(_if_branch(_func(_IU, wrapper), 't-test'), target)
        emit(f'{short}{fam}Dof', {'dof': 'Int'}, lambda site=site, callee=callee: _substituted(
            _bound(site(), _IU, callee, 'dof'), {}, ()), ret='Int')
        emit(f'{short}{fam}Var', VP, lambda site=site, callee=callee: code_only(_substituted(
            _bound(site(), _IU, callee, 'variances'), var_subs, optional=var_subs)), ret='Nat')
        if fam == 'Nc':
            emit(f'{short}NcCeil', {},
                 lambda site=site, callee=callee: code_only(_substituted(
                     _bound(site(), _IU, callee, 'noise_ceil'), nc_subs, optional=nc_subs)), ret='Nat')
    for meth, wrapper, fam in (('test_all', 'all_tests', 'All'), ('test_pairwise', 'pair_tests', 'Pair'),
                               ('test_zero', 'zero_tests', 'Zero'), ('test_noise', 'nc_tests', 'Nc')):
        def rsite(meth=meth):
            return _ret_call(_func(_RES, meth))
        emit(f'result{fam}Dof', {'self_dof': 'Int'}, lambda rsite=rsite, wrapper=wrapper: _substituted(
            _bound(rsite(), _IU, wrapper, 'dof'), {'self.dof': 'self_dof'}, optional=('self.dof',)), ret='Int')
    rv = {'self.model_var': 0, 'self.diff_var': 1, 'self.noise_ceil_var': 4}
    RP = {}
    for meth, wrapper, param, nm in (('test_all', 'all_tests', 'model_var', 'resultAllModelVar'),
                                     ('test_all', 'all_tests', 'diff_var', 'resultAllDiffVar'),
                                     ('test_all', 'all_tests', 'noise_ceil_var', 'resultAllNcVar'),
                                     ('test_pairwise', 'pair_tests', 'diff_var', 'resultPairVar'),
                                     ('test_zero', 'zero_tests', 'model_var', 'resultZeroVar'),
                                     ('test_noise', 'nc_tests', 'noise_ceil_var', 'resultNcVar')):
        emit(nm, RP, lambda meth=meth, wrapper=wrapper, param=param: code_only(_substituted(
            _bound(_ret_call(_func(_RES, meth)), _IU, wrapper, param), rv, optional=rv)), ret='Nat')

    # ---- dispatch on test_type: code of the callee per (wrapper, family, test_type)
    def dispatch(wrapper, target):
        fn = _func(_IU, wrapper)
        parts = []
        for k, tt in enumerate(_TT):
            v = _call_in(_if_branch(fn, tt), target)
            if not isinstance(v, ast.Call):
                raise Underivable(f'{wrapper}/{tt}: {target} is not assigned a call')
            name = ast.unparse(v.func)
            if name not in _CALLEE_CODE:
                raise Underivable(f'{wrapper}/{tt}: unexpected callee {name}')
            parts.append((k, _CALLEE_CODE[name]))
        # a final else must raise (unknown test types are rejected)
        return ' if tt == 0 else '.join([str(parts[0][1]), f'({parts[1][1]} if tt == 1 else ({parts[2][1]} if tt == 2 else 0))'])
    for wrapper, short, fam, target in (('all_tests', 'all', 'Pair', 'p_pairwise'), ('all_tests', 'all', 'Zero', 'p_zero'),
                                        ('all_tests', 'all', 'Nc', 'p_noise'), ('pair_tests', 'single', 'Pair', 'p_pairwise'),
                                        ('zero_tests', 'single', 'Zero', 'p_zero'), ('nc_tests', 'single', 'Nc', 'p_noise')):
        emit(f'{short}{fam}Dispatch', {'tt': 'Nat'}, lambda wrapper=wrapper, target=target: dispatch(wrapper, target),
             ret='Nat')

    _derive_r4(emit)

    text = '\n'.join(out)
    if not (os.path.exists(DERIVED) and open(DERIVED).read() == text):
        with open(DERIVED + '.tmp', 'w') as f:
            f.write(text)
        os.replace(DERIVED + '.tmp', DERIVED)
    return specs


# =====================================================================================
# Round 4: state that survives a call.
#
# Sessions (one Result queried repeatedly, engines/C06.py op 'session') rely on two facts about the
# anchored code; both are read off the current source text every run and are proof obligations
# (`Rsa.Props.C06.input_write_leaves`, `no_hidden_state_leaves`):
#
#   *InputWrites   number of statements that store IN PLACE into an array that may alias the caller's
#                  data (`x -= ..`, `x[..] = ..`, `out=x`, `x.sort()`, `np.fill_diagonal(x, ..)`, a
#                  helper that does so with an alias it is handed, `self.attr = ..` outside
#                  `__init__`): a syntactic may-alias analysis (rebinding by a numpy reduction /
#                  arithmetic makes a name fresh; views, `np.asarray`, slices, `_per_sample` keep it
#                  an alias; both arms of an `if` and zero iterations of a loop are joined).
#                  testInputWrites      all_tests pair_tests zero_tests nc_tests t_tests t_test_0
#                                       t_test_nc bootstrap_pair_tests ranksum_* _per_sample
#                  extractInputWrites   extract_variances _correct_1d _dual_bootstrap
#                  errorbarInputWrites  util get_errorbars
#                  resultInputWrites    every Result accessor (root `self`; follows the wrappers it
#                                       calls), Result.__init__ (roots: its array arguments),
#                                       to_dict, result_from_dict (root: the dict)
#   moduleStateCells   places where a value could survive a call outside the arguments: decorators
#                  (lru_cache …), `global` / `nonlocal`, module-level statements other than imports /
#                  defs / the TYPE_CHECKING block, class-level assignments, mutable default arguments,
#                  attribute stores on function objects — in util/inference_util.py,
#                  inference/result.py and in every rsatoolbox module a function of the anchored set
#                  imports a callee from (util/matrix.py, util/rdm_utils.py); a callee that cannot be
#                  resolved to a plain module-level function is underivable
#   resultExtraAttrs   attributes of `self` stored or read anywhere in class Result that are not the
#                  documented fields / methods (a per-object cache needs one)
# Everything fails closed (`__underivable__`).
# =====================================================================================

_VIEW_FUNCS = {'np.asarray', 'np.asanyarray', 'np.ascontiguousarray', 'np.asfortranarray', 'np.atleast_1d',
               'np.atleast_2d', 'np.atleast_3d', 'np.ravel', 'np.reshape', 'np.squeeze', 'np.transpose',
               'np.swapaxes', 'np.moveaxis', 'np.expand_dims', 'np.broadcast_to', 'np.nan_to_num', 'np.real',
               'np.diagonal', 'np.diag', 'np.triu', 'np.tril', 'np.require', 'np.array', 'numpy.asarray',
               'numpy.array', 'np.einsum', 'np.rollaxis', 'np.flip', 'np.broadcast_arrays',
               'enumerate', 'zip', 'reversed', 'iter', 'next'}
_COPY_METHODS = {'copy', 'flatten', 'tolist', 'mean', 'sum', 'std', 'var', 'min', 'max', 'any', 'all', 'dot',
                 'item', 'argsort', 'nonzero', 'lower', 'upper', 'keys', 'astype_copy', 'to_dict'}
_MUT_METHODS = {'sort', 'fill', 'put', 'itemset', 'partition', 'resize', 'setfield', 'setflags', 'byteswap',
                '__setitem__', '__iadd__', '__isub__', '__imul__', '__itruediv__', 'append', 'update', 'pop',
                'clear', 'extend', 'insert', 'remove', 'setdefault', '__setattr__', 'popitem'}
_MUT_FUNCS = {'np.copyto', 'np.put', 'np.place', 'np.putmask', 'np.fill_diagonal', 'np.put_along_axis',
              'setattr', 'delattr', 'np.random.shuffle'}


class _Writes:
    """count in-place writes into objects that may alias the `roots` of a function of the anchored set.
    Functions: module-level functions of util/inference_util.py and inference/result.py by bare name,
    methods of class Result as `self.<name>`."""

    def __init__(self):
        self.funcs = {}
        for path in (_IU, _RES):
            for n in _tree(path).body:
                if isinstance(n, ast.FunctionDef):
                    self.funcs[n.name] = n
                elif isinstance(n, ast.ClassDef) and n.name == 'Result':
                    for mth in n.body:
                        if isinstance(mth, ast.FunctionDef):
                            self.funcs['self.' + mth.name] = mth
        self.stack = []

    def callee(self, f, env):
        """key in self.funcs of a call target that is followed, else None"""
        if isinstance(f, ast.Name) and f.id in self.funcs:
            return f.id
        if isinstance(f, ast.Attribute) and isinstance(f.value, ast.Name) and f.value.id == 'self' \
                and 'self.' + f.attr in self.funcs:
            return 'self.' + f.attr
        return None

    def roots_of(self, key, node, env):
        fn = self.funcs[key]
        params = [a.arg for a in fn.args.args]
        roots = []
        if key.startswith('self.'):
            if 'self' in env:
                roots.append('self')
            params = params[1:]
        roots += [params[i] for i, a in enumerate(node.args) if i < len(params) and self.alias(a, env)]
        roots += [k.arg for k in node.keywords if k.arg and self.alias(k.value, env)]
        if any(isinstance(a, ast.Starred) for a in node.args) or any(k.arg is None for k in node.keywords):
            raise Underivable('star arguments')
        return roots

    def run(self, key, roots):
        if key not in self.funcs:
            raise Underivable(f'function {key} not found')
        if key in self.stack or len(self.stack) > 8:
            raise Underivable(f'recursion through {key}')
        self.stack.append(key)
        env = set(roots)
        writes, ret = self.block(self.funcs[key].body, env)
        self.stack.pop()
        return writes, ret

    def alias(self, e, env):
        if isinstance(e, ast.Name):
            return e.id in env
        if isinstance(e, (ast.Attribute, ast.Subscript, ast.Starred)):
            return self.alias(e.value, env)
        if isinstance(e, ast.IfExp):
            return self.alias(e.body, env) or self.alias(e.orelse, env)
        if isinstance(e, ast.BoolOp):
            return any(self.alias(v, env) for v in e.values)
        if isinstance(e, (ast.Tuple, ast.List)):
            return any(self.alias(v, env) for v in e.elts)
        if isinstance(e, ast.Dict):
            return any(v is not None and self.alias(v, env) for v in e.values)
        if isinstance(e, ast.NamedExpr):
            return self.alias(e.value, env)
        if isinstance(e, ast.Call):
            f = e.func
            name = ast.unparse(f)
            args = list(e.args) + [k.value for k in e.keywords]
            key = self.callee(f, env)
            if key is not None:
                roots = self.roots_of(key, e, env)
                return self.run(key, roots)[1] if roots else False
            if isinstance(f, ast.Attribute) and self.alias(f.value, env):
                return f.attr not in _COPY_METHODS   # any other method of an alias may return a view
            if name in _VIEW_FUNCS:
                if name in ('np.array', 'numpy.array') and not any(
                        k.arg == 'copy' and ast.unparse(k.value) != 'True' for k in e.keywords):
                    return False                # np.array copies by default
                return any(self.alias(a, env) for a in args)
            return False                        # numpy reductions / arithmetic helpers / constructors: new objects
        return False                            # arithmetic, comparisons, comprehensions, constants: new objects

    def scan(self, e, env):
        """writes caused by evaluating an expression"""
        w = 0
        env = set(env)
        for node in ast.walk(e):
            if isinstance(node, (ast.ListComp, ast.SetComp, ast.GeneratorExp, ast.DictComp)):
                for g in node.generators:
                    if self.alias(g.iter, env):
                        env |= {n.id for n in ast.walk(g.target) if isinstance(n, ast.Name)}
        for node in ast.walk(e):
            if not isinstance(node, ast.Call):
                continue
            f = node.func
            name = ast.unparse(f)
            for k in node.keywords:
                if k.arg == 'out' and self.alias(k.value, env):
                    w += 1
                if k.arg == 'copy' and ast.unparse(k.value) == 'False' and name not in _VIEW_FUNCS \
                        and not (isinstance(f, ast.Attribute) and f.attr == 'astype') \
                        and any(self.alias(a, env) for a in node.args):
                    w += 1
            if name in _MUT_FUNCS and node.args and self.alias(node.args[0], env):
                w += 1
            if isinstance(f, ast.Attribute) and f.attr in _MUT_METHODS and self.alias(f.value, env):
                w += 1
            key = self.callee(f, env)
            if key is not None:
                roots = self.roots_of(key, node, env)
                if roots:
                    w += self.run(key, roots)[0]
        return w

    def bind(self, target, is_alias, env):
        w = 0
        if isinstance(target, ast.Name):
            (env.add if is_alias else env.discard)(target.id)
        elif isinstance(target, (ast.Tuple, ast.List)):
            for t in target.elts:
                w += self.bind(t, is_alias, env)
        elif isinstance(target, (ast.Subscript, ast.Attribute, ast.Starred)):
            if self.alias(target.value, env):
                w += 1                          # x[...] = ..., x.attr = ... on the caller's data
        return w

    def block(self, body, env):
        w, ret = 0, False
        for st in body:
            if isinstance(st, ast.Assign):
                w += self.scan(st.value, env)
                a = self.alias(st.value, env)
                for t in st.targets:
                    w += self.bind(t, a, env)
            elif isinstance(st, ast.AnnAssign):
                if st.value is not None:
                    w += self.scan(st.value, env)
                    w += self.bind(st.target, self.alias(st.value, env), env)
            elif isinstance(st, ast.AugAssign):
                w += self.scan(st.value, env)
                t = st.target
                if self.alias(t if isinstance(t, ast.Name) else t.value, env):
                    w += 1                      # x -= ..., x[...] /= ... on the caller's data
            elif isinstance(st, ast.Return):
                if st.value is not None:
                    w += self.scan(st.value, env)
                    ret = ret or self.alias(st.value, env)
            elif isinstance(st, (ast.Expr, ast.Assert, ast.Raise)):
                for e in ast.iter_child_nodes(st):
                    if isinstance(e, ast.expr):
                        w += self.scan(e, env)
            elif isinstance(st, ast.If):
                w += self.scan(st.test, env)
                e1, e2 = set(env), set(env)
                w1, r1 = self.block(st.body, e1)
                w2, r2 = self.block(st.orelse, e2)
                env.clear()
                env |= e1 | e2
                w, ret = w + w1 + w2, ret or r1 or r2
            elif isinstance(st, (ast.For, ast.While)):
                before = set(env)
                if isinstance(st, ast.For):
                    w += self.scan(st.iter, env)
                    self.bind(st.target, self.alias(st.iter, env), env)
                else:
                    w += self.scan(st.test, env)
                self.block(st.body, env)                     # first pass: which names become aliases
                env |= before                                # the loop may run zero times
                w1, r1 = self.block(st.body, env)            # second pass counts with the loop-carried aliases
                env |= before
                w2, r2 = self.block(st.orelse, env)
                w, ret = w + w1 + w2, ret or r1 or r2
            elif isinstance(st, (ast.With, ast.Try)):
                inner = list(st.body) + [x for h in getattr(st, 'handlers', []) for x in h.body] \
                    + list(getattr(st, 'orelse', [])) + list(getattr(st, 'finalbody', []))
                for item in getattr(st, 'items', []):
                    w += self.scan(item.context_expr, env)
                before = set(env)
                w1, r1 = self.block(inner, env)
                env |= before                                # an exception may skip any rebinding
                w, ret = w + w1, ret or r1
            elif isinstance(st, (ast.Pass, ast.Import, ast.ImportFrom, ast.Break, ast.Continue)):
                pass
            elif isinstance(st, (ast.Global, ast.Nonlocal)):
                w += 1                                       # a name that outlives the call is written
            elif isinstance(st, ast.Delete):
                w += sum(1 for t in st.targets if not isinstance(t, ast.Name) and self.alias(t.value, env))
            else:
                raise Underivable(f'statement {type(st).__name__} not understood')
        return w, ret


_TEST_FUNCS = ['all_tests', 'pair_tests', 'zero_tests', 'nc_tests', 't_tests', 't_test_0', 't_test_nc',
               'bootstrap_pair_tests', 'ranksum_pair_test', 'ranksum_value_test', '_per_sample']
_EXTRACT_FUNCS = ['extract_variances', '_correct_1d', '_dual_bootstrap']
_RESULT_METHODS = ['test_all', 'test_pairwise', 'test_zero', 'test_noise', 'get_means', 'get_sem', 'get_ci',
                   'get_errorbars', 'get_model_var', 'get_noise_ceil', 'to_dict', 'summary']
_RESULT_FIELDS = ['models', 'n_model', 'evaluations', 'method', 'cv_method', 'noise_ceiling', 'variances', 'dof',
                  'fitter', 'n_bootstraps', 'n_rdm', 'n_pattern', 'model_var', 'diff_var', 'noise_ceil_var']


def _all_params(fn):
    a = fn.args
    if a.vararg or a.kwarg:
        raise Underivable(f'{fn.name}: *args / **kwargs')
    return [x.arg for x in a.posonlyargs + a.args + a.kwonlyargs]


def _writes_of(keys, self_root=False):
    a = _Writes()
    total = 0
    for k in keys:
        if k not in a.funcs:
            raise Underivable(f'function {k} not found')
        params = _all_params(a.funcs[k])
        roots = ['self'] if self_root else [p for p in params if p != 'self']
        total += a.run(k, roots)[0]
    return str(total)


def _result_writes():
    total = int(_writes_of(['self.' + m for m in _RESULT_METHODS], self_root=True))
    total += int(_writes_of(['self.__init__']))         # roots: the arguments (not the new object)
    total += int(_writes_of(['result_from_dict']))
    return str(total)


_STATELESS_DECOS = {'staticmethod', 'classmethod', 'property'}


def _module_cells(path, anchored_only=None):
    """places of one module where a value could survive a call"""
    tree = _tree(path)
    cells = 0
    for k, st in enumerate(tree.body):
        if isinstance(st, (ast.Import, ast.ImportFrom, ast.FunctionDef, ast.ClassDef)):
            continue
        if isinstance(st, ast.Expr) and isinstance(st.value, ast.Constant) and isinstance(st.value.value, str):
            continue                                        # docstring / stray string
        if isinstance(st, ast.If) and ast.unparse(st.test) in ('TYPE_CHECKING', 'typing.TYPE_CHECKING') \
                and not st.orelse and all(isinstance(x, (ast.Import, ast.ImportFrom)) for x in st.body):
            continue
        cells += 1                                          # a module-level statement that creates state
    fnames = {n.name for n in tree.body if isinstance(n, ast.FunctionDef)}
    for node in ast.walk(tree):
        if isinstance(node, (ast.FunctionDef, ast.AsyncFunctionDef, ast.ClassDef)):
            cells += sum(1 for d in node.decorator_list if ast.unparse(d) not in _STATELESS_DECOS)
        if isinstance(node, (ast.FunctionDef, ast.AsyncFunctionDef, ast.Lambda)):
            for d in list(node.args.defaults) + [x for x in node.args.kw_defaults if x is not None]:
                if not isinstance(d, (ast.Constant, ast.Name, ast.Attribute, ast.UnaryOp, ast.Tuple)):
                    cells += 1                              # mutable / computed default argument
        if isinstance(node, (ast.Global, ast.Nonlocal)):
            cells += 1
        if isinstance(node, ast.ClassDef):
            for st in node.body:
                if isinstance(st, ast.FunctionDef):
                    continue
                if isinstance(st, ast.Expr) and isinstance(st.value, ast.Constant):
                    continue
                cells += 1                                  # class-level attribute: shared by all objects
        if isinstance(node, (ast.Assign, ast.AugAssign, ast.AnnAssign)):
            targets = node.targets if isinstance(node, ast.Assign) else [node.target]
            for t in targets:
                base = t
                while isinstance(base, (ast.Attribute, ast.Subscript)):
                    base = base.value
                if isinstance(t, (ast.Attribute, ast.Subscript)) and isinstance(base, ast.Name) \
                        and base.id in fnames:
                    cells += 1                              # store on a function object
    return cells


_BUILTIN_CALLS = {'len', 'range', 'enumerate', 'float', 'int', 'str', 'max', 'min', 'abs', 'isinstance', 'list',
                  'tuple', 'zip', 'sum', 'bool', 'ValueError', 'TypeError', 'AssertionError', 'print', 'sorted',
                  'any', 'all', 'round', 'dict', 'set', 'repr', 'type', 'getattr', 'hasattr', 'reversed', 'map'}


def _module_state_cells():
    """util/inference_util.py and inference/result.py, plus every rsatoolbox module a function of the
    anchored set takes a callee from"""
    cells = _module_cells(_IU) + _module_cells(_RES)
    ext_modules = set()
    for path, keys in ((_IU, _TEST_FUNCS + _EXTRACT_FUNCS + ['get_errorbars']), (_RES, None)):
        tree = _tree(path)
        imported = {}
        for st in ast.walk(tree):
            if isinstance(st, ast.ImportFrom):
                for al in st.names:
                    imported[al.asname or al.name] = (st.level, st.module or '', al.name)
        own = {n.name for n in tree.body if isinstance(n, (ast.FunctionDef, ast.ClassDef))}
        if keys is None:
            fns = [n for n in tree.body if isinstance(n, ast.FunctionDef) and n.name == 'result_from_dict']
            fns += [m for n in tree.body if isinstance(n, ast.ClassDef) and n.name == 'Result'
                    for m in n.body if isinstance(m, ast.FunctionDef)
                    and m.name in _RESULT_METHODS + ['__init__']]
        else:
            fns = [_func(path, k) for k in keys]
        for fn in fns:
            local = set(_all_params(fn)) | {n.id for n in ast.walk(fn) if isinstance(n, ast.Name)
                                            and isinstance(n.ctx, ast.Store)}
            for node in ast.walk(fn):
                if not (isinstance(node, ast.Call) and isinstance(node.func, ast.Name)):
                    continue
                nm = node.func.id
                if nm in _BUILTIN_CALLS or nm in own or nm in local:
                    continue
                if nm not in imported:
                    raise Underivable(f'{fn.name}: callee {nm} is neither local, imported nor a builtin')
                level, module, orig = imported[nm]
                inside = level > 0 or module.split('.')[0] == 'rsatoolbox'
                if not inside:
                    continue                                # scipy / numpy: trusted libraries
                if level > 0:
                    base = os.path.dirname(path)
                    for _ in range(level - 1):
                        base = os.path.dirname(base)
                    mod_path = os.path.join(base, *module.split('.')) + '.py' if module else None
                else:
                    mod_path = os.path.join(*module.split('.')[1:]) + '.py'
                if mod_path is None or not os.path.exists(os.path.join(_SRC, mod_path)):
                    raise Underivable(f'{fn.name}: callee {nm} comes from {module!r}, not a plain module')
                target = [n for n in _tree(mod_path).body if isinstance(n, ast.FunctionDef) and n.name == orig]
                if len(target) != 1:
                    raise Underivable(f'{fn.name}: callee {nm} is not a plain function of {mod_path}')
                ext_modules.add(mod_path)
    for mod_path in sorted(ext_modules - {_IU, _RES}):
        cells += _module_cells(mod_path)
    return str(cells)


def _result_extra_attrs():
    cls = [n for n in _tree(_RES).body if isinstance(n, ast.ClassDef) and n.name == 'Result']
    if len(cls) != 1:
        raise Underivable('class Result not found')
    methods = {m.name for m in cls[0].body if isinstance(m, ast.FunctionDef)}
    extra = set()
    for node in ast.walk(cls[0]):
        if isinstance(node, ast.Attribute) and isinstance(node.value, ast.Name) and node.value.id == 'self':
            if node.attr not in _RESULT_FIELDS and node.attr not in methods:
                extra.add(node.attr)
        if isinstance(node, ast.Call) and ast.unparse(node.func) in ('setattr', 'getattr', 'vars', 'object.__setattr__'):
            extra.add('dynamic:' + ast.unparse(node.func))
        if isinstance(node, ast.Attribute) and node.attr == '__dict__':
            extra.add('dynamic:__dict__')
    # result_from_dict restores exactly the three derived variances on the new object
    rfd = _func(_RES, 'result_from_dict')
    for node in ast.walk(rfd):
        if isinstance(node, ast.Attribute) and isinstance(node.ctx, ast.Store) \
                and node.attr not in ('model_var', 'diff_var', 'noise_ceil_var'):
            extra.add('result_from_dict:' + node.attr)
    return str(len(extra))


def _derive_r4(emit):
    emit('testInputWrites', {}, lambda: _writes_of(_TEST_FUNCS), ret='Nat')
    emit('extractInputWrites', {}, lambda: _writes_of(_EXTRACT_FUNCS), ret='Nat')
    emit('errorbarInputWrites', {}, lambda: _writes_of(['get_errorbars']), ret='Nat')
    emit('resultInputWrites', {}, _result_writes, ret='Nat')
    emit('moduleStateCells', {}, _module_state_cells, ret='Nat')
    emit('resultExtraAttrs', {}, _result_extra_attrs, ret='Nat')


_CDF_ABS = {'stats.t.cdf(np.abs(t), dof)': 'cdf_abs_t'}
_SQ = 'np.sqrt(np.maximum(variances, np.finfo(float).eps))'
_CNT0 = {'(evaluations <= 0).sum(axis=0)': 'count'}
_CNTD = {'(diffs <= 0).sum(axis=0)': 'count'}
_BP = {'count': 'A', 'evaluations_shape_0': 'A'}
LEAVES += [
    # one- and two-sided p-value formulas around the (opaque) Student-t CDF
    dict(name='pOneSided', file=_IU, func='t_test_0', kind='assign', target='p', nth=0, count=1,
         params={'cdf_t': 'A'}, ret='A', opaque={'stats.t.cdf(t, dof)': 'cdf_t'}),
    dict(name='pTwoSidedPair', file=_IU, func='t_tests', kind='assign', target='p', nth=0, count=1,
         params={'cdf_abs_t': 'A'}, ret='A', opaque=_CDF_ABS),
    dict(name='pTwoSidedNc', file=_IU, func='t_test_nc', kind='assign', target='p_i', nth=0, count=1,
         params={'cdf_abs_t': 'A'}, ret='A', opaque=_CDF_ABS),
    # t statistics: quotient by the (opaque) square root of the clamped variance
    dict(name='tQuotZero', file=_IU, func='t_test_0', kind='assign', target='t', nth=0, count=1,
         params={'evaluations': 'A', 'sqrt_clamped': 'A'}, ret='A', opaque={_SQ: 'sqrt_clamped'}),
    dict(name='tQuotPair', file=_IU, func='t_tests', kind='assign', target='t', nth=0, count=2,
         params={'diffs': 'A', 'sqrt_clamped': 'A'}, ret='A', opaque={_SQ: 'sqrt_clamped'}),
    dict(name='tQuotNc', file=_IU, func='t_test_nc', kind='assign', target='t', nth=0, count=1,
         params={'eval_i': 'A', 'noise_ceil': 'A', 'sqrt_clamped': 'A'}, ret='A',
         opaque={'np.sqrt(np.maximum(variances[i], np.finfo(float).eps))': 'sqrt_clamped'}),
    # one-sided bootstrap p-values: (count + 1) / N capped at 1, in all four places
    dict(name='bootZeroAll', file=_IU, func='all_tests', kind='assign', target='p_zero', nth=1, count=3,
         params=_BP, ret='A', opaque=_CNT0),
    dict(name='bootNcAll', file=_IU, func='all_tests', kind='assign', target='p_noise', nth=1, count=3,
         params=_BP, ret='A', opaque=_CNTD),
    dict(name='bootZeroSingle', file=_IU, func='zero_tests', kind='assign', target='p_zero', nth=1, count=3,
         params=_BP, ret='A', opaque=_CNT0),
    dict(name='bootNcSingle', file=_IU, func='nc_tests', kind='assign', target='p_noise', nth=1, count=3,
         params=_BP, ret='A', opaque=_CNTD),
    # confidence intervals / error bars
    dict(name='ciPropCut', file=_RES, func='get_ci', kind='assign', target='prop_cut', nth=0, count=1,
         params={'ci_percent': 'A'}, ret='A'),
    dict(name='ebCiDefault', file=_RES, func='get_errorbars', kind='assign', target='ci_percent', nth=0, count=2,
         params={}, ret='A'),
    dict(name='ebCiPercent', file=_RES, func='get_errorbars', kind='assign', target='ci_percent', nth=1, count=2,
         params={'pct': 'A'}, ret='A', opaque={'float(eb_type[2:])': 'pct'}),
    dict(name='ebLow', file=_RES, func='get_errorbars', kind='assign', target='errorbar_low', nth=1, count=2,
         params={'means': 'A', 'ci_0': 'A'}, ret='A'),
    dict(name='ebHigh', file=_RES, func='get_errorbars', kind='assign', target='errorbar_high', nth=1, count=2,
         params={'means': 'A', 'ci_1': 'A'}, ret='A'),
    dict(name='utilCiDefault', file=_IU, func='get_errorbars', kind='assign', target='CI_percent', nth=0, count=2,
         params={}, ret='A'),
    dict(name='utilPropCut', file=_IU, func='get_errorbars', kind='assign', target='prop_cut', nth=0, count=1,
         params={'CI_percent': 'A'}, ret='A'),
    dict(name='utilEbLow', file=_IU, func='get_errorbars', kind='assign', target='errorbar_low', nth=2, count=3,
         params={'std_eval': 'A', 'q': 'A'}, ret='A', opaque={'tdist.ppf(prop_cut, dof)': 'q'}),
    dict(name='utilEbHigh', file=_IU, func='get_errorbars', kind='assign', target='errorbar_high', nth=2, count=3,
         params={'std_eval': 'A', 'q': 'A'}, ret='A', opaque={'tdist.ppf(prop_cut, dof)': 'q'}),
]
LEAVES += _derive()
