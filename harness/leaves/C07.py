"""translator leaves of property C07: the scalar arithmetic of `pool_rdm` (per-entry text of the
normalisation, mean-removal and shift steps; the numpy reductions are opaque parameters).

inference_util.pool_rdm has 23 assignments to `rdm_vec`, util/pooling.pool_rdm 20; the `count`
guards make a leaf untranslatable (broken obligation) when a branch is added or removed."""
_IU = 'util/inference_util.py'
_PO = 'util/pooling.py'
_RMS = '_nonzero(np.sqrt(np.nanmean(rdm_vec ** 2, axis=1, keepdims=True)))'
_STD = '_nonzero(np.nanstd(rdm_vec, axis=1, keepdims=True))'
_MEAN = 'np.nanmean(rdm_vec, axis=1, keepdims=True)'
_MIN = 'np.nanmin(rdm_vec)'


def _leaf(name, file, nth, count, opaque, params):
    return dict(name=name, file=file, func='pool_rdm', kind='assign', target='rdm_vec', nth=nth,
                count=count, opaque=opaque, params=params, ret='A')


_N = 23
LEAVES = [
    # cosine: x / norm
    _leaf('cosScale', _IU, 3, _N, {_RMS: 'norm'}, {'rdm_vec': 'A', 'norm': 'A'}),
    # corr: x - mean, / std, ... - min
    _leaf('corrCenter', _IU, 5, _N, {_MEAN: 'mu'}, {'rdm_vec': 'A', 'mu': 'A'}),
    _leaf('corrScale', _IU, 6, _N, {_STD: 'norm'}, {'rdm_vec': 'A', 'norm': 'A'}),
    _leaf('corrShift', _IU, 8, _N, {_MIN: 'vmin'}, {'rdm_vec': 'A', 'vmin': 'A'}),
    # the whitened branches of the ceiling pool repeat the plain text
    _leaf('cosCovScale', _IU, 9, _N, {_RMS: 'norm'}, {'rdm_vec': 'A', 'norm': 'A'}),
    _leaf('corrCovCenter', _IU, 11, _N, {_MEAN: 'mu'}, {'rdm_vec': 'A', 'mu': 'A'}),
    _leaf('corrCovScale', _IU, 12, _N, {_STD: 'norm'}, {'rdm_vec': 'A', 'norm': 'A'}),
    _leaf('corrCovShift', _IU, 14, _N, {_MIN: 'vmin'}, {'rdm_vec': 'A', 'vmin': 'A'}),
]
_M = 20
LEAVES += [
    # util/pooling.py (the copy used by the fitters): same steps, shift by min and + 0.01
    _leaf('poolingCosScale', _PO, 2, _M, {_RMS: 'norm'}, {'rdm_vec': 'A', 'norm': 'A'}),
    _leaf('poolingCorrCenter', _PO, 4, _M, {_MEAN: 'mu'}, {'rdm_vec': 'A', 'mu': 'A'}),
    _leaf('poolingCorrScale', _PO, 5, _M, {_STD: 'norm'}, {'rdm_vec': 'A', 'norm': 'A'}),
    _leaf('poolingCorrShift', _PO, 7, _M, {_MIN: 'vmin'}, {'rdm_vec': 'A', 'vmin': 'A'}),
    # whitened pooling of the fitters: x / sqrt(x' V^-1 x), and the same shift
    _leaf('poolingCosCovScale', _PO, 8, _M, {'_nonzero(np.sqrt(rdm_norms))': 'norm'},
          {'rdm_vec': 'A', 'norm': 'A'}),
    _leaf('poolingCorrCovScale', _PO, 11, _M, {'_nonzero(np.sqrt(rdm_norms))': 'norm'},
          {'rdm_vec': 'A', 'norm': 'A'}),
    _leaf('poolingCorrCovShift', _PO, 13, _M, {_MIN: 'vmin'}, {'rdm_vec': 'A', 'vmin': 'A'}),
]


# ---------------------------------------------------------------------------------------------
# round 3: leaves *derived* from array / control-flow text (outside py2lean's scalar subset).  As in
# leaves/C18.py the current source (Python `ast`) is first rewritten into tiny scalar functions in
# harness/leaves/_C07_derived.py (rewritten on every run, nothing cached); py2lean translates those.
# Every derivation fails closed: an unexpected shape gives a body calling `__underivable__`, which
# py2lean reports as an untranslatable leaf = broken obligation.
#
#   nonzero_guard / pooling_nonzero_guard   `_nonzero`: `return np.where(norm == 0, 1, norm)`
#       -> `(1 if norm <= 0 else norm)`.  The argument is always a norm (sqrt / nanstd output, >= 0), so
#       `== 0` is `<= 0` (py2lean refuses `==` on reals); any other test (`np.isclose`, a threshold)
#       is passed through as written or is underivable.
#   norm_kind / has_shift (+ pooling_*)     the if/elif dispatch of `pool_rdm` on the method name: for the six
#       modelled methods (codes 0..5 = cosine, corr, rho-a, spearman, cosine_cov, corr_cov) which
#       normaliser the first matching branch applies (0 plain mean, 1 / RMS, 2 mean removal + / std,
#       3 ranks, 4 / whitened norm, 5 mean removal + / whitened norm) and whether the minimum is subtracted
#       afterwards (the "min-shift condition")
#   boot_loop_len / cv_loop_len             `for i in range(len(ceil_set))` -> number of folds visited
#   boot_defaults / cv_defaults             default `method` / descriptor arguments (codes)
import ast
import os

SRC = os.environ.get('RSA_REPO_SRC', '/repo/src/rsatoolbox')
HERE = os.path.dirname(os.path.abspath(__file__))
DERIVED = os.path.join(HERE, '_C07_derived.py')
METHOD_CODES = ['cosine', 'corr', 'rho-a', 'spearman', 'cosine_cov', 'corr_cov']


class Underivable(Exception):
    pass


def _func(path, name):
    tree = ast.parse(open(os.path.join(SRC, path)).read())
    for node in tree.body:
        if isinstance(node, ast.FunctionDef) and node.name == name:
            return node
    raise Underivable(f'{path}: function {name} not found')


def _nonzero_body(path):
    fn = _func(path, '_nonzero')
    body = [n for n in fn.body if not (isinstance(n, ast.Expr) and isinstance(n.value, ast.Constant))]
    if len(body) != 1 or not isinstance(body[0], ast.Return):
        raise Underivable('_nonzero is not a single return statement')
    call = body[0].value
    if not (isinstance(call, ast.Call) and ast.unparse(call.func) == 'np.where' and len(call.args) == 3):
        raise Underivable(f'_nonzero does not return np.where(test, a, b): `{ast.unparse(call)}`')
    test, a, b = call.args
    if not (isinstance(test, ast.Compare) and len(test.ops) == 1 and ast.unparse(test.left) == 'norm'):
        raise Underivable(f'guard `{ast.unparse(test)}` is not a comparison on norm')
    if isinstance(test.ops[0], ast.Eq):
        if ast.unparse(test.comparators[0]) != '0':
            raise Underivable(f'guard `{ast.unparse(test)}`: equality with a non-zero constant')
        ttxt = 'norm <= 0'       # norms are >= 0
    else:
        ttxt = ast.unparse(test)
    return f'({ast.unparse(a)} if {ttxt} else {ast.unparse(b)})'


_T_RMS = 'rdm_vec / ' + _RMS
_T_MEAN = '_nan_mean(rdm_vec)'
_T_CENTER = 'rdm_vec - ' + _MEAN
_T_STD = 'rdm_vec / ' + _STD
_T_MIN = ('rdm_vec - ' + _MIN, 'rdm_vec - ' + _MIN + ' + 0.01')
_T_RANK = 'np.array([_nan_rank_data(v) for v in rdm_vec])'
_T_WNORM = 'rdm_vec / _nonzero(np.sqrt(rdm_norms))'


def _branch_for(fn, method):
    """body of the first branch of the if/elif chain on `method` that the given name takes"""
    chain = [n for n in fn.body if isinstance(n, ast.If) and 'method' in ast.unparse(n.test)]
    if len(chain) != 1:
        raise Underivable('expected one if/elif chain on `method`')
    node = chain[0]
    while True:
        t = node.test
        if not (isinstance(t, ast.Compare) and len(t.ops) == 1 and ast.unparse(t.left) == 'method'):
            raise Underivable(f'test `{ast.unparse(t)}` is not a comparison on method')
        rhs = ast.literal_eval(t.comparators[0])
        if isinstance(t.ops[0], ast.Eq):
            hit = method == rhs
        elif isinstance(t.ops[0], ast.In):
            hit = method in rhs
        else:
            raise Underivable(f'test `{ast.unparse(t)}`')
        if hit:
            return node.body
        if len(node.orelse) == 1 and isinstance(node.orelse[0], ast.If):
            node = node.orelse[0]
        else:
            raise Underivable(f'no branch for method {method!r}')


def _classify(body):
    """(normaliser kind, shift flag) of one branch: the right-hand sides assigned to rdm_vec, in order"""
    rhs = [ast.unparse(n.value) for n in body if isinstance(n, ast.Assign)
           and ast.unparse(n.targets[0]) == 'rdm_vec']
    others = [n for n in body if not (isinstance(n, ast.Assign) and ast.unparse(n.targets[0]) == 'rdm_vec')]
    shift = 0
    if rhs and rhs[-1] in _T_MIN:
        shift, rhs = 1, rhs[:-1]
    if not rhs or rhs[-1] != _T_MEAN:
        raise Underivable(f'branch does not end with _nan_mean: {rhs}')
    pre = rhs[:-1]
    if others and not (pre and pre[-1] == _T_WNORM):
        # only the whitened branches of util/pooling.py carry helper assignments (v, ok_idx, ...)
        if not all(isinstance(n, ast.Expr) for n in others):
            raise Underivable('unexpected statements in a plain branch')
    kind = {(): 0, (_T_RMS,): 1, (_T_CENTER, _T_STD): 2, (_T_RANK,): 3,
            (_T_WNORM,): 4, (_T_CENTER, _T_WNORM): 5}.get(tuple(pre))
    if kind is None:
        raise Underivable(f'unknown normalisation steps {pre}')
    return kind, shift


def _dispatch(path, which):
    fn = _func(path, 'pool_rdm')
    vals = [_classify(_branch_for(fn, m))[which] for m in METHOD_CODES]
    out = str(9 if which == 0 else 0)
    for code in reversed(range(len(vals))):
        out = f'({vals[code]} if m == {code} else {out})'
    return out


def _loop_len(name):
    fn = _func('inference/noise_ceiling.py', name)
    loops = [n for n in fn.body if isinstance(n, ast.For)]
    if len(loops) != 1:
        raise Underivable(f'{name}: expected one for loop')
    it = loops[0].iter
    if not (isinstance(it, ast.Call) and ast.unparse(it.func) == 'range' and len(it.args) == 1):
        raise Underivable(f'{name}: loop is not `for i in range(n)`: `{ast.unparse(it)}`')
    txt = ast.unparse(it.args[0]).replace('len(ceil_set)', 'len_ceil_set')
    if 'len(' in txt or 'test_set' in txt:
        raise Underivable(f'{name}: loop bound `{txt}` is not a function of len(ceil_set)')
    # the loop indexes ceil_set[i] and test_set[i]
    idx = {ast.unparse(n.value) for n in ast.walk(loops[0]) if isinstance(n, ast.Assign)
           and ast.unparse(n.targets[0]) in ('train', 'test')}
    if idx != {'ceil_set[i]', 'test_set[i]'}:
        raise Underivable(f'{name}: loop does not read ceil_set[i] / test_set[i]: {sorted(idx)}')
    return txt


def _defaults(name, descriptor_arg):
    fn = _func('inference/noise_ceiling.py', name)
    args = [a.arg for a in fn.args.args]
    defs = dict(zip(args[len(args) - len(fn.args.defaults):], fn.args.defaults))
    if 'method' not in defs or descriptor_arg not in defs:
        raise Underivable(f'{name}: no default for method / {descriptor_arg}')
    m = ast.literal_eval(defs['method'])
    d = ast.literal_eval(defs[descriptor_arg])
    code = (METHOD_CODES.index(m) if m in METHOD_CODES else 8) * 10 + (1 if d == 'index' else 0)
    return str(code)


def _derive():
    out = ['# DERIVED by harness/leaves/C07.py from the source tree under check - do not edit', '']

    def emit(fname, params, body_fn):
        try:
            body = body_fn()
        except Exception as exc:  # noqa: BLE001  (fail closed)
            body = '__underivable__(' + repr(str(exc)) + ')'
        out.append(f'def {fname}({", ".join(params)}):')
        out.append(f'    return {body}')
        out.append('')

    emit('nonzero_guard', ['norm'], lambda: _nonzero_body(_IU))
    emit('pooling_nonzero_guard', ['norm'], lambda: _nonzero_body(_PO))
    emit('norm_kind', ['m'], lambda: _dispatch(_IU, 0))
    emit('has_shift', ['m'], lambda: _dispatch(_IU, 1))
    emit('pooling_norm_kind', ['m'], lambda: _dispatch(_PO, 0))
    emit('pooling_has_shift', ['m'], lambda: _dispatch(_PO, 1))
    emit('boot_loop_len', ['len_ceil_set'], lambda: _loop_len('boot_noise_ceiling'))
    emit('cv_loop_len', ['len_ceil_set'], lambda: _loop_len('cv_noise_ceiling'))
    emit('boot_defaults', [], lambda: _defaults('boot_noise_ceiling', 'rdm_descriptor'))
    emit('cv_defaults', [], lambda: _defaults('cv_noise_ceiling', 'pattern_descriptor'))
    text = '\n'.join(out)
    if not (os.path.exists(DERIVED) and open(DERIVED).read() == text):
        with open(DERIVED + '.tmp', 'w') as f:
            f.write(text)
        os.replace(DERIVED + '.tmp', DERIVED)


_derive()

LEAVES += [
    dict(name='nonzeroGuard', file=DERIVED, func='nonzero_guard', kind='func', params={'norm': 'A'}, ret='A'),
    dict(name='poolingNonzeroGuard', file=DERIVED, func='pooling_nonzero_guard', kind='func',
         params={'norm': 'A'}, ret='A'),
    dict(name='normKind', file=DERIVED, func='norm_kind', kind='func', params={'m': 'Nat'}, ret='Nat'),
    dict(name='hasShift', file=DERIVED, func='has_shift', kind='func', params={'m': 'Nat'}, ret='Nat'),
    dict(name='poolingNormKind', file=DERIVED, func='pooling_norm_kind', kind='func', params={'m': 'Nat'},
         ret='Nat'),
    dict(name='poolingHasShift', file=DERIVED, func='pooling_has_shift', kind='func', params={'m': 'Nat'},
         ret='Nat'),
    dict(name='bootLoopLen', file=DERIVED, func='boot_loop_len', kind='func',
         params={'len_ceil_set': 'Nat'}, ret='Nat'),
    dict(name='cvLoopLen', file=DERIVED, func='cv_loop_len', kind='func',
         params={'len_ceil_set': 'Nat'}, ret='Nat'),
    dict(name='bootDefaults', file=DERIVED, func='boot_defaults', kind='func', params={}, ret='Nat'),
    dict(name='cvDefaults', file=DERIVED, func='cv_defaults', kind='func', params={}, ret='Nat'),
]
