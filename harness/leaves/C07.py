"""translator leaves of property C07: the scalar arithmetic of `pool_rdm` (per-entry text of the
normalisation, mean-removal and shift steps; the numpy reductions are opaque parameters).

inference_util.pool_rdm has 23 assignments to `rdm_vec`, util/pooling.pool_rdm 20; the `count`
guards make a leaf untranslatable (broken obligation) when a branch is added or removed."""
_IU = 'util/inference_util.py'
_PO = 'util/pooling.py'
_RMS = '_nonzero(np.sqrt(np.nanmean(rdm_vec ** 2, axis=1, keepdims=True)))'
_STD = '_nonzero(np.nanstd(rdm_vec, axis=1, keepdims=True))'
_MEAN = 'np.nanmean(rdm_vec, axis=1, keepdims=True)'
_MIN = 'np.nanmin(rdm_vec)'


def _leaf(name, file, nth, count, opaque, params):
    return dict(name=name, file=file, func='pool_rdm', kind='assign', target='rdm_vec', nth=nth,
                count=count, opaque=opaque, params=params, ret='A')


_N = 23
LEAVES = [
    # cosine: x / norm
    _leaf('cosScale', _IU, 3, _N, {_RMS: 'norm'}, {'rdm_vec': 'A', 'norm': 'A'}),
    # corr: x - mean, / std, ... - min
    _leaf('corrCenter', _IU, 5, _N, {_MEAN: 'mu'}, {'rdm_vec': 'A', 'mu': 'A'}),
    _leaf('corrScale', _IU, 6, _N, {_STD: 'norm'}, {'rdm_vec': 'A', 'norm': 'A'}),
    _leaf('corrShift', _IU, 8, _N, {_MIN: 'vmin'}, {'rdm_vec': 'A', 'vmin': 'A'}),
    # the whitened branches of the ceiling pool repeat the plain text
    _leaf('cosCovScale', _IU, 9, _N, {_RMS: 'norm'}, {'rdm_vec': 'A', 'norm': 'A'}),
    _leaf('corrCovCenter', _IU, 11, _N, {_MEAN: 'mu'}, {'rdm_vec': 'A', 'mu': 'A'}),
    _leaf('corrCovScale', _IU, 12, _N, {_STD: 'norm'}, {'rdm_vec': 'A', 'norm': 'A'}),
    _leaf('corrCovShift', _IU, 14, _N, {_MIN: 'vmin'}, {'rdm_vec': 'A', 'vmin': 'A'}),
]
_M = 20
LEAVES += [
    # util/pooling.py (the copy used by the fitters): same steps, shift by min and + 0.01
    _leaf('poolingCosScale', _PO, 2, _M, {_RMS: 'norm'}, {'rdm_vec': 'A', 'norm': 'A'}),
    _leaf('poolingCorrCenter', _PO, 4, _M, {_MEAN: 'mu'}, {'rdm_vec': 'A', 'mu': 'A'}),
    _leaf('poolingCorrScale', _PO, 5, _M, {_STD: 'norm'}, {'rdm_vec': 'A', 'norm': 'A'}),
    _leaf('poolingCorrShift', _PO, 7, _M, {_MIN: 'vmin'}, {'rdm_vec': 'A', 'vmin': 'A'}),
    # whitened pooling of the fitters: x / sqrt(x' V^-1 x), and the same shift
    _leaf('poolingCosCovScale', _PO, 8, _M, {'_nonzero(np.sqrt(rdm_norms))': 'norm'},
          {'rdm_vec': 'A', 'norm': 'A'}),
    _leaf('poolingCorrCovScale', _PO, 11, _M, {'_nonzero(np.sqrt(rdm_norms))': 'norm'},
          {'rdm_vec': 'A', 'norm': 'A'}),
    _leaf('poolingCorrCovShift', _PO, 13, _M, {_MIN: 'vmin'}, {'rdm_vec': 'A', 'vmin': 'A'}),
]


# ---------------------------------------------------------------------------------------------
# round 3: leaves *derived* from array / control-flow text (outside py2lean's scalar subset).  As in
# leaves/C18.py the current source (Python `ast`) is first rewritten into tiny scalar functions in
# harness/leaves/_C07_derived.py (rewritten on every run, nothing cached); py2lean translates those.
# Every derivation fails closed: an unexpected shape gives a body calling `__underivable__`, which
# py2lean reports as an untranslatable leaf = broken obligation.
#
#   nonzero_guard / pooling_nonzero_guard   `_nonzero`: `return np.where(norm == 0, 1, norm)`
#       -> `(1 if norm <= 0 else norm)`.  The argument is always a norm (sqrt / nanstd output, >= 0), so
#       `== 0` is `<= 0` (py2lean refuses `==` on reals); any other test (`np.isclose`, a threshold)
#       is passed through as written or is underivable.
#   norm_kind / has_shift (+ pooling_*)     the if/elif dispatch of `pool_rdm` on the method name: for the six
#       modelled methods (codes 0..5 = cosine, corr, rho-a, spearman, cosine_cov, corr_cov) which
#       normaliser the first matching branch applies (0 plain mean, 1 / RMS, 2 mean removal + / std,
#       3 ranks, 4 / whitened norm, 5 mean removal + / whitened norm) and whether the minimum is subtracted
#       afterwards (the "min-shift condition")
#   boot_loop_len / cv_loop_len             `for i in range(len(ceil_set))` -> number of folds visited
#   boot_defaults / cv_defaults             default `method` / descriptor arguments (codes)
#   pool_input_writes / pooling_input_writes / ceiling_input_writes   (round 4) number of statements of
#       `pool_rdm` (each file, incl. the module-level helpers it hands its data to) / of the two ceilings that
#       write IN PLACE into an array aliasing the caller's RDMs object: augmented assignment, subscript /
#       attribute assignment, `out=` / `copy=False`, `np.copyto` / `np.put*`, `.sort()` / `.fill()` ... on a
#       name that still refers to `rdms.get_vectors()` / `rdms.dissimilarities` or a view of it (`np.asarray`,
#       `.reshape`, slicing, a row of a loop).  A syntactic may-alias analysis, conservative (anything not
#       understood counts as a write); 0 on a tree whose calls leave their argument alone.
import ast
import os

SRC = os.environ.get('RSA_REPO_SRC', '/repo/src/rsatoolbox')
HERE = os.path.dirname(os.path.abspath(__file__))
DERIVED = os.path.join(HERE, '_C07_derived.py')
METHOD_CODES = ['cosine', 'corr', 'rho-a', 'spearman', 'cosine_cov', 'corr_cov']


class Underivable(Exception):
    pass


def _func(path, name):
    tree = ast.parse(open(os.path.join(SRC, path)).read())
    for node in tree.body:
        if isinstance(node, ast.FunctionDef) and node.name == name:
            return node
    raise Underivable(f'{path}: function {name} not found')


def _nonzero_body(path):
    fn = _func(path, '_nonzero')
    body = [n for n in fn.body if not (isinstance(n, ast.Expr) and isinstance(n.value, ast.Constant))]
    if len(body) != 1 or not isinstance(body[0], ast.Return):
        raise Underivable('_nonzero is not a single return statement')
    call = body[0].value
    if not (isinstance(call, ast.Call) and ast.unparse(call.func) == 'np.where' and len(call.args) == 3):
        raise Underivable(f'_nonzero does not return np.where(test, a, b): `{ast.unparse(call)}`')
    test, a, b = call.args
    if not (isinstance(test, ast.Compare) and len(test.ops) == 1 and ast.unparse(test.left) == 'norm'):
        raise Underivable(f'guard `{ast.unparse(test)}` is not a comparison on norm')
    if isinstance(test.ops[0], ast.Eq):
        if ast.unparse(test.comparators[0]) != '0':
            raise Underivable(f'guard `{ast.unparse(test)}`: equality with a non-zero constant')
        ttxt = 'norm <= 0'       # norms are >= 0
    else:
        ttxt = ast.unparse(test)
    return f'({ast.unparse(a)} if {ttxt} else {ast.unparse(b)})'


_T_RMS = 'rdm_vec / ' + _RMS
_T_MEAN = '_nan_mean(rdm_vec)'
_T_CENTER = 'rdm_vec - ' + _MEAN
_T_STD = 'rdm_vec / ' + _STD
_T_MIN = ('rdm_vec - ' + _MIN, 'rdm_vec - ' + _MIN + ' + 0.01')
_T_RANK = 'np.array([_nan_rank_data(v) for v in rdm_vec])'
_T_WNORM = 'rdm_vec / _nonzero(np.sqrt(rdm_norms))'


def _branch_for(fn, method):
    """body of the first branch of the if/elif chain on `method` that the given name takes"""
    chain = [n for n in fn.body if isinstance(n, ast.If) and 'method' in ast.unparse(n.test)]
    if len(chain) != 1:
        raise Underivable('expected one if/elif chain on `method`')
    node = chain[0]
    while True:
        t = node.test
        if not (isinstance(t, ast.Compare) and len(t.ops) == 1 and ast.unparse(t.left) == 'method'):
            raise Underivable(f'test `{ast.unparse(t)}` is not a comparison on method')
        rhs = ast.literal_eval(t.comparators[0])
        if isinstance(t.ops[0], ast.Eq):
            hit = method == rhs
        elif isinstance(t.ops[0], ast.In):
            hit = method in rhs
        else:
            raise Underivable(f'test `{ast.unparse(t)}`')
        if hit:
            return node.body
        if len(node.orelse) == 1 and isinstance(node.orelse[0], ast.If):
            node = node.orelse[0]
        else:
            raise Underivable(f'no branch for method {method!r}')


def _classify(body):
    """(normaliser kind, shift flag) of one branch: the right-hand sides assigned to rdm_vec, in order"""
    rhs = [ast.unparse(n.value) for n in body if isinstance(n, ast.Assign)
           and ast.unparse(n.targets[0]) == 'rdm_vec']
    others = [n for n in body if not (isinstance(n, ast.Assign) and ast.unparse(n.targets[0]) == 'rdm_vec')]
    shift = 0
    if rhs and rhs[-1] in _T_MIN:
        shift, rhs = 1, rhs[:-1]
    if not rhs or rhs[-1] != _T_MEAN:
        raise Underivable(f'branch does not end with _nan_mean: {rhs}')
    pre = rhs[:-1]
    if others and not (pre and pre[-1] == _T_WNORM):
        # only the whitened branches of util/pooling.py carry helper assignments (v, ok_idx, ...)
        if not all(isinstance(n, ast.Expr) for n in others):
            raise Underivable('unexpected statements in a plain branch')
    kind = {(): 0, (_T_RMS,): 1, (_T_CENTER, _T_STD): 2, (_T_RANK,): 3,
            (_T_WNORM,): 4, (_T_CENTER, _T_WNORM): 5}.get(tuple(pre))
    if kind is None:
        raise Underivable(f'unknown normalisation steps {pre}')
    return kind, shift


def _dispatch(path, which):
    fn = _func(path, 'pool_rdm')
    vals = [_classify(_branch_for(fn, m))[which] for m in METHOD_CODES]
    out = str(9 if which == 0 else 0)
    for code in reversed(range(len(vals))):
        out = f'({vals[code]} if m == {code} else {out})'
    return out


def _loop_len(name):
    fn = _func('inference/noise_ceiling.py', name)
    loops = [n for n in fn.body if isinstance(n, ast.For)]
    if len(loops) != 1:
        raise Underivable(f'{name}: expected one for loop')
    it = loops[0].iter
    if not (isinstance(it, ast.Call) and ast.unparse(it.func) == 'range' and len(it.args) == 1):
        raise Underivable(f'{name}: loop is not `for i in range(n)`: `{ast.unparse(it)}`')
    txt = ast.unparse(it.args[0]).replace('len(ceil_set)', 'len_ceil_set')
    if 'len(' in txt or 'test_set' in txt:
        raise Underivable(f'{name}: loop bound `{txt}` is not a function of len(ceil_set)')
    # the loop indexes ceil_set[i] and test_set[i]
    idx = {ast.unparse(n.value) for n in ast.walk(loops[0]) if isinstance(n, ast.Assign)
           and ast.unparse(n.targets[0]) in ('train', 'test')}
    if idx != {'ceil_set[i]', 'test_set[i]'}:
        raise Underivable(f'{name}: loop does not read ceil_set[i] / test_set[i]: {sorted(idx)}')
    return txt


def _defaults(name, descriptor_arg):
    fn = _func('inference/noise_ceiling.py', name)
    args = [a.arg for a in fn.args.args]
    defs = dict(zip(args[len(args) - len(fn.args.defaults):], fn.args.defaults))
    if 'method' not in defs or descriptor_arg not in defs:
        raise Underivable(f'{name}: no default for method / {descriptor_arg}')
    m = ast.literal_eval(defs['method'])
    d = ast.literal_eval(defs[descriptor_arg])
    code = (METHOD_CODES.index(m) if m in METHOD_CODES else 8) * 10 + (1 if d == 'index' else 0)
    return str(code)


# ---- round 4: may-alias analysis for in-place writes into the caller's data ------------------------------

_VIEW_FUNCS = {'np.asarray', 'np.asanyarray', 'np.ascontiguousarray', 'np.asfortranarray', 'np.atleast_1d',
               'np.atleast_2d', 'np.atleast_3d', 'np.ravel', 'np.reshape', 'np.squeeze', 'np.transpose',
               'np.swapaxes', 'np.moveaxis', 'np.expand_dims', 'np.broadcast_to', 'np.nan_to_num', 'np.real',
               'np.diagonal', 'np.triu', 'np.tril', 'np.require', 'np.array', 'numpy.asarray', 'numpy.array'}
_VIEW_METHODS = {'get_vectors', 'view', 'reshape', 'ravel', 'squeeze', 'transpose', 'swapaxes', 'astype',
                 'diagonal', 'get_matrices', '__array__', 'flat', 'conj'}
_COPY_METHODS = {'copy', 'flatten', 'tolist', 'mean', 'sum', 'std', 'var', 'min', 'max', 'any', 'all', 'dot',
                 'subset', 'subsample', 'subset_pattern', 'subsample_pattern', 'item', 'argsort', 'nonzero'}
_MUT_METHODS = {'sort', 'fill', 'put', 'itemset', 'partition', 'resize', 'setfield', 'setflags', 'byteswap',
                '__setitem__', '__iadd__', '__isub__', '__imul__', '__itruediv__', 'sort_by', 'reorder', 'append',
                'update', 'pop', 'clear', 'extend', 'insert', 'remove', 'setdefault'}
_MUT_FUNCS = {'np.copyto', 'np.put', 'np.place', 'np.putmask', 'np.fill_diagonal', 'np.put_along_axis',
              'setattr', 'np.random.shuffle'}


class _Writes:
    """count in-place writes into arrays that may alias the data of the parameter `root` of function
    `fname` of one module (module-level helpers that receive an alias are followed)"""

    def __init__(self, path):
        self.tree = ast.parse(open(os.path.join(SRC, path)).read())
        self.funcs = {n.name: n for n in self.tree.body if isinstance(n, ast.FunctionDef)}
        self.stack = []

    def run(self, fname, roots):
        if fname not in self.funcs:
            raise Underivable(f'function {fname} not found')
        if fname in self.stack or len(self.stack) > 6:
            raise Underivable(f'recursion through {fname}')
        self.stack.append(fname)
        fn = self.funcs[fname]
        env = set(roots)
        writes, ret = self.block(fn.body, env)
        self.stack.pop()
        return writes, ret

    def alias(self, e, env):
        if isinstance(e, ast.Name):
            return e.id in env
        if isinstance(e, ast.Attribute):
            return self.alias(e.value, env)
        if isinstance(e, (ast.Subscript, ast.Starred)):
            return self.alias(e.value, env)
        if isinstance(e, ast.IfExp):
            return self.alias(e.body, env) or self.alias(e.orelse, env)
        if isinstance(e, ast.BoolOp):
            return any(self.alias(v, env) for v in e.values)
        if isinstance(e, (ast.Tuple, ast.List)):
            return any(self.alias(v, env) for v in e.elts)
        if isinstance(e, ast.NamedExpr):
            return self.alias(e.value, env)
        if isinstance(e, ast.Call):
            f = e.func
            name = ast.unparse(f)
            args = list(e.args) + [k.value for k in e.keywords]
            if isinstance(f, ast.Attribute) and self.alias(f.value, env):
                if f.attr in _COPY_METHODS:
                    return False
                return True                     # any other method of an alias may return a view
            if name in _VIEW_FUNCS:
                if name in ('np.array', 'numpy.array') and not any(
                        k.arg == 'copy' and ast.unparse(k.value) != 'True' for k in e.keywords):
                    return False                # np.array copies by default
                return any(self.alias(a, env) for a in args)
            if isinstance(f, ast.Name) and f.id in self.funcs:
                idx = [i for i, a in enumerate(e.args) if self.alias(a, env)]
                kws = [k.arg for k in e.keywords if self.alias(k.value, env)]
                if not idx and not kws:
                    return False
                params = [a.arg for a in self.funcs[f.id].args.args]
                roots = [params[i] for i in idx if i < len(params)] + [k for k in kws if k]
                return self.run(f.id, roots)[1]
            return False                        # other calls (numpy reductions, arithmetic helpers) return new arrays
        return False                            # arithmetic, comparisons, comprehensions, constants: new objects

    def scan(self, e, env):
        """writes caused by evaluating an expression: helpers that get an alias, `out=`, mutating calls"""
        w = 0
        env = set(env)
        for node in ast.walk(e):
            if isinstance(node, (ast.ListComp, ast.SetComp, ast.GeneratorExp, ast.DictComp)):
                for g in node.generators:
                    if self.alias(g.iter, env):
                        env |= {n.id for n in ast.walk(g.target) if isinstance(n, ast.Name)}
        for node in ast.walk(e):
            if not isinstance(node, ast.Call):
                continue
            f = node.func
            name = ast.unparse(f)
            for k in node.keywords:
                if k.arg == 'out' and self.alias(k.value, env):
                    w += 1
                if k.arg == 'copy' and ast.unparse(k.value) == 'False' and name not in _VIEW_FUNCS \
                        and not (isinstance(f, ast.Attribute) and f.attr == 'astype') \
                        and any(self.alias(a, env) for a in node.args):
                    w += 1
            if name in _MUT_FUNCS and node.args and self.alias(node.args[0], env):
                w += 1
            if isinstance(f, ast.Attribute) and f.attr in _MUT_METHODS and self.alias(f.value, env):
                w += 1
            if isinstance(f, ast.Name) and f.id in self.funcs:
                idx = [i for i, a in enumerate(node.args) if self.alias(a, env)]
                kws = [k.arg for k in node.keywords if k.arg and self.alias(k.value, env)]
                if idx or kws:
                    params = [a.arg for a in self.funcs[f.id].args.args]
                    w += self.run(f.id, [params[i] for i in idx if i < len(params)] + kws)[0]
        return w

    def bind(self, target, is_alias, env):
        w = 0
        if isinstance(target, ast.Name):
            (env.add if is_alias else env.discard)(target.id)
        elif isinstance(target, (ast.Tuple, ast.List)):
            for t in target.elts:
                w += self.bind(t, is_alias, env)
        elif isinstance(target, (ast.Subscript, ast.Attribute, ast.Starred)):
            if self.alias(target.value, env):
                w += 1                          # x[...] = ..., x.attr = ... on the caller's data
        return w

    def block(self, body, env):
        w, ret = 0, False
        for st in body:
            if isinstance(st, ast.Assign):
                w += self.scan(st.value, env)
                a = self.alias(st.value, env)
                for t in st.targets:
                    w += self.bind(t, a, env)
            elif isinstance(st, ast.AnnAssign):
                if st.value is not None:
                    w += self.scan(st.value, env)
                    w += self.bind(st.target, self.alias(st.value, env), env)
            elif isinstance(st, ast.AugAssign):
                w += self.scan(st.value, env)
                t = st.target
                if self.alias(t if isinstance(t, ast.Name) else t.value, env):
                    w += 1                      # x -= ..., x[...] /= ... on the caller's data
            elif isinstance(st, ast.Return):
                if st.value is not None:
                    w += self.scan(st.value, env)
                    ret = ret or self.alias(st.value, env)
            elif isinstance(st, (ast.Expr, ast.Assert, ast.Raise)):
                for e in ast.iter_child_nodes(st):
                    if isinstance(e, ast.expr):
                        w += self.scan(e, env)
            elif isinstance(st, ast.If):
                w += self.scan(st.test, env)
                e1, e2 = set(env), set(env)
                w1, r1 = self.block(st.body, e1)
                w2, r2 = self.block(st.orelse, e2)
                env.clear()
                env |= e1 | e2
                w, ret = w + w1 + w2, ret or r1 or r2
            elif isinstance(st, (ast.For, ast.While)):
                if isinstance(st, ast.For):
                    w += self.scan(st.iter, env)
                    self.bind(st.target, self.alias(st.iter, env), env)
                else:
                    w += self.scan(st.test, env)
                self.block(st.body, env)                     # first pass: which names become aliases
                w1, r1 = self.block(st.body, env)            # second pass counts with the loop-carried aliases
                w2, r2 = self.block(st.orelse, env)
                w, ret = w + w1 + w2, ret or r1 or r2
            elif isinstance(st, (ast.With, ast.Try)):
                inner = list(st.body) + [x for h in getattr(st, 'handlers', []) for x in h.body] \
                    + list(getattr(st, 'orelse', [])) + list(getattr(st, 'finalbody', []))
                w1, r1 = self.block(inner, env)
                w, ret = w + w1, ret or r1
            elif isinstance(st, (ast.Pass, ast.Import, ast.ImportFrom, ast.Break, ast.Continue, ast.Global,
                                 ast.Nonlocal)):
                pass
            elif isinstance(st, ast.Delete):
                w += sum(1 for t in st.targets if not isinstance(t, ast.Name) and self.alias(t.value, env))
            else:
                raise Underivable(f'statement {type(st).__name__} not understood')
        return w, ret


def _input_writes(path, fnames):
    a = _Writes(path)
    return str(sum(a.run(f, ['rdms'])[0] for f in fnames))


def _derive():
    out = ['# DERIVED by harness/leaves/C07.py from the source tree under check - do not edit', '']

    def emit(fname, params, body_fn):
        try:
            body = body_fn()
        except Exception as exc:  # noqa: BLE001  (fail closed)
            body = '__underivable__(' + repr(str(exc)) + ')'
        out.append(f'def {fname}({", ".join(params)}):')
        out.append(f'    return {body}')
        out.append('')

    emit('nonzero_guard', ['norm'], lambda: _nonzero_body(_IU))
    emit('pooling_nonzero_guard', ['norm'], lambda: _nonzero_body(_PO))
    emit('norm_kind', ['m'], lambda: _dispatch(_IU, 0))
    emit('has_shift', ['m'], lambda: _dispatch(_IU, 1))
    emit('pooling_norm_kind', ['m'], lambda: _dispatch(_PO, 0))
    emit('pooling_has_shift', ['m'], lambda: _dispatch(_PO, 1))
    emit('boot_loop_len', ['len_ceil_set'], lambda: _loop_len('boot_noise_ceiling'))
    emit('cv_loop_len', ['len_ceil_set'], lambda: _loop_len('cv_noise_ceiling'))
    emit('boot_defaults', [], lambda: _defaults('boot_noise_ceiling', 'rdm_descriptor'))
    emit('cv_defaults', [], lambda: _defaults('cv_noise_ceiling', 'pattern_descriptor'))
    emit('pool_input_writes', [], lambda: _input_writes(_IU, ['pool_rdm']))
    emit('pooling_input_writes', [], lambda: _input_writes(_PO, ['pool_rdm']))
    emit('ceiling_input_writes', [], lambda: _input_writes('inference/noise_ceiling.py',
                                                           ['boot_noise_ceiling', 'cv_noise_ceiling']))
    text = '\n'.join(out)
    if not (os.path.exists(DERIVED) and open(DERIVED).read() == text):
        with open(DERIVED + '.tmp', 'w') as f:
            f.write(text)
        os.replace(DERIVED + '.tmp', DERIVED)


_derive()

LEAVES += [
    dict(name='nonzeroGuard', file=DERIVED, func='nonzero_guard', kind='func', params={'norm': 'A'}, ret='A'),
    dict(name='poolingNonzeroGuard', file=DERIVED, func='pooling_nonzero_guard', kind='func',
         params={'norm': 'A'}, ret='A'),
    dict(name='normKind', file=DERIVED, func='norm_kind', kind='func', params={'m': 'Nat'}, ret='Nat'),
    dict(name='hasShift', file=DERIVED, func='has_shift', kind='func', params={'m': 'Nat'}, ret='Nat'),
    dict(name='poolingNormKind', file=DERIVED, func='pooling_norm_kind', kind='func', params={'m': 'Nat'},
         ret='Nat'),
    dict(name='poolingHasShift', file=DERIVED, func='pooling_has_shift', kind='func', params={'m': 'Nat'},
         ret='Nat'),
    dict(name='bootLoopLen', file=DERIVED, func='boot_loop_len', kind='func',
         params={'len_ceil_set': 'Nat'}, ret='Nat'),
    dict(name='cvLoopLen', file=DERIVED, func='cv_loop_len', kind='func',
         params={'len_ceil_set': 'Nat'}, ret='Nat'),
    dict(name='bootDefaults', file=DERIVED, func='boot_defaults', kind='func', params={}, ret='Nat'),
    dict(name='cvDefaults', file=DERIVED, func='cv_defaults', kind='func', params={}, ret='Nat'),
    dict(name='poolInputWrites', file=DERIVED, func='pool_input_writes', kind='func', params={}, ret='Nat'),
    dict(name='poolingInputWrites', file=DERIVED, func='pooling_input_writes', kind='func', params={}, ret='Nat'),
    dict(name='ceilingInputWrites', file=DERIVED, func='ceiling_input_writes', kind='func', params={}, ret='Nat'),
]
