"""translator leaves of property C07: the scalar arithmetic of `pool_rdm` (per-entry text of the
normalisation, mean-removal and shift steps; the numpy reductions are opaque parameters).

inference_util.pool_rdm has 23 assignments to `rdm_vec`, util/pooling.pool_rdm 20; the `count`
guards make a leaf untranslatable (broken obligation) when a branch is added or removed."""
_IU = 'util/inference_util.py'
_PO = 'util/pooling.py'
_RMS = '_nonzero(np.sqrt(np.nanmean(rdm_vec ** 2, axis=1, keepdims=True)))'
_STD = '_nonzero(np.nanstd(rdm_vec, axis=1, keepdims=True))'
_MEAN = 'np.nanmean(rdm_vec, axis=1, keepdims=True)'
_MIN = 'np.nanmin(rdm_vec)'


def _leaf(name, file, nth, count, opaque, params):
    return dict(name=name, file=file, func='pool_rdm', kind='assign', target='rdm_vec', nth=nth,
                count=count, opaque=opaque, params=params, ret='A')


_N = 23
LEAVES = [
    # cosine: x / norm
    _leaf('cosScale', _IU, 3, _N, {_RMS: 'norm'}, {'rdm_vec': 'A', 'norm': 'A'}),
    # corr: x - mean, / std, ... - min
    _leaf('corrCenter', _IU, 5, _N, {_MEAN: 'mu'}, {'rdm_vec': 'A', 'mu': 'A'}),
    _leaf('corrScale', _IU, 6, _N, {_STD: 'norm'}, {'rdm_vec': 'A', 'norm': 'A'}),
    _leaf('corrShift', _IU, 8, _N, {_MIN: 'vmin'}, {'rdm_vec': 'A', 'vmin': 'A'}),
    # the whitened branches of the ceiling pool repeat the plain text
    _leaf('cosCovScale', _IU, 9, _N, {_RMS: 'norm'}, {'rdm_vec': 'A', 'norm': 'A'}),
    _leaf('corrCovCenter', _IU, 11, _N, {_MEAN: 'mu'}, {'rdm_vec': 'A', 'mu': 'A'}),
    _leaf('corrCovScale', _IU, 12, _N, {_STD: 'norm'}, {'rdm_vec': 'A', 'norm': 'A'}),
    _leaf('corrCovShift', _IU, 14, _N, {_MIN: 'vmin'}, {'rdm_vec': 'A', 'vmin': 'A'}),
]
_M = 20
LEAVES += [
    # util/pooling.py (the copy used by the fitters): same steps, shift by min and + 0.01
    _leaf('poolingCosScale', _PO, 2, _M, {_RMS: 'norm'}, {'rdm_vec': 'A', 'norm': 'A'}),
    _leaf('poolingCorrCenter', _PO, 4, _M, {_MEAN: 'mu'}, {'rdm_vec': 'A', 'mu': 'A'}),
    _leaf('poolingCorrScale', _PO, 5, _M, {_STD: 'norm'}, {'rdm_vec': 'A', 'norm': 'A'}),
    _leaf('poolingCorrShift', _PO, 7, _M, {_MIN: 'vmin'}, {'rdm_vec': 'A', 'vmin': 'A'}),
    # whitened pooling of the fitters: x / sqrt(x' V^-1 x), and the same shift
    _leaf('poolingCosCovScale', _PO, 8, _M, {'_nonzero(np.sqrt(rdm_norms))': 'norm'},
          {'rdm_vec': 'A', 'norm': 'A'}),
    _leaf('poolingCorrCovScale', _PO, 11, _M, {'_nonzero(np.sqrt(rdm_norms))': 'norm'},
          {'rdm_vec': 'A', 'norm': 'A'}),
    _leaf('poolingCorrCovShift', _PO, 13, _M, {_MIN: 'vmin'}, {'rdm_vec': 'A', 'vmin': 'A'}),
]
