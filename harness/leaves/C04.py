"""Leaf specs of property C04 (inference/evaluate.py): every `dof = ...` assignment of the
evaluators and the n_cv variance-correction formula.

The dof expressions call the module-level helper `_n_groups(data.rdm_descriptors, rdm_descriptor)`
/ `_n_groups(data.pattern_descriptors, pattern_descriptor)` (number of distinct descriptor values
= number of resampled units).  The shared translator does not know that call; it is added here,
from the outside and purely additively (a form that was untranslatable before): the call is read
as the integer parameter `groups_rdm` / `groups_pattern`, *provided* its first argument is the
`rdm_descriptors` / `pattern_descriptors` attribute of `data` and its second the matching
`rdm_descriptor` / `pattern_descriptor` name.  Any other spelling (e.g. `data.n_rdm`, or the
pattern descriptor where the RDM descriptor belongs) is a different parameter or untranslatable,
and the theorems `Rsa.Props.C04.dof_*` stop checking.
"""
import ast
import sys


def _translator_module():
    for name in ('py2lean', '__main__'):
        m = sys.modules.get(name)
        if m is not None and hasattr(m, 'Tr') and hasattr(m, 'Untranslatable'):
            return m
    return None


def _install():
    m = _translator_module()
    if m is None or getattr(m.Tr, '_c04_n_groups', False):
        return
    base_call = m.Tr.call

    def call(self, e, env, want):
        name = m.call_name(e)
        if name == '_n_groups' and len(e.args) == 2 and not e.keywords:
            a, b = e.args
            if isinstance(a, ast.Attribute) and isinstance(a.value, ast.Name) \
                    and a.value.id == 'data' and isinstance(b, ast.Name):
                if a.attr == 'rdm_descriptors' and b.id == 'rdm_descriptor' \
                        and 'groups_rdm' in env:
                    return self.coerce(('groups_rdm', env['groups_rdm']), want)
                if a.attr == 'pattern_descriptors' and b.id == 'pattern_descriptor' \
                        and 'groups_pattern' in env:
                    return self.coerce(('groups_pattern', env['groups_pattern']), want)
            raise m.Untranslatable('_n_groups call on unexpected arguments')
        return base_call(self, e, env, want)

    m.Tr.call = call
    m.Tr._c04_n_groups = True


_install()

_E = 'inference/evaluate.py'
_G = {'groups_rdm': 'Int', 'groups_pattern': 'Int'}


def _dof(name, func, nth, count, which=('groups_rdm', 'groups_pattern')):
    return dict(name=name, file=_E, func=func, kind='assign', target='dof', nth=nth, count=count,
                params={k: _G[k] for k in which}, ret='Int')


_R = ('groups_rdm',)
_P = ('groups_pattern',)


def _corr(name, func):
    return dict(name=name, file=_E, func=func, kind='assign', target='variances', nth=0, count=2,
                params={'n_cv': 'Nat', 'var_mean': 'A', 'var_1': 'A'}, ret='A')


LEAVES = [
    dict(name='dofFixed', file=_E, func='eval_fixed', kind='assign', target='dof', nth=0, count=2,
         params={'evaluations_shape_m1': 'Int'}, ret='Int'),
    dict(name='dofFixedSingle', file=_E, func='eval_fixed', kind='assign', target='dof', nth=1,
         count=2, params={}, ret='Int'),
    _dof('dofBootstrap', 'eval_bootstrap', 0, 1),
    _dof('dofBootstrapPattern', 'eval_bootstrap_pattern', 0, 1, _P),
    _dof('dofBootstrapRdm', 'eval_bootstrap_rdm', 0, 1, _R),
    _dof('dofDual', 'eval_dual_bootstrap', 0, 1),
    _dof('dofCvBoth', 'bootstrap_crossval', 0, 3),
    _dof('dofCvPattern', 'bootstrap_crossval', 1, 3, _P),
    _dof('dofCvRdm', 'bootstrap_crossval', 2, 3, _R),
    _dof('dofRandomBoth', 'eval_dual_bootstrap_random', 0, 3),
    _dof('dofRandomPattern', 'eval_dual_bootstrap_random', 1, 3, _P),
    _dof('dofRandomRdm', 'eval_dual_bootstrap_random', 2, 3, _R),
    # (n_cv * var_mean - var_1) / (n_cv - 1)
    _corr('cvCorrection', 'bootstrap_crossval'),
    _corr('cvCorrectionDual', 'eval_dual_bootstrap'),
    _corr('cvCorrectionRandom', 'eval_dual_bootstrap_random'),
]
