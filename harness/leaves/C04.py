"""Leaf specs of property C04 (inference/evaluate.py): every `dof = ...` assignment of the
evaluators and the n_cv variance-correction formula.

The dof expressions call the module-level helper `_n_groups(data.rdm_descriptors, rdm_descriptor)`
/ `_n_groups(data.pattern_descriptors, pattern_descriptor)` (number of distinct descriptor values
= number of resampled units).  The shared translator does not know that call; it is added here,
from the outside and purely additively (a form that was untranslatable before): the call is read
as the integer parameter `groups_rdm` / `groups_pattern`, *provided* its first argument is the
`rdm_descriptors` / `pattern_descriptors` attribute of `data` and its second the matching
`rdm_descriptor` / `pattern_descriptor` name.  Any other spelling (e.g. `data.n_rdm`, or the
pattern descriptor where the RDM descriptor belongs) is a different parameter or untranslatable,
and the theorems `Rsa.Props.C04.dof_*` stop checking.
"""
import ast
import sys


def _translator_module():
    for name in ('py2lean', '__main__'):
        m = sys.modules.get(name)
        if m is not None and hasattr(m, 'Tr') and hasattr(m, 'Untranslatable'):
            return m
    return None


def _install():
    m = _translator_module()
    if m is None or getattr(m.Tr, '_c04_n_groups', False):
        return
    base_call = m.Tr.call

    def call(self, e, env, want):
        name = m.call_name(e)
        if name == '_n_groups' and len(e.args) == 2 and not e.keywords:
            a, b = e.args
            if isinstance(a, ast.Attribute) and isinstance(a.value, ast.Name) \
                    and a.value.id == 'data' and isinstance(b, ast.Name):
                if a.attr == 'rdm_descriptors' and b.id == 'rdm_descriptor' \
                        and 'groups_rdm' in env:
                    return self.coerce(('groups_rdm', env['groups_rdm']), want)
                if a.attr == 'pattern_descriptors' and b.id == 'pattern_descriptor' \
                        and 'groups_pattern' in env:
                    return self.coerce(('groups_pattern', env['groups_pattern']), want)
            raise m.Untranslatable('_n_groups call on unexpected arguments')
        return base_call(self, e, env, want)

    m.Tr.call = call
    m.Tr._c04_n_groups = True


_install()


# ======================================================================================
# Round 3: leaves *derived* from evaluate.py by a small source rewriter (as leaves/C18.py does).
#
# The decision points, loop bounds, default expressions and the assembly of the `Result` object
# are not assignments of scalar expressions, so the shared translator cannot anchor them.  This
# module reads the current source text (Python `ast`), cuts out the expression in question,
# renames the array-valued sub-expressions to scalar parameters (`len(np.unique(pattern_idx))`
# -> `n_unique_pattern`, `train[0].n_rdm` -> `train_n_rdm`, ...) and writes a tiny Python function
# per leaf into harness/leaves/_C04_derived.py, which py2lean then translates as usual
# (kind='func').  Every derivation fails closed: an anchor of unexpected shape yields a function
# calling `__underivable__`, which py2lean reports as an untranslatable leaf = broken obligation.
#
# Encodings used by the derived functions (all results are naturals):
#   * a test  t              ->  1 if t else 0
#   * `None` / a count c     ->  0 / c + 1                 (the n_rdm / n_pattern handed to Result)
#   * boot_type              ->  0 'both', 1 'rdm', 2 'pattern'   (order of Rsa.Eval.BootType)
#   * cv_method string       ->  its position in CV_METHODS
# ======================================================================================
import os

_E = 'inference/evaluate.py'
SRC = os.environ.get('RSA_REPO_SRC', '/repo/src/rsatoolbox')
HERE = os.path.dirname(os.path.abspath(__file__))
DERIVED = os.path.join(HERE, '_C04_derived.py')

CV_METHODS = ['fixed', 'bootstrap', 'bootstrap_pattern', 'bootstrap_rdm', 'crossvalidation',
              'bootstrap_crossval', 'bootstrap_crossval_pattern', 'bootstrap_crossval_rdm',
              'dual_bootstrap']
BT_CODE = {'both': 0, 'rdm': 1, 'pattern': 2}


class Underivable(Exception):
    pass


_TREES = {}


def _func(path, name):
    if path not in _TREES:
        _TREES[path] = ast.parse(open(os.path.join(SRC, path)).read())
    for node in ast.walk(_TREES[path]):
        if isinstance(node, ast.FunctionDef) and node.name == name:
            return node
    raise Underivable(f'{path}: function {name} not found')


class _Subst(ast.NodeTransformer):
    """replace whole sub-expressions (matched by their unparsed text) by names"""

    def __init__(self, subs):
        self.subs = subs
        self.used = set()

    def visit(self, node):
        if isinstance(node, ast.expr):
            t = ast.unparse(node)
            if t in self.subs:
                self.used.add(t)
                return ast.parse(self.subs[t], mode='eval').body
        return self.generic_visit(node)


def _subst(expr, subs, require=()):
    tr = _Subst(subs)
    new = tr.visit(ast.parse(ast.unparse(expr), mode='eval').body)
    missing = [k for k in require if k not in tr.used]
    if missing:
        raise Underivable(f'sub-expression(s) {missing} not found in `{ast.unparse(expr)}`')
    text = ast.unparse(ast.fix_missing_locations(new))
    left = [n.id for n in ast.walk(ast.parse(text, mode='eval')) if isinstance(n, ast.Name)]
    return text, set(left)


def _only_names(names, allowed, what):
    bad = sorted(set(names) - set(allowed))
    if bad:
        raise Underivable(f'{what}: unexpected name(s) {bad}')


def _loops(fn):
    return [n for n in ast.walk(fn) if isinstance(n, ast.For)]


def _sample_loop(fn):
    """the `for i[_sample] in tqdm.trange(N)` loop of an evaluator"""
    hits = [n for n in fn.body if isinstance(n, ast.For) and isinstance(n.iter, ast.Call)
            and ast.unparse(n.iter.func) in ('tqdm.trange', 'range', 'trange')
            and isinstance(n.target, ast.Name) and n.target.id in ('i', 'i_sample')]
    if len(hits) != 1:
        raise Underivable(f'{fn.name}: expected one bootstrap loop, found {len(hits)}')
    return hits[0]


def _range_arg(loop, what):
    if not (isinstance(loop.iter, ast.Call) and len(loop.iter.args) == 1 and not loop.iter.keywords):
        raise Underivable(f'{what}: loop is not over range(<one argument>)')
    return loop.iter.args[0]


def _test01(test, subs, allowed, what, require=()):
    text, names = _subst(test, subs, require)
    _only_names(names, allowed, what)
    return f'(1 if {text} else 0)'


_UNIQ = {'len(np.unique(pattern_idx))': 'n_unique_pattern', 'len(np.unique(rdm_idx))': 'n_unique_rdm'}


def _usable_test(fname):
    """the first `if` of the bootstrap loop body that looks at the drawn indices"""
    fn = _func(_E, fname)
    loop = _sample_loop(fn)
    ifs = [n for n in loop.body if isinstance(n, ast.If) and 'np.unique' in ast.unparse(n.test)]
    if len(ifs) != 1:
        raise Underivable(f'{fname}: expected one usable-sample test in the loop, found {len(ifs)}')
    node = ifs[0]
    # the evaluating branch must be the `if` body and the NaN branch the `else` body
    body_txt = ' '.join(ast.unparse(b) for b in node.body)
    else_txt = ' '.join(ast.unparse(b) for b in node.orelse)
    if 'np.nan' in body_txt or 'np.nan' not in else_txt or 'evaluations[' not in else_txt:
        raise Underivable(f'{fname}: the usable-sample test no longer has the form '
                          '`if usable: evaluate else: evaluations[i] = nan`')
    return node.test


def _bool_name_to_test(test, name):
    """`use_correction and n_cv > 1`: the bare boolean name becomes `name == 1`"""
    class T(ast.NodeTransformer):
        def visit_BoolOp(self, node):
            node.values = [ast.parse(f'{name} == 1', mode='eval').body
                           if isinstance(v, ast.Name) and v.id == name else self.visit(v)
                           for v in node.values]
            return node
    return T().visit(ast.parse(ast.unparse(test), mode='eval').body)


def _correction_test(fname):
    fn = _func(_E, fname)
    ifs = [n for n in fn.body if isinstance(n, ast.If) and 'use_correction' in ast.unparse(n.test)
           and 'n_cv' in ast.unparse(n.test)]
    if len(ifs) != 1:
        raise Underivable(f'{fname}: expected one `use_correction and n_cv > 1` test, found {len(ifs)}')
    node = ifs[0]
    if not any('n_cv * var_mean' in ast.unparse(b) for b in node.body):
        raise Underivable(f'{fname}: the corrected branch is not the `if` body')
    if not any(isinstance(b, ast.If) and 'raise Warning' in ast.unparse(b) for b in node.orelse):
        raise Underivable(f'{fname}: the uncorrected branch no longer raises for an invalid request')
    return _bool_name_to_test(node.test, 'use_correction')


# ---- the Result(...) call ---------------------------------------------------------------

def _bt_of_test(test):
    if isinstance(test, ast.Compare) and len(test.ops) == 1 and isinstance(test.ops[0], ast.Eq) \
            and isinstance(test.left, ast.Name) and test.left.id == 'boot_type' \
            and isinstance(test.comparators[0], ast.Constant) \
            and test.comparators[0].value in BT_CODE:
        return test.comparators[0].value
    return None


def _walk_env(stmts, env, bts, stop):
    """symbolic execution of straight-line assignments of names, split by boot_type;
    env[name][bt] = expression node or None (unknown).  Returns True when `stop` was reached."""
    for s in stmts:
        if s is stop:
            return True
        if isinstance(s, ast.Assign) and len(s.targets) == 1 and isinstance(s.targets[0], ast.Name):
            env.setdefault(s.targets[0].id, {})
            for bt in bts:
                env[s.targets[0].id][bt] = s.value
            if s.value is stop or any(n is stop for n in ast.walk(s.value)):
                return True
            continue
        if isinstance(s, ast.If):
            bt = _bt_of_test(s.test)
            if bt is not None:
                if bt in bts:
                    if _walk_env(s.body, env, [bt], stop):
                        return True
                rest = [b for b in bts if b != bt]
                if rest and _walk_env(s.orelse, env, rest, stop):
                    return True
                continue
        # any other compound statement: names assigned inside become unknown
        for n in ast.walk(s):
            if n is stop:
                raise Underivable('the Result(...) call is nested inside a compound statement')
            if isinstance(n, ast.Assign):
                for t in n.targets:
                    for m in ast.walk(t):
                        if isinstance(m, ast.Name) and isinstance(m.ctx, ast.Store):
                            env.setdefault(m.id, {})
                            for bt in bts:
                                env[m.id][bt] = None
    return False


def _result_call(fname):
    fn = _func(_E, fname)
    calls = [n for n in ast.walk(fn) if isinstance(n, ast.Call) and ast.unparse(n.func) == 'Result']
    if len(calls) != 1:
        raise Underivable(f'{fname}: expected one Result(...) call, found {len(calls)}')
    call = calls[0]
    if [ast.unparse(a) for a in call.args] != ['models', 'evaluations']:
        raise Underivable(f'{fname}: positional arguments of Result are not (models, evaluations)')
    kw = {k.arg: k.value for k in call.keywords}
    want = {'method': 'method', 'noise_ceiling': 'noise_ceil'}
    if fname != 'crossval':
        want.update(variances='variances', dof='dof')
    for k, v in want.items():
        if k not in kw or ast.unparse(kw[k]) != v:
            raise Underivable(f'{fname}: Result(..., {k}=...) is not `{v}`')
    if set(kw) - set(want) - {'cv_method', 'n_rdm', 'n_pattern'}:
        raise Underivable(f'{fname}: unexpected keyword(s) in the Result call')
    stmt = [s for s in fn.body if any(n is call for n in ast.walk(s))]
    if len(stmt) != 1:
        raise Underivable(f'{fname}: the Result call is not a top-level statement')
    bts = list(BT_CODE)
    env = {}
    _walk_env(fn.body, env, bts, stmt[0])
    after = fn.body[fn.body.index(stmt[0]) + 1:]
    return fn, kw, env, after


def _resolve(node, env, bt, depth=0):
    if node is None:
        raise Underivable('value depends on a conditional assignment')
    if isinstance(node, ast.Name) and node.id in env and depth < 4:
        return _resolve(env[node.id].get(bt), env, bt, depth + 1)
    return node


def _enc_count(node):
    t = ast.unparse(node)
    if t == 'None':
        return '0'
    if t == 'data.n_rdm':
        return 'data_n_rdm + 1'
    if t == 'data.n_cond':
        return 'data_n_cond + 1'
    raise Underivable(f'`{t}` is neither None, data.n_rdm nor data.n_cond')


def _per_bt(fname, f):
    """if-chain over the boot-type code"""
    vals = {}
    for bt, code in BT_CODE.items():
        vals[code] = f(bt)
    lines = [f'    if bt == {c}:\n        return {vals[c]}' for c in (0, 1)]
    lines.append(f'    return {vals[2]}')
    return '\n'.join(lines)


def _res_cv_method(fname):
    fn, kw, env, _ = _result_call(fname)

    def one(bt):
        node = _resolve(kw.get('cv_method'), env, bt) if 'cv_method' in kw else None
        if not (isinstance(node, ast.Constant) and node.value in CV_METHODS):
            raise Underivable(f'{fname}: cv_method is not one of the known strings')
        return str(CV_METHODS.index(node.value))
    return _per_bt(fname, one)


def _res_n(fname, which, final):
    fn, kw, env, after = _result_call(fname)
    attr = {'n_rdm': 'result.n_rdm', 'n_pattern': 'result.n_pattern'}[which]

    def one(bt):
        node = _resolve(kw[which], env, bt) if which in kw else ast.Constant(value=None)
        if final:
            for s in after:
                if isinstance(s, ast.Assign) and len(s.targets) == 1 \
                        and ast.unparse(s.targets[0]) == attr:
                    node = _resolve(s.value, env, bt)
                elif not isinstance(s, ast.Return) and attr in ast.unparse(s):
                    raise Underivable(f'{fname}: {attr} is modified in an unexpected way')
        return _enc_count(node)
    return _per_bt(fname, one)


# ---- shapes ------------------------------------------------------------------------------

_SHAPE_SUBS = {'len(models)': 'len_models', 'data.n_rdm': 'data_n_rdm', 'len(train_set)': 'len_train_set'}


def _shape_tuple(fname, target, alloc=('np.zeros', 'np.empty')):
    fn = _func(_E, fname) if fname != 'input_check_model' else _func('util/inference_util.py', fname)
    hits = [n for n in ast.walk(fn) if isinstance(n, ast.Assign) and len(n.targets) == 1
            and ast.unparse(n.targets[0]) == target and isinstance(n.value, ast.Call)
            and ast.unparse(n.value.func) in alloc]
    if fname == 'input_check_model':
        hits = [h for h in hits if isinstance(h.value.args[0], ast.Tuple)]
    if len(hits) != 1:
        raise Underivable(f'{fname}: expected one allocation of {target}, found {len(hits)}')
    arg = hits[0].value.args[0]
    if not isinstance(arg, ast.Tuple):
        raise Underivable(f'{fname}: {target} is not allocated with a shape tuple')
    return arg.elts


def _reshape_tuple(fname, target):
    fn = _func(_E, fname)
    hits = [n for n in ast.walk(fn) if isinstance(n, ast.Assign) and len(n.targets) == 1
            and ast.unparse(n.targets[0]) == target and isinstance(n.value, ast.Call)
            and ast.unparse(n.value.func) == f'{target}.reshape']
    if len(hits) != 1:
        raise Underivable(f'{fname}: expected one {target}.reshape, found {len(hits)}')
    arg = hits[0].value.args[0]
    if not isinstance(arg, ast.Tuple):
        raise Underivable(f'{fname}: reshape argument is not a tuple')
    return arg.elts


def _shape_fn(elts, allowed, what):
    lines = []
    for i, e in enumerate(elts):
        text, names = _subst(e, _SHAPE_SUBS)
        _only_names(names, allowed, what)
        lines.append(f'    if i == {i}:\n        return {text}')
    lines.append('    return 0')
    return '\n'.join(lines), len(elts)


# ---- writing the derived module -----------------------------------------------------------

_SPECS = []        # (lean name, python name, params)


def _derive():
    out = ['# DERIVED by harness/leaves/C04.py from the source tree under check - do not edit', '']

    def emit(lean, name, params, body_fn, block=False):
        try:
            body = body_fn()
            if isinstance(body, tuple):
                body = body[0]
        except Exception as exc:  # noqa: BLE001  (fail closed: any surprise = underivable)
            body = '__underivable__(' + repr(str(exc)) + ')'
            block = False
        out.append(f'def {name}({", ".join(params)}):')
        out.append(body if block and body.startswith('    ') else f'    return {body}')
        out.append('')
        _SPECS.append((lean, name, params))

    # usable-sample tests
    for lean, f in (('usableBootstrap', 'eval_bootstrap'), ('usableBootstrapPattern', 'eval_bootstrap_pattern')):
        emit(lean, 'usable_' + f, ['n_unique_pattern'],
             lambda f=f: _test01(_usable_test(f), _UNIQ, ['n_unique_pattern'], f,
                                 ['len(np.unique(pattern_idx))']))
    for lean, f in (('usableCv', 'bootstrap_crossval'), ('usableDual', 'eval_dual_bootstrap')):
        emit(lean, 'usable_' + f, ['n_unique_rdm', 'n_unique_pattern', 'k_rdm', 'k_pattern'],
             lambda f=f: _test01(_usable_test(f), _UNIQ,
                                 ['n_unique_rdm', 'n_unique_pattern', 'k_rdm', 'k_pattern'], f,
                                 list(_UNIQ)))
    emit('usableRandom', 'usable_eval_dual_bootstrap_random',
         ['n_unique_rdm', 'n_unique_pattern', 'n_rdm', 'n_pattern'],
         lambda: _test01(_usable_test('eval_dual_bootstrap_random'), _UNIQ,
                         ['n_unique_rdm', 'n_unique_pattern', 'n_rdm', 'n_pattern'], 'random',
                         list(_UNIQ)))

    # crossval: which folds are not evaluated
    def fold_nan():
        fn = _func(_E, 'crossval')
        loops = [n for n in fn.body if isinstance(n, ast.For)]
        if len(loops) != 1:
            raise Underivable('crossval: expected one loop over the folds')
        ifs = [n for n in loops[0].body if isinstance(n, ast.If)]
        if len(ifs) != 1 or 'np.nan' not in ' '.join(ast.unparse(b) for b in ifs[0].body):
            raise Underivable('crossval: the fold test is not `if too small: evals = nan`')
        subs = {'train[0].n_rdm': 'train_n_rdm', 'test[0].n_rdm': 'test_n_rdm',
                'train[0].n_cond': 'train_n_cond', 'test[0].n_cond': 'test_n_cond'}
        return _test01(ifs[0].test, subs, list(subs.values()), 'crossval', list(subs))
    emit('foldNan', 'fold_nan', ['train_n_rdm', 'test_n_rdm', 'train_n_cond', 'test_n_cond'], fold_nan)

    # which noise-ceiling function a resample gets
    def nc_dispatch(fname, params, first):
        def go():
            fn = _func(_E, fname)
            ifs = [n for n in ast.walk(fn) if isinstance(n, ast.If)
                   and any('cv_noise_ceiling' in ast.unparse(b) for b in n.body)
                   and any('boot_noise_ceiling' in ast.unparse(b) for b in n.orelse)]
            if len(ifs) != 1:
                raise Underivable(f'{fname}: expected one cv/boot noise-ceiling dispatch, found {len(ifs)}')
            return _test01(ifs[0].test, {}, params, fname)
        return go
    emit('ncDispatchCv', 'nc_dispatch_internal_cv', ['k_rdm', 'k_pattern'],
         nc_dispatch('_internal_cv', ['k_rdm', 'k_pattern'], 'cv'))
    emit('ncDispatchRandom', 'nc_dispatch_random', ['n_rdm', 'n_pattern'],
         nc_dispatch('eval_dual_bootstrap_random', ['n_rdm', 'n_pattern'], 'cv'))

    # eval_dual_bootstrap without any cross-validation
    def dual_no_cv():
        fn = _func(_E, 'eval_dual_bootstrap')
        ifs = [n for n in fn.body if isinstance(n, ast.If)
               and [ast.unparse(b) for b in n.body] == ['n_cv = 1', 'use_correction = False']]
        if len(ifs) != 1 or ifs[0].orelse:
            raise Underivable('eval_dual_bootstrap: `n_cv = 1; use_correction = False` block not found')
        return _test01(ifs[0].test, {}, ['k_rdm', 'k_pattern'], 'dual')
    emit('dualNoCv', 'dual_no_cv', ['k_rdm', 'k_pattern'], dual_no_cv)

    # the n_cv correction switch
    for lean, f in (('correctionOnCv', 'bootstrap_crossval'), ('correctionOnDual', 'eval_dual_bootstrap'),
                    ('correctionOnRandom', 'eval_dual_bootstrap_random')):
        emit(lean, 'correction_on_' + f, ['use_correction', 'n_cv'],
             lambda f=f: _test01(_correction_test(f), {}, ['use_correction', 'n_cv'], f))

    # eval_fixed: covariance only with more than one RDM
    def fixed_has_cov():
        fn = _func(_E, 'eval_fixed')
        ifs = [n for n in fn.body if isinstance(n, ast.If)
               and any(ast.unparse(b).startswith('variances = np.cov') for b in n.body)
               and any(ast.unparse(b) == 'variances = None' for b in n.orelse)]
        if len(ifs) != 1:
            raise Underivable('eval_fixed: `if data.n_rdm > 1: variances = np.cov(...) else: None` not found')
        return _test01(ifs[0].test, {'data.n_rdm': 'data_n_rdm'}, ['data_n_rdm'], 'eval_fixed',
                       ['data.n_rdm'])
    emit('fixedHasCov', 'fixed_has_cov', ['data_n_rdm'], fixed_has_cov)

    # default numbers of folds: argument of default_k_*, the single-group exception
    def k_arg(fname, var, callee):
        def go():
            fn = _func(_E, fname)
            hits = [n for n in ast.walk(fn) if isinstance(n, ast.Call)
                    and ast.unparse(n.func) == callee and len(n.args) == 1]
            if len(hits) != 1:
                raise Underivable(f'{fname}: expected one {callee}(...) call, found {len(hits)}')
            text, names = _subst(hits[0].args[0], {'np.exp(1)': 'e'}, ['np.exp(1)'])
            _only_names(names, ['e', var], fname)
            # the argument must be the number of *distinct descriptor values*
            src = [n for n in ast.walk(fn) if isinstance(n, ast.Assign) and len(n.targets) == 1
                   and ast.unparse(n.targets[0]) == var]
            desc = {'n_pattern': 'pattern', 'n_pattern_all': 'pattern', 'n_rdm': 'rdm',
                    'n_rdm_all': 'rdm'}[var]
            want = f'len(np.unique(data.{desc}_descriptors[{desc}_descriptor]))'
            if not src or ast.unparse(src[0].value) != want:
                raise Underivable(f'{fname}: {var} is not {want}')
            return text.replace(var, 'n_groups')
        return go
    for lean, f, var, callee in (
            ('kArgPatternCv', 'bootstrap_crossval', 'n_pattern', 'default_k_pattern'),
            ('kArgRdmCv', 'bootstrap_crossval', 'n_rdm', 'default_k_rdm'),
            ('kArgPatternDual', 'eval_dual_bootstrap', 'n_pattern', 'default_k_pattern'),
            ('kArgRdmDual', 'eval_dual_bootstrap', 'n_rdm', 'default_k_rdm'),
            ('kArgPatternRandom', 'eval_dual_bootstrap_random', 'n_pattern_all', 'default_k_pattern'),
            ('kArgRdmRandom', 'eval_dual_bootstrap_random', 'n_rdm_all', 'default_k_rdm')):
        emit(lean, 'k_arg_' + lean, ['e', 'n_groups'], k_arg(f, var, callee))

    def k_rdm_single():
        fn = _func(_E, 'bootstrap_crossval')
        ifs = [n for n in ast.walk(fn) if isinstance(n, ast.If)
               and [ast.unparse(b) for b in n.body] == ['k_rdm = 1']
               and any('default_k_rdm' in ast.unparse(b) for b in n.orelse)]
        if len(ifs) != 1:
            raise Underivable('bootstrap_crossval: `if n_rdm == 1: k_rdm = 1 else default` not found')
        return _test01(ifs[0].test, {'n_rdm': 'n_groups'}, ['n_groups'], 'bcv')
    emit('kRdmSingle', 'k_rdm_single', ['n_groups'], k_rdm_single)

    def random_n(var, allv, kvar):
        def go():
            fn = _func(_E, 'eval_dual_bootstrap_random')
            hits = [n for n in ast.walk(fn) if isinstance(n, ast.Assign) and len(n.targets) == 1
                    and ast.unparse(n.targets[0]) == var]
            if len(hits) != 1:
                raise Underivable(f'random: expected one assignment to {var}')
            text, names = _subst(hits[0].value, {allv: 'n_groups', kvar: 'k'}, [allv, kvar])
            _only_names(names, ['n_groups', 'k', 'int', 'np'], 'random')
            return text
        return go
    emit('randomNPattern', 'random_n_pattern', ['n_groups', 'k'],
         random_n('n_pattern', 'n_pattern_all', 'k_pattern'))
    emit('randomNRdm', 'random_n_rdm', ['n_groups', 'k'], random_n('n_rdm', 'n_rdm_all', 'k_rdm'))

    # loop bounds
    for lean, f in (('samplesBootstrap', 'eval_bootstrap'), ('samplesBootstrapPattern', 'eval_bootstrap_pattern'),
                    ('samplesBootstrapRdm', 'eval_bootstrap_rdm'), ('samplesCv', 'bootstrap_crossval'),
                    ('samplesDual', 'eval_dual_bootstrap'), ('samplesRandom', 'eval_dual_bootstrap_random')):
        def go(f=f):
            text, names = _subst(_range_arg(_sample_loop(_func(_E, f)), f), {})
            _only_names(names, ['N'], f)
            return text
        emit(lean, 'samples_' + f, ['N'], go)
    for lean, f in (('repsCv', 'bootstrap_crossval'), ('repsDual', 'eval_dual_bootstrap')):
        def go(f=f):
            loops = [n for n in _loops(_func(_E, f)) if isinstance(n.target, ast.Name)
                     and n.target.id == 'i_rep']
            if len(loops) != 1:
                raise Underivable(f'{f}: expected one repetition loop')
            text, names = _subst(_range_arg(loops[0], f), {})
            _only_names(names, ['n_cv'], f)
            return text
        emit(lean, 'reps_' + f, ['n_cv'], go)
    for lean, f in (('var1RepsCv', 'bootstrap_crossval'), ('var1RepsRandom', 'eval_dual_bootstrap_random')):
        def go(f=f):
            loops = [n for n in _loops(_func(_E, f)) if isinstance(n.target, ast.Name)
                     and n.target.id == 'i' and 'var_1.append' in ast.unparse(n)]
            if len(loops) != 1:
                raise Underivable(f'{f}: expected one var_1 loop')
            text, names = _subst(_range_arg(loops[0], f), {})
            _only_names(names, ['n_cv'], f)
            return text
        emit(lean, 'var1_reps_' + f, ['n_cv'], go)

    # the Result(...) call of every evaluator
    for tag, f in (('Fixed', 'eval_fixed'), ('Bootstrap', 'eval_bootstrap'),
                   ('BootstrapPattern', 'eval_bootstrap_pattern'), ('BootstrapRdm', 'eval_bootstrap_rdm'),
                   ('Crossval', 'crossval'), ('Cv', 'bootstrap_crossval'), ('Dual', 'eval_dual_bootstrap'),
                   ('Random', 'eval_dual_bootstrap_random')):
        emit('resCvMethod' + tag, 'res_cv_method_' + f, ['bt'], lambda f=f: _res_cv_method(f), block=True)
        for which, w in (('n_rdm', 'NRdm'), ('n_pattern', 'NPattern')):
            emit('resPassed' + w + tag, f'res_passed_{which}_{f}', ['bt', 'data_n_rdm', 'data_n_cond'],
                 lambda f=f, which=which: _res_n(f, which, False), block=True)
            emit('resAttr' + w + tag, f'res_attr_{which}_{f}', ['bt', 'data_n_rdm', 'data_n_cond'],
                 lambda f=f, which=which: _res_n(f, which, True), block=True)

    # shapes of the stored arrays
    shp = ['i', 'N', 'len_models', 'k_pattern', 'k_rdm', 'n_cv']
    for tag, f, target, getter in (
            ('EvalsCv', 'bootstrap_crossval', 'evaluations', _shape_tuple),
            ('NcCv', 'bootstrap_crossval', 'noise_ceil', _shape_tuple),
            ('EvalsDual', 'eval_dual_bootstrap', 'evaluations', _shape_tuple),
            ('NcDual', 'eval_dual_bootstrap', 'noise_ceil', _shape_tuple),
            ('EvalsRandom', 'eval_dual_bootstrap_random', 'evaluations', _shape_tuple),
            ('NcRandom', 'eval_dual_bootstrap_random', 'noise_ceil', _shape_tuple),
            ('EvalsInputCheck', 'input_check_model', 'evaluations', _shape_tuple)):
        holder = {}

        def body(f=f, target=target, getter=getter, holder=holder):
            text, n = _shape_fn(getter(f, target), shp[1:], f)
            holder['n'] = n
            return text
        emit('shape' + tag, f'shape_{target}_{f}', shp, body, block=True)
        emit('ndim' + tag, f'ndim_{target}_{f}', [],
             lambda holder=holder: str(holder['n']) if 'n' in holder else 1 / 0)
    for tag, f in (('EvalsFixed', 'eval_fixed'), ('EvalsCrossval', 'crossval')):
        holder = {}

        def body(f=f, holder=holder):
            text, n = _shape_fn(_reshape_tuple(f, 'evaluations'),
                                ['len_models', 'data_n_rdm', 'len_train_set'], f)
            holder['n'] = n
            return text
        emit('shape' + tag, f'shape_evaluations_{f}', ['i', 'len_models', 'data_n_rdm', 'len_train_set'],
             body, block=True)
        emit('ndim' + tag, f'ndim_evaluations_{f}', [],
             lambda holder=holder: str(holder['n']) if 'n' in holder else 1 / 0)

    # which object and which RDM descriptor every boot_noise_ceiling call of an evaluator uses:
    # site code = 2 * object + descriptor; object 0 = the whole data, 1 = the resample, 2 = the data
    # restricted to the fold's test conditions; descriptor 0 = 'index' (literal or default),
    # 1 = the caller's rdm_descriptor; 9 = no such call
    def nc_sites(fname):
        def go():
            fn = _func(_E, fname)
            calls = sorted((n for n in ast.walk(fn) if isinstance(n, ast.Call)
                            and ast.unparse(n.func) == 'boot_noise_ceiling'),
                           key=lambda n: (n.lineno, n.col_offset))
            lines = []
            for i, c in enumerate(calls):
                if len(c.args) != 1:
                    raise Underivable(f'{fname}: boot_noise_ceiling call {i} has not one positional argument')
                a = ast.unparse(c.args[0])
                obj = {'data': 0, 'sample': 1,
                       'rdms.subsample_pattern(by=pattern_descriptor, value=test[1])': 2}.get(a)
                if obj is None:
                    raise Underivable(f'{fname}: boot_noise_ceiling on unexpected object `{a}`')
                kw = {k.arg: ast.unparse(k.value) for k in c.keywords}
                if kw.get('method') != 'method' or set(kw) - {'method', 'rdm_descriptor'}:
                    raise Underivable(f'{fname}: unexpected keywords in boot_noise_ceiling call {i}')
                desc = {None: 0, "'index'": 0, 'rdm_descriptor': 1}.get(kw.get('rdm_descriptor'), None)
                if desc is None:
                    raise Underivable(f'{fname}: rdm_descriptor={kw.get("rdm_descriptor")}')
                lines.append(f'    if i == {i}:\n        return {2 * obj + desc}')
            cvs = [n for n in ast.walk(fn) if isinstance(n, ast.Call)
                   and ast.unparse(n.func) == 'cv_noise_ceiling']
            for c in cvs:
                t = ast.unparse(c)
                if t not in ('cv_noise_ceiling(sample, ceil_set, test_set, method=method, '
                             'pattern_descriptor=pattern_descriptor)',
                             'cv_noise_ceiling(rdms, ceil_set, test_set, method=method, '
                             'pattern_descriptor=pattern_descriptor)'):
                    raise Underivable(f'{fname}: unexpected cv_noise_ceiling call `{t}`')
            lines.append('    return 9')
            return '\n'.join(lines)
        return go
    for tag, f in (('Fixed', 'eval_fixed'), ('Bootstrap', 'eval_bootstrap'),
                   ('BootstrapPattern', 'eval_bootstrap_pattern'), ('BootstrapRdm', 'eval_bootstrap_rdm'),
                   ('Crossval', 'crossval'), ('InternalCv', '_internal_cv'),
                   ('Random', 'eval_dual_bootstrap_random')):
        emit('ncSite' + tag, 'nc_site_' + f, ['i'], nc_sites(f), block=True)

    # the helper every dof expression goes through: number of *distinct descriptor values*
    def n_groups_def():
        fn = _func(_E, '_n_groups')
        body = [b for b in fn.body if not (isinstance(b, ast.Expr) and isinstance(b.value, ast.Constant))]
        if [a.arg for a in fn.args.args] != ['descriptors', 'descriptor'] or len(body) != 1 \
                or not isinstance(body[0], ast.Return) \
                or ast.unparse(body[0].value) != 'len(np.unique(descriptors[descriptor]))':
            raise Underivable('_n_groups is no longer `len(np.unique(descriptors[descriptor]))`')
        return 'n_unique'
    emit('nGroups', 'n_groups', ['n_unique'], n_groups_def)

    def input_check_2d():
        fn = _func('util/inference_util.py', 'input_check_model')
        ifs = [n for n in fn.body if isinstance(n, ast.If)
               and any(ast.unparse(b).startswith('evaluations = np.zeros((') for b in n.body)
               and any(ast.unparse(b) == 'evaluations = np.zeros(len(models))' for b in n.orelse)]
        if len(ifs) != 1:
            raise Underivable('input_check_model: `if N > 1: zeros((N, M)) else zeros(M)` not found')
        return _test01(ifs[0].test, {}, ['N'], 'input_check_model')
    emit('inputCheck2d', 'input_check_2d', ['N'], input_check_2d)

    # round 4: in-place writes into the arguments (state that survives a call)
    def input_writes(which):
        def go():
            sys.path.insert(0, HERE)
            try:
                import importlib
                import _C04_writes
                importlib.reload(_C04_writes)
                total, stripped, _report = _C04_writes.input_writes()
            except _C04_writes.Underivable as exc:
                raise Underivable(str(exc))
            finally:
                sys.path.remove(HERE)
            return str(total if which == 0 else stripped)
        return go
    emit('evalInputWrites', 'eval_input_writes', [], input_writes(0))
    emit('testsetIndexDefaults', 'testset_index_defaults', [], input_writes(1))

    text = '\n'.join(out)
    if not (os.path.exists(DERIVED) and open(DERIVED).read() == text):
        with open(DERIVED + '.tmp', 'w') as f:
            f.write(text)
        os.replace(DERIVED + '.tmp', DERIVED)


_derive()

_E = 'inference/evaluate.py'
_G = {'groups_rdm': 'Int', 'groups_pattern': 'Int'}


def _dof(name, func, nth, count, which=('groups_rdm', 'groups_pattern')):
    return dict(name=name, file=_E, func=func, kind='assign', target='dof', nth=nth, count=count,
                params={k: _G[k] for k in which}, ret='Int')


_R = ('groups_rdm',)
_P = ('groups_pattern',)


def _corr(name, func):
    return dict(name=name, file=_E, func=func, kind='assign', target='variances', nth=0, count=2,
                params={'n_cv': 'Nat', 'var_mean': 'A', 'var_1': 'A'}, ret='A')


LEAVES = [
    dict(name='dofFixed', file=_E, func='eval_fixed', kind='assign', target='dof', nth=0, count=2,
         params={'evaluations_shape_m1': 'Int'}, ret='Int'),
    dict(name='dofFixedSingle', file=_E, func='eval_fixed', kind='assign', target='dof', nth=1,
         count=2, params={}, ret='Int'),
    _dof('dofBootstrap', 'eval_bootstrap', 0, 1),
    _dof('dofBootstrapPattern', 'eval_bootstrap_pattern', 0, 1, _P),
    _dof('dofBootstrapRdm', 'eval_bootstrap_rdm', 0, 1, _R),
    _dof('dofDual', 'eval_dual_bootstrap', 0, 1),
    _dof('dofCvBoth', 'bootstrap_crossval', 0, 3),
    _dof('dofCvPattern', 'bootstrap_crossval', 1, 3, _P),
    _dof('dofCvRdm', 'bootstrap_crossval', 2, 3, _R),
    _dof('dofRandomBoth', 'eval_dual_bootstrap_random', 0, 3),
    _dof('dofRandomPattern', 'eval_dual_bootstrap_random', 1, 3, _P),
    _dof('dofRandomRdm', 'eval_dual_bootstrap_random', 2, 3, _R),
    # (n_cv * var_mean - var_1) / (n_cv - 1)
    _corr('cvCorrection', 'bootstrap_crossval'),
    _corr('cvCorrectionDual', 'eval_dual_bootstrap'),
    _corr('cvCorrectionRandom', 'eval_dual_bootstrap_random'),
]


_A_PARAMS = {'e': 'A'}
for _lean, _py, _params in _SPECS:
    _ret = 'A' if _lean.startswith('kArg') else 'Nat'
    LEAVES.append(dict(name=_lean, file=DERIVED, func=_py, kind='func',
                       params={p: _A_PARAMS.get(p, 'Nat') for p in _params}, ret=_ret))
