# C09 leaves: the one scalar formula on the bootstrap path of the anchored files.
# RDMs.subsample builds its result from 2-d vectors, so the number of conditions of every
# RDM-resampled sample is *recovered* from the vector length by this text.
# (The `np.random.randint(0, len(select), size=len(select))` request is a call, not arithmetic:
#  it is tied at run time by comparing the recorded request with the model's `drawSpec`.)
LEAVES = [
    dict(name='nFromReduced', file='util/rdm_utils.py', func='_get_n_from_reduced_vectors',
         kind='func', params={'x_shape_1': 'Nat'}, ret='Nat'),
]
