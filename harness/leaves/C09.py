"""Leaf specs for C09 (bootstrap resampling).

Native py2lean leaf
  nFromReduced   util/rdm_utils.py:_get_n_from_reduced_vectors  (size recovery after `subsample`)

Derived leaves (round 3).  The text that matters most for C09 is not arithmetic but the *arguments of
a call* and the *order of two array statements*:

  inference/bootstrap.py   X = np.random.randint(<low>, <high>, size=<size>) ; idx = S[X]
                           with S = np.unique(<descriptor>)  or  (.., S) = add_pattern_index(..)
  util/rdm_utils.py        add_pattern_index: pattern_select = np.unique(pattern_select)
  rdm/rdms.py              subsample_pattern: fill_diagonal(.., nan) *before* m[:, sel][:, :, sel]

This module reads those statements from the source tree under check (Python `ast`), derives tiny
scalar functions from them and writes them to `harness/leaves/_C09_derived.py`; py2lean then
translates those as usual (same technique as leaves/C18.py).  Nothing is cached.  Every derivation
fails closed: an unexpected shape of the anchor (a conditional around the request, a select array
that is neither `np.unique(..)` nor the plain descriptor, a masked assignment on the matrices ...)
gives a function calling `__underivable__`, which py2lean reports as an untranslatable leaf =
broken obligation.

  req{BothR,BothP,Rdm,Pat}{Low,High,Size}(n_unique, n_items)
        the three arguments of the randint request of each of the four call sites, as a function
        of the number of distinct descriptor values and the number of items on that axis
        (`len(S)` is n_unique when S = np.unique(..), n_items when S is the descriptor itself)
  hasTest{Both,Pattern,Rdm}(n_pattern_test, n_rdm_test)
        inference/boot_testset.py: 1 if the bootstrap sample is evaluated on a test set (enough groups
        left out), from the `if len(pattern_idx_test) >= 3 and len(rdm_idx_test) >= 1:` tests, after
        checking that the left-out groups are np.setdiff1d(descriptor, drawn indices)
  entryIsNan(same)
        1 if the sample entry pairing two original conditions is forced to NaN, 0 if it is the source
        entry; `same` = 1 when the two original conditions coincide.  Derived from the fill value of
        np.fill_diagonal and from its position before the fancy-indexing statement.
"""
import ast
import os

SRC = os.environ.get('RSA_REPO_SRC', '/repo/src/rsatoolbox')
HERE = os.path.dirname(os.path.abspath(__file__))
DERIVED = os.path.join(HERE, '_C09_derived.py')


class Underivable(Exception):
    pass


def _func(path, name):
    tree = ast.parse(open(os.path.join(SRC, path)).read())
    for node in ast.walk(tree):
        if isinstance(node, ast.FunctionDef) and node.name == name:
            return node
    raise Underivable(f'{path}: function {name} not found')


def _is_randint(call):
    return isinstance(call, ast.Call) and ast.unparse(call.func) in (
        'np.random.randint', 'numpy.random.randint', 'random.randint', 'randint')


def _unique_of(e):
    """E if e is np.unique(E) (no further arguments), else None"""
    if isinstance(e, ast.Call) and ast.unparse(e.func) in ('np.unique', 'numpy.unique') \
            and len(e.args) == 1 and not e.keywords:
        return e.args[0]
    return None


def _pattern_index_kind():
    """what `add_pattern_index` returns as its second value: 'unique' | 'items'"""
    fn = _func('util/rdm_utils.py', 'add_pattern_index')
    rets = [n for n in ast.walk(fn) if isinstance(n, ast.Return)]
    if len(rets) != 1 or not isinstance(rets[0].value, ast.Tuple) or len(rets[0].value.elts) != 2 \
            or not isinstance(rets[0].value.elts[1], ast.Name):
        raise Underivable('add_pattern_index does not end in `return name, select`')
    var = rets[0].value.elts[1].id
    kind = None
    for st in fn.body:                      # top level only: a conditional assignment is a surprise
        if isinstance(st, ast.Assign) and len(st.targets) == 1 \
                and isinstance(st.targets[0], ast.Name) and st.targets[0].id == var:
            inner = _unique_of(st.value)
            if inner is not None and (ast.unparse(inner) == var and kind == 'items'
                                      or 'pattern_descriptors[' in ast.unparse(inner)):
                kind = 'unique'
            elif 'pattern_descriptors[' in ast.unparse(st.value) and isinstance(st.value, ast.Subscript):
                kind = 'items'
            else:
                raise Underivable(f'add_pattern_index: unexpected `{ast.unparse(st)}`')
    nested = [n for n in ast.walk(fn) if isinstance(n, ast.Assign) and n not in fn.body
              and any(isinstance(t, ast.Name) and t.id == var for t in n.targets)]
    if nested or kind is None:
        raise Underivable('add_pattern_index: select is assigned conditionally or never')
    return kind


def _select_kind(fn, upto, svar):
    """how the select array `svar` was built before statement number `upto`:
    returns (kind, axis) with kind 'unique' | 'items'"""
    found = None
    for st in fn.body[:upto]:
        if not isinstance(st, ast.Assign) or len(st.targets) != 1:
            continue
        t = st.targets[0]
        if isinstance(t, ast.Name) and t.id == svar:
            inner = _unique_of(st.value)
            e = inner if inner is not None else st.value
            if isinstance(e, ast.Call) and ast.unparse(e.func) in ('np.asarray', 'np.array') \
                    and len(e.args) == 1 and not e.keywords:
                e = e.args[0]
            text = ast.unparse(e)
            if not isinstance(e, ast.Subscript):
                raise Underivable(f'select `{ast.unparse(st)}` is not built from a descriptor')
            if '.rdm_descriptors[' in text:
                axis = 'rdm'
            elif '.pattern_descriptors[' in text:
                axis = 'pattern'
            else:
                raise Underivable(f'select `{ast.unparse(st)}` is not built from a descriptor')
            found = ('unique' if inner is not None else 'items', axis)
        elif isinstance(t, ast.Tuple) and len(t.elts) == 2 and isinstance(t.elts[1], ast.Name) \
                and t.elts[1].id == svar:
            if not (isinstance(st.value, ast.Call) and ast.unparse(st.value.func) == 'add_pattern_index'):
                raise Underivable(f'select `{ast.unparse(st)}` does not come from add_pattern_index')
            found = (_pattern_index_kind(), 'pattern')
    if found is None:
        raise Underivable(f'no top-level assignment to the select array {svar}')
    return found


class _LenSubst(ast.NodeTransformer):
    def __init__(self, svar, kind):
        self.svar, self.kind = svar, kind

    def visit_Call(self, node):
        t = ast.unparse(node)
        s = self.svar
        if t in (f'len(np.unique({s}))', f'np.unique({s}).size', f'len(set({s}))'):
            return ast.Name(id='n_unique', ctx=ast.Load())
        if t == f'len({s})':
            return ast.Name(id='n_unique' if self.kind == 'unique' else 'n_items', ctx=ast.Load())
        return self.generic_visit(node)

    def visit_Attribute(self, node):
        if ast.unparse(node) == f'{self.svar}.size':
            return ast.Name(id='n_unique' if self.kind == 'unique' else 'n_items', ctx=ast.Load())
        return self.generic_visit(node)

    def visit_Subscript(self, node):
        if ast.unparse(node) == f'{self.svar}.shape[0]':
            return ast.Name(id='n_unique' if self.kind == 'unique' else 'n_items', ctx=ast.Load())
        return self.generic_visit(node)


def _requests(func_name, axes):
    """[(low, high, size)] source texts (in n_unique / n_items) of the randint requests of one
    function; `axes` = the axis each request must concern, in order"""
    fn = _func('inference/bootstrap.py', func_name)
    n_all = sum(1 for n in ast.walk(fn) if _is_randint(n))
    sites = [(k, st) for k, st in enumerate(fn.body)
             if isinstance(st, ast.Assign) and len(st.targets) == 1
             and isinstance(st.targets[0], ast.Name) and _is_randint(st.value)]
    if n_all != len(axes) or len(sites) != len(axes):
        raise Underivable(f'{func_name}: expected {len(axes)} top-level randint requests, found '
                          f'{len(sites)} (of {n_all} in the function)')
    out = []
    for (k, st), axis in zip(sites, axes):
        call, tvar = st.value, st.targets[0].id
        pos, kws = list(call.args), {kw.arg: kw.value for kw in call.keywords}
        if set(kws) - {'size', 'low', 'high'}:
            raise Underivable(f'{func_name}: unexpected keyword in `{ast.unparse(call)}`')
        low = kws.get('low')
        high = kws.get('high')
        size = kws.get('size')
        if len(pos) == 1 and high is None and low is None:
            low, high = ast.Constant(value=0), pos[0]       # randint(high, size=..)
        elif len(pos) >= 2:
            low, high = pos[0], pos[1]
            if len(pos) == 3 and size is None:
                size = pos[2]
            elif len(pos) > 2:
                raise Underivable(f'{func_name}: `{ast.unparse(call)}`')
        if low is None or high is None or size is None:
            raise Underivable(f'{func_name}: cannot read low/high/size of `{ast.unparse(call)}`')
        # the drawn numbers must index the select array in the very next use:  X = S[T]
        use = None
        for st2 in fn.body[k + 1:]:
            if isinstance(st2, ast.Assign) and isinstance(st2.value, ast.Subscript) \
                    and isinstance(st2.value.value, ast.Name) \
                    and ast.unparse(st2.value.slice) == tvar:
                use = st2
                break
            if tvar in {n.id for n in ast.walk(st2) if isinstance(n, ast.Name)}:
                break
        if use is None:
            raise Underivable(f'{func_name}: the draws `{tvar}` do not index a select array next')
        svar = use.value.value.id
        kind, got_axis = _select_kind(fn, k, svar)
        if got_axis != axis:
            raise Underivable(f'{func_name}: request {len(out)} draws {got_axis} groups, expected {axis}')
        sub = _LenSubst(svar, kind)
        texts = []
        for e in (low, high, size):
            new = sub.visit(ast.parse(ast.unparse(e), mode='eval').body)
            texts.append(ast.unparse(ast.fix_missing_locations(new)))
        out.append(tuple(texts))
    return out


def _entry_is_nan():
    fn = _func('rdm/rdms.py', 'subsample_pattern')
    var = 'dissimilarities'
    i_get = i_fill = i_sel = None
    fill = None
    for k, st in enumerate(fn.body):
        if isinstance(st, ast.Assign) and len(st.targets) == 1 and ast.unparse(st.targets[0]) == var:
            t = ast.unparse(st.value)
            if t == 'self.get_matrices()':
                if i_get is not None:
                    raise Underivable('two reads of get_matrices()')
                i_get = k
            elif t.replace(' ', '') == f'{var}[:,selection][:,:,selection]':
                if i_sel is not None:
                    raise Underivable('two fancy-indexing statements')
                i_sel = k
            else:
                raise Underivable(f'unexpected `{ast.unparse(st)}`')
        elif isinstance(st, ast.For):
            body = st.body
            if ast.unparse(st.iter) == 'range(self.n_rdm)' and isinstance(st.target, ast.Name) \
                    and len(body) == 1 and isinstance(body[0], ast.Expr) \
                    and isinstance(body[0].value, ast.Call) \
                    and ast.unparse(body[0].value.func) == 'np.fill_diagonal' \
                    and len(body[0].value.args) == 2 and not body[0].value.keywords \
                    and ast.unparse(body[0].value.args[0]) == f'{var}[{st.target.id}]' \
                    and not st.orelse:
                if i_fill is not None:
                    raise Underivable('two fill_diagonal loops')
                i_fill, fill = k, ast.unparse(body[0].value.args[1])
            elif var in ast.unparse(st):
                raise Underivable(f'unexpected loop over the matrices: `{ast.unparse(st)[:60]}`')
        elif any(isinstance(n, (ast.Subscript, ast.Name)) and isinstance(getattr(n, 'ctx', None), ast.Store)
                 and var in ast.unparse(n) for n in ast.walk(st)):
            raise Underivable(f'unexpected write to the matrices: `{ast.unparse(st)[:60]}`')
    n_fill = sum(1 for n in ast.walk(fn) if isinstance(n, ast.Call)
                 and ast.unparse(n.func) == 'np.fill_diagonal')
    if None in (i_get, i_fill, i_sel) or n_fill != 1:
        raise Underivable('get_matrices / fill_diagonal loop / fancy indexing not all found once')
    if not i_get < i_fill < i_sel:
        raise Underivable('the diagonal is not filled between get_matrices() and the selection')
    if fill not in ('np.nan', 'numpy.nan', 'float("nan")', "float('nan')", 'math.nan'):
        raise Underivable(f'the diagonal is filled with `{fill}`, not NaN')
    # source diagonal := NaN, then sample[i, j] = source[sel[i], sel[j]]
    return '(1 if same == 1 else 0)'


def _has_test(func_name, axes):
    """the condition under which `bootstrap_testset*` evaluates on a test set, in terms of the
    number of left-out pattern / rdm groups; checks that the left-out groups are
    np.setdiff1d(<descriptor>, <drawn indices>)"""
    tree = ast.parse(open(os.path.join(SRC, 'inference/boot_testset.py')).read())
    fns = [n for n in ast.walk(tree) if isinstance(n, ast.FunctionDef) and n.name == func_name]
    if len(fns) != 1:
        raise Underivable(f'boot_testset.py: {func_name} not found')
    fn = fns[0]
    loops = [s for s in fn.body if isinstance(s, ast.For)]
    if len(loops) != 1:
        raise Underivable(f'{func_name}: expected one sampling loop')
    body = loops[0].body
    ifs = [s for s in body if isinstance(s, ast.If) and 'test_set' in ast.unparse(s.body)]
    if len(ifs) != 1:
        raise Underivable(f'{func_name}: the `if … test_set = …` block was not found once')
    subs = {}
    for axis in axes:
        var, drawn = f'{axis}_idx_test', f'{axis}_idx'
        hits = [s for s in body if isinstance(s, ast.Assign) and ast.unparse(s.targets[0]) == var]
        if len(hits) != 2:
            raise Underivable(f'{func_name}: expected two assignments to {var}')
        first, second = ast.unparse(hits[0].value), ast.unparse(hits[1].value)
        if f'.{axis}_descriptors[{axis}_descriptor]' not in first \
                or second != f'np.setdiff1d({var}, {drawn})':
            raise Underivable(f'{func_name}: {var} is not np.setdiff1d(descriptor, {drawn})')
        subs[f'len({var})'] = f'n_{axis}_test'

    class S(ast.NodeTransformer):
        def visit_Call(self, node):
            t = ast.unparse(node)
            if t in subs:
                return ast.Name(id=subs[t], ctx=ast.Load())
            return self.generic_visit(node)
    test = S().visit(ast.parse(ast.unparse(ifs[0].test), mode='eval').body)
    return f'(1 if {ast.unparse(ast.fix_missing_locations(test))} else 0)'


SITES = [('BothR', 'bootstrap_sample', 0), ('BothP', 'bootstrap_sample', 1),
         ('Rdm', 'bootstrap_sample_rdm', 0), ('Pat', 'bootstrap_sample_pattern', 0)]
AXES = {'bootstrap_sample': ['rdm', 'pattern'], 'bootstrap_sample_rdm': ['rdm'],
        'bootstrap_sample_pattern': ['pattern']}


def _derive():
    out = ['# DERIVED by harness/leaves/C09.py from the source tree under check - do not edit', '']

    def emit(name, params, body_fn):
        try:
            body = body_fn()
        except Exception as exc:  # noqa: BLE001  (fail closed: any surprise = underivable)
            body = '__underivable__(' + repr(str(exc)) + ')'
        out.append(f'def {name}({", ".join(params)}):')
        out.append(f'    return {body}')
        out.append('')

    cache = {}

    def req(func, k, part):
        def f():
            if func not in cache:
                try:
                    cache[func] = _requests(func, AXES[func])
                except Exception as exc:  # noqa: BLE001
                    cache[func] = exc
            if isinstance(cache[func], Exception):
                raise cache[func]
            return cache[func][k][part]
        return f

    for site, func, k in SITES:
        for part, pname in enumerate(('low', 'high', 'size')):
            emit(f'req_{site}_{pname}', ['n_unique', 'n_items'], req(func, k, part))
    emit('entry_is_nan', ['same'], _entry_is_nan)
    emit('has_test_both', ['n_pattern_test', 'n_rdm_test'],
         lambda: _has_test('bootstrap_testset', ['pattern', 'rdm']))
    emit('has_test_pattern', ['n_pattern_test', 'n_rdm_test'],
         lambda: _has_test('bootstrap_testset_pattern', ['pattern']))
    emit('has_test_rdm', ['n_pattern_test', 'n_rdm_test'],
         lambda: _has_test('bootstrap_testset_rdm', ['rdm']))

    text = '\n'.join(out)
    if not (os.path.exists(DERIVED) and open(DERIVED).read() == text):
        with open(DERIVED + '.tmp', 'w') as f:
            f.write(text)
        os.replace(DERIVED + '.tmp', DERIVED)


_derive()

_N2 = {'n_unique': 'Nat', 'n_items': 'Nat'}
LEAVES = [
    dict(name='nFromReduced', file='util/rdm_utils.py', func='_get_n_from_reduced_vectors',
         kind='func', params={'x_shape_1': 'Nat'}, ret='Nat'),
] + [
    dict(name=f'req{site}{pname.capitalize()}', file=DERIVED, func=f'req_{site}_{pname}', kind='func',
         params=_N2, ret='Nat')
    for site, _, _ in SITES for pname in ('low', 'high', 'size')
] + [
    dict(name='entryIsNan', file=DERIVED, func='entry_is_nan', kind='func',
         params={'same': 'Nat'}, ret='Nat'),
] + [
    dict(name=f'hasTest{k.capitalize()}', file=DERIVED, func=f'has_test_{k}', kind='func',
         params={'n_pattern_test': 'Nat', 'n_rdm_test': 'Nat'}, ret='Nat')
    for k in ('both', 'pattern', 'rdm')
]
