# leaves of rdm/compare.py whose exact text matters for C03 (regenerated on every run)
LEAVES = [
    # tot = (size * (size - 1)) // 2
    dict(name='tauTot', file='rdm/compare.py', func='_tau_a', kind='assign', target='tot',
         count=1, params={'size': 'Nat'}, ret='Nat'),
    # con_minus_dis = tot - xtie - ytie + ntie - 2 * dis
    dict(name='conMinusDis', file='rdm/compare.py', func='_tau_a', kind='assign',
         target='con_minus_dis', count=1,
         params={'tot': 'Int', 'xtie': 'Int', 'ytie': 'Int', 'ntie': 'Int', 'dis': 'Int'},
         ret='Int'),
    # tau = con_minus_dis / tot
    dict(name='tauRatio', file='rdm/compare.py', func='_tau_a', kind='assign', target='tau',
         nth=0, count=2, params={'con_minus_dis': 'A', 'tot': 'A'}, ret='A'),
    # tau = min(1., max(-1., tau))
    dict(name='tauClamp', file='rdm/compare.py', func='_tau_a', kind='assign', target='tau',
         nth=1, count=2, params={'tau': 'A'}, ret='A'),
]
