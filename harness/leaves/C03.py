"""Leaf specs for C03 (rdm/compare.py, util/rdm_utils.py).

Native py2lean leaves (translated straight from the current source text):
  tauTot, conMinusDis, tauRatio, tauClamp   the arithmetic of `_tau_a`
  rhoAScale                                 rho-a constant (einsum opaque)
  ckaGrandMean                              grand mean of the linear-CKA path (sum opaque)
  nFromReduced, nFromLength                 recovery of n_cond from the vector length

Round 3: array / boolean expressions outside the scalar subset of py2lean are first *derived*
from the current source text (Python `ast`) into tiny scalar functions written to
`harness/leaves/_C03_derived.py` (rewritten on every run, never cached); py2lean then translates
those as usual.  Every derivation fails closed: an unexpected shape of the anchor yields a call to
`__underivable__`, which py2lean reports as an untranslatable leaf = broken obligation.

  cosine_sel      _cosine: `sel_1 = norm_1 > 0` / `sel_2 = norm_2 > 0`      -> 1 if norm > 0 else 0
  cosine_entry    _cosine: `cos_ok /= norm_1.reshape(..)`, `cos_ok /= norm_2.reshape(..)` in both
                  branches                                                   -> (inner / n1) / n2
  getv_branch     _get_v: the if / elif / else on `sigma_k` with the three products replaced by
                  codes 0 (C Cᵀ) / 1 (C diag(σ) Cᵀ) / 2 (C Σ Cᵀ)
  cov_route       _cosine_cov_weighted: the test that sends a call to the V-solve (1) or the CKA path (0)
  half_neg        compare_bures_*: `batch_to_matrices(-vector1 / 2)`          -> -d / 2
  centre_entry    compare_bures_*: `G1 - s1 - np.transpose(s1, ..) + np.mean(s1, 2, ..)` (4 places)
  bures_clamp     _bures_similarity_first_way / _sq_bures_metric_first_way: `np.maximum(va[:, None], 0.0)`
  bures_denom_sq  `denom = np.sqrt(np.trace(A) * np.trace(B))`               -> trA * trB
  bures_ratio     `return num / denom`
  sq_bures        `return np.trace(A) + np.trace(B) - 2 * np.sum(...)`        -> trA + trB - 2 * fid
  cka_half_neg    _cov_weighting: `vector_w = -0.5 * np.c_[...]`              -> -0.5 * d
  cka_mean        _cov_weighting: `m = vector_w @ sumI / n_cond`              -> rcsum / n_cond
  cka_centre      _cov_weighting: `vector_w = vector_w - m @ sumI.T + mm`     -> w - msum + mm
  riem_gram       compare_neg_riemannian_distance: the T block `[0.5 * pairs, np.diag(-0.5 * ...)]`
                  with `pairs[pairs == -1] = 1`                              -> 0.5 * (di + dj) + -0.5 * dij
  riem_neg        _riemannian_distance: `neg_riem = -1 * theta.fun`

Round 4 (aliasing / purity of a `compare()` call, used by the reuse-session model):
  parse_alias     _parse_input_rdms: number of `return` paths that hand on an array which is not a fresh
                  copy (boolean-mask indexing `v[mask]`, `.copy()`, `np.array(..)` are fresh; a bare
                  parsed name, `np.asarray`, `.reshape`, a slice are not)          -> 0 on a pure parser
  inplace_writes  each `compare_*` function (code = position in the method list): 1 if a statement writes
                  in place (`v -= ..`, `v[..] = ..`, `out=v`, `v.sort()` ..) into `vector1` / `vector2`
                  while the name is still bound to the array `_parse_input_rdms` returned, or a helper
                  (`_cosine`, `_cov_weighting`, `_tau_a` ..) writes into its `vector*` parameters; else 0
"""
import ast
import os

SRC = os.environ.get('RSA_REPO_SRC', '/repo/src/rsatoolbox')
HERE = os.path.dirname(os.path.abspath(__file__))
DERIVED = os.path.join(HERE, '_C03_derived.py')
CMP = 'rdm/compare.py'


class Underivable(Exception):
    pass


def _func(path, name):
    tree = ast.parse(open(os.path.join(SRC, path)).read())
    for node in ast.walk(tree):
        if isinstance(node, ast.FunctionDef) and node.name == name:
            return node
    raise Underivable(f'{path}: function {name} not found')


def _assigns(fn, target):
    hits = [n for n in ast.walk(fn) if isinstance(n, ast.Assign) and len(n.targets) == 1
            and ast.unparse(n.targets[0]) == target]
    hits.sort(key=lambda n: n.lineno)
    return hits


def _one_assign(fn, target):
    hits = _assigns(fn, target)
    if len(hits) != 1:
        raise Underivable(f'expected one assignment to {target} in {fn.name}, found {len(hits)}')
    return hits[0].value


class _Subst(ast.NodeTransformer):
    """replace whole sub-expressions (matched by their unparsed text) by names"""

    def __init__(self, subs):
        self.subs = subs
        self.used = set()

    def visit(self, node):
        if isinstance(node, ast.expr):
            t = ast.unparse(node)
            if t in self.subs:
                self.used.add(t)
                return ast.Name(id=self.subs[t], ctx=ast.Load())
        return self.generic_visit(node)


def _substituted(expr, subs, allowed_names):
    tr = _Subst(subs)
    new = tr.visit(ast.parse(ast.unparse(expr), mode='eval').body)
    missing = [k for k in subs if k not in tr.used]
    if missing:
        raise Underivable(f'sub-expression(s) {missing} not found in `{ast.unparse(expr)}`')
    left = {n.id for n in ast.walk(new) if isinstance(n, ast.Name)} - set(allowed_names)
    if left:
        raise Underivable(f'unexpected names {sorted(left)} in `{ast.unparse(expr)}`')
    return ast.unparse(ast.fix_missing_locations(new))


def _rename(text, mapping):
    tree = ast.parse(text, mode='eval').body

    class R(ast.NodeTransformer):
        def visit_Name(self, node):
            return ast.Name(id=mapping.get(node.id, node.id), ctx=node.ctx)
    return ast.unparse(R().visit(tree))


# ------------------------------------------------------------------ derivations

def d_cosine_sel():
    fn = _func(CMP, '_cosine')
    s1 = _rename(ast.unparse(_one_assign(fn, 'sel_1')), {'norm_1': 'norm'})
    s2 = _rename(ast.unparse(_one_assign(fn, 'sel_2')), {'norm_2': 'norm'})
    if s1 != s2:
        raise Underivable(f'sel_1 and sel_2 use different tests: `{s1}` / `{s2}`')
    if not isinstance(ast.parse(s1, mode='eval').body, ast.Compare):
        raise Underivable(f'sel is not a comparison: `{s1}`')
    return f'(1 if {s1} else 0)'


def d_cosine_entry():
    fn = _func(CMP, '_cosine')
    top_if = [n for n in fn.body if isinstance(n, ast.If)]
    if len(top_if) != 1 or ast.unparse(top_if[0].test) != 'np.all(sel_1) and np.all(sel_2)':
        raise Underivable('the all-non-zero shortcut of _cosine was not found')
    branch_a = top_if[0].body
    branch_b = [n for n in fn.body if n.lineno > top_if[0].end_lineno]
    ops = {ast.Div: '/', ast.Mult: '*', ast.Add: '+', ast.Sub: '-'}

    def entry(stmts, names):
        expr = None
        for s in stmts:
            if isinstance(s, ast.Assign) and ast.unparse(s.targets[0]) == 'cos_ok':
                call = s.value
                if not (isinstance(call, ast.Call) and ast.unparse(call.func) == 'np.einsum'
                        and ast.unparse(call.args[0]) == "'ij,kj->ik'"
                        and [ast.unparse(a) for a in call.args[1:]] == names[:2]):
                    raise Underivable(f'unexpected inner product `{ast.unparse(call)}`')
                expr = 'inner'
            elif isinstance(s, ast.AugAssign) and ast.unparse(s.target) == 'cos_ok':
                if expr is None or type(s.op) not in ops:
                    raise Underivable('augmented assignment before the inner product / unknown operator')
                v = ast.unparse(s.value)
                if v == names[2]:
                    expr = f'({expr} {ops[type(s.op)]} n1)'
                elif v == names[3]:
                    expr = f'({expr} {ops[type(s.op)]} n2)'
                else:
                    raise Underivable(f'unexpected normaliser `{v}`')
        if expr is None:
            raise Underivable('no inner product found')
        return expr
    a = entry(branch_a, ['vector1', 'vector2', 'norm_1.reshape((-1, 1))', 'norm_2.reshape((1, -1))'])
    b = entry(branch_b, ['vector1[sel_1]', 'vector2[sel_2]', 'norm_1[sel_1].reshape((-1, 1))',
                         'norm_2[sel_2].reshape((1, -1))'])
    if a != b:
        raise Underivable(f'the two branches of _cosine normalise differently: {a} / {b}')
    for k, want in (('norm_1', "np.sqrt(np.einsum('ij,ij->i', vector1, vector1))"),
                    ('norm_2', "np.sqrt(np.einsum('ij,ij->i', vector2, vector2))")):
        got = ast.unparse(_one_assign(fn, k))
        if got != want:
            raise Underivable(f'{k} is `{got}`')
    return a


_XI = {'xi = c_mat @ c_mat.transpose()': 0,
       'sigma_k = scipy.sparse.diags(sigma_k)\nxi = c_mat @ sigma_k @ c_mat.transpose()': 1,
       'sigma_k = scipy.sparse.csr_matrix(sigma_k)\nxi = c_mat @ sigma_k @ c_mat.transpose()': 2}


def d_getv_branch():
    fn = _func(CMP, '_get_v')
    ifs = [n for n in fn.body if isinstance(n, ast.If)]
    if len(ifs) != 1:
        raise Underivable('expected one if-statement in _get_v')
    if ast.unparse(_one_assign(fn, 'v')) != 'xi.multiply(xi).tocsc()':
        raise Underivable('v is not the element-wise square of xi')

    def code(stmts):
        t = '\n'.join(ast.unparse(s) for s in stmts)
        if t not in _XI:
            raise Underivable(f'unknown branch body `{t}`')
        return _XI[t]

    def render(node, ind):
        pad = ' ' * ind
        out = [f'{pad}if {ast.unparse(node.test)}:', f'{pad}    return {code(node.body)}']
        if len(node.orelse) == 1 and isinstance(node.orelse[0], ast.If):
            out += [f'{pad}else:'] + render(node.orelse[0], ind + 4)
        else:
            out += [f'{pad}else:', f'{pad}    return {code(node.orelse)}']
        return out
    return '\n'.join(render(ifs[0], 4))


def d_cov_route():
    fn = _func(CMP, '_cosine_cov_weighted')
    ifs = [n for n in fn.body if isinstance(n, ast.If)]
    if len(ifs) != 1:
        raise Underivable('expected one if-statement in _cosine_cov_weighted')
    body, orelse = ast.unparse(ifs[0].body), '\n'.join(ast.unparse(s) for s in ifs[0].orelse)
    if '_cosine_cov_weighted_slow(' not in body or '_cov_weighting(' in body:
        raise Underivable('first branch is not the V-solve')
    if '_cov_weighting(' not in orelse or '_cosine_cov_weighted_slow(' in orelse:
        raise Underivable('second branch is not the CKA path')
    return f'(1 if {ast.unparse(ifs[0].test)} else 0)'


def _bures_funcs():
    return [_func(CMP, 'compare_bures_similarity'), _func(CMP, 'compare_bures_metric')]


def d_half_neg():
    outs = set()
    for fn in _bures_funcs():
        for k in ('1', '2'):
            hits = [n for n in ast.walk(fn) if isinstance(n, ast.Assign)
                    and ast.unparse(n.targets[0]) == f'(G{k}, _, _)']
            if len(hits) != 1:
                raise Underivable(f'kernel construction G{k} not found in {fn.name}')
            call = hits[0].value
            if not (isinstance(call, ast.Call) and ast.unparse(call.func) == 'batch_to_matrices'
                    and len(call.args) == 1):
                raise Underivable(f'G{k} is not batch_to_matrices(...)')
            outs.add(_substituted(call.args[0], {f'vector{k}': 'd'}, ['d']))
    if len(outs) != 1:
        raise Underivable(f'kernels are built differently: {sorted(outs)}')
    return outs.pop()


def d_centre_entry():
    outs = set()
    for fn in _bures_funcs():
        for k in ('1', '2'):
            s = ast.unparse(_one_assign(fn, f's{k}'))
            if s != f'np.mean(G{k}, 1, keepdims=True)':
                raise Underivable(f's{k} is `{s}`')
            val = _one_assign(fn, f'G{k}')
            outs.add(_substituted(val, {f'np.transpose(s{k}, (0, 2, 1))': 'si',
                                        f'np.mean(s{k}, 2, keepdims=True)': 'mm',
                                        f'G{k}': 'g', f's{k}': 'sj'}, ['g', 'sj', 'si', 'mm']))
    if len(outs) != 1:
        raise Underivable(f'kernels are centred differently: {sorted(outs)}')
    return outs.pop()


def _first_way():
    return [_func(CMP, '_bures_similarity_first_way'), _func(CMP, '_sq_bures_metric_first_way')]


def d_bures_clamp():
    outs = set()
    for fn in _first_way():
        asq = _one_assign(fn, 'Asq')
        calls = [n for n in ast.walk(asq) if isinstance(n, ast.Call) and ast.unparse(n.func) == 'np.maximum']
        if len(calls) != 1 or len(calls[0].args) != 2:
            raise Underivable(f'no single np.maximum in Asq of {fn.name}')
        outs.add('max(' + ', '.join('v' if ast.unparse(a) == 'va[:, None]' else ast.unparse(a)
                                     for a in calls[0].args) + ')')
        rest = ast.unparse(asq).replace(ast.unparse(calls[0]), 'CL')
        if rest != 'ua @ (np.sqrt(CL) * ua.T)':
            raise Underivable(f'Asq is `{ast.unparse(asq)}`')
        # the clamp of the eigenvalues of Asq B Asq
        ev = [n for n in ast.walk(fn) if isinstance(n, ast.Call) and ast.unparse(n.func) == 'np.maximum'
              and 'eigvalsh' in ast.unparse(n)]
        if len(ev) != 1:
            raise Underivable('clamp of the eigenvalues of Asq B Asq not found')
        outs.add('max(' + ', '.join('v' if 'eigvalsh' in ast.unparse(a) else ast.unparse(a)
                                     for a in ev[0].args) + ')')
        inner = [ast.unparse(a) for a in ev[0].args if 'eigvalsh' in ast.unparse(a)]
        if inner != ['np.linalg.eigvalsh(Asq @ B @ Asq)']:
            raise Underivable(f'unexpected eigenvalue problem {inner}')
    norm = {o.replace('0.0, v', 'v, 0.0') for o in outs}
    if len(norm) != 1:
        raise Underivable(f'different clamps: {sorted(outs)}')
    return norm.pop()


def d_bures_denom_sq():
    fn = _func(CMP, '_bures_similarity_first_way')
    den = _one_assign(fn, 'denom')
    if not (isinstance(den, ast.Call) and ast.unparse(den.func) == 'np.sqrt' and len(den.args) == 1):
        raise Underivable(f'denom is `{ast.unparse(den)}`')
    return _substituted(den.args[0], {'np.trace(A)': 'trA', 'np.trace(B)': 'trB'}, ['trA', 'trB'])


def _ret(fn):
    rets = [n for n in ast.walk(fn) if isinstance(n, ast.Return)]
    if len(rets) != 1:
        raise Underivable(f'expected one return in {fn.name}')
    return rets[0].value


def d_bures_ratio():
    fn = _func(CMP, '_bures_similarity_first_way')
    num = ast.unparse(_one_assign(fn, 'num'))
    if num != 'np.sum(np.sqrt(np.maximum(np.linalg.eigvalsh(Asq @ B @ Asq), 0.0)))':
        raise Underivable(f'num is `{num}`')
    return _substituted(_ret(fn), {}, ['num', 'denom'])


def d_sq_bures():
    fn = _func(CMP, '_sq_bures_metric_first_way')
    return _substituted(_ret(fn), {
        'np.trace(A)': 'trA', 'np.trace(B)': 'trB',
        'np.sum(np.sqrt(np.maximum(0.0, np.linalg.eigvalsh(Asq @ B @ Asq))))': 'fid'},
        ['trA', 'trB', 'fid'])


def d_cka_half_neg():
    fn = _func(CMP, '_cov_weighting')
    hits = _assigns(fn, 'vector_w')
    if not hits:
        raise Underivable('vector_w not assigned')
    return _substituted(hits[0].value, {'np.c_[vector, np.zeros((N, n_cond))]': 'd'}, ['d'])


def d_cka_mean():
    fn = _func(CMP, '_cov_weighting')
    if ast.unparse(_assigns(fn, 'sumI')[0].value) != 'rowI + colI':
        raise Underivable('sumI is not rowI + colI')
    return _substituted(_one_assign(fn, 'm'), {'vector_w @ sumI': 'rcsum'}, ['rcsum', 'n_cond'])


def d_cka_centre():
    fn = _func(CMP, '_cov_weighting')
    hits = _assigns(fn, 'vector_w')
    if len(hits) < 2:
        raise Underivable('centring assignment to vector_w not found')
    return _substituted(hits[1].value, {'m @ sumI.T': 'msum', 'vector_w': 'w'}, ['w', 'msum', 'mm'])


def d_riem_gram():
    fn = _func(CMP, 'compare_neg_riemannian_distance')
    t = _one_assign(fn, 'T')
    want_shape = ('np.block([[np.eye(n_cond - 1), np.zeros((n_cond - 1, vector1.shape[1] - n_cond + 1))], '
                  '[C1 * pairs, np.diag(C2 * np.ones(vector1.shape[1] - n_cond + 1))]])')
    rows = t.args[0].elts if isinstance(t, ast.Call) and t.args and isinstance(t.args[0], ast.List) else None
    if rows is None or len(rows) != 2 or not isinstance(rows[1], ast.List) or len(rows[1].elts) != 2:
        raise Underivable('T is not a 2 x 2 block matrix')
    left, right = rows[1].elts
    if not (isinstance(left, ast.BinOp) and isinstance(left.op, ast.Mult) and ast.unparse(left.right) == 'pairs'):
        raise Underivable(f'lower-left block is `{ast.unparse(left)}`')
    c1 = ast.unparse(left.left)
    if not (isinstance(right, ast.Call) and ast.unparse(right.func) == 'np.diag'
            and isinstance(right.args[0], ast.BinOp) and isinstance(right.args[0].op, ast.Mult)
            and ast.unparse(right.args[0].right).startswith('np.ones(')):
        raise Underivable(f'lower-right block is `{ast.unparse(right)}`')
    c2 = ast.unparse(right.args[0].left)
    if ast.unparse(t) != want_shape.replace('C1', c1).replace('C2', c2):
        raise Underivable(f'T is `{ast.unparse(t)}`')
    if ast.unparse(_one_assign(fn, 'pairs')) != 'pairwise_contrast(np.arange(n_cond - 1))':
        raise Underivable('pairs is not the pairwise contrast of the n-1 remaining conditions')
    masked = [n for n in ast.walk(fn) if isinstance(n, ast.Assign)
              and ast.unparse(n.targets[0]) == 'pairs[pairs == -1]']
    sign = '+'
    if len(masked) != 1:
        sign = '-'                      # without the mask the contrast rows are e_i - e_j
    elif ast.unparse(masked[0].value) != '1':
        raise Underivable(f'pairs[pairs == -1] = {ast.unparse(masked[0].value)}')
    for k in ('1', '2'):
        if ast.unparse(_one_assign(fn, f'vec_G{k}')) != f'vector{k} @ np.transpose(T)':
            raise Underivable(f'vec_G{k} is not vector{k} @ T.T')
    return f'{c1} * (di {sign} dj) + {c2} * dij'


def d_riem_neg():
    fn = _func(CMP, '_riemannian_distance')
    v = _one_assign(fn, 'neg_riem')
    if ast.unparse(_one_assign(fn, 'theta')) != "minimize(fun, (0, 0), method='Nelder-Mead')":
        raise Underivable('theta is not the Nelder-Mead minimiser started at (0, 0)')
    if isinstance(v, ast.BinOp) and isinstance(v.op, ast.Mult) and isinstance(v.left, ast.UnaryOp) \
            and isinstance(v.left.op, ast.USub) and isinstance(v.left.operand, ast.Constant):
        # `-c * x` is read as `-(c * x)` (py2lean types a bare negative literal as an integer)
        return '-(' + ast.unparse(v.left.operand) + ' * ' + \
            _substituted(v.right, {'theta.fun': 'f'}, ['f']) + ')'
    return _substituted(v, {'theta.fun': 'f'}, ['f'])


def _strip_sum(e):
    if not (isinstance(e, ast.Call) and isinstance(e.func, ast.Attribute) and e.func.attr == 'sum'
            and not e.args and not e.keywords):
        raise Underivable(f'`{ast.unparse(e)}` is not `(...).sum()`')
    return e.func.value


def d_run_tie():
    fn = _func(CMP, '_tau_a')
    cnt = ast.unparse(_one_assign(fn, 'cnt'))
    if cnt != "np.diff(np.nonzero(obs)[0]).astype('int64', copy=False)":
        raise Underivable(f'cnt is `{cnt}`')
    obs = ast.unparse(_one_assign(fn, 'obs'))
    if obs != 'np.r_[True, (vector1[1:] != vector1[:-1]) | (vector2[1:] != vector2[:-1]), True]':
        raise Underivable(f'obs is `{obs}`')
    return _substituted(_strip_sum(_one_assign(fn, 'ntie')), {}, ['cnt'])


def d_rank_tie():
    fn = _func(CMP, '_count_rank_tie')
    hits = _assigns(fn, 'cnt')
    if len(hits) != 2 or ast.unparse(hits[0].value) != "np.bincount(ranks).astype('int64', copy=False)":
        raise Underivable('cnt is not the bincount of the ranks')
    r = _ret(fn)
    if not isinstance(r, ast.Tuple) or not r.elts:
        raise Underivable('_count_rank_tie does not return a tuple')
    return _substituted(_strip_sum(r.elts[0]), {}, ['cnt'])


def d_rank_tie_keep():
    fn = _func(CMP, '_count_rank_tie')
    hits = _assigns(fn, 'cnt')
    if len(hits) != 2:
        raise Underivable('expected two assignments to cnt')
    v = hits[1].value
    if not (isinstance(v, ast.Subscript) and ast.unparse(v.value) == 'cnt' and isinstance(v.slice, ast.Compare)):
        raise Underivable(f'filter is `{ast.unparse(v)}`')
    return f'(1 if {ast.unparse(v.slice)} else 0)'


# ---- round 4: aliasing / in-place writes (purity of a call)

_FRESH_CALLS = ('np.array', 'np.copy', 'np.ascontiguousarray_copy')


def _is_fresh_expr(fn, e, depth=0):
    """does evaluating `e` always create a new array (never a view / the operand itself)?"""
    if isinstance(e, ast.BinOp) or isinstance(e, ast.UnaryOp):
        return True                                   # arithmetic allocates its result
    if isinstance(e, ast.Call):
        f = ast.unparse(e.func)
        if any(k.arg == 'out' for k in e.keywords):
            return False
        if f in _FRESH_CALLS or f == 'np.apply_along_axis':
            return not any(k.arg == 'copy' for k in e.keywords)
        if isinstance(e.func, ast.Attribute) and e.func.attr == 'copy' and not e.args:
            return True
        if isinstance(e.func, ast.Attribute) and e.func.attr == 'reshape':
            return _is_fresh_expr(fn, e.func.value, depth)      # a view of something fresh
        return False
    if isinstance(e, ast.Subscript):
        # advanced indexing with a boolean mask copies; the mask must be `~np.isnan(..)` of the function
        idx = e.slice
        if isinstance(idx, ast.Name):
            src = _assigns(fn, idx.id)
            if len(src) == 1 and ast.unparse(src[0].value).startswith('~np.isnan('):
                return True
        return False
    if isinstance(e, ast.Name) and depth < 3:
        src = _assigns(fn, e.id)
        if len(src) == 1:
            return _is_fresh_expr(fn, src[0].value, depth + 1)
    return False


def d_parse_alias():
    fn = _func(CMP, '_parse_input_rdms')
    rets = [n for n in ast.walk(fn) if isinstance(n, ast.Return)]
    if not rets:
        raise Underivable('_parse_input_rdms has no return')
    bad = 0
    for r in rets:
        if not (isinstance(r.value, ast.Tuple) and len(r.value.elts) == 3):
            raise Underivable(f'unexpected return `{ast.unparse(r)}`')
        if not all(_is_fresh_expr(fn, e) for e in r.value.elts[:2]):
            bad += 1
    return str(bad)


_CMP_FUNCS = ['compare_cosine', 'compare_correlation', 'compare_spearman', 'compare_kendall_tau',
              'compare_kendall_tau', 'compare_kendall_tau_a', 'compare_rho_a',
              'compare_correlation_cov_weighted', 'compare_cosine_cov_weighted',
              'compare_bures_similarity', 'compare_bures_metric', 'compare_neg_riemannian_distance']
_MUTATORS = ('sort', 'fill', 'resize', 'put', 'itemset', 'partition', 'setfield', 'byteswap')


_HELPERS = ['_all_combinations', '_cosine_cov_weighted_slow', '_cosine_cov_weighted', '_cov_weighting',
            '_cosine', '_kendall_tau', '_tau_a', '_sort_and_rank']


def _inplace_writes(name, helper=False):
    """1 if `name` writes in place into vector1 / vector2 while they are the parsed arrays
    (helper=True: into its own `vector*` parameters, which are the parsed arrays of its callers)"""
    fn = _func(CMP, name)
    parsed = set()
    seen_parse = False
    writes = 0
    if helper:
        parsed = {a.arg for a in fn.args.args if a.arg.startswith('vector')}
        if not parsed:
            raise Underivable(f'{name} has no vector parameter')
        seen_parse = True

    def base(t):
        while isinstance(t, (ast.Subscript, ast.Attribute)):
            t = t.value
        return t.id if isinstance(t, ast.Name) else None

    def flat(stmts):
        for st in stmts:
            if isinstance(st, (ast.If, ast.For, ast.While, ast.With)):
                hdr = st.test if isinstance(st, (ast.If, ast.While)) else None
                if hdr is not None:
                    yield ast.Expr(value=hdr)
                yield from flat(st.body)
                yield from flat(getattr(st, 'orelse', []))
            else:
                yield st
    for st in flat(fn.body):
        if isinstance(st, ast.Expr) and isinstance(st.value, ast.Constant):
            continue                                        # docstring
        if not isinstance(st, (ast.Assign, ast.AugAssign, ast.Return, ast.Expr, ast.Raise, ast.Assert,
                               ast.Pass)):
            raise Underivable(f'{name}: unexpected statement `{ast.unparse(st)[:60]}`')
        # calls that write through `out=` or a mutating method, anywhere in the statement
        for c in [n for n in ast.walk(st) if isinstance(n, ast.Call)]:
            for k in c.keywords:
                if k.arg == 'out' and base(k.value) in parsed:
                    writes += 1
            if isinstance(c.func, ast.Attribute) and c.func.attr in _MUTATORS and base(c.func.value) in parsed:
                writes += 1
            if ast.unparse(c.func) in ('np.putmask', 'np.place', 'np.copyto', 'np.put') and c.args \
                    and base(c.args[0]) in parsed:
                writes += 1
        if isinstance(st, ast.AugAssign):
            if base(st.target) in parsed:
                writes += 1
        elif isinstance(st, ast.Assign):
            for t in st.targets:
                if isinstance(t, ast.Tuple):
                    if ast.unparse(st.value).startswith('_parse_input_rdms('):
                        names = [e.id for e in t.elts if isinstance(e, ast.Name)]
                        parsed.update(names[:2])
                        seen_parse = True
                    else:
                        for e in t.elts:
                            if isinstance(e, ast.Name):
                                parsed.discard(e.id)
                elif isinstance(t, ast.Name):
                    if t.id in parsed and _is_fresh_expr(fn, st.value):
                        parsed.discard(t.id)              # rebound to a new array
                    elif base(st.value) in parsed and not _is_fresh_expr(fn, st.value):
                        parsed.add(t.id)                  # another name for (a view of) the parsed array
                elif base(t) in parsed:
                    writes += 1                           # v[...] = ...
    if not seen_parse:
        raise Underivable(f'{name} does not call _parse_input_rdms')
    return 1 if writes else 0


def d_inplace_writes():
    # a helper that writes into its vector parameters taints every method (conservative)
    taint = 1 if any(_inplace_writes(h, helper=True) for h in _HELPERS) else 0
    vals = [max(taint, _inplace_writes(f)) for f in _CMP_FUNCS]
    lines, ind = [], 4
    for k, v in enumerate(vals[:-1]):
        pad = ' ' * ind
        lines += [f'{pad}if code == {k}:', f'{pad}    return {v}', f'{pad}else:']
        ind += 4
    lines.append(' ' * ind + f'return {vals[-1]}')
    return '\n'.join(lines)


def _derive():
    out = ['# DERIVED by harness/leaves/C03.py from the source tree under check - do not edit', '']

    def emit(name, params, body_fn, block=False):
        try:
            body = body_fn()
        except Exception as exc:  # noqa: BLE001  (fail closed: any surprise = underivable)
            body, block = '__underivable__(' + repr(str(exc)) + ')', False
        out.append(f'def {name}({", ".join(params)}):')
        out.append(body if block else f'    return {body}')
        out.append('')

    emit('cosine_sel', ['norm'], d_cosine_sel)
    emit('cosine_entry', ['inner', 'n1', 'n2'], d_cosine_entry)
    emit('getv_branch', ['sigma_k'], d_getv_branch, block=True)
    emit('cov_route', ['sigma_k'], d_cov_route)
    emit('half_neg', ['d'], d_half_neg)
    emit('centre_entry', ['g', 'sj', 'si', 'mm'], d_centre_entry)
    emit('bures_clamp', ['v'], d_bures_clamp)
    emit('bures_denom_sq', ['trA', 'trB'], d_bures_denom_sq)
    emit('bures_ratio', ['num', 'denom'], d_bures_ratio)
    emit('sq_bures', ['trA', 'trB', 'fid'], d_sq_bures)
    emit('cka_half_neg', ['d'], d_cka_half_neg)
    emit('cka_mean', ['rcsum', 'n_cond'], d_cka_mean)
    emit('cka_centre', ['w', 'msum', 'mm'], d_cka_centre)
    emit('run_tie', ['cnt'], d_run_tie)
    emit('rank_tie', ['cnt'], d_rank_tie)
    emit('rank_tie_keep', ['cnt'], d_rank_tie_keep)
    emit('riem_gram', ['di', 'dj', 'dij'], d_riem_gram)
    emit('riem_neg', ['f'], d_riem_neg)
    emit('parse_alias', ['n_rdm'], d_parse_alias)
    emit('inplace_writes', ['code'], d_inplace_writes, block=True)

    text = '\n'.join(out)
    if not (os.path.exists(DERIVED) and open(DERIVED).read() == text):
        with open(DERIVED + '.tmp', 'w') as f:
            f.write(text)
        os.replace(DERIVED + '.tmp', DERIVED)


_derive()


def _d(name, func, params, ret='A', **kw):
    return dict(name=name, file=DERIVED, func=func, kind='func', params=params, ret=ret, **kw)


# leaves of rdm/compare.py whose exact text matters for C03 (regenerated on every run)
LEAVES = [
    # tot = (size * (size - 1)) // 2
    dict(name='tauTot', file='rdm/compare.py', func='_tau_a', kind='assign', target='tot',
         count=1, params={'size': 'Nat'}, ret='Nat'),
    # con_minus_dis = tot - xtie - ytie + ntie - 2 * dis
    dict(name='conMinusDis', file='rdm/compare.py', func='_tau_a', kind='assign',
         target='con_minus_dis', count=1,
         params={'tot': 'Int', 'xtie': 'Int', 'ytie': 'Int', 'ntie': 'Int', 'dis': 'Int'},
         ret='Int'),
    # tau = con_minus_dis / tot
    dict(name='tauRatio', file='rdm/compare.py', func='_tau_a', kind='assign', target='tau',
         nth=0, count=2, params={'con_minus_dis': 'A', 'tot': 'A'}, ret='A'),
    # tau = min(1., max(-1., tau))
    dict(name='tauClamp', file='rdm/compare.py', func='_tau_a', kind='assign', target='tau',
         nth=1, count=2, params={'tau': 'A'}, ret='A'),
    # sim = np.einsum('ij,kj->ik', vector1, vector2) / (n ** 3 - n) * 12   (rho-a constant)
    dict(name='rhoAScale', file='rdm/compare.py', func='compare_rho_a', kind='assign', target='sim',
         count=1, params={'inner': 'A', 'n': 'A'}, ret='A',
         opaque={"np.einsum('ij,kj->ik', vector1, vector2)": 'inner'}),
    # linear-CKA fast path: mm = np.sum(vector_w * 2, ...) / (n_cond * n_cond)
    dict(name='ckaGrandMean', file='rdm/compare.py', func='_cov_weighting', kind='assign', target='mm',
         count=1, params={'total2': 'A', 'n_cond': 'A'}, ret='A',
         opaque={"np.sum(vector_w * 2, axis=1, keepdims=True)": 'total2'}),
    # ---- round 3
    # recovery of the number of conditions from the vector length
    dict(name='nFromReduced', file='util/rdm_utils.py', func='_get_n_from_reduced_vectors',
         kind='func', params={'x_shape_1': 'Nat'}, ret='Nat'),
    dict(name='nFromLength', file='util/rdm_utils.py', func='_get_n_from_length',
         kind='func', params={'n': 'Nat'}, ret='Nat'),
    # derived
    _d('cosineSel', 'cosine_sel', {'norm': 'A'}, ret='Nat'),
    _d('cosineEntry', 'cosine_entry', {'inner': 'A', 'n1': 'A', 'n2': 'A'}),
    _d('runTie', 'run_tie', {'cnt': 'Nat'}, ret='Nat'),
    _d('rankTie', 'rank_tie', {'cnt': 'Nat'}, ret='Nat'),
    _d('rankTieKeep', 'rank_tie_keep', {'cnt': 'Nat'}, ret='Nat'),
    _d('getVBranchNone', 'getv_branch', {'sigma_k': 'Nat', 'sigma_k_ndim': 'Nat'}, ret='Nat', none=['sigma_k']),
    _d('getVBranch', 'getv_branch', {'sigma_k': 'Nat', 'sigma_k_ndim': 'Nat'}, ret='Nat'),
    _d('covRouteNone', 'cov_route', {'sigma_k': 'Nat', 'sigma_k_ndim': 'Nat'}, ret='Nat', none=['sigma_k']),
    _d('covRoute', 'cov_route', {'sigma_k': 'Nat', 'sigma_k_ndim': 'Nat'}, ret='Nat'),
    _d('halfNeg', 'half_neg', {'d': 'A'}),
    _d('centreEntry', 'centre_entry', {'g': 'A', 'sj': 'A', 'si': 'A', 'mm': 'A'}),
    _d('buresClamp', 'bures_clamp', {'v': 'A'}),
    _d('buresDenomSq', 'bures_denom_sq', {'trA': 'A', 'trB': 'A'}),
    _d('buresRatio', 'bures_ratio', {'num': 'A', 'denom': 'A'}),
    _d('sqBures', 'sq_bures', {'trA': 'A', 'trB': 'A', 'fid': 'A'}),
    _d('ckaHalfNeg', 'cka_half_neg', {'d': 'A'}),
    _d('ckaMean', 'cka_mean', {'rcsum': 'A', 'n_cond': 'A'}),
    _d('ckaCentre', 'cka_centre', {'w': 'A', 'msum': 'A', 'mm': 'A'}),
    _d('riemGram', 'riem_gram', {'di': 'A', 'dj': 'A', 'dij': 'A'}),
    _d('riemNeg', 'riem_neg', {'f': 'A'}),
    # ---- round 4
    _d('parseAlias', 'parse_alias', {'n_rdm': 'Nat'}, ret='Nat'),
    _d('inplaceWrites', 'inplace_writes', {'code': 'Nat'}, ret='Nat'),
]
