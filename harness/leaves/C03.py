# leaves of rdm/compare.py whose exact text matters for C03 (regenerated on every run)
LEAVES = [
    # tot = (size * (size - 1)) // 2
    dict(name='tauTot', file='rdm/compare.py', func='_tau_a', kind='assign', target='tot',
         count=1, params={'size': 'Nat'}, ret='Nat'),
    # con_minus_dis = tot - xtie - ytie + ntie - 2 * dis
    dict(name='conMinusDis', file='rdm/compare.py', func='_tau_a', kind='assign',
         target='con_minus_dis', count=1,
         params={'tot': 'Int', 'xtie': 'Int', 'ytie': 'Int', 'ntie': 'Int', 'dis': 'Int'},
         ret='Int'),
    # tau = con_minus_dis / tot
    dict(name='tauRatio', file='rdm/compare.py', func='_tau_a', kind='assign', target='tau',
         nth=0, count=2, params={'con_minus_dis': 'A', 'tot': 'A'}, ret='A'),
    # tau = min(1., max(-1., tau))
    dict(name='tauClamp', file='rdm/compare.py', func='_tau_a', kind='assign', target='tau',
         nth=1, count=2, params={'tau': 'A'}, ret='A'),
    # sim = np.einsum('ij,kj->ik', vector1, vector2) / (n ** 3 - n) * 12   (rho-a constant)
    dict(name='rhoAScale', file='rdm/compare.py', func='compare_rho_a', kind='assign', target='sim',
         count=1, params={'inner': 'A', 'n': 'A'}, ret='A',
         opaque={"np.einsum('ij,kj->ik', vector1, vector2)": 'inner'}),
    # linear-CKA fast path: mm = np.sum(vector_w * 2, ...) / (n_cond * n_cond)
    # (`m = vector_w @ sumI / n_cond` is a matrix product, not a call: cannot be made opaque)
    dict(name='ckaGrandMean', file='rdm/compare.py', func='_cov_weighting', kind='assign', target='mm',
         count=1, params={'total2': 'A', 'n_cond': 'A'}, ret='A',
         opaque={"np.sum(vector_w * 2, axis=1, keepdims=True)": 'total2'}),
]
