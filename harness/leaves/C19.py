"""Leaf specs of property C19 (decision / arithmetic text of util/searchlight.py).

Every scalar decision of the searchlight code sits inside an expression that is neither a whole
function nor the right-hand side of an assignment (`x = x[abs(x - cx) < radius]`,
`data[distance < radius]`, `if mask[neighbors].mean() >= threshold:`, `if n_centers > 1000:`,
`np.zeros((n_centers, n_conds * (n_conds - 1) // 2))`), so the two native leaf kinds `func` and
`assign` cannot anchor them.  Two leaf kinds are therefore added here, from the outside and purely
additively (specs of other kinds go to the unchanged translator; the expression language, typing
and the native `opaque` option are the translator's own `Tr` class):

  kind 'cmp'   the comparison whose source text (`ast.unparse`) is `text`, inside `func`
               -> `decide (<translated comparison>)`, ret 'Bool'; with `lhs` / `rhs` instead of
               `text`: the comparison between these two operand texts whatever its operator
               (round 3: `<` -> `<=` then yields a *translatable* leaf that no longer satisfies
               `radius_test_leaf` / `neighbors_exact` / `accept_leaf` …, instead of a stub)
  kind 'expr'  the (sub-)expression whose source text is `text`, inside `func`
  `count`      required number of occurrences of that text in the function (default 1)
  kind 'nargs' (round 4) the single call of `call` (e.g. `np.zeros`) inside `func`: the number of its
               arguments beyond the first positional one, keywords included, as a `Nat` constant
               (`np.zeros(shape)` -> 0: numpy's default float64 buffer; `np.zeros(shape, dtype=…)` -> 1)

If the text no longer occurs (operator, operand or constant edited) the leaf is untranslatable and
run_check reports the broken obligation.  Wish (notes/C19.md): move both kinds into py2lean.py.
"""
import ast
import os
import sys


def _translator_module():
    for name in ('py2lean', '__main__'):
        m = sys.modules.get(name)
        if m is not None and hasattr(m, 'Tr') and hasattr(m, 'translate_leaf'):
            return m
    return None


def _install():
    m = _translator_module()
    if m is None or getattr(m.translate_leaf, '_c19_kinds', False):
        return
    base = m.translate_leaf

    def translate_leaf(spec):
        if spec.get('kind') not in ('cmp', 'expr', 'nargs'):
            return base(spec)
        text = open(os.path.join(m.REPO_SRC, spec['file'])).read()
        fn = m.find_func(ast.parse(text), spec['func'])
        if fn is None:
            raise m.Untranslatable(f"anchor {spec['func']} not found")
        if spec['kind'] == 'nargs':
            calls = [n for n in ast.walk(fn) if isinstance(n, ast.Call) and ast.unparse(n.func) == spec['call']]
            if len(calls) != 1:
                raise m.Untranslatable(f"expected 1 call of `{spec['call']}` in {spec['func']}, found {len(calls)}")
            c = calls[0]
            if not c.args or any(isinstance(a, ast.Starred) for a in c.args) or any(k.arg is None for k in c.keywords):
                raise m.Untranslatable(f"`{spec['call']}` is not called with a plain first argument")
            if spec['ret'] != 'Nat':
                raise m.Untranslatable('an nargs leaf returns Nat')
            return f'({len(c.args) - 1 + len(c.keywords)} : Nat)'
        if spec['kind'] == 'cmp' and 'lhs' in spec:
            # the comparison between two given operands, *whatever its operator*: an edited
            # operator still translates, and the theorems that use the leaf stop to hold
            hits = [n for n in ast.walk(fn) if isinstance(n, ast.Compare) and len(n.ops) == 1
                    and ast.unparse(n.left) == spec['lhs']
                    and ast.unparse(n.comparators[0]) == spec['rhs']]
            what = f"{spec['lhs']} <op> {spec['rhs']}"
        else:
            want = ast.Compare if spec['kind'] == 'cmp' else ast.expr
            hits = [n for n in ast.walk(fn) if isinstance(n, want) and ast.unparse(n) == spec['text']]
            what = spec['text']
        if len(hits) != spec.get('count', 1):
            raise m.Untranslatable(f"expected {spec.get('count', 1)} occurrence(s) of `{what}` "
                                   f"in {spec['func']}, found {len(hits)}")
        tr = m.Tr(spec)
        env = {k: (m.NONE if k in spec.get('none', []) else v) for k, v in spec['params'].items()}
        if spec['kind'] == 'cmp':
            if spec['ret'] != 'Bool':
                raise m.Untranslatable('a cmp leaf returns Bool')
            t = tr.test(hits[0], env)
            if t is True or t is False:
                raise m.Untranslatable('comparison is statically decided')
            return f'decide {t}'
        v = tr.expr(hits[0], env, spec['ret'])
        if v is m.NONE:
            raise m.Untranslatable('value is None')
        v = tr.coerce(v, spec['ret'])
        if v[1] != spec['ret']:
            raise m.Untranslatable(f"type {v[1]} ≠ {spec['ret']}")
        return v[0]

    translate_leaf._c19_kinds = True
    m.translate_leaf = translate_leaf


_install()

_F = 'util/searchlight.py'
LEAVES = [
    # bounding-box pre-filter, one comparison per axis (each must use its own centre coordinate)
    dict(name='absLtX', file=_F, func='_get_searchlight_neighbors', kind='cmp',
         lhs='abs(x - cx)', rhs='radius', params={'x': 'A', 'cx': 'A', 'radius': 'A'}, ret='Bool'),
    dict(name='absLtY', file=_F, func='_get_searchlight_neighbors', kind='cmp',
         lhs='abs(y - cy)', rhs='radius', params={'y': 'A', 'cy': 'A', 'radius': 'A'}, ret='Bool'),
    dict(name='absLtZ', file=_F, func='_get_searchlight_neighbors', kind='cmp',
         lhs='abs(z - cz)', rhs='radius', params={'z': 'A', 'cz': 'A', 'radius': 'A'}, ret='Bool'),
    # the radius test on the Euclidean distances returned by cdist
    dict(name='radiusTest', file=_F, func='_get_searchlight_neighbors', kind='cmp',
         lhs='distance', rhs='radius', params={'distance': 'A', 'radius': 'A'}, ret='Bool'),
    # acceptance of a centre: in-mask fraction of its searchlight against the threshold
    dict(name='acceptTest', file=_F, func='get_volume_searchlight', kind='cmp',
         lhs='mask[neighbors].mean()', rhs='threshold',
         opaque={'mask[neighbors].mean()': 'inside_fraction'},
         params={'inside_fraction': 'A', 'threshold': 'A'}, ret='Bool'),
    # chunking limit
    dict(name='chunked', file=_F, func='get_searchlight_RDMs', kind='cmp',
         lhs='n_centers', rhs='1000', params={'n_centers': 'Nat'}, ret='Bool'),
    # width of the pre-allocated table of the chunked branch
    dict(name='rdmWidth', file=_F, func='get_searchlight_RDMs', kind='expr',
         text='n_conds * (n_conds - 1) // 2', params={'n_conds': 'Nat'}, ret='Nat'),
    # round 4: element type of that pre-allocated table = numpy's default (no dtype / order argument)
    dict(name='bufferExtraArgs', file=_F, func='get_searchlight_RDMs', kind='nargs', call='np.zeros',
         params={}, ret='Nat'),
]
