"""Leaf specs of property C19 (decision / arithmetic text of util/searchlight.py).

Every scalar decision of the searchlight code sits inside an expression that is neither a whole
function nor the right-hand side of an assignment (`x = x[abs(x - cx) < radius]`,
`data[distance < radius]`, `if mask[neighbors].mean() >= threshold:`, `if n_centers > 1000:`,
`np.zeros((n_centers, n_conds * (n_conds - 1) // 2))`), so the two native leaf kinds `func` and
`assign` cannot anchor them.  Two leaf kinds are therefore added here, from the outside and purely
additively (specs of other kinds go to the unchanged translator; the expression language, typing
and the native `opaque` option are the translator's own `Tr` class):

  kind 'cmp'   the comparison whose source text (`ast.unparse`) is `text`, inside `func`
               -> `decide (<translated comparison>)`, ret 'Bool'; with `lhs` / `rhs` instead of
               `text`: the comparison between these two operand texts whatever its operator
               (round 3: `<` -> `<=` then yields a *translatable* leaf that no longer satisfies
               `radius_test_leaf` / `neighbors_exact` / `accept_leaf` …, instead of a stub)
  kind 'expr'  the (sub-)expression whose source text is `text`, inside `func`
  `count`      required number of occurrences of that text in the function (default 1)
  kind 'nargs' (round 4) the single call of `call` (e.g. `np.zeros`) inside `func`: the number of its
               arguments beyond the first positional one, keywords included, as a `Nat` constant
               (`np.zeros(shape)` -> 0: numpy's default float64 buffer; `np.zeros(shape, dtype=…)` -> 1)

  kind 'fwd'   (round 6) the call sites of the evaluation function inside `func`: every call whose callee
               resolves to the parameter `callee` — directly, through `delayed(…)`, through a name bound
               to it, or through `partial(callee, …)` / `functools.partial` (bound arguments are merged) —
               in source order.  `what='count'` -> the number of call sites (Nat); `what='kw:<name>'`
               (param `site : Nat`, ret Bool) -> whether call site number `site` forwards `<name>=<name>`
               (the enclosing function's own parameter, never reassigned).  FAIL CLOSED: untranslatable
               if a reference to the callee or to one of its aliases is not consumed by one of these
               patterns (it escapes), if a call site uses `*` / `**`, if its positional arguments are not
               exactly `(models, <a loop variable>)`, if a forwarded keyword carries another value than
               the parameter of the same name, or if there is no call site at all.

If the text no longer occurs (operator, operand or constant edited) the leaf is untranslatable and
run_check reports the broken obligation.  Wish (notes/C19.md): move both kinds into py2lean.py.
"""
import ast
import os
import sys


_WRAPPERS = ('delayed', 'joblib.delayed')
_PARTIALS = ('partial', 'functools.partial')


def call_sites(fn, callee, U=ValueError):
    """the call sites of parameter `callee` in function `fn` (see kind 'fwd'): list of
    (positional argument texts, {keyword: value text}) in source order; raises U when the analysis
    cannot account for every use of the callee (fail closed)"""
    params = [a.arg for a in fn.args.args + fn.args.kwonlyargs]
    if callee not in params:
        raise U(f'`{callee}` is not a parameter of {fn.name}')
    for n in ast.walk(fn):
        if isinstance(n, (ast.FunctionDef, ast.AsyncFunctionDef, ast.Lambda, ast.ClassDef)) and n is not fn:
            raise U('nested function / lambda / class in ' + fn.name)
    stores = {}
    for n in ast.walk(fn):
        if isinstance(n, ast.Name) and isinstance(n.ctx, (ast.Store, ast.Del)):
            stores[n.id] = stores.get(n.id, 0) + 1
    if stores.get(callee):
        raise U(f'`{callee}` is reassigned')
    alias = {callee: ([], {})}            # name -> (bound positional texts, bound keywords)
    consumed = set()                      # ids of Name nodes accounted for

    def bound(call):
        if any(isinstance(a, ast.Starred) for a in call.args) or any(k.arg is None for k in call.keywords):
            raise U('`*` / `**` at a call of the evaluation function')
        return [ast.unparse(a) for a in call.args], {k.arg: ast.unparse(k.value) for k in call.keywords}

    def resolve(e):
        """(bound positionals, bound keywords) if expression `e` denotes the callee, else None"""
        if isinstance(e, ast.Name):
            if e.id in alias:
                consumed.add(id(e))
                return alias[e.id]
            return None
        if isinstance(e, ast.Call):
            f = ast.unparse(e.func)
            if f in _WRAPPERS and len(e.args) == 1 and not e.keywords:
                return resolve(e.args[0])
            if f in _PARTIALS and e.args:
                r = resolve(e.args[0])
                if r is None:
                    return None
                inner = ast.Call(func=e.func, args=e.args[1:], keywords=e.keywords)
                pos, kw = bound(inner)
                return (r[0] + pos, dict(r[1], **kw))
        return None

    # aliases: `name = <expression denoting the callee>` (single assignment, simple target), to a fixpoint
    changed = True
    while changed:
        changed = False
        for n in ast.walk(fn):
            if isinstance(n, ast.Assign) and len(n.targets) == 1 and isinstance(n.targets[0], ast.Name):
                t = n.targets[0].id
                if t in alias:
                    continue
                r = resolve(n.value)
                if r is not None:
                    if stores.get(t, 0) != 1:
                        raise U(f'alias `{t}` of the evaluation function is assigned more than once')
                    alias[t] = r
                    changed = True
    alias_rhs = set()
    for n in ast.walk(fn):
        if isinstance(n, ast.Assign) and len(n.targets) == 1 and isinstance(n.targets[0], ast.Name) \
                and n.targets[0].id in alias and n.targets[0].id != callee:
            alias_rhs.add(id(n.value))
    sites = []
    wrapped = set()

    def mark_wrapped(e):
        # sub-expressions of a callee-denoting expression are not call sites themselves
        if isinstance(e, ast.Call):
            wrapped.add(id(e))
            for a in e.args[:1]:
                mark_wrapped(a)
    for n in ast.walk(fn):
        if isinstance(n, ast.Call) and id(n) not in alias_rhs:
            r = resolve(n.func)
            if r is not None:
                mark_wrapped(n.func)
                pos, kw = bound(n)
                sites.append((n.lineno, n.col_offset, r[0] + pos, dict(r[1], **kw)))
    for v in alias_rhs:
        pass
    # every use of the callee / an alias must have been consumed by one of the patterns above
    for n in ast.walk(fn):
        if isinstance(n, ast.Name) and isinstance(n.ctx, ast.Load) and n.id in alias and id(n) not in consumed:
            raise U(f'a reference to `{n.id}` (line {n.lineno}) escapes the recognised call patterns')
    if not sites:
        raise U(f'no call site of `{callee}` found')
    sites.sort()
    return [(p, k) for _, _, p, k in sites], stores, params


def _fwd_leaf(m, fn, spec):
    sites, stores, params = call_sites(fn, spec['callee'], m.Untranslatable)
    kws = spec['keywords']
    for pos, kw in sites:
        if len(pos) != 2 or pos[0] != spec['first'] or not pos[1].isidentifier() or pos[1] in params:
            raise m.Untranslatable(f"positional arguments of a call site are {pos}, expected "
                                   f"({spec['first']}, <loop variable>)")
        if stores.get(spec['first']):
            raise m.Untranslatable(f"`{spec['first']}` is reassigned")
        for k, v in kw.items():
            if k not in kws:
                raise m.Untranslatable(f'call site passes an unexpected keyword `{k}`')
            if v != k or k not in params or stores.get(k):
                raise m.Untranslatable(f'call site passes `{k}={v}`, not the caller\'s own `{k}`')
    what = spec['what']
    if what == 'count':
        if spec['ret'] != 'Nat':
            raise m.Untranslatable('count is a Nat')
        return f'({len(sites)} : Nat)'
    if what.startswith('kw:') and spec['ret'] == 'Bool' and list(spec['params']) == ['site']:
        k = what[3:]
        flags = ', '.join('true' if k in kw else 'false' for _, kw in sites)
        return f'([{flags}] : List Bool).getD site false'
    raise m.Untranslatable(f'unknown fwd leaf {what}')


def _translator_module():
    for name in ('py2lean', '__main__'):
        m = sys.modules.get(name)
        if m is not None and hasattr(m, 'Tr') and hasattr(m, 'translate_leaf'):
            return m
    return None


def _install():
    m = _translator_module()
    if m is None or getattr(m.translate_leaf, '_c19_kinds', False):
        return
    base = m.translate_leaf

    def translate_leaf(spec):
        if spec.get('kind') not in ('cmp', 'expr', 'nargs', 'fwd'):
            return base(spec)
        text = open(os.path.join(m.REPO_SRC, spec['file'])).read()
        fn = m.find_func(ast.parse(text), spec['func'])
        if fn is None:
            raise m.Untranslatable(f"anchor {spec['func']} not found")
        if spec['kind'] == 'fwd':
            return _fwd_leaf(m, fn, spec)
        if spec['kind'] == 'nargs':
            calls = [n for n in ast.walk(fn) if isinstance(n, ast.Call) and ast.unparse(n.func) == spec['call']]
            if len(calls) != 1:
                raise m.Untranslatable(f"expected 1 call of `{spec['call']}` in {spec['func']}, found {len(calls)}")
            c = calls[0]
            if not c.args or any(isinstance(a, ast.Starred) for a in c.args) or any(k.arg is None for k in c.keywords):
                raise m.Untranslatable(f"`{spec['call']}` is not called with a plain first argument")
            if spec['ret'] != 'Nat':
                raise m.Untranslatable('an nargs leaf returns Nat')
            return f'({len(c.args) - 1 + len(c.keywords)} : Nat)'
        if spec['kind'] == 'cmp' and 'lhs' in spec:
            # the comparison between two given operands, *whatever its operator*: an edited
            # operator still translates, and the theorems that use the leaf stop to hold
            hits = [n for n in ast.walk(fn) if isinstance(n, ast.Compare) and len(n.ops) == 1
                    and ast.unparse(n.left) == spec['lhs']
                    and ast.unparse(n.comparators[0]) == spec['rhs']]
            what = f"{spec['lhs']} <op> {spec['rhs']}"
        else:
            want = ast.Compare if spec['kind'] == 'cmp' else ast.expr
            hits = [n for n in ast.walk(fn) if isinstance(n, want) and ast.unparse(n) == spec['text']]
            what = spec['text']
        if len(hits) != spec.get('count', 1):
            raise m.Untranslatable(f"expected {spec.get('count', 1)} occurrence(s) of `{what}` "
                                   f"in {spec['func']}, found {len(hits)}")
        tr = m.Tr(spec)
        env = {k: (m.NONE if k in spec.get('none', []) else v) for k, v in spec['params'].items()}
        if spec['kind'] == 'cmp':
            if spec['ret'] != 'Bool':
                raise m.Untranslatable('a cmp leaf returns Bool')
            t = tr.test(hits[0], env)
            if t is True or t is False:
                raise m.Untranslatable('comparison is statically decided')
            return f'decide {t}'
        v = tr.expr(hits[0], env, spec['ret'])
        if v is m.NONE:
            raise m.Untranslatable('value is None')
        v = tr.coerce(v, spec['ret'])
        if v[1] != spec['ret']:
            raise m.Untranslatable(f"type {v[1]} ≠ {spec['ret']}")
        return v[0]

    translate_leaf._c19_kinds = True
    m.translate_leaf = translate_leaf


_install()

_F = 'util/searchlight.py'
LEAVES = [
    # bounding-box pre-filter, one comparison per axis (each must use its own centre coordinate)
    dict(name='absLtX', file=_F, func='_get_searchlight_neighbors', kind='cmp',
         lhs='abs(x - cx)', rhs='radius', params={'x': 'A', 'cx': 'A', 'radius': 'A'}, ret='Bool'),
    dict(name='absLtY', file=_F, func='_get_searchlight_neighbors', kind='cmp',
         lhs='abs(y - cy)', rhs='radius', params={'y': 'A', 'cy': 'A', 'radius': 'A'}, ret='Bool'),
    dict(name='absLtZ', file=_F, func='_get_searchlight_neighbors', kind='cmp',
         lhs='abs(z - cz)', rhs='radius', params={'z': 'A', 'cz': 'A', 'radius': 'A'}, ret='Bool'),
    # the radius test on the Euclidean distances returned by cdist
    dict(name='radiusTest', file=_F, func='_get_searchlight_neighbors', kind='cmp',
         lhs='distance', rhs='radius', params={'distance': 'A', 'radius': 'A'}, ret='Bool'),
    # acceptance of a centre: in-mask fraction of its searchlight against the threshold
    dict(name='acceptTest', file=_F, func='get_volume_searchlight', kind='cmp',
         lhs='mask[neighbors].mean()', rhs='threshold',
         opaque={'mask[neighbors].mean()': 'inside_fraction'},
         params={'inside_fraction': 'A', 'threshold': 'A'}, ret='Bool'),
    # chunking limit
    dict(name='chunked', file=_F, func='get_searchlight_RDMs', kind='cmp',
         lhs='n_centers', rhs='1000', params={'n_centers': 'Nat'}, ret='Bool'),
    # width of the pre-allocated table of the chunked branch
    dict(name='rdmWidth', file=_F, func='get_searchlight_RDMs', kind='expr',
         text='n_conds * (n_conds - 1) // 2', params={'n_conds': 'Nat'}, ret='Nat'),
    # round 4: element type of that pre-allocated table = numpy's default (no dtype / order argument)
    dict(name='bufferExtraArgs', file=_F, func='get_searchlight_RDMs', kind='nargs', call='np.zeros',
         params={}, ret='Nat'),
    # round 6: the call sites of `eval_function` in `evaluate_models_searchlight` and the keywords each forwards
    dict(name='evalCallSites', file=_F, func='evaluate_models_searchlight', kind='fwd', callee='eval_function',
         first='models', keywords=('method', 'theta'), what='count', params={}, ret='Nat'),
    dict(name='evalFwdMethod', file=_F, func='evaluate_models_searchlight', kind='fwd', callee='eval_function',
         first='models', keywords=('method', 'theta'), what='kw:method', params={'site': 'Nat'}, ret='Bool'),
    dict(name='evalFwdTheta', file=_F, func='evaluate_models_searchlight', kind='fwd', callee='eval_function',
         first='models', keywords=('method', 'theta'), what='kw:theta', params={'site': 'Nat'}, ret='Bool'),
]
