"""Leaf specs for C08 (model fitting).

The arithmetic of `model/fitter.py` and `model/model.py` is array code (`x[p] / (x[p] - s_p)`,
`theta[i_pair + 1] = 1 - w`, `theta.flatten() / np.sqrt(np.sum(theta ** 2))`, masked assignments,
loop tests) outside the scalar subset of py2lean.  This module first *derives*, from the current
source text (Python `ast`), the scalar entry-wise expression of each such statement and writes it
as a tiny Python function into `harness/leaves/_C08_derived.py`; py2lean then translates those
functions as usual (spec['file'] is that absolute path).  Sub-expressions that are results of
other computations (a norm, a maximum, a similarity, machine epsilon) become parameters (opaque
values), everything else — operators, constants, operand order, comparison strictness, index
offsets, the *kind* of loop statement — is taken from the text.  Nothing is cached: the derived
file is rewritten on every run.  Each derivation fails closed: an unexpected shape of the anchor
gives a function calling `__underivable__`, which py2lean reports as an untranslatable leaf
(= broken proof obligation).

Derived leaves
  fit_interpolate     interp_first / interp_second (closure `loss_opt`), interp_res_first /
                      interp_res_second (assembly of the returned theta), interp_second_index,
                      interp_res_second_index, interp_segments (`range(model.n_rdm - 1)`)
  fit_regress(_nn), fit_optimize(_positive)
                      norm_entry_* (`theta.flatten() / np.sqrt(…)`), norm_sq_entry (`theta ** 2`)
  fit_optimize_positive  positive_param (`theta ** 2`, both in `_loss_opt` and in the result)
  _loss               loss_value (`-mean similarity + sum(theta*theta) * ridge_weight`)
  _nn_least_squares   nnls_tol, nnls_tol_iter (round 5: threshold re-set per outer iteration), nnls_iter_bound, nnls_enter (outer loop test `> tol`), nnls_inner_test
                      (must be a `while`), nnls_step_len, nnls_step_free (`alphas[s_p >= 0] = inf`),
                      nnls_step_update
  ModelInterpolate    interp_clamp (`np.maximum(theta, 0)` in predict_rdm), interp_default (`theta[0] =
                      theta[1] = 0.5` in predict), interp_rdm_default (ones)
  Model classes       default_fitter_code (0 mock, 1 select, 2 optimize, 3 interpolate by class
                      0 fixed, 1 select, 2 weighted, 3 interpolate), n_param
"""
import ast
import os

SRC = os.environ.get('RSA_REPO_SRC', '/repo/src/rsatoolbox')
HERE = os.path.dirname(os.path.abspath(__file__))
DERIVED = os.path.join(HERE, '_C08_derived.py')


class Underivable(Exception):
    pass


def _tree(path):
    return ast.parse(open(os.path.join(SRC, path)).read())


def _func(tree, name, cls=None):
    scope = tree
    if cls is not None:
        hits = [n for n in ast.walk(tree) if isinstance(n, ast.ClassDef) and n.name == cls]
        if len(hits) != 1:
            raise Underivable(f'class {cls} not found')
        scope = hits[0]
    hits = [n for n in ast.walk(scope) if isinstance(n, ast.FunctionDef) and n.name == name]
    if not hits:
        raise Underivable(f'function {name} not found' + (f' in {cls}' if cls else ''))
    return hits[0]


class _Subst(ast.NodeTransformer):
    """replace whole sub-expressions (matched by their unparsed text) by names / literals"""

    def __init__(self, subs):
        self.subs = subs
        self.used = set()

    def visit(self, node):
        if isinstance(node, ast.expr):
            t = ast.unparse(node)
            if t in self.subs:
                self.used.add(t)
                v = self.subs[t]
                if isinstance(v, int):
                    return ast.Constant(value=v)
                return ast.Name(id=v, ctx=ast.Load())
        return self.generic_visit(node)


def _sub(expr, subs, need=None):
    tr = _Subst(subs)
    new = tr.visit(ast.parse(ast.unparse(expr), mode='eval').body)
    missing = [k for k in (need if need is not None else subs) if k not in tr.used]
    if missing:
        raise Underivable(f'sub-expression(s) {missing} not found in `{ast.unparse(expr)}`')
    return ast.unparse(ast.fix_missing_locations(new))


def _assigns(fn, target_text, own_body_only=False):
    """assignments whose (single) target unparses to `target_text`, in line order"""
    nodes = ast.walk(fn)
    hits = [n for n in nodes if isinstance(n, ast.Assign) and len(n.targets) == 1
            and ast.unparse(n.targets[0]) == target_text]
    hits.sort(key=lambda n: n.lineno)
    return hits


def _one(hits, what):
    if len(hits) != 1:
        raise Underivable(f'expected exactly one {what}, found {len(hits)}')
    return hits[0]


def _inner_def(fn, name):
    hits = [n for n in ast.walk(fn) if isinstance(n, ast.FunctionDef) and n.name == name and n is not fn]
    return _one(hits, f'inner function {name}')


def _outside(fn, inner):
    """statements of fn that are not inside the inner function definition"""
    inside = set(id(n) for n in ast.walk(inner))
    return [n for n in ast.walk(fn) if id(n) not in inside]


# ------------------------------------------------------------------ round 4: state that survives a call
#
# input_writes  number of statements, in every function a fit / prediction runs through (all of
#               model/fitter.py and util/pooling.py; `predict` / `predict_rdm` / `fit` / `to_dict` of the model
#               classes; `_parse_nan_vectors`; `get_v` / `pairwise_contrast_sparse`; `RDMs.get_vectors` /
#               `get_matrices` / `subsample_pattern` / `__getitem__` / `copy`), that store into (a view of) an
#               argument or into `self`: subscript / attribute stores, augmented assignments, `del`,
#               mutating method calls, `out=`.  `x.get_vectors()`, `model.rdm_obj`, `np.asarray(x)` ... count
#               as views of `x`; the analysis is flow-insensitive (a name that ever held a view stays one).
#               0 on a tree whose fitters leave their arguments alone.
# module_state  number of places where those functions could keep something between calls: module-level
#               statements of fitter.py / pooling.py / model.py other than imports, definitions and the
#               docstring; statements in the class bodies of model.py other than methods; `global` /
#               `nonlocal`; decorators; mutable default arguments; stores through a name that is neither local
#               to the function nor to an enclosing function (module dictionaries, function attributes).
# Both fail closed (an unreadable file or a missing function is underivable).

_VIEW_METHODS = {'transpose', 'reshape', 'swapaxes', 'view', 'ravel', 'squeeze', 'items', 'values', 'keys',
                 'get', 'flat', 'predict', 'get_vectors', 'T', 'flatten_view'}
_VIEW_FUNCS = {'np.asarray', 'np.asanyarray', 'np.transpose', 'np.swapaxes', 'np.reshape', 'np.squeeze',
               'np.ravel', 'np.atleast_1d', 'np.atleast_2d', 'np.atleast_3d', 'np.expand_dims',
               'np.diagonal', 'np.broadcast_to', 'np.ascontiguousarray', 'np.asfortranarray', 'np.triu',
               'enumerate', 'zip', 'iter', 'reversed', '_parse_nan_vectors'}
_MUTATORS = {'sort', 'fill', 'resize', 'put', 'itemset', 'setfield', 'partition', 'append', 'extend',
             'insert', 'remove', 'pop', 'popitem', 'clear', 'update', 'setdefault', 'reverse', 'setflags',
             'sort_by', 'reorder', '__setitem__', '__setattr__', '__delitem__'}
_MUT_FUNCS = {'np.copyto', 'np.put', 'np.put_along_axis', 'np.putmask', 'np.place', 'np.fill_diagonal',
              'setattr', 'delattr', 'np.divide.at', 'np.add.at', 'np.subtract.at'}
_SCALAR_PARAMS = {'method', 'pattern_descriptor', 'ridge_weight', 'normalize', 'n_cond', 'name', 'by'}
_OK_DECORATORS = {'staticmethod', 'classmethod', 'property'}
WRITE_SITES = []
STATE_SITES = []


def _is_alias(e, alias):
    if isinstance(e, ast.Name):
        return e.id in alias
    if isinstance(e, (ast.Attribute, ast.Subscript, ast.Starred)):
        return _is_alias(e.value, alias)
    if isinstance(e, ast.Call):
        if isinstance(e.func, ast.Attribute) and e.func.attr in _VIEW_METHODS and _is_alias(e.func.value, alias):
            return True
        if ast.unparse(e.func) in _VIEW_FUNCS and any(_is_alias(a, alias) for a in e.args):
            return True
    if isinstance(e, (ast.Tuple, ast.List)):
        return any(_is_alias(x, alias) for x in e.elts)
    if isinstance(e, ast.IfExp):
        return _is_alias(e.body, alias) or _is_alias(e.orelse, alias)
    if isinstance(e, ast.Dict):
        return any(_is_alias(x, alias) for x in e.values if x is not None)
    return False


def _tnames(t):
    if isinstance(t, ast.Name):
        return [t.id]
    if isinstance(t, (ast.Tuple, ast.List)):
        return [n for e in t.elts for n in _tnames(e)]
    if isinstance(t, ast.Starred):
        return _tnames(t.value)
    return []


def _root(e):
    while isinstance(e, (ast.Attribute, ast.Subscript, ast.Starred)):
        e = e.value
    if isinstance(e, ast.Call) and isinstance(e.func, ast.Attribute):
        return _root(e.func.value)
    return e.id if isinstance(e, ast.Name) else None


_MODULE_NAMES = {'np', 'numpy', 'scipy', 'opt'}


def _fresh_default_blocks(fn, alias_of):
    """ids of the statements inside `if X is None:` blocks that begin by rebinding X to a fresh object
    (`theta = np.zeros(...)`): stores through X there go into that fresh object, not into the argument"""
    skip = {}
    for n in ast.walk(fn):
        if isinstance(n, ast.If) and isinstance(n.test, ast.Compare) and isinstance(n.test.left, ast.Name) \
                and len(n.test.ops) == 1 and isinstance(n.test.ops[0], ast.Is) \
                and isinstance(n.test.comparators[0], ast.Constant) and n.test.comparators[0].value is None \
                and n.body and isinstance(n.body[0], ast.Assign) and len(n.body[0].targets) == 1 \
                and isinstance(n.body[0].targets[0], ast.Name) and n.body[0].targets[0].id == n.test.left.id \
                and isinstance(n.body[0].value, ast.Call) \
                and ast.unparse(n.body[0].value.func) in ('np.zeros', 'np.ones', 'np.empty') \
                and not n.orelse:
            for st in n.body[1:]:
                for sub_ in ast.walk(st):
                    skip[id(sub_)] = n.test.left.id
    return skip


def _store_sites(fn, pred):
    """statements of fn that store through an expression e with pred(e)"""
    sites = []
    fresh = _fresh_default_blocks(fn, None)
    for n in ast.walk(fn):
        if id(n) in fresh and isinstance(n, ast.Assign) and len(n.targets) == 1 \
                and isinstance(n.targets[0], ast.Subscript) and isinstance(n.targets[0].value, ast.Name) \
                and n.targets[0].value.id == fresh[id(n)]:
            continue
        if isinstance(n, ast.AugAssign) and pred(n.target, True):
            sites.append((n.lineno, ast.unparse(n)))
        if isinstance(n, (ast.Assign, ast.AnnAssign)):
            for t in (n.targets if isinstance(n, ast.Assign) else [n.target]):
                for tt in ([t] if not isinstance(t, (ast.Tuple, ast.List)) else t.elts):
                    if isinstance(tt, (ast.Subscript, ast.Attribute)) and pred(tt.value, False):
                        sites.append((n.lineno, ast.unparse(n)))
        if isinstance(n, ast.Delete):
            for t in n.targets:
                if isinstance(t, (ast.Subscript, ast.Attribute)) and pred(t.value, False):
                    sites.append((n.lineno, ast.unparse(n)))
        if isinstance(n, ast.Call):
            if isinstance(n.func, ast.Attribute) and n.func.attr in _MUTATORS and pred(n.func.value, False) \
                    and not (isinstance(n.func.value, ast.Name) and n.func.value.id in _MODULE_NAMES):
                sites.append((n.lineno, ast.unparse(n)))      # `np.sort(x)` is a function, not a method
            if ast.unparse(n.func) in _MUT_FUNCS and n.args and pred(n.args[0], False):
                sites.append((n.lineno, ast.unparse(n)))
            for k in n.keywords:
                if k.arg == 'out' and pred(k.value, False):
                    sites.append((n.lineno, ast.unparse(n)))
    return sorted(set(sites))


def _params(fn):
    ps = [a.arg for a in fn.args.posonlyargs + fn.args.args + fn.args.kwonlyargs]
    if fn.args.vararg:
        ps.append(fn.args.vararg.arg)
    if fn.args.kwarg:
        ps.append(fn.args.kwarg.arg)
    return ps


def _writes_in(fn, where, outer_alias=()):
    """stores into (views of) the parameters of fn; closures inherit the views of the enclosing function"""
    alias = (set(_params(fn)) - _SCALAR_PARAMS) | set(outer_alias)
    for _ in range(8):           # flow-insensitive closure
        before = len(alias)
        for n in ast.walk(fn):
            if isinstance(n, ast.Assign) and _is_alias(n.value, alias):
                for t in n.targets:
                    alias.update(_tnames(t))
            if isinstance(n, (ast.For, ast.comprehension)) and _is_alias(n.iter, alias):
                alias.update(_tnames(n.target))
            if isinstance(n, ast.NamedExpr) and _is_alias(n.value, alias):
                alias.update(_tnames(n.target))
        if len(alias) == before:
            break

    def pred(e, aug):
        if aug and isinstance(e, ast.Name):
            return e.id in alias          # `x -= m` on a view of an argument writes into it
        return _is_alias(e, alias)
    return [f'{where}:{ln}: {txt}' for ln, txt in _store_sites(fn, pred)]


def _locals_of(fn):
    loc = set(_params(fn))
    for n in ast.walk(fn):
        if isinstance(n, ast.Name) and isinstance(n.ctx, ast.Store):
            loc.add(n.id)
    return loc


def _state_in(fn, where):
    sites = []
    for f_ in [n for n in ast.walk(fn) if isinstance(n, ast.FunctionDef)]:
        for d in f_.decorator_list:
            if ast.unparse(d) not in _OK_DECORATORS:
                sites.append(f'{where}:{d.lineno}: decorator @{ast.unparse(d)}')
        for d in f_.args.defaults + [k for k in f_.args.kw_defaults if k is not None]:
            if not isinstance(d, (ast.Constant, ast.UnaryOp, ast.Name, ast.Attribute)):
                sites.append(f'{where}:{d.lineno}: mutable default `{ast.unparse(d)}`')
    glob = set()
    for n in ast.walk(fn):
        if isinstance(n, (ast.Global, ast.Nonlocal)):
            sites.append(f'{where}:{n.lineno}: {ast.unparse(n)}')
            glob.update(n.names)
        if isinstance(n, ast.ClassDef):
            sites.append(f'{where}:{n.lineno}: nested class {n.name}')
    loc = _locals_of(fn) - glob          # includes the locals of nested closures (they die with the call)

    def pred(e, aug):
        r = _root(e)
        return r is not None and r not in loc
    sites += [f'{where}:{ln}: store through a non-local name: {txt}' for ln, txt in _store_sites(fn, pred)]
    return sites


_SCOPE_FILES = {            # file -> (None = every top-level function) | {class or '': [names]}
    'model/fitter.py': None,
    'util/pooling.py': None,
    'model/model.py': {'Model': ['fit', 'to_dict'],
                       'ModelFixed': ['predict', 'predict_rdm'], 'ModelSelect': ['predict', 'predict_rdm'],
                       'ModelWeighted': ['predict', 'predict_rdm'],
                       'ModelInterpolate': ['predict', 'predict_rdm']},
    'util/rdm_utils.py': {'': ['_parse_nan_vectors']},
    'util/matrix.py': {'': ['get_v', 'pairwise_contrast_sparse']},
    'rdm/rdms.py': {'RDMs': ['get_vectors', 'get_matrices', 'subsample_pattern', '__getitem__', 'copy']},
}
_MODULE_LEVEL = ('model/fitter.py', 'util/pooling.py', 'model/model.py')


def _scope():
    """[(function node, label)] for every function a fit / prediction runs through, {file: tree}"""
    out, trees = [], {}
    for path, want in _SCOPE_FILES.items():
        tree = _tree(path)
        trees[path] = tree
        if want is None:
            for n in tree.body:
                if isinstance(n, ast.FunctionDef):
                    out.append((n, f'{path}:{n.name}'))
                if isinstance(n, ast.ClassDef):
                    for m_ in n.body:
                        if isinstance(m_, ast.FunctionDef) and m_.name != '__init__':
                            out.append((m_, f'{path}:{n.name}.{m_.name}'))
            continue
        for cls, names in want.items():
            if cls:
                cn = [n for n in tree.body if isinstance(n, ast.ClassDef) and n.name == cls]
                if len(cn) != 1:
                    raise Underivable(f'class {cls} not found in {path}')
                body = cn[0].body
            else:
                body = tree.body
            for name in names:
                fn = [n for n in body if isinstance(n, ast.FunctionDef) and n.name == name]
                if len(fn) != 1:
                    raise Underivable(f'{path}: {cls + "." if cls else ""}{name} not found')
                out.append((fn[0], f'{path}:{cls + "." if cls else ""}{name}'))
    names = {lab.split(':')[1] for _, lab in out}
    need = {'fit_regress', 'fit_regress_nn', 'fit_optimize', 'fit_optimize_positive', 'fit_select',
            'fit_interpolate', '_loss', '_nn_least_squares', 'pool_rdm', 'Fitter.__call__'}
    if not need <= names:
        raise Underivable(f'functions {sorted(need - names)} not found')
    return out, trees


def _nested_writes(fn, lab):
    sites = list(_writes_in(fn, lab))
    # closures (`_loss_opt`, `loss_opt`): their own parameters and what they capture from the fitter
    outer = set(_params(fn)) - _SCALAR_PARAMS
    for n in ast.walk(fn):
        if isinstance(n, ast.FunctionDef) and n is not fn:
            sites += [s_ for s_ in _writes_in(n, f'{lab}.{n.name}', outer) if s_ not in sites]
    return sites


def _input_writes():
    del WRITE_SITES[:]
    fns, _ = _scope()
    seen = set()
    for fn, lab in fns:
        for s_ in _nested_writes(fn, lab):
            k_ = s_.split(':', 2)[0] + s_.split(':', 3)[2] if s_.count(':') >= 3 else s_
            if s_ not in seen:
                seen.add(s_)
                WRITE_SITES.append(s_)
    return str(len(WRITE_SITES))


def _module_state():
    del STATE_SITES[:]
    fns, trees = _scope()
    for path in _MODULE_LEVEL:
        tree = trees[path]
        for k, n in enumerate(tree.body):
            if isinstance(n, (ast.Import, ast.ImportFrom, ast.FunctionDef)):
                continue
            if k == 0 and isinstance(n, ast.Expr) and isinstance(n.value, ast.Constant) \
                    and isinstance(n.value.value, str):
                continue
            if isinstance(n, ast.ClassDef):
                for d in n.decorator_list:
                    STATE_SITES.append(f'{path}:{d.lineno}: class decorator @{ast.unparse(d)}')
                for j, m_ in enumerate(n.body):
                    if isinstance(m_, ast.FunctionDef):
                        continue
                    if j == 0 and isinstance(m_, ast.Expr) and isinstance(m_.value, ast.Constant):
                        continue
                    STATE_SITES.append(f'{path}:{m_.lineno}: statement in the body of class {n.name} '
                                       f'`{ast.unparse(m_)[:60]}`')
                continue
            STATE_SITES.append(f'{path}:{n.lineno}: module-level statement `{ast.unparse(n)[:70]}`')
    for fn, lab in fns:
        STATE_SITES.extend(_state_in(fn, lab))
    return str(len(STATE_SITES))


# ------------------------------------------------------------------ derivations

def _derive():
    out = ['# DERIVED by harness/leaves/C08.py from the source tree under check - do not edit', '']

    def emit(name, params, body_fn):
        try:
            body = body_fn()
        except Exception as exc:  # noqa: BLE001  (fail closed: any surprise = underivable)
            body = '__underivable__(' + repr(str(exc)) + ')'
        out.append(f'def {name}({", ".join(params)}):')
        out.append(f'    return {body}')
        out.append('')

    try:
        fit = _tree('model/fitter.py')
    except Exception as exc:  # noqa: BLE001
        fit = None
        fit_exc = exc
    try:
        mod = _tree('model/model.py')
    except Exception as exc:  # noqa: BLE001
        mod = None
        mod_exc = exc

    def ffit(name):
        if fit is None:
            raise Underivable(f'fitter.py unreadable: {fit_exc}')
        return _func(fit, name)

    # ---- fit_interpolate
    def interp_closure(target, subs, need):
        def go():
            fn = ffit('fit_interpolate')
            inner = _inner_def(fn, 'loss_opt')
            if [a.arg for a in inner.args.args] != ['w']:
                raise Underivable('loss_opt does not take the single argument w')
            # the scratch vector must be allocated inside the closure (fresh zeros per evaluation)
            alloc = [n for n in inner.body if isinstance(n, ast.Assign)
                     and ast.unparse(n.targets[0]) == 'theta' and ast.unparse(n.value).startswith('np.zeros(')]
            if len(alloc) != 1:
                raise Underivable('loss_opt does not allocate a fresh zero vector theta')
            a = _one([n for n in _assigns(inner, target)], f'assignment to {target} in loss_opt')
            return _sub(a.value, subs, need)
        return go

    emit('interp_first', ['w'], interp_closure('theta[i_pair]', {'w': 'w'}, ['w']))
    emit('interp_second', ['w'], interp_closure('theta[i_pair + 1]', {'w': 'w'}, ['w']))

    def interp_result(target):
        def go():
            fn = ffit('fit_interpolate')
            inner = _inner_def(fn, 'loss_opt')
            outs = [n for n in _outside(fn, inner) if isinstance(n, ast.Assign) and len(n.targets) == 1
                    and ast.unparse(n.targets[0]) == target]
            a = _one(outs, f'assignment to {target} outside loss_opt')
            return _sub(a.value, {'result.x': 'w'})
        return go

    emit('interp_res_first', ['w'], interp_result('theta[i_pair]'))
    emit('interp_res_second', ['w'], interp_result('theta[i_pair + 1]'))

    def second_index(inside):
        def go():
            fn = ffit('fit_interpolate')
            inner = _inner_def(fn, 'loss_opt')
            pool = list(ast.walk(inner)) if inside else _outside(fn, inner)
            subs = [n for n in pool if isinstance(n, ast.Assign) and len(n.targets) == 1
                    and isinstance(n.targets[0], ast.Subscript) and ast.unparse(n.targets[0].value) == 'theta']
            subs.sort(key=lambda n: n.lineno)
            if len(subs) != 2 or ast.unparse(subs[0].targets[0].slice) != 'i_pair':
                raise Underivable('expected theta[i_pair] = …; theta[<index>] = …')
            return ast.unparse(subs[1].targets[0].slice)
        return go

    emit('interp_second_index', ['i_pair'], second_index(True))
    emit('interp_res_second_index', ['i_pair'], second_index(False))

    def segments():
        fn = ffit('fit_interpolate')
        loops = [n for n in fn.body if isinstance(n, ast.For) and ast.unparse(n.target) == 'i_pair']
        lp = _one(loops, 'loop over i_pair')
        it = lp.iter
        if not (isinstance(it, ast.Call) and ast.unparse(it.func) == 'range' and len(it.args) == 1):
            raise Underivable('loop is not `for i_pair in range(<n>)`')
        return _sub(it.args[0], {'model.n_rdm': 'n_rdm'})
    emit('interp_segments', ['n_rdm'], segments)

    # ---- final normalisation of the four weighted-sum fitters
    def norm_entry(fname):
        def go():
            fn = ffit(fname)
            rets = [n for n in fn.body if isinstance(n, ast.Return)]
            if not rets:
                raise Underivable('no return')
            last = rets[-1].value
            if not (isinstance(last, ast.BinOp) and isinstance(last.op, ast.Div)):
                raise Underivable(f'last return is not a quotient: `{ast.unparse(last)}`')
            den = ast.unparse(last.right)
            if den == 'np.sqrt(norm)':
                a = _one(_assigns(fn, 'norm'), 'assignment to norm')
                if ast.unparse(a.value) != 'np.sum(theta ** 2)':
                    raise Underivable(f'norm is `{ast.unparse(a.value)}`')
            elif den != 'np.sqrt(np.sum(theta ** 2))':
                raise Underivable(f'denominator `{den}`')
            return _sub(last, {'theta.flatten()': 't', den: 'sqrt_norm'})
        return go

    for f_ in ('fit_regress', 'fit_regress_nn', 'fit_optimize', 'fit_optimize_positive'):
        emit('norm_entry_' + f_[4:], ['t', 'sqrt_norm'], norm_entry(f_))

    def norm_sq():
        seen = set()
        for f_ in ('fit_regress', 'fit_regress_nn', 'fit_optimize', 'fit_optimize_positive'):
            a = _one(_assigns(ffit(f_), 'norm'), f'assignment to norm in {f_}')
            v = a.value
            if not (isinstance(v, ast.Call) and ast.unparse(v.func) == 'np.sum' and len(v.args) == 1):
                raise Underivable(f'norm in {f_} is `{ast.unparse(v)}`')
            seen.add(ast.unparse(v.args[0]))
        if len(seen) != 1:
            raise Underivable(f'the fitters square differently: {sorted(seen)}')
        return _sub(ast.parse(seen.pop(), mode='eval').body, {'theta': 't'})
    emit('norm_sq_entry', ['t'], norm_sq)

    # ---- fit_optimize_positive: theta ** 2 reparametrisation
    def positive_param():
        fn = ffit('fit_optimize_positive')
        inner = _inner_def(fn, '_loss_opt')
        calls = [n for n in ast.walk(inner) if isinstance(n, ast.Call) and ast.unparse(n.func) == '_loss']
        c = _one(calls, 'call of _loss in _loss_opt')
        first = ast.unparse(c.args[0])
        res = [n for n in _outside(fn, inner) if isinstance(n, ast.Assign) and len(n.targets) == 1
               and ast.unparse(n.targets[0]) == 'theta' and ast.unparse(n.value).startswith('thetas[id]')]
        r = _one(res, 'assignment theta = thetas[id] …')
        second = _sub(r.value, {'thetas[id]': 'theta'})
        if first != second:
            raise Underivable(f'loss is evaluated at `{first}` but `{second}` is returned')
        return _sub(c.args[0], {'theta': 't'})
    emit('positive_param', ['t'], positive_param)

    def loss_value():
        fn = ffit('_loss')
        r = _one([n for n in fn.body if isinstance(n, ast.Return)], 'return of _loss')
        return _sub(r.value, {'np.mean(compare(pred, data, method=method, sigma_k=sigma_k))': 'score',
                              'np.sum(theta * theta)': 'sumsq'})
    emit('loss_value', ['score', 'sumsq', 'ridge_weight'], loss_value)

    # ---- _nn_least_squares
    def tol_assigns():
        """round 5: the threshold is set before the loop from `scale = np.max(np.abs(w))` (the size of
        A^T y) and re-set at the END of every outer iteration (last statement of the loop body, after the
        gradient is recomputed) to also cover the rounding level of the products `np.abs(ATA) @ x`"""
        fn = ffit('_nn_least_squares')
        sc = _one(_assigns(fn, 'scale'), 'assignment to scale')
        if ast.unparse(sc.value) != 'np.max(np.abs(w))':
            raise Underivable(f'scale is `{ast.unparse(sc.value)}`')
        hits = _assigns(fn, 'tol')
        if len(hits) != 2:
            raise Underivable(f'expected two assignments to tol (before the loop, at the end of an outer '
                              f'iteration), found {len(hits)}')
        lp = _one([n for n in fn.body if isinstance(n, ast.While)], 'outer while loop')
        first, second = hits
        if first not in fn.body or not (sc.lineno < first.lineno < lp.lineno):
            raise Underivable('the first assignment to tol is not between `scale = ...` and the outer loop')
        if lp.body[-1] is not second:
            raise Underivable('the second assignment to tol is not the last statement of the outer loop')
        ws = [n for n in lp.body if isinstance(n, (ast.If, ast.Assign)) and
              any(isinstance(a, ast.Assign) and ast.unparse(a.targets[0]) == 'w' for a in ast.walk(n))]
        if not ws or ws[-1].lineno > second.lineno:
            raise Underivable('the gradient w is not recomputed before the threshold is re-set')
        return first, second

    def nnls_tol():
        first, _ = tol_assigns()
        return _sub(first.value, {'np.finfo(float).eps': 'eps', 'scale': 'maxabs'})
    emit('nnls_tol', ['eps', 'maxabs'], nnls_tol)

    def nnls_tol_iter():
        _, second = tol_assigns()
        return _sub(second.value, {'np.finfo(float).eps': 'eps', 'scale': 'maxabs',
                                   'np.max(np.abs(ATA) @ x)': 'prod'})
    emit('nnls_tol_iter', ['eps', 'maxabs', 'prod'], nnls_tol_iter)

    def outer_loop():
        fn = ffit('_nn_least_squares')
        loops = [n for n in fn.body if isinstance(n, ast.While)]
        return _one(loops, 'outer while loop')

    def nnls_iter_bound():
        lp = outer_loop()
        cmps = [n for n in ast.walk(lp.test) if isinstance(n, ast.Compare) and ast.unparse(n.left) == 'n_iter']
        c = _one(cmps, 'comparison on n_iter in the outer loop test')
        if not (len(c.ops) == 1 and isinstance(c.ops[0], ast.Lt)):
            raise Underivable('n_iter is not compared with <')
        incs = [n for n in lp.body if isinstance(n, ast.AugAssign) and ast.unparse(n) == 'n_iter += 1']
        _one(incs, 'n_iter += 1 in the outer loop')
        init = _one(_assigns(ffit('_nn_least_squares'), 'n_iter'), 'initialisation of n_iter')
        if ast.unparse(init.value) != '0':
            raise Underivable('n_iter does not start at 0')
        return _sub(c.comparators[0], {'A.shape[1]': 'k'})
    emit('nnls_iter_bound', ['k'], nnls_iter_bound)

    def nnls_enter():
        lp = outer_loop()
        if not (isinstance(lp.test, ast.BoolOp) and isinstance(lp.test.op, ast.And)):
            raise Underivable('outer loop test is not a conjunction')
        cmps = [n for n in lp.test.values if isinstance(n, ast.Compare) and 'w[~p]' in ast.unparse(n)]
        c = _one(cmps, 'gradient test in the outer loop')
        return '(1 if ' + _sub(c, {'np.max(w[~p])': 'wmax'}) + ' else 0)'
    emit('nnls_enter', ['wmax', 'tol'], nnls_enter)

    def inner_loop():
        lp = outer_loop()
        inner = [n for n in lp.body if isinstance(n, (ast.While, ast.If)) and 's_p' in ast.unparse(n.test)
                 and 'np.any' in ast.unparse(n.test)]
        n = _one(inner, 'feasibility loop on s_p')
        if not isinstance(n, ast.While):
            raise Underivable('the feasibility loop `while np.any(s_p < 0)` is not a while loop')
        return n

    def nnls_inner_test():
        n = inner_loop()
        t = n.test
        if not (isinstance(t, ast.Call) and ast.unparse(t.func) == 'np.any' and len(t.args) == 1):
            raise Underivable(f'inner loop test `{ast.unparse(t)}`')
        return '(1 if ' + _sub(t.args[0], {'s_p': 's'}) + ' else 0)'
    emit('nnls_inner_test', ['s'], nnls_inner_test)

    def nnls_step_len():
        a = _one(_assigns(inner_loop(), 'alphas'), 'assignment to alphas')
        return _sub(a.value, {'x[p]': 'x', 's_p': 's'})
    emit('nnls_step_len', ['x', 's'], nnls_step_len)

    def nnls_step_free():
        n = inner_loop()
        masked = [a for a in ast.walk(n) if isinstance(a, ast.Assign) and len(a.targets) == 1
                  and isinstance(a.targets[0], ast.Subscript) and ast.unparse(a.targets[0].value) == 'alphas']
        a = _one(masked, 'masked assignment to alphas')
        if ast.unparse(a.value) != 'np.inf':
            raise Underivable(f'masked entries become `{ast.unparse(a.value)}`, not np.inf')
        pick = [c for c in ast.walk(n) if isinstance(c, ast.Assign) and ast.unparse(c.targets[0]) == 'i_alpha'
                and ast.unparse(c.value) == 'np.argmin(alphas)']
        _one(pick, 'i_alpha = np.argmin(alphas)')
        return '(1 if ' + _sub(a.targets[0].slice, {'s_p': 's'}) + ' else 0)'
    emit('nnls_step_free', ['s'], nnls_step_free)

    def nnls_step_update():
        a = _one(_assigns(inner_loop(), 'x[p]'), 'assignment to x[p] in the feasibility loop')
        return _sub(a.value, {'x[p]': 'x', 's_p': 's', 'alpha': 'alpha'})
    emit('nnls_step_update', ['x', 'alpha', 's'], nnls_step_update)

    # ---- model.py
    def fmod(name, cls):
        if mod is None:
            raise Underivable(f'model.py unreadable: {mod_exc}')
        return _func(mod, name, cls)

    def interp_clamp():
        fn = fmod('predict_rdm', 'ModelInterpolate')
        hits = [a for a in _assigns(fn, 'theta') if 'np.maximum' in ast.unparse(a.value)
                or 'np.minimum' in ast.unparse(a.value) or 'np.clip' in ast.unparse(a.value)
                or 'np.abs' in ast.unparse(a.value)]
        a = _one(hits, 'clamping assignment to theta in ModelInterpolate.predict_rdm')
        return ast.unparse(a.value)
    emit('interp_clamp', ['theta'], interp_clamp)

    def weighted_no_clamp():
        # ModelWeighted.predict / predict_rdm and ModelInterpolate.predict use theta as given
        for cls, name in (('ModelWeighted', 'predict'), ('ModelWeighted', 'predict_rdm'),
                          ('ModelInterpolate', 'predict')):
            fn = fmod(name, cls)
            for a in _assigns(fn, 'theta'):
                t = ast.unparse(a.value)
                if t not in ('np.ones(self.n_rdm)', 'np.array(theta)', 'np.zeros(self.n_rdm)'):
                    raise Underivable(f'{cls}.{name} transforms theta: `{t}`')
        return 'theta'
    emit('weighted_param', ['theta'], weighted_no_clamp)

    def interp_default():
        fn = fmod('predict', 'ModelInterpolate')
        blocks = [n for n in fn.body if isinstance(n, ast.If) and ast.unparse(n.test) == 'theta is None']
        b = _one(blocks, '`if theta is None` in ModelInterpolate.predict')
        first = b.body[0]
        if not (isinstance(first, ast.Assign) and ast.unparse(first) == 'theta = np.zeros(self.n_rdm)'):
            raise Underivable('default does not start from zeros')
        expr = '0'
        sets = []
        for st in b.body[1:]:
            if not (isinstance(st, ast.Assign) and isinstance(st.targets[0], ast.Subscript)
                    and ast.unparse(st.targets[0].value) == 'theta'
                    and isinstance(st.targets[0].slice, ast.Constant)
                    and isinstance(st.value, ast.Constant)):
                raise Underivable(f'unexpected statement `{ast.unparse(st)}`')
            sets.append((st.targets[0].slice.value, st.value.value))
        for idx, val in reversed(sets):
            expr = f'({val!r} if j == {idx} else {expr})'
        return expr
    emit('interp_default', ['j'], interp_default)

    def rdm_default(cls):
        def go():
            fn = fmod('predict_rdm', cls)
            blocks = [n for n in fn.body if isinstance(n, ast.If) and ast.unparse(n.test) == 'theta is None']
            b = _one(blocks, f'`if theta is None` in {cls}.predict_rdm')
            if len(b.body) != 1 or ast.unparse(b.body[0]) != 'theta = np.ones(self.n_rdm)':
                raise Underivable(f'default of {cls}.predict_rdm is `{ast.unparse(b.body[0])}`')
            return '1'
        return go
    emit('interp_rdm_default', ['j'], rdm_default('ModelInterpolate'))
    emit('weighted_rdm_default', ['j'], rdm_default('ModelWeighted'))

    classes = ['ModelFixed', 'ModelSelect', 'ModelWeighted', 'ModelInterpolate']
    codes = {'fit_mock': 0, 'fit_select': 1, 'fit_optimize': 2, 'fit_interpolate': 3}

    def default_fitter():
        expr = None
        vals = []
        for cls in classes:
            init = fmod('__init__', cls)
            hits = _assigns(init, 'self.default_fitter')
            if not hits:
                raise Underivable(f'{cls}.__init__ does not set default_fitter')
            name = ast.unparse(hits[-1].value)
            if name not in codes:
                raise Underivable(f'{cls}.default_fitter = {name}')
            vals.append(codes[name])
        fitm = fmod('fit', 'Model')
        r = _one([n for n in ast.walk(fitm) if isinstance(n, ast.Return)], 'return of Model.fit')
        want = ('self.default_fitter(self, data, method=method, pattern_idx=pattern_idx, '
                'pattern_descriptor=pattern_descriptor, sigma_k=sigma_k)')
        if ast.unparse(r.value) != want:
            raise Underivable(f'Model.fit returns `{ast.unparse(r.value)}`')
        for cls in classes[1:]:
            c = [n for n in ast.walk(mod) if isinstance(n, ast.ClassDef) and n.name == cls][0]
            if any(isinstance(n, ast.FunctionDef) and n.name == 'fit' for n in c.body):
                raise Underivable(f'{cls} overrides fit')
        expr = str(vals[3])
        for kind in (2, 1, 0):
            expr = f'({vals[kind]} if kind == {kind} else {expr})'
        return expr
    emit('default_fitter_code', ['kind'], default_fitter)

    def n_param():
        vals = []
        for cls in classes:
            init = fmod('__init__', cls)
            hits = _assigns(init, 'self.n_param')
            if not hits:
                raise Underivable(f'{cls}.__init__ does not set n_param')
            vals.append(_sub(hits[-1].value, {'self.rdm_obj.n_rdm': 'n_rdm'}, need=[]))
        expr = vals[3]
        for kind in (2, 1, 0):
            expr = f'({vals[kind]} if kind == {kind} else {expr})'
        return expr
    emit('n_param', ['kind', 'n_rdm'], n_param)

    # ---- round 4: state that survives a call
    emit('input_writes', [], _input_writes)
    emit('module_state', [], _module_state)
    out.append('# stores into arguments / self found by the analysis (input_writes counts these):')
    out.extend('#   ' + x for x in WRITE_SITES)
    out.append('# places that can keep something between calls (module_state counts these):')
    out.extend('#   ' + x for x in STATE_SITES)
    out.append('')

    text = '\n'.join(out)
    if not (os.path.exists(DERIVED) and open(DERIVED).read() == text):
        with open(DERIVED + '.tmp', 'w') as f:
            f.write(text)
        os.replace(DERIVED + '.tmp', DERIVED)


_derive()


def _leaf(name, func, params, ret='A'):
    return dict(name=name, file=DERIVED, func=func, kind='func', params=params, ret=ret)


_W = {'w': 'A'}
_TS = {'t': 'A', 'sqrt_norm': 'A'}
LEAVES = [
    _leaf('interpFirst', 'interp_first', _W),
    _leaf('interpSecond', 'interp_second', _W),
    _leaf('interpResFirst', 'interp_res_first', _W),
    _leaf('interpResSecond', 'interp_res_second', _W),
    _leaf('interpSecondIndex', 'interp_second_index', {'i_pair': 'Nat'}, 'Nat'),
    _leaf('interpResSecondIndex', 'interp_res_second_index', {'i_pair': 'Nat'}, 'Nat'),
    _leaf('interpSegments', 'interp_segments', {'n_rdm': 'Nat'}, 'Nat'),
    _leaf('normEntryRegress', 'norm_entry_regress', _TS),
    _leaf('normEntryRegressNN', 'norm_entry_regress_nn', _TS),
    _leaf('normEntryOptimize', 'norm_entry_optimize', _TS),
    _leaf('normEntryOptimizePositive', 'norm_entry_optimize_positive', _TS),
    _leaf('normSqEntry', 'norm_sq_entry', {'t': 'A'}),
    _leaf('positiveParam', 'positive_param', {'t': 'A'}),
    _leaf('lossValue', 'loss_value', {'score': 'A', 'sumsq': 'A', 'ridge_weight': 'A'}),
    _leaf('nnlsTol', 'nnls_tol', {'eps': 'A', 'maxabs': 'A'}),
    _leaf('nnlsTolIter', 'nnls_tol_iter', {'eps': 'A', 'maxabs': 'A', 'prod': 'A'}),
    _leaf('nnlsIterBound', 'nnls_iter_bound', {'k': 'Nat'}, 'Nat'),
    _leaf('nnlsEnter', 'nnls_enter', {'wmax': 'A', 'tol': 'A'}, 'Nat'),
    _leaf('nnlsInnerTest', 'nnls_inner_test', {'s': 'A'}, 'Nat'),
    _leaf('nnlsStepLen', 'nnls_step_len', {'x': 'A', 's': 'A'}),
    _leaf('nnlsStepFree', 'nnls_step_free', {'s': 'A'}, 'Nat'),
    _leaf('nnlsStepUpdate', 'nnls_step_update', {'x': 'A', 'alpha': 'A', 's': 'A'}),
    _leaf('interpClamp', 'interp_clamp', {'theta': 'A'}),
    _leaf('weightedParam', 'weighted_param', {'theta': 'A'}),
    _leaf('interpDefault', 'interp_default', {'j': 'Nat'}),
    _leaf('interpRdmDefault', 'interp_rdm_default', {'j': 'Nat'}),
    _leaf('weightedRdmDefault', 'weighted_rdm_default', {'j': 'Nat'}),
    _leaf('defaultFitterCode', 'default_fitter_code', {'kind': 'Nat'}, 'Nat'),
    _leaf('nParam', 'n_param', {'kind': 'Nat', 'n_rdm': 'Nat'}, 'Nat'),
    _leaf('inputWrites', 'input_writes', {}, 'Nat'),
    _leaf('moduleState', 'module_state', {}, 'Nat'),
]
