"""Leaf specs for C17 (rdm/transform.py).

transform.py works on whole arrays (masked assignments, `np.sqrt`, generator expressions, string
concatenation), which is outside the scalar subset of py2lean.  As `leaves/C18.py` does, this module
first *derives* scalar Python functions from the current source text (Python `ast`) and writes them
into `harness/leaves/_C17_derived.py`; py2lean then translates those functions as usual.  Nothing is
cached: the derived file is rewritten on every run.  Every derivation fails closed: an unexpected
shape of the anchor gives a function calling `__underivable__`, which py2lean reports as an
untranslatable leaf = broken proof obligation.

1. element-wise value of a transform — a small symbolic executor over the statements that build the
   new `dissimilarities` array (`_elementwise`):
       dissimilarities = rdms.get_vectors().copy() / .astype(float)      -> the source entry  d
       NAME = np.quantile(dissimilarities, <q>)   (whole, untransformed stack) -> threshold symbol ta, tb
       NAME = <expression>                                                -> bound, substituted later
       dissimilarities = <expression>                                     -> new current value
       dissimilarities[<mask>] = <value>                                  -> (value if mask else current)
   names are replaced by what they are bound to *at that point*, so a mask written on the already
   rescaled array is translated as such (the geo-topological sequencing defect of the pinned tree
   would come out as a different leaf and break `geotop_clipped_linear`).
     positive_transform        -> pos_clip(d)            = (0 if d < 0 else d)
     sqrt_transform            -> sqrt_arg(d)            = argument of the final np.sqrt
     geotopological_transform  -> geotop_entry(d, ta, tb), gt_qa(low, up), gt_qb(low, up)
                                  (value; the quantile level each threshold is taken at)
   native py2lean leaf:  minmax_transform `dissimilarities[i] = (dissimilarities[i] - d_min) / (d_max - d_min)`
2. geodesic_transform: the `if` of the generator expression handed to `add_weighted_edges_from`
   with `mat[j, k]` -> w, `!=` on reals written as `< or >`         -> geo_keep(w) in {0, 1}
3. measure names: string constants are transported as natural numbers (big-endian bytes, ASCII only)
   and decoded in Lean (`Rsa.Transform.strOfCode`):
     rank_marker / rank_suffix / rank_nan_policy; sqrt_none / sqrt_prefix / sqrt_from0 / sqrt_to0 /
     sqrt_from1 / sqrt_to1; <fn>_none / <fn>_prefix for transform, minmax, geotop, geodesic;
     positive_keeps_name() in {0, 1}
4. descr_pass(kind): 1 iff the `RDMs(...)` call of that transform passes the first positional
   argument `dissimilarities` and the three descriptor dicts of the source.
"""
import ast
import os

SRC = os.environ.get('RSA_REPO_SRC', '/repo/src/rsatoolbox')
HERE = os.path.dirname(os.path.abspath(__file__))
DERIVED = os.path.join(HERE, '_C17_derived.py')
FILE = 'rdm/transform.py'
ARR = 'dissimilarities'
KIND_FUNCS = ['rank_transform', 'sqrt_transform', 'positive_transform', 'transform',
              'minmax_transform', 'geotopological_transform', 'geodesic_transform']


class Underivable(Exception):
    pass


def _tree():
    return ast.parse(open(os.path.join(SRC, FILE)).read())


def _func(name):
    for node in _tree().body:
        if isinstance(node, ast.FunctionDef) and node.name == name:
            return node
    raise Underivable(f'{FILE}: function {name} not found')


def _mentions(node, name):
    return any(isinstance(n, ast.Name) and n.id == name for n in ast.walk(node))


# ---------------------------------------------------------------- 1. element-wise executor

def _is_source_array(e):
    """rdms.get_vectors() [.copy() | .astype(float)]"""
    t = ast.unparse(e)
    return t in ('rdms.get_vectors()', 'rdms.get_vectors().copy()', 'rdms.get_vectors().astype(float)',
                 'np.array(rdms.get_vectors(), dtype=float)', 'rdms.get_vectors().astype(np.float64)')


class _Sub(ast.NodeTransformer):
    """substitute names by the expressions they are bound to; array masks `a & b`, `a | b`, `~a`
    become `and`, `or`, `not`; `dissimilarities[<mask>]` on a right-hand side is the current value"""

    def __init__(self, env, cur):
        self.env, self.cur = env, cur

    def visit_Name(self, node):
        if node.id == ARR:
            return self.cur
        if node.id in self.env:
            return self.env[node.id]
        raise Underivable(f'free name `{node.id}` in the element-wise part')

    def visit_Subscript(self, node):
        if isinstance(node.value, ast.Name) and node.value.id == ARR:
            return self.cur            # entries selected by a mask: still the current value
        raise Underivable(f'subscript `{ast.unparse(node)}`')

    def visit_BinOp(self, node):
        if isinstance(node.op, (ast.BitAnd, ast.BitOr)):
            op = ast.And() if isinstance(node.op, ast.BitAnd) else ast.Or()
            return ast.BoolOp(op=op, values=[self.visit(node.left), self.visit(node.right)])
        return ast.BinOp(left=self.visit(node.left), op=node.op, right=self.visit(node.right))

    def visit_UnaryOp(self, node):
        if isinstance(node.op, ast.Invert):
            return ast.UnaryOp(op=ast.Not(), operand=self.visit(node.operand))
        return ast.UnaryOp(op=node.op, operand=self.visit(node.operand))

    def visit_Call(self, node):
        if ast.unparse(node.func) == 'np.sqrt' and len(node.args) == 1 and not node.keywords:
            return ast.Call(func=node.func, args=[self.visit(node.args[0])], keywords=[])
        raise Underivable(f'call `{ast.unparse(node)}` in the element-wise part')


def _elementwise(fname):
    """returns (expression text of the new entry in terms of d / ta / tb, {symbol: q-expression})"""
    fn = _func(fname)
    cur = None
    env = {}
    thresholds = {}
    symbols = ['ta', 'tb']
    for st in fn.body:
        if isinstance(st, ast.Expr) and isinstance(st.value, ast.Constant):
            continue
        if not isinstance(st, ast.Assign) or len(st.targets) != 1:
            if any(isinstance(n, (ast.Assign, ast.AugAssign)) and _mentions(n, ARR) and
                   any(_mentions(t, ARR) for t in (n.targets if isinstance(n, ast.Assign) else [n.target]))
                   for n in ast.walk(st)):
                raise Underivable(f'{fname}: `{ARR}` is modified inside a compound statement')
            continue
        tgt, val = st.targets[0], st.value
        if isinstance(tgt, ast.Name) and tgt.id == ARR:
            if cur is None:
                if not _is_source_array(val):
                    raise Underivable(f'{fname}: `{ARR}` does not start as the vectors of the source')
                cur = ast.Name(id='d', ctx=ast.Load())
            else:
                cur = _Sub(env, cur).visit(val)
            continue
        if cur is None:
            continue
        if isinstance(tgt, ast.Subscript) and isinstance(tgt.value, ast.Name) and tgt.value.id == ARR:
            mask = _Sub(env, cur).visit(tgt.slice)
            value = _Sub(env, cur).visit(val)
            cur = ast.IfExp(test=mask, body=value, orelse=cur)
            continue
        if isinstance(tgt, ast.Name):
            if isinstance(val, ast.Call) and ast.unparse(val.func) == 'np.quantile':
                if ast.unparse(cur) != 'd' or len(val.args) != 2 or val.keywords or \
                        ast.unparse(val.args[0]) != ARR:
                    raise Underivable(f'{fname}: `{ast.unparse(val)}` is not a quantile of the whole '
                                      'untransformed stack')
                if not symbols:
                    raise Underivable(f'{fname}: more than two quantile thresholds')
                sym = symbols.pop(0)
                thresholds[sym] = ast.unparse(val.args[1])
                env[tgt.id] = ast.Name(id=sym, ctx=ast.Load())
                continue
            if isinstance(val, ast.Call) and ast.unparse(val.func) == 'RDMs':
                break
            if _mentions(val, ARR) or any(_mentions(val, k) for k in env):
                env[tgt.id] = _Sub(env, cur).visit(val)
            continue
        if _mentions(tgt, ARR):
            raise Underivable(f'{fname}: assignment to `{ast.unparse(tgt)}`')
    if cur is None:
        raise Underivable(f'{fname}: no assignment to `{ARR}`')
    return ast.unparse(ast.fix_missing_locations(ast.Expression(body=cur)).body), thresholds


def _pos_clip():
    return _elementwise('positive_transform')[0]


def _sqrt_arg():
    fn = _func('sqrt_transform')
    # re-run the executor but keep the tree to look at the outermost call
    text, _ = _elementwise('sqrt_transform')
    e = ast.parse(text, mode='eval').body
    if not (isinstance(e, ast.Call) and ast.unparse(e.func) == 'np.sqrt' and len(e.args) == 1):
        raise Underivable(f'sqrt_transform: the new entry `{text}` is not np.sqrt(<expression>)')
    inner = ast.unparse(e.args[0])
    if 'np.sqrt' in inner:
        raise Underivable('sqrt_transform: nested np.sqrt')
    del fn
    return inner


def _geotop(which):
    text, th = _elementwise('geotopological_transform')
    if sorted(th) != ['ta', 'tb']:
        raise Underivable('geotopological_transform: expected two np.quantile thresholds')
    return {'entry': text, 'qa': th['ta'], 'qb': th['tb']}[which]


# ---------------------------------------------------------------- 2. geodesic edge filter

def _real_compare(node):
    """`a != b` / `a == b` on reals -> `a < b or a > b` / its negation (py2lean has no real equality)"""
    class T(ast.NodeTransformer):
        def visit_Compare(self, n):
            n = self.generic_visit(n)
            if len(n.ops) == 1 and isinstance(n.ops[0], (ast.NotEq, ast.Eq)):
                a, b = n.left, n.comparators[0]
                ne = ast.BoolOp(op=ast.Or(), values=[
                    ast.Compare(left=a, ops=[ast.Lt()], comparators=[b]),
                    ast.Compare(left=a, ops=[ast.Gt()], comparators=[b])])
                return ne if isinstance(n.ops[0], ast.NotEq) else ast.UnaryOp(op=ast.Not(), operand=ne)
            return n
    return T().visit(node)


def _geo_keep():
    fn = _func('geodesic_transform')
    calls = [n for n in ast.walk(fn) if isinstance(n, ast.Call)
             and ast.unparse(n.func).endswith('.add_weighted_edges_from')]
    if len(calls) != 1 or len(calls[0].args) != 1 or not isinstance(calls[0].args[0], ast.GeneratorExp):
        raise Underivable('geodesic_transform: the edges are not added from one generator expression')
    gen = calls[0].args[0]
    if not (isinstance(gen.elt, ast.Tuple) and len(gen.elt.elts) == 3):
        raise Underivable('geodesic_transform: edge tuples are not (j, k, weight)')
    weight = ast.unparse(gen.elt.elts[2])
    src = [n for n in ast.walk(fn) if isinstance(n, ast.Assign) and ast.unparse(n.targets[0]) == 'mat']
    if weight != 'mat[j, k]' or len(src) != 1 or ast.unparse(src[0].value) != f'squareform({ARR}[i])':
        raise Underivable(f'geodesic_transform: edge weight `{weight}` is not the min-max entry of the pair')
    first = [n for n in fn.body if isinstance(n, ast.Assign) and ast.unparse(n.targets[0]) == ARR]
    if not first or ast.unparse(first[0].value) != 'minmax_transform(rdms).get_vectors()':
        raise Underivable('geodesic_transform: does not start from minmax_transform(rdms)')
    conds = [c for g in gen.generators for c in g.ifs]
    if len(conds) != 1:
        raise Underivable(f'geodesic_transform: expected one edge filter, found {len(conds)}')

    class W(ast.NodeTransformer):
        def visit_Subscript(self, n):
            if ast.unparse(n) == 'mat[j, k]':
                return ast.Name(id='w', ctx=ast.Load())
            return self.generic_visit(n)
    cond = _real_compare(W().visit(ast.parse(ast.unparse(conds[0]), mode='eval').body))
    return f'(1 if {ast.unparse(ast.fix_missing_locations(cond))} else 0)'


# ---------------------------------------------------------------- 3. measure names

def _code(s):
    if not isinstance(s, str):
        raise Underivable(f'{s!r} is not a string constant')
    b = s.encode('utf-8')
    if any(c >= 128 or c == 0 for c in b) or len(b) > 60 or (b and b[0] == 0):
        raise Underivable(f'string {s!r} is not short ASCII')
    return str(int.from_bytes(b, 'big')) if b else '0'


def _const(e):
    if isinstance(e, ast.Constant) and isinstance(e.value, str):
        return e.value
    raise Underivable(f'`{ast.unparse(e)}` is not a string constant')


M = 'rdms.dissimilarity_measure'


def _rdms_call(fname):
    fn = _func(fname)
    calls = [n for n in ast.walk(fn) if isinstance(n, ast.Call) and ast.unparse(n.func) == 'RDMs']
    if len(calls) != 1:
        raise Underivable(f'{fname}: expected one RDMs(...) call, found {len(calls)}')
    return fn, calls[0]


def _measure_kw(fname):
    fn, call = _rdms_call(fname)
    kws = [k.value for k in call.keywords if k.arg == 'dissimilarity_measure']
    if len(kws) != 1:
        raise Underivable(f'{fname}: RDMs(...) without dissimilarity_measure=')
    return fn, kws[0]


def _prefix_pair(fname):
    """if M is None: v = C0  else: v = C1 + M   ->  (C0, C1)"""
    fn, kw = _measure_kw(fname)
    if not isinstance(kw, ast.Name):
        raise Underivable(f'{fname}: dissimilarity_measure= is not a local name')
    ifs = [n for n in fn.body if isinstance(n, ast.If) and any(
        isinstance(b, ast.Assign) and ast.unparse(b.targets[0]) == kw.id for b in n.body)]
    if len(ifs) != 1:
        raise Underivable(f'{fname}: the if/else naming block was not found')
    node = ifs[0]
    if ast.unparse(node.test) != f'{M} is None' or len(node.body) != 1 or len(node.orelse) != 1 \
            or not isinstance(node.orelse[0], ast.Assign) \
            or ast.unparse(node.orelse[0].targets[0]) != kw.id:
        raise Underivable(f'{fname}: naming block is not `if {M} is None: ... else: ...`')
    later = [n for n in fn.body if isinstance(n, ast.Assign) and n.lineno > node.lineno
             and ast.unparse(n.targets[0]) == kw.id]
    if later:
        raise Underivable(f'{fname}: `{kw.id}` is reassigned after the naming block')
    none_name = _const(node.body[0].value)
    v = node.orelse[0].value
    if not (isinstance(v, ast.BinOp) and isinstance(v.op, ast.Add) and ast.unparse(v.right) == M):
        raise Underivable(f'{fname}: the name is not <constant> + {M}')
    return none_name, _const(v.left)


def _sqrt_names():
    """if M is None: C  elif M == A0: B0  elif M == A1: B1  else: P + M"""
    fn, kw = _measure_kw('sqrt_transform')
    if not isinstance(kw, ast.Name):
        raise Underivable('sqrt_transform: dissimilarity_measure= is not a local name')
    ifs = [n for n in fn.body if isinstance(n, ast.If)]
    if len(ifs) != 1:
        raise Underivable('sqrt_transform: expected one naming block')
    out = {}
    node = ifs[0]
    if ast.unparse(node.test) != f'{M} is None':
        raise Underivable('sqrt_transform: first test is not `is None`')

    def single(body):
        if len(body) != 1 or not isinstance(body[0], ast.Assign) or \
                ast.unparse(body[0].targets[0]) != kw.id:
            raise Underivable('sqrt_transform: a naming branch is not one assignment')
        return body[0].value
    out['none'] = _const(single(node.body))
    for k in (0, 1):
        if len(node.orelse) != 1 or not isinstance(node.orelse[0], ast.If):
            raise Underivable('sqrt_transform: expected two special-cased measure names')
        node = node.orelse[0]
        t = node.test
        if not (isinstance(t, ast.Compare) and len(t.ops) == 1 and isinstance(t.ops[0], ast.Eq)
                and ast.unparse(t.left) == M):
            raise Underivable(f'sqrt_transform: test `{ast.unparse(t)}`')
        out[f'from{k}'] = _const(t.comparators[0])
        out[f'to{k}'] = _const(single(node.body))
    v = single(node.orelse)
    if not (isinstance(v, ast.BinOp) and isinstance(v.op, ast.Add) and ast.unparse(v.right) == M):
        raise Underivable('sqrt_transform: the general name is not <constant> + measure')
    out['prefix'] = _const(v.left)
    return out


def _rank_names():
    """measure = M or ''; if MARK not in measure: measure = (measure + SUFFIX).strip()"""
    fn, kw = _measure_kw('rank_transform')
    if not isinstance(kw, ast.Name):
        raise Underivable('rank_transform: dissimilarity_measure= is not a local name')
    name = kw.id
    assigns = [n for n in fn.body if isinstance(n, ast.Assign) and ast.unparse(n.targets[0]) == name]
    if len(assigns) != 1 or ast.unparse(assigns[0].value) != f"{M} or ''":
        raise Underivable(f"rank_transform: `{name} = {M} or ''` not found")
    ifs = [n for n in fn.body if isinstance(n, ast.If)]
    if len(ifs) != 1 or ifs[0].orelse or len(ifs[0].body) != 1:
        raise Underivable('rank_transform: expected one `if <marker> not in measure:` block')
    t = ifs[0].test
    if not (isinstance(t, ast.Compare) and len(t.ops) == 1 and isinstance(t.ops[0], ast.NotIn)
            and ast.unparse(t.comparators[0]) == name):
        raise Underivable(f'rank_transform: test `{ast.unparse(t)}`')
    marker = _const(t.left)
    b = ifs[0].body[0]
    if not (isinstance(b, ast.Assign) and ast.unparse(b.targets[0]) == name):
        raise Underivable('rank_transform: the block does not assign the measure')
    v = b.value
    if not (isinstance(v, ast.Call) and isinstance(v.func, ast.Attribute) and v.func.attr == 'strip'
            and not v.args and isinstance(v.func.value, ast.BinOp) and isinstance(v.func.value.op, ast.Add)
            and ast.unparse(v.func.value.left) == name):
        raise Underivable(f'rank_transform: new name `{ast.unparse(v)}` is not (measure + <suffix>).strip()')
    return {'marker': marker, 'suffix': _const(v.func.value.right)}


def _rank_policy():
    """cfg = dict(method=method, nan_policy=<C>); rankdata(dissimilarities[i], **cfg) per RDM"""
    fn = _func('rank_transform')
    cfgs = [n for n in fn.body if isinstance(n, ast.Assign) and ast.unparse(n.targets[0]) == 'cfg']
    if len(cfgs) != 1 or not (isinstance(cfgs[0].value, ast.Call) and ast.unparse(cfgs[0].value.func) == 'dict'):
        raise Underivable('rank_transform: `cfg = dict(...)` not found')
    kws = {k.arg: k.value for k in cfgs[0].value.keywords}
    if sorted(kws) != ['method', 'nan_policy'] or ast.unparse(kws['method']) != 'method':
        raise Underivable(f'rank_transform: cfg keywords {sorted(kws)}')
    calls = [n for n in ast.walk(fn) if isinstance(n, ast.Call) and ast.unparse(n.func) == 'rankdata']
    if len(calls) != 1 or ast.unparse(calls[0]) != f'rankdata({ARR}[i], **cfg)':
        raise Underivable('rank_transform: rankdata is not called as rankdata(dissimilarities[i], **cfg)')
    comps = [n for n in ast.walk(fn) if isinstance(n, ast.ListComp)]
    if len(comps) != 1 or ast.unparse(comps[0].generators[0].iter) != 'range(rdms.n_rdm)' \
            or ast.unparse(comps[0].generators[0].target) != 'i' or comps[0].generators[0].ifs:
        raise Underivable('rank_transform: not one rankdata call per RDM')
    return _const(kws['nan_policy'])


def _positive_keeps():
    _, kw = _measure_kw('positive_transform')
    return '1' if ast.unparse(kw) == M else '0'


# ---------------------------------------------------------------- 4. descriptors

def _descr_pass(fname):
    _, call = _rdms_call(fname)
    if len(call.args) != 1 or ast.unparse(call.args[0]) != ARR:
        return 0
    kws = {k.arg: ast.unparse(k.value) for k in call.keywords}
    for key, attr in (('descriptors', 'descriptors'), ('rdm_descriptors', 'rdm_descriptors'),
                      ('pattern_descriptors', 'pattern_descriptors')):
        if kws.get(key) not in (f'deepcopy(rdms.{attr})', f'rdms.{attr}', f'dict(rdms.{attr})',
                                f'rdms.{attr}.copy()', f'copy.deepcopy(rdms.{attr})'):
            return 0
    # the array handed to RDMs must be the one the transform built: no later reassignment of the name
    return 1


def _descr_table():
    lines = []
    for k, fname in enumerate(KIND_FUNCS):
        lines.append(f"    {'if' if k == 0 else 'elif'} kind == {k}:")
        lines.append(f'        return {_descr_pass(fname)}')
    lines.append('    else:')
    lines.append('        return 0')
    return lines


# ---------------------------------------------------------------- emit

def _derive():
    out = ['# DERIVED by harness/leaves/C17.py from the source tree under check - do not edit', '']

    def emit(name, params, body_fn):
        try:
            body = body_fn()
        except Exception as exc:  # noqa: BLE001  (fail closed: any surprise = underivable)
            body = '__underivable__(' + repr(str(exc)) + ')'
        out.append(f'def {name}({", ".join(params)}):')
        out.append(f'    return {body}')
        out.append('')

    emit('pos_clip', ['d'], _pos_clip)
    emit('sqrt_arg', ['d'], _sqrt_arg)
    emit('geotop_entry', ['d', 'ta', 'tb'], lambda: _geotop('entry'))
    emit('gt_qa', ['low', 'up'], lambda: _geotop('qa'))
    emit('gt_qb', ['low', 'up'], lambda: _geotop('qb'))
    emit('geo_keep', ['w'], _geo_keep)

    emit('rank_marker', [], lambda: _code(_rank_names()['marker']))
    emit('rank_suffix', [], lambda: _code(_rank_names()['suffix']))
    emit('rank_nan_policy', [], lambda: _code(_rank_policy()))
    for key in ('none', 'prefix', 'from0', 'to0', 'from1', 'to1'):
        emit('sqrt_' + key, [], lambda key=key: _code(_sqrt_names()[key]))
    for short, fname in (('custom', 'transform'), ('minmax', 'minmax_transform'),
                         ('geotop', 'geotopological_transform'), ('geodesic', 'geodesic_transform')):
        emit(short + '_none', [], lambda fname=fname: _code(_prefix_pair(fname)[0]))
        emit(short + '_prefix', [], lambda fname=fname: _code(_prefix_pair(fname)[1]))
    emit('positive_keeps_name', [], _positive_keeps)

    try:
        table = _descr_table()
    except Exception as exc:  # noqa: BLE001
        table = ['    return __underivable__(' + repr(str(exc)) + ')']
    out.append('def descr_pass(kind):')
    out.extend(table)
    out.append('')

    text = '\n'.join(out)
    if not (os.path.exists(DERIVED) and open(DERIVED).read() == text):
        with open(DERIVED + '.tmp', 'w') as f:
            f.write(text)
        os.replace(DERIVED + '.tmp', DERIVED)


_derive()

_NAMES = (['rank_marker', 'rank_suffix', 'rank_nan_policy'] +
          ['sqrt_' + k for k in ('none', 'prefix', 'from0', 'to0', 'from1', 'to1')] +
          [s + e for s in ('custom', 'minmax', 'geotop', 'geodesic') for e in ('_none', '_prefix')] +
          ['positive_keeps_name'])


def _camel(s):
    parts = s.split('_')
    return parts[0] + ''.join(p.capitalize() for p in parts[1:])


LEAVES = [
    dict(name='posClip', file=DERIVED, func='pos_clip', kind='func', params={'d': 'A'}, ret='A'),
    dict(name='sqrtArg', file=DERIVED, func='sqrt_arg', kind='func', params={'d': 'A'}, ret='A'),
    # native: dissimilarities[i] = (dissimilarities[i] - d_min) / (d_max - d_min)
    dict(name='minmaxEntry', file=FILE, func='minmax_transform', kind='assign',
         target='dissimilarities_i', count=1,
         params={'dissimilarities_i': 'A', 'd_min': 'A', 'd_max': 'A'}, ret='A'),
    dict(name='geotopEntry', file=DERIVED, func='geotop_entry', kind='func',
         params={'d': 'A', 'ta': 'A', 'tb': 'A'}, ret='A'),
    dict(name='gtQa', file=DERIVED, func='gt_qa', kind='func', params={'low': 'A', 'up': 'A'}, ret='A'),
    dict(name='gtQb', file=DERIVED, func='gt_qb', kind='func', params={'low': 'A', 'up': 'A'}, ret='A'),
    dict(name='geoKeep', file=DERIVED, func='geo_keep', kind='func', params={'w': 'A'}, ret='Nat'),
] + [dict(name=_camel(n), file=DERIVED, func=n, kind='func', params={}, ret='Nat') for n in _NAMES] + [
    dict(name='descrPass', file=DERIVED, func='descr_pass', kind='func', params={'kind': 'Nat'}, ret='Nat'),
]
