"""May-alias analysis for in-place writes into the arguments of the evaluation routines (property C04,
round 4).  Derived from the analysis of leaves/C07.py (same rules), extended to
  * several source files at once (module-level helpers are followed across the files given),
  * methods of classes (`Class.method`, root `self`),
  * pass-through builtins (`enumerate`, `zip`, `list`, `tuple`, `reversed`, `iter`, `sorted` of an alias),
  * tuple-valued returns element by element (`models, evaluations, theta, fitter = input_check_model(...)`:
    `evaluations` is a fresh array, the others alias the arguments).
Counted: every statement on the path of a routine that writes IN PLACE into an object that may alias one of
the root parameters (`x[...] = `, `x.attr = `, `x -= `, `out=x`, mutating methods / numpy functions, `del x[...]`),
including those of helpers that are handed an alias.  Fails closed: an unknown statement kind or a missing
function raises `Underivable`.  Imported by leaves/C04.py only."""
import ast
import os

SRC = os.environ.get('RSA_REPO_SRC', '/repo/src/rsatoolbox')


class Underivable(Exception):
    pass


_PASS_FUNCS = {'enumerate', 'zip', 'list', 'tuple', 'reversed', 'iter', 'sorted'}

_VIEW_FUNCS = {'np.asarray', 'np.asanyarray', 'np.ascontiguousarray', 'np.asfortranarray', 'np.atleast_1d',
               'np.atleast_2d', 'np.atleast_3d', 'np.ravel', 'np.reshape', 'np.squeeze', 'np.transpose',
               'np.swapaxes', 'np.moveaxis', 'np.expand_dims', 'np.broadcast_to', 'np.nan_to_num', 'np.real',
               'np.diagonal', 'np.triu', 'np.tril', 'np.require', 'np.array', 'numpy.asarray', 'numpy.array'}
_VIEW_METHODS = {'get_vectors', 'view', 'reshape', 'ravel', 'squeeze', 'transpose', 'swapaxes', 'astype',
                 'diagonal', 'get_matrices', '__array__', 'flat', 'conj'}
_COPY_METHODS = {'copy', 'flatten', 'tolist', 'mean', 'sum', 'std', 'var', 'min', 'max', 'any', 'all', 'dot',
                 'subset', 'subsample', 'subset_pattern', 'subsample_pattern', 'item', 'argsort', 'nonzero'}
_MUT_METHODS = {'sort', 'fill', 'put', 'itemset', 'partition', 'resize', 'setfield', 'setflags', 'byteswap',
                '__setitem__', '__iadd__', '__isub__', '__imul__', '__itruediv__', 'sort_by', 'reorder', 'append',
                'update', 'pop', 'clear', 'extend', 'insert', 'remove', 'setdefault'}
_MUT_FUNCS = {'np.copyto', 'np.put', 'np.place', 'np.putmask', 'np.fill_diagonal', 'np.put_along_axis',
              'setattr', 'np.random.shuffle'}


class _Writes:
    """count in-place writes into arrays that may alias the data of the parameter `root` of function
    `fname` of one module (module-level helpers that receive an alias are followed)"""

    def __init__(self, paths):
        self.funcs = {}
        for path in paths:
            tree = ast.parse(open(os.path.join(SRC, path)).read())
            for n in tree.body:
                if isinstance(n, ast.FunctionDef):
                    if n.name in self.funcs:
                        raise Underivable(f'two module-level functions called {n.name}')
                    self.funcs[n.name] = n
                elif isinstance(n, ast.ClassDef):
                    for m in n.body:
                        if isinstance(m, ast.FunctionDef):
                            self.funcs[f'{n.name}.{m.name}'] = m
        self.stack = []
        self.ret_elts = {}

    def run(self, fname, roots):
        if fname not in self.funcs:
            raise Underivable(f'function {fname} not found')
        if fname in self.stack or len(self.stack) > 6:
            raise Underivable(f'recursion through {fname}')
        self.stack.append(fname)
        fn = self.funcs[fname]
        env = set(roots)
        self._elts = None
        saved = getattr(self, '_cur_elts', None)
        self._cur_elts = []
        writes, ret = self.block(fn.body, env)
        elts = self._cur_elts
        self._cur_elts = saved
        self.stack.pop()
        # element-wise aliasing of a tuple-valued return (all returns tuples of one length)
        self.ret_elts[fname] = None
        if elts and all(e is not None for e in elts) and len({len(e) for e in elts}) == 1:
            self.ret_elts[fname] = [any(e[i] for e in elts) for i in range(len(elts[0]))]
        return writes, ret

    def alias(self, e, env):
        if isinstance(e, ast.Name):
            return e.id in env
        if isinstance(e, ast.Attribute):
            return self.alias(e.value, env)
        if isinstance(e, (ast.Subscript, ast.Starred)):
            return self.alias(e.value, env)
        if isinstance(e, ast.IfExp):
            return self.alias(e.body, env) or self.alias(e.orelse, env)
        if isinstance(e, ast.BoolOp):
            return any(self.alias(v, env) for v in e.values)
        if isinstance(e, (ast.Tuple, ast.List)):
            return any(self.alias(v, env) for v in e.elts)
        if isinstance(e, ast.NamedExpr):
            return self.alias(e.value, env)
        if isinstance(e, ast.Call):
            f = e.func
            name = ast.unparse(f)
            args = list(e.args) + [k.value for k in e.keywords]
            if isinstance(f, ast.Attribute) and self.alias(f.value, env):
                if f.attr in _COPY_METHODS:
                    return False
                return True                     # any other method of an alias may return a view
            if name in _PASS_FUNCS:
                return any(self.alias(a, env) for a in args)
            if name in _VIEW_FUNCS:
                if name in ('np.array', 'numpy.array') and not any(
                        k.arg == 'copy' and ast.unparse(k.value) != 'True' for k in e.keywords):
                    return False                # np.array copies by default
                return any(self.alias(a, env) for a in args)
            if isinstance(f, ast.Name) and f.id in self.funcs:
                idx = [i for i, a in enumerate(e.args) if self.alias(a, env)]
                kws = [k.arg for k in e.keywords if self.alias(k.value, env)]
                if not idx and not kws:
                    return False
                params = [a.arg for a in self.funcs[f.id].args.args]
                roots = [params[i] for i in idx if i < len(params)] + [k for k in kws if k]
                return self.run(f.id, roots)[1]
            return False                        # other calls (numpy reductions, arithmetic helpers) return new arrays
        return False                            # arithmetic, comparisons, comprehensions, constants: new objects

    def scan(self, e, env):
        """writes caused by evaluating an expression: helpers that get an alias, `out=`, mutating calls"""
        w = 0
        env = set(env)
        for node in ast.walk(e):
            if isinstance(node, (ast.ListComp, ast.SetComp, ast.GeneratorExp, ast.DictComp)):
                for g in node.generators:
                    if self.alias(g.iter, env):
                        env |= {n.id for n in ast.walk(g.target) if isinstance(n, ast.Name)}
        for node in ast.walk(e):
            if not isinstance(node, ast.Call):
                continue
            f = node.func
            name = ast.unparse(f)
            for k in node.keywords:
                if k.arg == 'out' and self.alias(k.value, env):
                    w += 1
                if k.arg == 'copy' and ast.unparse(k.value) == 'False' and name not in _VIEW_FUNCS \
                        and not (isinstance(f, ast.Attribute) and f.attr == 'astype') \
                        and any(self.alias(a, env) for a in node.args):
                    w += 1
            if name in _MUT_FUNCS and node.args and self.alias(node.args[0], env):
                w += 1
            if isinstance(f, ast.Attribute) and f.attr in _MUT_METHODS and self.alias(f.value, env):
                w += 1
            if isinstance(f, ast.Name) and f.id in self.funcs:
                idx = [i for i, a in enumerate(node.args) if self.alias(a, env)]
                kws = [k.arg for k in node.keywords if k.arg and self.alias(k.value, env)]
                if idx or kws:
                    params = [a.arg for a in self.funcs[f.id].args.args]
                    w += self.run(f.id, [params[i] for i in idx if i < len(params)] + kws)[0]
        return w

    def bind(self, target, is_alias, env):
        w = 0
        if isinstance(target, ast.Name):
            (env.add if is_alias else env.discard)(target.id)
        elif isinstance(target, (ast.Tuple, ast.List)):
            for t in target.elts:
                w += self.bind(t, is_alias, env)
        elif isinstance(target, (ast.Subscript, ast.Attribute, ast.Starred)):
            if self.alias(target.value, env):
                w += 1                          # x[...] = ..., x.attr = ... on the caller's data
        return w

    def block(self, body, env):
        w, ret = 0, False
        for st in body:
            if isinstance(st, ast.Assign):
                w += self.scan(st.value, env)
                a = self.alias(st.value, env)
                elts = None
                if isinstance(st.value, ast.Call) and isinstance(st.value.func, ast.Name):
                    elts = self.ret_elts.get(st.value.func.id)
                for t in st.targets:
                    if a and elts is not None and isinstance(t, ast.Tuple) and len(t.elts) == len(elts):
                        for tt, ee in zip(t.elts, elts):
                            w += self.bind(tt, ee, env)
                    else:
                        w += self.bind(t, a, env)
            elif isinstance(st, ast.AnnAssign):
                if st.value is not None:
                    w += self.scan(st.value, env)
                    w += self.bind(st.target, self.alias(st.value, env), env)
            elif isinstance(st, ast.AugAssign):
                w += self.scan(st.value, env)
                t = st.target
                if self.alias(t if isinstance(t, ast.Name) else t.value, env):
                    w += 1                      # x -= ..., x[...] /= ... on the caller's data
            elif isinstance(st, ast.Return):
                if st.value is not None:
                    w += self.scan(st.value, env)
                    ret = ret or self.alias(st.value, env)
                    self._cur_elts.append([self.alias(x, env) for x in st.value.elts]
                                          if isinstance(st.value, ast.Tuple) else None)
            elif isinstance(st, (ast.Expr, ast.Assert, ast.Raise)):
                for e in ast.iter_child_nodes(st):
                    if isinstance(e, ast.expr):
                        w += self.scan(e, env)
            elif isinstance(st, ast.If):
                w += self.scan(st.test, env)
                e1, e2 = set(env), set(env)
                w1, r1 = self.block(st.body, e1)
                w2, r2 = self.block(st.orelse, e2)
                env.clear()
                env |= e1 | e2
                w, ret = w + w1 + w2, ret or r1 or r2
            elif isinstance(st, (ast.For, ast.While)):
                if isinstance(st, ast.For):
                    w += self.scan(st.iter, env)
                    self.bind(st.target, self.alias(st.iter, env), env)
                else:
                    w += self.scan(st.test, env)
                self.block(st.body, env)                     # first pass: which names become aliases
                w1, r1 = self.block(st.body, env)            # second pass counts with the loop-carried aliases
                w2, r2 = self.block(st.orelse, env)
                w, ret = w + w1 + w2, ret or r1 or r2
            elif isinstance(st, (ast.With, ast.Try)):
                inner = list(st.body) + [x for h in getattr(st, 'handlers', []) for x in h.body] \
                    + list(getattr(st, 'orelse', [])) + list(getattr(st, 'finalbody', []))
                w1, r1 = self.block(inner, env)
                w, ret = w + w1, ret or r1
            elif isinstance(st, (ast.Pass, ast.Import, ast.ImportFrom, ast.Break, ast.Continue, ast.Global,
                                 ast.Nonlocal)):
                pass
            elif isinstance(st, ast.Delete):
                w += sum(1 for t in st.targets if not isinstance(t, ast.Name) and self.alias(t.value, env))
            else:
                raise Underivable(f'statement {type(st).__name__} not understood')
        return w, ret




FILES = ['inference/evaluate.py', 'inference/boot_testset.py', 'inference/noise_ceiling.py',
         'util/inference_util.py', 'model/model.py']
ROOT_NAMES = ('models', 'model', 'data', 'rdms', 'theta', 'sample', 'train_set', 'test_set', 'ceil_set')
ROUTINES = {'inference/evaluate.py': None, 'inference/boot_testset.py': None}     # None = every public function
MODEL_METHODS = ('predict', 'predict_rdm')


_INDEX_DEFAULT = {
    "data.pattern_descriptors['index'] = np.arange(data.n_cond)": 'pattern_descriptor',
    "data.rdm_descriptors['index'] = np.arange(data.n_rdm)": 'rdm_descriptor',
}


def strip_index_defaults(fn):
    """boot_testset's `if pattern_descriptor is None: data.pattern_descriptors['index'] = np.arange(data.n_cond);
    pattern_descriptor = 'index'` (and the rdm twin) re-creates the constructor's default index descriptor in the
    caller's object.  These statements — exactly this text, under exactly this guard — are counted apart
    (`testsetIndexDefaults`); any other spelling stays a counted write."""
    n = 0
    keep = []
    for st in fn.body:              # bootstrap_testset_rdm: the pattern twin without a guard (it has no such argument)
        if isinstance(st, ast.Assign) and ast.unparse(st) in _INDEX_DEFAULT \
                and _INDEX_DEFAULT[ast.unparse(st)] not in [a.arg for a in fn.args.args]:
            n += 1
        else:
            keep.append(st)
    fn.body = keep
    for st in fn.body:
        if isinstance(st, ast.If) and len(st.body) == 2 and not st.orelse:
            t = ast.unparse(st.body[0])
            if t in _INDEX_DEFAULT and ast.unparse(st.test) == f'{_INDEX_DEFAULT[t]} is None' \
                    and ast.unparse(st.body[1]) == f"{_INDEX_DEFAULT[t]} = 'index'":
                st.body = st.body[1:]
                n += 1
    return n


def input_writes():
    """(count, report): in-place writes into models / data / theta on the paths of all public evaluation
    routines (helpers of the listed files followed) and of the models' `predict` / `predict_rdm`"""
    a = _Writes(FILES)
    total, report = 0, []
    stripped = sum(strip_index_defaults(fn) for name, fn in a.funcs.items() if name.startswith('bootstrap_testset'))
    report.append(f'index defaults of bootstrap_testset*: {stripped}')
    n_routines = 0
    for path in ROUTINES:
        tree = ast.parse(open(os.path.join(SRC, path)).read())
        for n in tree.body:
            if isinstance(n, ast.FunctionDef) and not n.name.startswith('_'):
                roots = [x.arg for x in n.args.args if x.arg in ROOT_NAMES]
                if not roots:
                    continue
                n_routines += 1
                w = a.run(n.name, roots)[0]
                total += w
                if w:
                    report.append(f'{n.name}: {w}')
    n_methods = 0
    for name in sorted(a.funcs):
        if '.' in name and name.split('.')[1] in MODEL_METHODS:
            n_methods += 1
            w = a.run(name, ['self', 'theta'])[0]
            total += w
            if w:
                report.append(f'{name}: {w}')
    if n_routines < 10 or n_methods < 8:
        raise Underivable(f'only {n_routines} routines / {n_methods} model methods found')
    return total, stripped, report
