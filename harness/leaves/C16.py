# leaves of C16: the size recovery used when an RDMs object is rebuilt from a file, and the
# small-sample variance correction a reloaded Result applies (inference/result.py ->
# extract_variances -> _correct_1d): the text that decides whether a reload can change variances
LEAVES = [
    dict(name='nFromReduced', file='util/rdm_utils.py', func='_get_n_from_reduced_vectors',
         kind='func', params={'x_shape_1': 'Nat'}, ret='Nat'),
    dict(name='correct1dBoth', file='util/inference_util.py', func='_correct_1d',
         kind='func', params={'variance': 'A', 'n_pattern': 'A', 'n_rdm': 'A'}, ret='A'),
    dict(name='correct1dPattern', file='util/inference_util.py', func='_correct_1d',
         kind='func', params={'variance': 'A', 'n_pattern': 'A', 'n_rdm': 'A'},
         none=['n_rdm'], ret='A'),
    dict(name='correct1dRdm', file='util/inference_util.py', func='_correct_1d',
         kind='func', params={'variance': 'A', 'n_pattern': 'A', 'n_rdm': 'A'},
         none=['n_pattern'], ret='A'),
    dict(name='correct1dNone', file='util/inference_util.py', func='_correct_1d',
         kind='func', params={'variance': 'A', 'n_pattern': 'A', 'n_rdm': 'A'},
         none=['n_pattern', 'n_rdm'], ret='A'),
]
