"""Leaf specs for C16 (save / load).

Native py2lean leaves (translated straight from /repo's text):
  nFromReduced            util/rdm_utils.py   _get_n_from_reduced_vectors
  correct1d{Both,...}     util/inference_util.py  _correct_1d  (4 specialisations)

The other leaves are *decision structures* of the save / load code (an isinstance chain, a
try / except, suffix tests on a file name, the order of `remove_file` and the writers) that are
outside the scalar subset of py2lean.  As `leaves/C18.py` does, this module first derives from the
current source text (Python `ast`) a tiny scalar Python function per structure and writes it to
`harness/leaves/_C16_derived.py`; py2lean then translates those as usual.  Nothing is cached.
Each derivation fails closed: an unexpected shape of the anchor yields a body calling
`__underivable__`, which py2lean reports as an untranslatable leaf = broken obligation.

  write_dispatch   io/hdf5.py `_write_to_group`: the if / elif chain over the value's Python type,
                   in source order.  Tests `isinstance(value, T)` / `value is None` become 0/1 flags
                   (is_str, is_ndarray, is_list, is_tuple, is_dict, is_none, is_iterable); each
                   branch body is classified by the writer primitive it uses:
                     1 attribute `group.attrs[key] = str(value)`      2 array (`<U` encoded)
                     3 `_write_list`      4 sub-group + recursion      5 `Empty`
                     6 generic iterable (`list(value)`: str sequence -> attribute, else `_write_list`)
                     7 raw `group[key] = value`                        0 nothing written
  list_dispatch    io/hdf5.py `_write_list`: `np.array(value)`; `<U` -> 1 encoded bytes, else 2 raw;
                   a TypeError / ValueError that the `except` clause catches -> 3 per-element group,
                   one it does not catch -> 0; an object-dtype array numpy built without raising
                   (`is_object`): 3 / 0 if the source raises for it inside the try (caught / not
                   caught), 2 (stored raw: strings come back as bytes objects) if it does not
  detect_{rdm,dataset,results}
                   the suffix tests of `load_rdm` / `load_dataset` / `load_results`
                   (`filename[-4:] == '.pkl'` ...): 1 pkl, 2 hdf5, 0 not understood
  save_plan_{rdms,dataset,result}
                   `save` of RDMs / DatasetBase / Result: which writer runs (2 hdf5, 4 pkl, 0 none)
                   plus 1 if `remove_file` ran before it, as a function of
                   (file_type == 'hdf5', file_type == 'pkl', overwrite)
  save_default_{rdms,dataset,result}
                   default `file_type` of `save` (2 hdf5, 4 pkl) plus the default of `overwrite`
  guard            io/hdf5.py `write_dict_hdf5`: 1 = refuse (`raise ValueError`), as a function of
                   (is_str, is_other_path [bytes / os.PathLike], exists): the isinstance test must be
                   `str` (then other paths pass: the theorem guard_table fails) or
                   `(str, bytes, os.PathLike)`; the file must be opened `File(fhandle, 'a')`
  from_dict_{result,rdms,dataset,model}
                   how `result_from_dict` / `rdms_from_dict` / `dataset_from_dict` / `model_from_dict` read
                   each field of the stored dictionary, as a function of (field index, key present, stored
                   value truthy): 1 stored value used, 0 None, 2 another value, 3 KeyError (see `_from_dict`;
                   `d.get(k) or default` puts 2 into the falsy column and breaks from_dict_fields_table)
"""
import ast
import os

SRC = os.environ.get('RSA_REPO_SRC', '/repo/src/rsatoolbox')
HERE = os.path.dirname(os.path.abspath(__file__))
DERIVED = os.path.join(HERE, '_C16_derived.py')


class Underivable(Exception):
    pass


def _func(path, name, cls=None):
    tree = ast.parse(open(os.path.join(SRC, path)).read())
    scope = tree
    if cls is not None:
        found = [n for n in ast.walk(tree) if isinstance(n, ast.ClassDef) and n.name == cls]
        if not found:
            raise Underivable(f'{path}: class {cls} not found')
        scope = found[0]
    for node in ast.walk(scope):
        if isinstance(node, ast.FunctionDef) and node.name == name:
            return node
    raise Underivable(f'{path}: function {name} not found')


def _strip_doc(body):
    if body and isinstance(body[0], ast.Expr) and isinstance(body[0].value, ast.Constant) \
            and isinstance(body[0].value.value, str):
        return body[1:]
    return body


# ----------------------------------------------------------------------------- _write_to_group

TYPE_FLAG = {'str': 'is_str', 'np.ndarray': 'is_ndarray', 'list': 'is_list', 'tuple': 'is_tuple',
             'dict': 'is_dict', 'Iterable': 'is_iterable'}
WRITE_FLAGS = ['is_str', 'is_ndarray', 'is_list', 'is_tuple', 'is_dict', 'is_none', 'is_iterable']


def _type_test(test, var='value'):
    """python test on the value's type -> scalar test text over the 0/1 flags"""
    if isinstance(test, ast.Call) and ast.unparse(test.func) == 'isinstance' and len(test.args) == 2 \
            and ast.unparse(test.args[0]) == var:
        t = test.args[1]
        names = [ast.unparse(e) for e in t.elts] if isinstance(t, ast.Tuple) else [ast.unparse(t)]
        if not all(n in TYPE_FLAG for n in names):
            raise Underivable(f'type test on {names}')
        return ' or '.join(f'{TYPE_FLAG[n]} > 0' for n in names)
    if isinstance(test, ast.Compare) and ast.unparse(test) == f'{var} is None':
        return 'is_none > 0'
    if isinstance(test, ast.BoolOp) and isinstance(test.op, ast.Or):
        return ' or '.join('(' + _type_test(v, var) + ')' for v in test.values)
    raise Underivable(f'test `{ast.unparse(test)}` is not a type test on {var}')


def _calls(nodes):
    out = set()
    for n in nodes:
        for c in ast.walk(n):
            if isinstance(c, ast.Call):
                out.add(ast.unparse(c.func))
    return out


def _targets(nodes):
    out = set()
    for n in nodes:
        for c in ast.walk(n):
            if isinstance(c, ast.Assign):
                out.update(ast.unparse(t) for t in c.targets)
    return out


def _classify_write(body):
    calls, targets = _calls(body), _targets(body)
    text = ' ; '.join(ast.unparse(b) for b in body)
    if 'list' in calls and '_write_list' in calls and 'group.attrs[key]' in targets:
        return 6
    if 'create_group' in {c.split('.')[-1] for c in calls} and '_write_to_group' in calls:
        return 4
    if calls == {'_write_list'} and not targets:
        return 3
    if 'Empty' in calls and targets == {'group[key]'}:
        return 5
    if targets == {'group.attrs[key]'} and 'str' in calls and '_write_list' not in calls:
        return 1
    if targets == {'group[key]'} and 'np.char.encode' in calls:
        return 2
    if targets == {'group[key]'} and not calls and text == 'group[key] = value':
        return 7
    raise Underivable(f'branch body `{text[:80]}` not recognised')


def _write_dispatch():
    fn = _func('io/hdf5.py', '_write_to_group')
    loops = [n for n in _strip_doc(fn.body) if isinstance(n, ast.For)]
    if len(loops) != 1 or ast.unparse(loops[0].iter) != 'dictionary.keys()':
        raise Underivable('the loop over dictionary.keys() was not found')
    body = loops[0].body
    if not (len(body) == 2 and ast.unparse(body[0]) == 'value = dictionary[key]'
            and isinstance(body[1], ast.If)):
        raise Underivable('loop body is not `value = dictionary[key]` + one if-chain')
    lines, node, kw = [], body[1], 'if'
    while True:
        lines.append(f'    {kw} {_type_test(node.test)}:')
        lines.append(f'        return {_classify_write(node.body)}')
        if len(node.orelse) == 1 and isinstance(node.orelse[0], ast.If):
            node, kw = node.orelse[0], 'elif'
            continue
        lines.append('    else:')
        lines.append(f'        return {_classify_write(node.orelse) if node.orelse else 0}')
        break
    return lines


def _list_dispatch():
    fn = _func('io/hdf5.py', '_write_list')
    body = _strip_doc(fn.body)
    if not (len(body) == 1 and isinstance(body[0], ast.Try) and not body[0].orelse
            and not body[0].finalbody and len(body[0].handlers) == 1):
        raise Underivable('_write_list is not one try / except')
    tr = body[0]
    stmts = list(tr.body)
    if not (stmts and ast.unparse(stmts[0]) == 'array = np.array(value)'):
        raise Underivable('try body does not start with `array = np.array(value)`')
    # optional: `if array.dtype.kind == 'O': raise <Error>(…)` — an array of python objects (numpy
    # builds one without complaint from a list of equal-length object arrays) is sent to the
    # per-element fall-back by raising inside the try
    obj_raises = None
    if len(stmts) == 3 and isinstance(stmts[1], ast.If) and not stmts[1].orelse \
            and ast.unparse(stmts[1].test) in ("array.dtype.kind == 'O'", "array.dtype == object",
                                               "array.dtype.kind == \"O\"") \
            and len(stmts[1].body) == 1 and isinstance(stmts[1].body[0], ast.Raise) \
            and isinstance(stmts[1].body[0].exc, ast.Call):
        obj_raises = ast.unparse(stmts[1].body[0].exc.func)
        del stmts[1]
    if not (len(stmts) == 2 and isinstance(stmts[1], ast.If) and len(stmts[1].orelse) == 1):
        raise Underivable('try body is not `array = np.array(value)` [+ object-dtype guard] + if / else')
    tr = ast.Try(body=stmts, handlers=tr.handlers, orelse=[], finalbody=[])
    cond = ast.unparse(tr.body[1].test)
    if cond not in ("str(array.dtype)[:2] == '<U'", "array.dtype.kind == 'U'"):
        raise Underivable(f'unicode test `{cond}`')
    yes = ast.unparse(tr.body[1].body[0]) if len(tr.body[1].body) == 1 else ''
    no = ast.unparse(tr.body[1].orelse[0])
    if yes != "group[key] = np.char.encode(array, 'utf-8')" or no != 'group[key] = array':
        raise Underivable('unicode / raw branches changed')
    h = tr.handlers[0]
    caught = set()
    if h.type is not None:
        caught = {ast.unparse(e) for e in h.type.elts} if isinstance(h.type, ast.Tuple) \
            else {ast.unparse(h.type)}
    else:
        caught = {'TypeError', 'ValueError'}
    if 'Exception' in caught:
        caught |= {'TypeError', 'ValueError'}
    hc = _calls(h.body)
    if not ('create_group' in {c.split('.')[-1] for c in hc} and '_write_to_group' in hc):
        raise Underivable('except body does not write a per-element group')
    # an object-dtype array that np.array built without raising: with the guard it takes the
    # except route (if what the guard raises is caught), without it it is stored raw
    obj = 2 if obj_raises is None else (3 if obj_raises in caught or h.type is None or 'Exception' in caught else 0)
    return ['    if raises_type > 0:', f"        return {3 if 'TypeError' in caught else 0}",
            '    elif raises_value > 0:', f"        return {3 if 'ValueError' in caught else 0}",
            '    elif is_object > 0:', f'        return {obj}',
            '    elif is_unicode > 0:', '        return 1', '    else:', '        return 2']


# ----------------------------------------------------------------------------- loaders

SUFFIX_FLAG = {(4, '.pkl'): 'end4_pkl', (3, '.h5'): 'end3_h5', (4, 'hdf5'): 'end4_hdf5'}
TYPE_CODE = {'pkl': 1, 'hdf5': 2}


def _suffix_test(test):
    if isinstance(test, ast.BoolOp) and isinstance(test.op, ast.Or):
        return ' or '.join(_suffix_test(v) for v in test.values)
    if isinstance(test, ast.Compare) and len(test.ops) == 1 and isinstance(test.ops[0], ast.Eq) \
            and isinstance(test.comparators[0], ast.Constant) and isinstance(test.left, ast.Subscript) \
            and ast.unparse(test.left.value) == 'filename' and isinstance(test.left.slice, ast.Slice):
        sl = test.left.slice
        lo = ast.unparse(sl.lower) if sl.lower is not None else ''
        if sl.upper is None and sl.step is None and lo.startswith('-') and lo[1:].isdigit():
            key = (int(lo[1:]), test.comparators[0].value)
            if key in SUFFIX_FLAG:
                return f'{SUFFIX_FLAG[key]} > 0'
    raise Underivable(f'suffix test `{ast.unparse(test)}`')


def _detect(path, name, reader_hdf5='read_dict_hdf5', reader_pkl='read_dict_pkl'):
    fn = _func(path, name)
    body = _strip_doc(fn.body)
    if not (len(body) == 3 and isinstance(body[0], ast.If) and isinstance(body[1], ast.If)
            and isinstance(body[2], ast.Return)):
        raise Underivable(f'{name}: body is not detect-if / read-if / return')
    outer = body[0]
    if ast.unparse(outer.test) != 'file_type is None' or outer.orelse or len(outer.body) != 1 \
            or not isinstance(outer.body[0], ast.If) \
            or ast.unparse(outer.body[0].test) != 'isinstance(filename, str)' or outer.body[0].orelse \
            or len(outer.body[0].body) != 1 or not isinstance(outer.body[0].body[0], ast.If):
        raise Underivable(f'{name}: detection block changed')
    lines, node, kw = [], outer.body[0].body[0], 'if'
    while True:
        if not (len(node.body) == 1 and isinstance(node.body[0], ast.Assign)
                and ast.unparse(node.body[0].targets[0]) == 'file_type'
                and isinstance(node.body[0].value, ast.Constant)
                and node.body[0].value.value in TYPE_CODE):
            raise Underivable(f'{name}: detection branch body changed')
        lines.append(f'    {kw} {_suffix_test(node.test)}:')
        lines.append(f'        return {TYPE_CODE[node.body[0].value.value]}')
        if len(node.orelse) == 1 and isinstance(node.orelse[0], ast.If):
            node, kw = node.orelse[0], 'elif'
            continue
        if node.orelse:
            raise Underivable(f'{name}: detection has an else branch')
        break
    lines += ['    else:', '        return 0']
    # the reading dispatch: hdf5 -> read_dict_hdf5, pkl -> read_dict_pkl, else raise ValueError
    rd = body[1]
    want = [("file_type == 'hdf5'", reader_hdf5), ("file_type == 'pkl'", reader_pkl)]
    node = rd
    for test, reader in want:
        if not (isinstance(node, ast.If) and ast.unparse(node.test) == test
                and reader in _calls(node.body)):
            raise Underivable(f'{name}: reading dispatch changed at `{test}`')
        node = node.orelse[0] if len(node.orelse) == 1 else node.orelse
    if not (isinstance(node, ast.Raise) and 'ValueError' in ast.unparse(node)):
        raise Underivable(f'{name}: unknown file type no longer raises ValueError')
    return lines


# ----------------------------------------------------------------------------- save

def _save_plan(path, cls):
    fn = _func(path, 'save', cls)
    args = [a.arg for a in fn.args.args]
    if args != ['self', 'filename', 'file_type', 'overwrite']:
        raise Underivable(f'{cls}.save arguments {args}')

    def test(t):
        s = ast.unparse(t)
        if s == 'overwrite':
            return 'overwrite > 0'
        if s == "file_type == 'hdf5'":
            return 'is_hdf5 > 0'
        if s == "file_type == 'pkl'":
            return 'is_pkl > 0'
        raise Underivable(f'{cls}.save: test `{s}`')

    def gen(stmts, removed, ind):
        """symbolic execution: `removed` = has remove_file run on this path?"""
        pad = ' ' * ind
        if not stmts:
            return [pad + f'return {removed}']
        s, rest = stmts[0], list(stmts[1:])
        if isinstance(s, ast.Assign) and ast.unparse(s.value) == 'self.to_dict()':
            return gen(rest, removed, ind)
        if isinstance(s, ast.Expr) and isinstance(s.value, ast.Call):
            f = ast.unparse(s.value.func)
            a0 = ast.unparse(s.value.args[0]) if s.value.args else ''
            if f == 'remove_file' and a0 == 'filename':
                return gen(rest, 1, ind)
            if f in ('write_dict_hdf5', 'write_dict_pkl') and a0 == 'filename':
                if rest:
                    raise Underivable(f'{cls}.save: statements after the writer')
                return [pad + f"return {(2 if f.endswith('hdf5') else 4) + removed}"]
        if isinstance(s, ast.If):
            return ([pad + f'if {test(s.test)}:'] + gen(list(s.body) + rest, removed, ind + 4)
                    + [pad + 'else:'] + gen(list(s.orelse) + rest, removed, ind + 4))
        raise Underivable(f'{cls}.save: statement `{ast.unparse(s)[:60]}`')
    return gen(_strip_doc(fn.body), 0, 4)


def _save_default(path, cls):
    fn = _func(path, 'save', cls)
    args = [a.arg for a in fn.args.args]
    defaults = fn.args.defaults
    if args != ['self', 'filename', 'file_type', 'overwrite'] or len(defaults) != 2:
        raise Underivable(f'{cls}.save signature')
    ft, ov = defaults
    if not (isinstance(ft, ast.Constant) and ft.value in ('hdf5', 'pkl')
            and isinstance(ov, ast.Constant) and isinstance(ov.value, bool)):
        raise Underivable(f'{cls}.save defaults')
    return [f"    return {(2 if ft.value == 'hdf5' else 4) + (1 if ov.value else 0)}"]


def _guard():
    fn = _func('io/hdf5.py', 'write_dict_hdf5')
    body = _strip_doc(fn.body)
    if not (isinstance(body[0], ast.If) and not body[0].orelse and len(body[0].body) == 1
            and isinstance(body[0].body[0], ast.If)):
        raise Underivable('write_dict_hdf5: guard block changed')
    # which kinds of target count as a path: `isinstance(fhandle, str)` (str only) or
    # `isinstance(fhandle, (str, bytes, os.PathLike))` (every path-like target); anything else
    # is not understood (fail closed)
    test = body[0].test
    if not (isinstance(test, ast.Call) and ast.unparse(test.func) == 'isinstance' and len(test.args) == 2
            and not test.keywords and ast.unparse(test.args[0]) == 'fhandle'):
        raise Underivable('write_dict_hdf5: guard is not an isinstance test of fhandle')
    ty = test.args[1]
    types = {ast.unparse(e) for e in ty.elts} if isinstance(ty, ast.Tuple) else {ast.unparse(ty)}
    if types == {'str'}:
        other = False
    elif types == {'str', 'bytes', 'os.PathLike'}:
        other = True
    else:
        raise Underivable(f'write_dict_hdf5: guard covers {sorted(types)}')
    inner = body[0].body[0]
    if ast.unparse(inner.test) != 'os.path.exists(fhandle)' or inner.orelse \
            or not (len(inner.body) == 1 and isinstance(inner.body[0], ast.Raise)
                    and 'ValueError' in ast.unparse(inner.body[0])):
        raise Underivable('write_dict_hdf5: guard no longer raises ValueError on an existing path')
    rest = ' ; '.join(ast.unparse(b) for b in body[1:])
    if "File(fhandle, 'a')" not in rest or '_write_to_group(file, dictionary)' not in rest:
        raise Underivable('write_dict_hdf5: open / write changed')
    lines = ['    if is_str > 0:', '        if path_exists > 0:', '            return 1']
    if other:
        lines += ['    if is_other_path > 0:', '        if path_exists > 0:', '            return 1']
    return lines + ['    return 0']



# ----------------------------------------------------------------------------- *_from_dict

FROM_DICT = {
    # leaf: (file, function, name of the dictionary argument, fields in the order of the Lean model)
    'from_dict_result': ('inference/result.py', 'result_from_dict', 'result_dict',
                         ['evaluations', 'dof', 'variances', 'noise_ceiling', 'method', 'cv_method', 'n_rdm',
                          'n_pattern', 'models', 'model_var', 'diff_var', 'noise_ceil_var']),
    'from_dict_rdms': ('rdm/rdms.py', 'rdms_from_dict', 'rdm_dict',
                       ['dissimilarities', 'descriptors', 'rdm_descriptors', 'pattern_descriptors',
                        'dissimilarity_measure']),
    'from_dict_dataset': ('data/dataset.py', 'dataset_from_dict', 'data_dict',
                          ['type', 'measurements', 'descriptors', 'obs_descriptors', 'channel_descriptors',
                           'time_descriptors']),
    'from_dict_model': ('model/model.py', 'model_from_dict', 'model_dict', ['rdm', 'name', 'type']),
}


def _from_dict(path, fname, var, fields):
    """how `*_from_dict` reads every field of the stored dictionary, as a function of
    (field index, key present, stored value truthy):
        1 the stored value is used      0 None / the constructor's own default is used
        2 some other value is used      3 KeyError
    Recognised forms: `d['k']` (required), `'k' in d.keys()` / `'k' in d` as the test of an `if`
    (optional; subscripts in its body are guarded), `d.get('k')` / `d.get('k', None)` (optional),
    `d.get('k', x)` (absent: another value).  A field access inside a boolean context (`x or y`,
    `x and y`, `not x`, `a if x else b`, the test of an if / while / assert) depends on the *truth
    value* of what was stored: a stored 0 / 0.0 / '' / [] / False is then not what is used (2), except
    for the bare statement `if d['k']: <assignments>` (0: the value is left out, as for a model
    without RDMs).  Equality tests against a constant (`d['type'] == 'Dataset'`) are dispatch, not
    truthiness.  Any other use of the dictionary (passed on whole, iterated, unpacked) is not
    understood (fail closed)."""
    fn = _func(path, fname)
    if [a.arg for a in fn.args.args] != [var]:
        raise Underivable(f'{fname}: arguments changed')
    parent = {}
    for node in ast.walk(fn):
        for ch in ast.iter_child_nodes(node):
            parent[ch] = node
    info = {k: {'sub': 0, 'unguarded': 0, 'truthy': 0, 'bare_if': 0, 'in': 0, 'get_none': 0, 'get_other': 0}
            for k in fields}

    def key_of(node):
        if isinstance(node, ast.Constant) and isinstance(node.value, str):
            if node.value not in info:
                raise Underivable(f'{fname}: unexpected field {node.value!r}')
            return node.value
        raise Underivable(f'{fname}: a key of {var} that is no string constant')

    def is_presence_test(t):
        if isinstance(t, ast.Compare) and len(t.ops) == 1 and isinstance(t.ops[0], ast.In):
            c = ast.unparse(t.comparators[0])
            return c in (var, var + '.keys()')
        return False

    def context(expr):
        """(boolean context?, bare if-test?, guarded by a presence test?) of an access expression"""
        boolean, bare, guarded = False, False, False
        node = expr
        while node in parent and not isinstance(node, ast.FunctionDef):
            up = parent[node]
            if isinstance(up, (ast.BoolOp, ast.IfExp)) or (isinstance(up, ast.UnaryOp)
                                                          and isinstance(up.op, ast.Not)):
                boolean = True
            if isinstance(up, (ast.If, ast.While)) and node is up.test:
                if not (isinstance(node, ast.Compare) and len(node.ops) == 1
                        and isinstance(node.ops[0], (ast.Eq, ast.In))
                        and (all(isinstance(c, ast.Constant) for c in node.comparators)
                             or is_presence_test(node))):
                    boolean = True
                    if node is expr and isinstance(up, ast.If) and not up.orelse \
                            and all(isinstance(b, ast.Assign) for b in up.body):
                        bare = True
            if isinstance(up, ast.Assert):
                boolean = True
            if isinstance(up, ast.If) and node is not up.test and node in up.body and is_presence_test(up.test):
                guarded = True
            node = up
        return boolean, bare, guarded

    for node in ast.walk(fn):
        if not (isinstance(node, ast.Name) and node.id == var):
            continue
        if isinstance(node.ctx, ast.Store) or node not in parent:
            raise Underivable(f'{fname}: {var} is re-bound')
        up = parent[node]
        if isinstance(up, ast.arg):
            continue
        if isinstance(up, ast.Subscript) and up.value is node:
            k = key_of(up.slice)
            boolean, bare, guarded = context(up)
            info[k]['sub'] += 1
            info[k]['unguarded'] += 0 if guarded else 1
            if bare:
                info[k]['bare_if'] += 1
            elif boolean:
                info[k]['truthy'] += 1
            continue
        if isinstance(up, ast.Attribute) and up.value is node and up.attr == 'keys' \
                and isinstance(parent.get(up), ast.Call) and is_presence_test(parent.get(parent[up])):
            t = parent[parent[up]]
            if not (isinstance(parent.get(t), ast.If) and parent[t].test is t):
                raise Underivable(f'{fname}: presence test outside an if')
            info[key_of(t.left)]['in'] += 1
            continue
        if isinstance(up, ast.Compare) and is_presence_test(up) and up.comparators[0] is node:
            if not (isinstance(parent.get(up), ast.If) and parent[up].test is up):
                raise Underivable(f'{fname}: presence test outside an if')
            info[key_of(up.left)]['in'] += 1
            continue
        if isinstance(up, ast.Attribute) and up.value is node and up.attr == 'get' \
                and isinstance(parent.get(up), ast.Call) and parent[up].func is up:
            call = parent[up]
            if call.keywords or not 1 <= len(call.args) <= 2:
                raise Underivable(f'{fname}: {ast.unparse(call)}')
            k = key_of(call.args[0])
            none_default = len(call.args) == 1 or (isinstance(call.args[1], ast.Constant)
                                                   and call.args[1].value is None)
            info[k]['get_none' if none_default else 'get_other'] += 1
            boolean, bare, _ = context(call)
            if bare:
                info[k]['bare_if'] += 1
            elif boolean:
                info[k]['truthy'] += 1
            continue
        raise Underivable(f'{fname}: use of {var} not understood: `{ast.unparse(up)[:60]}`')

    lines, kw = [], 'if'
    for i, k in enumerate(fields):
        f = info[k]
        if not (f['sub'] or f['get_none'] or f['get_other']):
            raise Underivable(f'{fname}: field {k!r} is never read')
        falsy = 2 if f['truthy'] else 0 if f['bare_if'] else 1
        if f['get_other'] or (f['truthy'] and f['get_none']):
            absent = 2                   # `d.get(k, x)`, `d.get(k) or x`
        elif f['unguarded']:
            absent = 3
        else:
            absent = 0
        lines += [f'    {kw} field == {i}:', '        if present > 0:', '            if truthy > 0:',
                  '                return 1', '            else:', f'                return {falsy}',
                  '        else:', f'            return {absent}']
        kw = 'elif'
    return lines + ['    else:', '        return 9']


# ----------------------------------------------------------------------------- emit

def _derive():
    out = ['# DERIVED by harness/leaves/C16.py from the source tree under check - do not edit', '']

    def emit(name, params, lines_fn):
        try:
            lines = lines_fn()
        except Exception as exc:  # noqa: BLE001  (fail closed)
            lines = ['    return __underivable__(' + repr(str(exc)) + ')']
        out.append(f'def {name}({", ".join(params)}):')
        out.extend(lines)
        out.append('')

    emit('write_dispatch', WRITE_FLAGS, _write_dispatch)
    emit('list_dispatch', ['raises_type', 'raises_value', 'is_object', 'is_unicode'], _list_dispatch)
    suf = ['end4_pkl', 'end3_h5', 'end4_hdf5']
    emit('detect_rdm', suf, lambda: _detect('rdm/rdms.py', 'load_rdm'))
    emit('detect_dataset', suf, lambda: _detect('data/dataset.py', 'load_dataset'))
    emit('detect_results', suf, lambda: _detect('inference/result.py', 'load_results'))
    sp = ['is_hdf5', 'is_pkl', 'overwrite']
    emit('save_plan_rdms', sp, lambda: _save_plan('rdm/rdms.py', 'RDMs'))
    emit('save_plan_dataset', sp, lambda: _save_plan('data/base.py', 'DatasetBase'))
    emit('save_plan_result', sp, lambda: _save_plan('inference/result.py', 'Result'))
    emit('save_default_rdms', [], lambda: _save_default('rdm/rdms.py', 'RDMs'))
    emit('save_default_dataset', [], lambda: _save_default('data/base.py', 'DatasetBase'))
    emit('save_default_result', [], lambda: _save_default('inference/result.py', 'Result'))
    emit('guard', ['is_str', 'is_other_path', 'path_exists'], _guard)
    for leaf, (path, fname, var, fields) in FROM_DICT.items():
        emit(leaf, ['field', 'present', 'truthy'],
             lambda path=path, fname=fname, var=var, fields=fields: _from_dict(path, fname, var, fields))

    text = '\n'.join(out)
    if not (os.path.exists(DERIVED) and open(DERIVED).read() == text):
        with open(DERIVED + '.tmp', 'w') as f:
            f.write(text)
        os.replace(DERIVED + '.tmp', DERIVED)


_derive()


def _nat(names):
    return {n: 'Nat' for n in names}


_SUF = _nat(['end4_pkl', 'end3_h5', 'end4_hdf5'])
_SP = _nat(['is_hdf5', 'is_pkl', 'overwrite'])

LEAVES = [
    dict(name='nFromReduced', file='util/rdm_utils.py', func='_get_n_from_reduced_vectors',
         kind='func', params={'x_shape_1': 'Nat'}, ret='Nat'),
    dict(name='correct1dBoth', file='util/inference_util.py', func='_correct_1d',
         kind='func', params={'variance': 'A', 'n_pattern': 'A', 'n_rdm': 'A'}, ret='A'),
    dict(name='correct1dPattern', file='util/inference_util.py', func='_correct_1d',
         kind='func', params={'variance': 'A', 'n_pattern': 'A', 'n_rdm': 'A'},
         none=['n_rdm'], ret='A'),
    dict(name='correct1dRdm', file='util/inference_util.py', func='_correct_1d',
         kind='func', params={'variance': 'A', 'n_pattern': 'A', 'n_rdm': 'A'},
         none=['n_pattern'], ret='A'),
    dict(name='correct1dNone', file='util/inference_util.py', func='_correct_1d',
         kind='func', params={'variance': 'A', 'n_pattern': 'A', 'n_rdm': 'A'},
         none=['n_pattern', 'n_rdm'], ret='A'),
    dict(name='writeDispatch', file=DERIVED, func='write_dispatch', kind='func',
         params=_nat(WRITE_FLAGS), ret='Nat'),
    dict(name='listDispatch', file=DERIVED, func='list_dispatch', kind='func',
         params=_nat(['raises_type', 'raises_value', 'is_object', 'is_unicode']), ret='Nat'),
    dict(name='detectRdm', file=DERIVED, func='detect_rdm', kind='func', params=_SUF, ret='Nat'),
    dict(name='detectDataset', file=DERIVED, func='detect_dataset', kind='func', params=_SUF, ret='Nat'),
    dict(name='detectResults', file=DERIVED, func='detect_results', kind='func', params=_SUF, ret='Nat'),
    dict(name='savePlanRdms', file=DERIVED, func='save_plan_rdms', kind='func', params=_SP, ret='Nat'),
    dict(name='savePlanDataset', file=DERIVED, func='save_plan_dataset', kind='func', params=_SP, ret='Nat'),
    dict(name='savePlanResult', file=DERIVED, func='save_plan_result', kind='func', params=_SP, ret='Nat'),
    dict(name='saveDefaultRdms', file=DERIVED, func='save_default_rdms', kind='func', params={}, ret='Nat'),
    dict(name='saveDefaultDataset', file=DERIVED, func='save_default_dataset', kind='func', params={},
         ret='Nat'),
    dict(name='saveDefaultResult', file=DERIVED, func='save_default_result', kind='func', params={},
         ret='Nat'),
    dict(name='guard', file=DERIVED, func='guard', kind='func', params=_nat(['is_str', 'is_other_path', 'path_exists']),
         ret='Nat'),
] + [
    dict(name=n, file=DERIVED, func=f, kind='func', params=_nat(['field', 'present', 'truthy']), ret='Nat')
    for n, f in (('fromDictResult', 'from_dict_result'), ('fromDictRdms', 'from_dict_rdms'),
                 ('fromDictDataset', 'from_dict_dataset'), ('fromDictModel', 'from_dict_model'))
]
