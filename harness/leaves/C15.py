"""Leaves of property C15, regenerated from the source tree under check on every run.

(1) Native leaves: arithmetic right-hand sides inside `calc`, `calc_one` and the per-pair
kernels of cengine/similarity.pyx; `cdiv=True` gives `/` between integer expressions the C
meaning (Cython `cdivision(True)` on typed ints), which is what makes `weights[idx] += 1 / 2`
the integer 0.  The kernel text indexes with names (`desc[i]`, `values[idx]`); the translator
maps `x[name]` to the pseudo-name `x_name` natively.

(2) Derived leaves (round 3, an own small source-to-leaf rewriter like leaves/C18.py): the
*conditions* and *dispatch tables* of the anchored code are not assignments, so py2lean cannot
anchor them.  This module reads the current text of `similarity.pyx` (line based) and of
`rdm/calc_unbalanced.py` (Python `ast`) and writes tiny Python functions into
`harness/leaves/_C15_derived.py`, which py2lean then translates as usual (spec['file'] is that
absolute path).  Nothing is cached: the derived file is rewritten on every run.  Every derivation
fails closed: an unexpected shape of the anchor gives a function calling `__underivable__`,
which py2lean reports as an untranslatable leaf = broken obligation.

  from similarity.pyx
    pair_guard / final_guard     `if weight > 0:` / `if weights[idx] > 0:` of `calc` (0/1)
    adm_cond / self_cond         `if not crossval or not cv_desc[i] == cv_desc[j]:` / `if not crossval:`
                                 (C truthiness of the int flag: `not crossval` is written `crossval == 0`)
    same_cond / gt_cond          `if desc[i] == desc[j]:` / `if desc[j] > desc[i]:` (buffer index dispatch)
    inner_start                  first argument of `for j in range(i + 1, data.shape[0])`
    one_adm / one_guard / one_final_guard   the three conditions of `calc_one`
    both_valid                   `if not isnan(vec_i[i]) and not isnan(vec_j[i]):` - must be the same
                                 text in all four kernels (isnan(.) of the two entries = flags nan_i, nan_j)
    corr_cond, corr_var_i/_j     `if si2 > 0 and sj2 > 0:` and the arguments of the two `sqrt` calls
    mahal_weight, mahal_bound    `weight = <float_t> n_dim` (cast stripped; identical in calc, calc_one,
                                 similarity) and the bound of the loop `sim += vec1[i] * vec3[i]`
    kern_of_idx_k[_nonoise]      which kernel `method_idx == k` selects (1 euclid, 2 correlation,
                                 3 mahalanobis, 4 poisson_cv), identical in the three dispatch chains
  from rdm/calc_unbalanced.py (static evaluation of the if-chains for each argument value)
    mi_<method>, one_mi_<method> method_idx for each of the six methods (calc_rdm_unbalanced /
                                 calc_one_similarity)
    cv_<method>_none/_given      the `crossval` flag handed to the kernel without / with cv_descriptor
    wi_equal/_number, one_wi_*   weight_idx
"""
import ast
import os
import re

SRC = os.environ.get('RSA_REPO_SRC', '/repo/src/rsatoolbox')
HERE = os.path.dirname(os.path.abspath(__file__))
DERIVED = os.path.join(HERE, '_C15_derived.py')
METHODS = ['euclidean', 'correlation', 'mahalanobis', 'crossnobis', 'poisson', 'poisson_cv']
KERNEL_CODE = {'euclid': 1, 'correlation': 2, 'mahalanobis': 3, 'poisson_cv': 4}


class Underivable(Exception):
    pass


# ---------------------------------------------------------------- .pyx (line based)

def _pyx_body(text, name):
    lines = text.split('\n')
    start = None
    for i, l in enumerate(lines):
        if re.match(r'\s*(cp?def|def)\b[^\n]*\b' + re.escape(name) + r'\s*\(', l):
            start = i
            break
    if start is None:
        raise Underivable(f'function {name} not found in similarity.pyx')
    indent = len(lines[start]) - len(lines[start].lstrip())
    j = start
    while not lines[j].rstrip().endswith(':'):
        j += 1
    body = []
    for l in lines[j + 1:]:
        if l.strip() and (len(l) - len(l.lstrip())) <= indent:
            break
        body.append(l)
    return body


def _conds(body):
    """conditions of all if/elif headers, comments stripped"""
    out = []
    for l in body:
        m = re.match(r'\s*(?:el)?if (.+?):\s*(#.*)?$', l)
        if m:
            out.append(m.group(1).strip())
    return out


def _one(conds, pred, what):
    hits = [c for c in conds if pred(c)]
    if len(hits) != 1:
        raise Underivable(f'expected exactly one condition on {what}, found {hits}')
    return hits[0]


def _words(c):
    return set(re.findall(r'[A-Za-z_][A-Za-z_0-9]*', c))


def _flag(cond):
    """C truthiness of the int flag `crossval`"""
    cond = re.sub(r'\bnot\s+crossval\b', 'crossval == 0', cond)
    if re.search(r'(?<![=!<>]= )\bcrossval\b(?! ==)', cond.replace('crossval == 0', '')):
        raise Underivable(f'bare use of crossval in `{cond}`')
    return cond


def _check_expr(text):
    try:
        ast.parse(text, mode='eval')
    except SyntaxError as exc:
        raise Underivable(f'`{text}` is not an expression: {exc}')
    return text


def _dispatch_blocks(body):
    """for every `if method_idx == 1` chain in a function body: {k: (kernel without noise,
    kernel with noise)} by the kernel functions called in the branch"""
    chains, cur, k, ind = [], None, None, None
    for l in body:
        m = re.match(r'(\s*)(el)?if method_idx == (\d+)\s*:', l)
        if m:
            if not m.group(2):
                cur = {}
                chains.append(cur)
                ind = len(m.group(1))
            if cur is None:
                raise Underivable('elif method_idx without if')
            k = int(m.group(3))
            cur[k] = []
            continue
        if cur is not None and k is not None:
            if l.strip() and (len(l) - len(l.lstrip())) <= ind:
                k = None
                cur = None
                continue
            cur[k].append(l.strip())
    out = []
    for ch in chains:
        if not any(re.search(r'\b(euclid|correlation|mahalanobis|poisson_cv)\(', l)
                   for lines in ch.values() for l in lines):
            continue        # the Poisson precomputation `if method_idx == 4:` calls no kernel
        d = {}
        for kk, lines in ch.items():
            calls = []
            for l in lines:
                calls += [('', f) for f in
                          re.findall(r'\b(euclid|correlation|mahalanobis|poisson_cv)\(', l)]
            names = [f for _, f in calls]
            if len(names) == 1:
                d[kk] = (names[0], names[0])
            elif len(names) == 2 and lines and lines[0].startswith('if noise is None') \
                    and any(x.startswith('else') for x in lines):
                d[kk] = (names[0], names[1])
            else:
                raise Underivable(f'method_idx == {kk}: unexpected kernel calls {names}')
        out.append(d)
    return out


def _derive_pyx(emit):
    try:
        text = open(os.path.join(SRC, 'cengine/similarity.pyx')).read()
        calc = _pyx_body(text, 'calc')
        one = _pyx_body(text, 'calc_one')
        err = None
    except (OSError, Underivable) as exc:
        calc = one = None
        text = ''
        err = exc

    def need(fn):
        def g():
            if err is not None:
                raise err
            return fn()
        return g

    cc = lambda: _conds(calc)
    oc = lambda: _conds(one)
    emit('pair_guard', ['weight'], need(lambda: '1 if ' + _check_expr(_one(
        cc(), lambda c: 'weight' in _words(c), 'weight')) + ' else 0'))
    emit('final_guard', ['weights_idx'], need(lambda: '1 if ' + _check_expr(_one(
        cc(), lambda c: 'weights' in _words(c), 'weights[idx]')) + ' else 0'))
    emit('adm_cond', ['crossval', 'cv_desc_i', 'cv_desc_j'], need(lambda: '1 if (' + _check_expr(_flag(_one(
        cc(), lambda c: 'cv_desc' in _words(c), 'cv_desc'))) + ') else 0'))
    emit('self_cond', ['crossval'], need(lambda: '1 if (' + _check_expr(_flag(_one(
        cc(), lambda c: 'crossval' in _words(c) and 'cv_desc' not in _words(c), 'crossval alone'))) + ') else 0'))

    def desc_cond(k):
        hits = [c for c in cc() if 'desc' in _words(c)]
        if len(hits) != 2:
            raise Underivable(f'expected two conditions on desc, found {hits}')
        return '1 if ' + _check_expr(hits[k]) + ' else 0'
    emit('same_cond', ['desc_i', 'desc_j'], need(lambda: desc_cond(0)))
    emit('gt_cond', ['desc_i', 'desc_j'], need(lambda: desc_cond(1)))

    def inner_start():
        hits = [m.group(1) for m in (re.match(r'\s*for j in range\((.+),\s*data\.shape\[0\]\)\s*:', l)
                                     for l in calc) if m]
        if len(hits) != 1:
            raise Underivable(f'expected one `for j in range(<start>, data.shape[0])`, found {hits}')
        return _check_expr(hits[0])
    emit('inner_start', ['i'], need(inner_start))
    emit('one_adm', ['cv_desc_i_i', 'cv_desc_j_j'], need(lambda: '1 if (' + _check_expr(_one(
        oc(), lambda c: 'cv_desc_i' in _words(c), 'cv_desc_i')) + ') else 0'))
    emit('one_guard', ['weight'], need(lambda: '1 if ' + _check_expr(_one(
        oc(), lambda c: 'weight' in _words(c), 'weight')) + ' else 0'))
    emit('one_final_guard', ['weight_sum'], need(lambda: '1 if ' + _check_expr(_one(
        oc(), lambda c: 'weight_sum' in _words(c), 'weight_sum')) + ' else 0'))

    def both_valid():
        seen = set()
        for k in ('euclid', 'poisson_cv', 'mahalanobis', 'correlation'):
            c = [x for x in _conds(_pyx_body(text, k)) if 'isnan' in x]
            if len(c) != 1:
                raise Underivable(f'{k}: expected one isnan condition, found {c}')
            seen.add(c[0])
        if len(seen) != 1:
            raise Underivable(f'the four kernels test validity differently: {sorted(seen)}')
        c = seen.pop()
        c2 = c.replace('isnan(vec_i[i])', 'nan_i == 1').replace('isnan(vec_j[i])', 'nan_j == 1')
        if 'isnan' in c2 or 'vec_' in c2:
            raise Underivable(f'validity test `{c}` is not on vec_i[i], vec_j[i]')
        return '1 if (' + _check_expr(c2) + ') else 0'
    emit('both_valid', ['nan_i', 'nan_j'], need(both_valid))

    def corr(what):
        body = _pyx_body(text, 'correlation')
        if what == 'cond':
            return '1 if (' + _check_expr(_one(_conds(body), lambda c: 'si2' in _words(c), 'si2')) + ') else 0'
        hits = [m.group(1) for m in (re.match(r'\s*sim /= sqrt\((.*)\)\s*$', l) for l in body) if m]
        if len(hits) != 2:
            raise Underivable(f'expected two `sim /= sqrt(...)`, found {hits}')
        return _check_expr(hits[what])
    emit('corr_cond', ['si2', 'sj2'], need(lambda: corr('cond')))
    emit('corr_var_i', ['si2', 'si', 'n_dim'], need(lambda: corr(0)))
    emit('corr_var_j', ['sj2', 'sj', 'n_dim'], need(lambda: corr(1)))

    def mahal_weight():
        seen = set()
        for fn, cnt in (('calc', 2), ('calc_one', 1), ('similarity', 1)):
            hits = [m.group(1).strip() for m in (re.match(r'\s*weight = (.+)$', l)
                                                 for l in _pyx_body(text, fn)) if m]
            if len(hits) != cnt:
                raise Underivable(f'{fn}: expected {cnt} `weight = ...`, found {hits}')
            seen.update(hits)
        if len(seen) != 1:
            raise Underivable(f'mahalanobis weight differs between call sites: {sorted(seen)}')
        return _check_expr(re.sub(r'<\s*float_t\s*>\s*', '', seen.pop()))
    emit('mahal_weight', ['n_dim', 'n_finite'], need(mahal_weight))

    def mahal_bound():
        body = [l for l in _pyx_body(text, 'mahalanobis') if l.strip()]
        for a, b in zip(body, body[1:]):
            m = re.match(r'\s*for i in range\((.+)\)\s*:', a)
            if m and re.match(r'\s*sim \+= vec1\[i\] \* vec3\[i\]\s*$', b):
                return _check_expr(m.group(1))
        raise Underivable('the loop `sim += vec1[i] * vec3[i]` of mahalanobis was not found')
    emit('mahal_bound', ['n_dim', 'n_finite'], need(mahal_bound))

    def kern(k, with_noise):
        chains = _dispatch_blocks(calc) + _dispatch_blocks(one)
        if len(chains) != 3:
            raise Underivable(f'expected 3 method_idx dispatch chains (calc: self, pair; calc_one), found {len(chains)}')
        if any(ch != chains[0] for ch in chains) or sorted(chains[0]) != [1, 2, 3, 4]:
            raise Underivable(f'the dispatch chains differ or do not cover 1..4: {chains}')
        return str(KERNEL_CODE[chains[0][k][1 if with_noise else 0]])
    for k in (1, 2, 3, 4):
        emit(f'kern_of_idx_{k}', [], need(lambda k=k: kern(k, True)))
    emit('kern_of_idx_3_nonoise', [], need(lambda: kern(3, False)))


# ---------------------------------------------------------------- calc_unbalanced.py (ast)

_ALLOWED = (ast.Compare, ast.BoolOp, ast.UnaryOp, ast.Not, ast.And, ast.Or, ast.Name, ast.Constant,
            ast.List, ast.Tuple, ast.Load, ast.Eq, ast.NotEq, ast.In, ast.NotIn, ast.Is, ast.IsNot)


def _static(stmts, env, want):
    """evaluate the straight-line if-chains for given argument values; returns the constants
    assigned to the names in `want`"""
    env = dict(env)
    out = {}

    def touches(node):
        for n in ast.walk(node):
            if isinstance(n, (ast.Assign, ast.AugAssign, ast.AnnAssign)):
                tg = n.targets if isinstance(n, ast.Assign) else [n.target]
                for t in tg:
                    for x in ast.walk(t):
                        if isinstance(x, ast.Name) and isinstance(x.ctx, ast.Store) and \
                                (x.id in want or x.id in env):
                            return x.id
        return None

    def ev(test):
        names = {n.id for n in ast.walk(test) if isinstance(n, ast.Name)}
        if not names <= set(env):
            return None
        if not all(isinstance(n, _ALLOWED) for n in ast.walk(test)):
            return None
        return bool(eval(compile(ast.Expression(test), '<cond>', 'eval'), {'__builtins__': {}}, dict(env)))

    def walk(body):
        for s in body:
            if isinstance(s, ast.If):
                r = ev(s.test)
                if r is None:
                    t = touches(s)
                    if t:
                        raise Underivable(f'`{t}` is assigned under the undecidable test `{ast.unparse(s.test)}`')
                    continue
                walk(s.body if r else s.orelse)
            elif isinstance(s, ast.Assign) and len(s.targets) == 1 and isinstance(s.targets[0], ast.Name) \
                    and (s.targets[0].id in want or s.targets[0].id in env):
                name = s.targets[0].id
                if not isinstance(s.value, ast.Constant):
                    if name == 'dataset':
                        continue
                    raise Underivable(f'`{name} = {ast.unparse(s.value)}` is not a constant')
                if name in want:
                    out[name] = s.value.value
                else:
                    env[name] = s.value.value
            elif isinstance(s, ast.Raise):
                raise Underivable('the call raises for these arguments')
            elif isinstance(s, ast.Return):
                return
            else:
                t = touches(s)
                if t and t != 'dataset':
                    raise Underivable(f'`{t}` is assigned in `{ast.unparse(s)[:60]}`')
    walk(stmts)
    return out


def _py_func(name):
    tree = ast.parse(open(os.path.join(SRC, 'rdm/calc_unbalanced.py')).read())
    for node in ast.walk(tree):
        if isinstance(node, ast.FunctionDef) and node.name == name:
            return node
    raise Underivable(f'function {name} not found in rdm/calc_unbalanced.py')


def _single_branch():
    fn = _py_func('calc_rdm_unbalanced')
    tops = [s for s in fn.body if isinstance(s, ast.If) and 'isinstance(dataset' in ast.unparse(s.test)]
    if len(tops) != 1 or not tops[0].orelse:
        raise Underivable('the `if isinstance(dataset, Iterable): ... else:` split was not found')
    return tops[0].orelse


def _const(d, key):
    if key not in d or not isinstance(d[key], int) or isinstance(d[key], bool) or d[key] < 0:
        raise Underivable(f'no natural constant assigned to {key} ({d.get(key)!r})')
    return str(d[key])


def _derive_py(emit):
    W = {'method_idx', 'weight_idx', 'crossval'}
    for m in METHODS:
        for cvn, cvv in (('none', None), ('given', 'fold')):
            def f(m=m, cvv=cvv, key='crossval'):
                return _const(_static(_single_branch(), {'method': m, 'weighting': 'number',
                                                        'descriptor': 'cond', 'cv_descriptor': cvv}, W), key)
            emit(f'cv_{m}_{cvn}', [], f)
        emit(f'mi_{m}', [], lambda m=m: _const(_static(
            _single_branch(), {'method': m, 'weighting': 'number', 'descriptor': 'cond',
                               'cv_descriptor': 'fold'}, W), 'method_idx'))
        emit(f'one_mi_{m}', [], lambda m=m: _const(_static(
            _py_func('calc_one_similarity').body, {'method': m, 'weighting': 'number'}, W), 'method_idx'))
    for w in ('equal', 'number'):
        emit(f'wi_{w}', [], lambda w=w: _const(_static(
            _single_branch(), {'method': 'euclidean', 'weighting': w, 'descriptor': 'cond',
                               'cv_descriptor': None}, W), 'weight_idx'))
        emit(f'one_wi_{w}', [], lambda w=w: _const(_static(
            _py_func('calc_one_similarity').body, {'method': 'euclidean', 'weighting': w}, W), 'weight_idx'))


def _derive_slices(emit):
    """`self_sim = rdm[:len(unique_cond)]`, `rdm = rdm[len(unique_cond):]`,
    `np.triu_indices(len(unique_cond), 1)` of calc_rdm_unbalanced"""
    def assigns(target):
        hits = [n for n in ast.walk(ast.Module(body=_single_branch(), type_ignores=[]))
                if isinstance(n, ast.Assign) and len(n.targets) == 1
                and ast.unparse(n.targets[0]) == target]
        hits.sort(key=lambda n: n.lineno)
        return hits

    def slice_bound(target, which):
        hits = [h for h in assigns(target) if isinstance(h.value, ast.Subscript)
                and isinstance(h.value.slice, ast.Slice) and ast.unparse(h.value.value) == 'rdm']
        if len(hits) != 1:
            raise Underivable(f'expected one `{target} = rdm[...]` slice, found {len(hits)}')
        sl = hits[0].value.slice
        lo, hi = sl.lower, sl.upper
        if sl.step is not None or (which == 'stop' and (lo is not None or hi is None)) or \
                (which == 'start' and (hi is not None or lo is None)):
            raise Underivable(f'unexpected slice `{ast.unparse(hits[0].value)}`')
        return ast.unparse(hi if which == 'stop' else lo)
    emit('self_stop', ['len_unique_cond'], lambda: slice_bound('self_sim', 'stop'))
    emit('cross_start', ['len_unique_cond'], lambda: slice_bound('rdm', 'start'))

    def triu(k):
        hits = assigns('(row_idx, col_idx)') + assigns('row_idx, col_idx')
        if len(hits) != 1 or not isinstance(hits[0].value, ast.Call) or \
                ast.unparse(hits[0].value.func) != 'np.triu_indices' or len(hits[0].value.args) != 2 \
                or hits[0].value.keywords:
            raise Underivable('`row_idx, col_idx = np.triu_indices(n, k)` was not found')
        return ast.unparse(hits[0].value.args[k])
    emit('triu_n', ['len_unique_cond'], lambda: triu(0))
    emit('triu_k', [], lambda: triu(1))


def _list_branch():
    fn = _py_func('calc_rdm_unbalanced')
    tops = [s for s in fn.body if isinstance(s, ast.If) and 'isinstance(dataset' in ast.unparse(s.test)]
    if len(tops) != 1 or not tops[0].body:
        raise Underivable('the `if isinstance(dataset, Iterable):` branch was not found')
    loops = [s for s in tops[0].body if isinstance(s, ast.For)]
    if len(loops) != 1 or 'dataset' not in ast.unparse(loops[0].iter):
        raise Underivable('expected exactly one `for ... in ...dataset...` loop in the list branch')
    return fn, tops[0].body, loops[0]


def _derive_list(emit):
    """round 4: the list branch of calc_rdm_unbalanced is a *stateless* loop — every dataset is
    handed to calc_rdm_unbalanced itself with the caller's arguments passed through, and nothing
    computed for one dataset is read while the next one is processed.
    `list_carried` = number of loop-carried names (stored in the loop body, or before the loop and
    again in the body, and read in the body), the result accumulator aside;
    `list_passthrough` = 1 iff every collected element is `calc_rdm_unbalanced(dat, <param>=<param>, ...)`
    (noise: `noise` or `noise[<loop index>]`)."""
    def names(nodes, ctx):
        return {n.id for x in nodes for n in ast.walk(x) if isinstance(n, ast.Name) and isinstance(n.ctx, ctx)}

    def accumulators(block, loop):
        acc = set()
        for s in block:
            if isinstance(s, ast.Assign) and len(s.targets) == 1 and isinstance(s.targets[0], ast.Name) \
                    and isinstance(s.value, ast.List) and not s.value.elts and s.lineno < loop.lineno:
                acc.add(s.targets[0].id)
        return acc

    def carried():
        fn, block, loop = _list_branch()
        acc = accumulators(block, loop)
        targets = names([loop.target], ast.Store)
        before = [s for s in block if s.lineno < loop.lineno]
        stored_in = names(loop.body, ast.Store) - targets
        stored_before = names(before, ast.Store) - acc
        loaded_in = names(loop.body, ast.Load)
        # an accumulator may only be used as `<acc>.append(...)`
        plain = {n.id for x in loop.body for n in ast.walk(x)
                 if isinstance(n, ast.Name) and n.id in acc and isinstance(n.ctx, ast.Load)}
        n_acc_loads = sum(1 for x in loop.body for n in ast.walk(x)
                          if isinstance(n, ast.Name) and n.id in acc and isinstance(n.ctx, ast.Load))
        n_appends = sum(1 for x in loop.body for n in ast.walk(x)
                        if isinstance(n, ast.Call) and isinstance(n.func, ast.Attribute)
                        and n.func.attr == 'append' and isinstance(n.func.value, ast.Name)
                        and n.func.value.id in acc)
        car = set()
        for name in stored_in:
            if name in loaded_in and name in stored_before:
                car.add(name)                       # initialised before the loop, updated and read in it
        for name in stored_in & loaded_in:
            # read before (or in the same statement as) its first store inside one iteration
            first_store = min(n.lineno for x in loop.body for n in ast.walk(x)
                              if isinstance(n, ast.Name) and n.id == name and isinstance(n.ctx, ast.Store))
            first_load = min(n.lineno for x in loop.body for n in ast.walk(x)
                             if isinstance(n, ast.Name) and n.id == name and isinstance(n.ctx, ast.Load))
            if first_load <= first_store:
                car.add(name)
        if n_acc_loads != n_appends:
            car |= {a for a in acc if a in plain}   # the accumulator is read, not only appended to
        params = {a.arg for a in fn.args.args + fn.args.kwonlyargs}
        for name in stored_in & params:
            if name in loaded_in:
                car.add(name)                       # an argument of the call is overwritten per dataset
        return str(len(car))

    def passthrough():
        fn, block, loop = _list_branch()
        acc = accumulators(block, loop)
        params = {a.arg for a in fn.args.args + fn.args.kwonlyargs}
        tg = [n.id for n in ast.walk(loop.target) if isinstance(n, ast.Name)]
        calls = [n for x in loop.body for n in ast.walk(x)
                 if isinstance(n, ast.Call) and isinstance(n.func, ast.Attribute) and n.func.attr == 'append'
                 and isinstance(n.func.value, ast.Name) and n.func.value.id in acc]
        if not calls:
            raise Underivable('nothing is appended to the result list in the loop')
        need = {'method', 'descriptor', 'cv_descriptor', 'prior_lambda', 'prior_weight', 'weighting'}
        for c in calls:
            if len(c.args) != 1 or c.keywords:
                raise Underivable('unexpected append call')
            e = c.args[0]
            if not (isinstance(e, ast.Call) and ast.unparse(e.func) == fn.name):
                raise Underivable(f'`{ast.unparse(e)[:50]}` is not a call of {fn.name} itself')
            if len(e.args) != 1 or not isinstance(e.args[0], ast.Name) or e.args[0].id not in tg:
                raise Underivable('the dataset of the iteration is not the (only) positional argument')
            kws = {k.arg: k.value for k in e.keywords}
            if None in kws or not need <= set(kws) or not set(kws) <= params:
                raise Underivable(f'keywords {sorted(map(str, kws))} do not pass {sorted(need)} on')
            for k, v in kws.items():
                txt = ast.unparse(v)
                ok = txt == k or (k == 'noise' and isinstance(v, ast.Subscript)
                                  and ast.unparse(v.value) == 'noise' and ast.unparse(v.slice) in tg)
                if not ok:
                    raise Underivable(f'`{k}={txt}` is not the caller\'s argument passed through')
        return '1'

    emit('list_carried', [], carried)
    emit('list_passthrough', [], passthrough)


def _derive():
    out = ['# DERIVED by harness/leaves/C15.py from the source tree under check - do not edit', '']
    specs = []

    def emit(name, params, body_fn):
        try:
            body = body_fn()
        except Exception as exc:  # noqa: BLE001  (fail closed: any surprise = underivable)
            body = '__underivable__(' + repr(str(exc)[:200]) + ')'
        out.append(f'def {name}({", ".join(params)}):')
        out.append(f'    return {body}')
        out.append('')
        specs.append((name, params))

    _derive_pyx(emit)
    _derive_py(emit)
    _derive_slices(emit)
    _derive_list(emit)
    text = '\n'.join(out)
    if not (os.path.exists(DERIVED) and open(DERIVED).read() == text):
        with open(DERIVED + '.tmp', 'w') as f:
            f.write(text)
        os.replace(DERIVED + '.tmp', DERIVED)
    return specs


_SPECS = _derive()

PYX = 'cengine/similarity.pyx'
_IDX = {'n': 'Nat', 'desc_i': 'Nat', 'desc_j': 'Nat'}

LEAVES = [
    # size of the condensed part of the buffer
    dict(name='nRdm', file=PYX, func='calc', kind='assign', target='int n_rdm',
         params={'n': 'Nat'}, ret='Nat', cdiv=True, count=1),
    # index arithmetic into the buffer: branch `desc[j] > desc[i]` and the other one
    dict(name='idxGt', file=PYX, func='calc', kind='assign', target='idx', nth=2, count=4,
         params=_IDX, ret='Nat', cdiv=True, augmented=False),
    dict(name='idxLe', file=PYX, func='calc', kind='assign', target='idx', nth=3, count=4,
         params=_IDX, ret='Nat', cdiv=True, augmented=False),
    # accumulation of the self term (observation with itself), weighting number / equal
    dict(name='selfValNumber', file=PYX, func='calc', kind='assign', target='values[idx]', nth=1,
         count=7, params={'sim': 'A'}, ret='A', cdiv=True, augmented=True),
    dict(name='selfValEqual', file=PYX, func='calc', kind='assign', target='values[idx]', nth=2,
         count=7, params={'sim': 'A', 'weight': 'A'}, ret='A', cdiv=True, augmented=True),
    dict(name='selfWNumber', file=PYX, func='calc', kind='assign', target='weights[idx]', nth=1,
         count=5, params={'weight': 'A'}, ret='A', cdiv=True, augmented=True),
    dict(name='selfWEqual', file=PYX, func='calc', kind='assign', target='weights[idx]', nth=2,
         count=5, params={}, ret='Int', cdiv=True, augmented=True),
    # accumulation of a pair of different observations
    dict(name='pairValNumber', file=PYX, func='calc', kind='assign', target='values[idx]', nth=3,
         count=7, params={'sim': 'A'}, ret='A', cdiv=True, augmented=True),
    dict(name='pairValEqual', file=PYX, func='calc', kind='assign', target='values[idx]', nth=4,
         count=7, params={'sim': 'A', 'weight': 'A'}, ret='A', cdiv=True, augmented=True),
    dict(name='pairWNumber', file=PYX, func='calc', kind='assign', target='weights[idx]', nth=3,
         count=5, params={'weight': 'A'}, ret='A', cdiv=True, augmented=True),
    dict(name='pairWEqual', file=PYX, func='calc', kind='assign', target='weights[idx]', nth=4,
         count=5, params={}, ret='Int', cdiv=True, augmented=True),
    # final normalisation of a buffer entry
    dict(name='finalDiv', file=PYX, func='calc', kind='assign', target='values[idx]', nth=5,
         count=7, params={'values_idx': 'A', 'weights_idx': 'A'}, ret='A', cdiv=True,
         augmented=False),
    # Poisson preprocessing constants of `calc`
    dict(name='priorLambdaL', file=PYX, func='calc', kind='assign', target='float_t prior_lambda_l',
         params={'prior_lambda': 'A', 'prior_weight': 'A'}, ret='A', cdiv=True, count=1),
    dict(name='priorWeightL', file=PYX, func='calc', kind='assign', target='float_t prior_weight_l',
         params={'prior_weight': 'A'}, ret='A', cdiv=True, count=1),
    # Python layer: distance from the three similarities
    dict(name='combine', file='rdm/calc_unbalanced.py', func='calc_rdm_unbalanced', kind='assign',
         target='rdm', nth=4, count=6,
         params={'self_sim_row_idx': 'A', 'self_sim_col_idx': 'A', 'rdm': 'A'}, ret='A'),
    # kernels: final normalisations
    dict(name='poissonHalf', file=PYX, func='poisson_cv', kind='assign', target='sim', nth=1,
         count=2, params={'sim': 'A'}, ret='A', cdiv=True, augmented=False),
    dict(name='corrCov', file=PYX, func='correlation', kind='assign', target='sim', nth=0,
         count=3, params={'sij': 'A', 'si': 'A', 'sj': 'A', 'n_dim': 'Nat'}, ret='A', cdiv=True,
         augmented=False),
    dict(name='corrScale', file=PYX, func='correlation', kind='assign', target='sim', nth=2,
         count=3, params={'sim': 'A', 'n_dim': 'Nat'}, ret='A', cdiv=True, augmented=False),
]

# ---- round 3: more native leaves (calc_one accumulators, kernel terms)
_ONE = dict(file=PYX, func='calc_one', kind='assign', cdiv=True)
LEAVES += [
    dict(name='oneValNumber', target='value', nth=1, count=5, params={'sim': 'A'}, ret='A',
         augmented=True, **_ONE),
    dict(name='oneValEqual', target='value', nth=2, count=5, params={'sim': 'A', 'weight': 'A'}, ret='A',
         augmented=True, **_ONE),
    dict(name='oneFinalDiv', target='value', nth=3, count=5, params={'value': 'A', 'weight_sum': 'A'},
         ret='A', augmented=False, **_ONE),
    dict(name='oneWNumber', target='weight_sum', nth=1, count=3, params={'weight': 'A'}, ret='A',
         augmented=True, **_ONE),
    dict(name='oneWEqual', target='weight_sum', nth=2, count=3, params={}, ret='Int',
         augmented=True, **_ONE),
    dict(name='euclidTerm', file=PYX, func='euclid', kind='assign', target='sim', nth=0, count=1,
         params={'vec_i_i': 'A', 'vec_j_i': 'A'}, ret='A', cdiv=True, augmented=True),
    dict(name='euclidW', file=PYX, func='euclid', kind='assign', target='weight', nth=0, count=1,
         params={}, ret='Int', cdiv=True, augmented=True),
    dict(name='poissonTerm', file=PYX, func='poisson_cv', kind='assign', target='sim', nth=0, count=2,
         params={'vec_i_i': 'A', 'vec_j_i': 'A', 'log_vec_i_i': 'A', 'log_vec_j_i': 'A'}, ret='A',
         cdiv=True, augmented=True),
    dict(name='corrSi2', file=PYX, func='correlation', kind='assign', target='si2', nth=0, count=1,
         params={'vec_i_i': 'A'}, ret='A', cdiv=True, augmented=True),
    dict(name='corrSij', file=PYX, func='correlation', kind='assign', target='sij', nth=0, count=1,
         params={'vec_i_i': 'A', 'vec_j_i': 'A'}, ret='A', cdiv=True, augmented=True),
]

# ---- round 3: derived leaves (conditions, loop start, dispatch tables)
_TY = {'weight': 'A', 'weights_idx': 'A', 'weight_sum': 'A', 'si2': 'A', 'sj2': 'A', 'si': 'A',
       'sj': 'A'}
_RET_A = {'corr_var_i', 'corr_var_j', 'mahal_weight'}


def _camel(n):
    parts = n.split('_')
    return parts[0] + ''.join(p[:1].upper() + p[1:] for p in parts[1:])


for _name, _params in _SPECS:
    LEAVES.append(dict(name=_camel(_name), file=DERIVED, func=_name, kind='func',
                       params={p: _TY.get(p, 'Nat') for p in _params},
                       ret='A' if _name in _RET_A else 'Nat', cdiv=True))
