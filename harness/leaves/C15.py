"""Leaves of property C15, regenerated from cengine/similarity.pyx on every run.

All are arithmetic right-hand sides inside `calc` and the per-pair kernels; `cdiv=True`
gives `/` between integer expressions the C meaning (Cython `cdivision(True)` on typed ints),
which is what makes `weights[idx] += 1 / 2` the integer 0.

The kernel text indexes with names (`desc[i]`, `values[idx]`); the translator maps
`x[name]` to the pseudo-name `x_name` natively.
"""

PYX = 'cengine/similarity.pyx'
_IDX = {'n': 'Nat', 'desc_i': 'Nat', 'desc_j': 'Nat'}

LEAVES = [
    # size of the condensed part of the buffer
    dict(name='nRdm', file=PYX, func='calc', kind='assign', target='int n_rdm',
         params={'n': 'Nat'}, ret='Nat', cdiv=True, count=1),
    # index arithmetic into the buffer: branch `desc[j] > desc[i]` and the other one
    dict(name='idxGt', file=PYX, func='calc', kind='assign', target='idx', nth=2, count=4,
         params=_IDX, ret='Nat', cdiv=True, augmented=False),
    dict(name='idxLe', file=PYX, func='calc', kind='assign', target='idx', nth=3, count=4,
         params=_IDX, ret='Nat', cdiv=True, augmented=False),
    # accumulation of the self term (observation with itself), weighting number / equal
    dict(name='selfValNumber', file=PYX, func='calc', kind='assign', target='values[idx]', nth=1,
         count=7, params={'sim': 'A'}, ret='A', cdiv=True, augmented=True),
    dict(name='selfValEqual', file=PYX, func='calc', kind='assign', target='values[idx]', nth=2,
         count=7, params={'sim': 'A', 'weight': 'A'}, ret='A', cdiv=True, augmented=True),
    dict(name='selfWNumber', file=PYX, func='calc', kind='assign', target='weights[idx]', nth=1,
         count=5, params={'weight': 'A'}, ret='A', cdiv=True, augmented=True),
    dict(name='selfWEqual', file=PYX, func='calc', kind='assign', target='weights[idx]', nth=2,
         count=5, params={}, ret='Int', cdiv=True, augmented=True),
    # accumulation of a pair of different observations
    dict(name='pairValNumber', file=PYX, func='calc', kind='assign', target='values[idx]', nth=3,
         count=7, params={'sim': 'A'}, ret='A', cdiv=True, augmented=True),
    dict(name='pairValEqual', file=PYX, func='calc', kind='assign', target='values[idx]', nth=4,
         count=7, params={'sim': 'A', 'weight': 'A'}, ret='A', cdiv=True, augmented=True),
    dict(name='pairWNumber', file=PYX, func='calc', kind='assign', target='weights[idx]', nth=3,
         count=5, params={'weight': 'A'}, ret='A', cdiv=True, augmented=True),
    dict(name='pairWEqual', file=PYX, func='calc', kind='assign', target='weights[idx]', nth=4,
         count=5, params={}, ret='Int', cdiv=True, augmented=True),
    # final normalisation of a buffer entry
    dict(name='finalDiv', file=PYX, func='calc', kind='assign', target='values[idx]', nth=5,
         count=7, params={'values_idx': 'A', 'weights_idx': 'A'}, ret='A', cdiv=True,
         augmented=False),
    # Poisson preprocessing constants of `calc`
    dict(name='priorLambdaL', file=PYX, func='calc', kind='assign', target='float_t prior_lambda_l',
         params={'prior_lambda': 'A', 'prior_weight': 'A'}, ret='A', cdiv=True, count=1),
    dict(name='priorWeightL', file=PYX, func='calc', kind='assign', target='float_t prior_weight_l',
         params={'prior_weight': 'A'}, ret='A', cdiv=True, count=1),
    # Python layer: distance from the three similarities
    dict(name='combine', file='rdm/calc_unbalanced.py', func='calc_rdm_unbalanced', kind='assign',
         target='rdm', nth=4, count=6,
         params={'self_sim_row_idx': 'A', 'self_sim_col_idx': 'A', 'rdm': 'A'}, ret='A'),
    # kernels: final normalisations
    dict(name='poissonHalf', file=PYX, func='poisson_cv', kind='assign', target='sim', nth=1,
         count=2, params={'sim': 'A'}, ret='A', cdiv=True, augmented=False),
    dict(name='corrCov', file=PYX, func='correlation', kind='assign', target='sim', nth=0,
         count=3, params={'sij': 'A', 'si': 'A', 'sj': 'A', 'n_dim': 'Nat'}, ret='A', cdiv=True,
         augmented=False),
    dict(name='corrScale', file=PYX, func='correlation', kind='assign', target='sim', nth=2,
         count=3, params={'sim': 'A', 'n_dim': 'Nat'}, ret='A', cdiv=True, augmented=False),
]
