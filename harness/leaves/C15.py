"""Leaves of property C15, regenerated from cengine/similarity.pyx on every run.

All are arithmetic right-hand sides inside `calc` and the per-pair kernels; `cdiv=True`
gives `/` between integer expressions the C meaning (Cython `cdivision(True)` on typed ints),
which is what makes `weights[idx] += 1 / 2` the integer 0.

Work-around for a shared-file limitation (see notes/C15.md, wishes): the translator's
`pseudo_name` only understands `x[<int literal>]`; the kernel text indexes with names
(`desc[i]`, `values[idx]`).  This module extends `pseudo_name` (x[name] -> x_name) in the
running translator process when it is loaded; nothing else is changed.
"""
import ast
import sys


def _extend_translator():
    for modname in ('py2lean', '__main__'):
        mod = sys.modules.get(modname)
        if mod is None or not hasattr(mod, 'pseudo_name') or not hasattr(mod, 'Tr'):
            continue
        if getattr(mod.pseudo_name, '_c15_extended', False):
            continue
        orig = mod.pseudo_name

        def pseudo_name(node, _orig=orig):
            if isinstance(node, ast.Subscript) and isinstance(node.slice, ast.Name):
                base = pseudo_name(node.value)
                return None if base is None else f'{base}_{node.slice.id}'
            return _orig(node)

        pseudo_name._c15_extended = True
        mod.pseudo_name = pseudo_name


_extend_translator()

PYX = 'cengine/similarity.pyx'
_IDX = {'n': 'Nat', 'desc_i': 'Nat', 'desc_j': 'Nat'}

LEAVES = [
    # size of the condensed part of the buffer
    dict(name='nRdm', file=PYX, func='calc', kind='assign', target='int n_rdm',
         params={'n': 'Nat'}, ret='Nat', cdiv=True, count=1),
    # index arithmetic into the buffer: branch `desc[j] > desc[i]` and the other one
    dict(name='idxGt', file=PYX, func='calc', kind='assign', target='idx', nth=2, count=4,
         params=_IDX, ret='Nat', cdiv=True, augmented=False),
    dict(name='idxLe', file=PYX, func='calc', kind='assign', target='idx', nth=3, count=4,
         params=_IDX, ret='Nat', cdiv=True, augmented=False),
    # accumulation of the self term (observation with itself), weighting number / equal
    dict(name='selfValNumber', file=PYX, func='calc', kind='assign', target='values[idx]', nth=1,
         count=7, params={'sim': 'A'}, ret='A', cdiv=True, augmented=True),
    dict(name='selfValEqual', file=PYX, func='calc', kind='assign', target='values[idx]', nth=2,
         count=7, params={'sim': 'A', 'weight': 'A'}, ret='A', cdiv=True, augmented=True),
    dict(name='selfWNumber', file=PYX, func='calc', kind='assign', target='weights[idx]', nth=1,
         count=5, params={'weight': 'A'}, ret='A', cdiv=True, augmented=True),
    dict(name='selfWEqual', file=PYX, func='calc', kind='assign', target='weights[idx]', nth=2,
         count=5, params={}, ret='Int', cdiv=True, augmented=True),
    # accumulation of a pair of different observations
    dict(name='pairValNumber', file=PYX, func='calc', kind='assign', target='values[idx]', nth=3,
         count=7, params={'sim': 'A'}, ret='A', cdiv=True, augmented=True),
    dict(name='pairValEqual', file=PYX, func='calc', kind='assign', target='values[idx]', nth=4,
         count=7, params={'sim': 'A', 'weight': 'A'}, ret='A', cdiv=True, augmented=True),
    dict(name='pairWNumber', file=PYX, func='calc', kind='assign', target='weights[idx]', nth=3,
         count=5, params={'weight': 'A'}, ret='A', cdiv=True, augmented=True),
    dict(name='pairWEqual', file=PYX, func='calc', kind='assign', target='weights[idx]', nth=4,
         count=5, params={}, ret='Int', cdiv=True, augmented=True),
    # final normalisation of a buffer entry
    dict(name='finalDiv', file=PYX, func='calc', kind='assign', target='values[idx]', nth=5,
         count=7, params={'values_idx': 'A', 'weights_idx': 'A'}, ret='A', cdiv=True,
         augmented=False),
    # kernels: final normalisations
    dict(name='poissonHalf', file=PYX, func='poisson_cv', kind='assign', target='sim', nth=1,
         count=2, params={'sim': 'A'}, ret='A', cdiv=True, augmented=False),
    dict(name='corrCov', file=PYX, func='correlation', kind='assign', target='sim', nth=0,
         count=3, params={'sij': 'A', 'si': 'A', 'sj': 'A', 'n_dim': 'Nat'}, ret='A', cdiv=True,
         augmented=False),
    dict(name='corrScale', file=PYX, func='correlation', kind='assign', target='sim', nth=2,
         count=3, params={'sim': 'A', 'n_dim': 'Nat'}, ret='A', cdiv=True, augmented=False),
]
