"""translator leaves of C02: the scalar arithmetic of the cross-validated estimators.

Native py2lean leaves (translated straight from /repo's text; opaque calls):
  crossEntry / poissonEntry   rdm = expand_dims(diag(k),0) + expand_dims(diag(k),1) - kernel - kernel.T
  foldAverage                 rdm = np.einsum('ij->j', rdms) / rdms.shape[0]
  regTrain / regTest          (m + prior_lambda * prior_weight) / (1 + prior_weight)

Derived leaves (round 3).  Everything else the property depends on sits inside array
expressions, call arguments, `return` expressions, loop headers and an `assert` — outside
py2lean's `assign` anchor.  This module therefore first extracts, from the *current* source text
(Python `ast`), the **scalar skeleton** of those places and writes it as tiny Python functions
into `harness/leaves/_C02_derived.py`; py2lean then translates those functions as usual
(`file` = that absolute path).  Nothing is cached: the derived file is rewritten on every run.
Each extraction fails closed: an unexpected shape of the anchor produces a function calling
`__underivable__(…)`, which py2lean reports as an untranslatable leaf = broken obligation.

  single_norm        _calc_rdm_crossnobis_single: `return _extract_triu_(rdm) / meas1.shape[1]`
  poisson_norm       calc_rdm_poisson_cv: `rdms.append(_extract_triu_(rdm) / measurements_train.shape[1])`
  poisson_fold_mean  calc_rdm_poisson_cv: `rdm = np.mean(np.array(rdms), axis=0)`  -> fold_sum / n_folds
                     (only this exact reduction is accepted: `rdms[-1]`, np.sum, np.median … are underivable)
  pair_cov           calc_rdm_crossnobis: argument of `np.linalg.inv` inside the call of
                     `_calc_rdm_crossnobis_single`: `(variances[i_fold] + variances[j_fold]) / 2`
  cross_kernel       `kernel = meas1 @ noise @ meas2.T`  -> summand  meas1 * noise * meas2   (@ -> *, .T dropped)
  poisson_kernel     `kernel = measurements_train @ np.log(measurements_test).T` -> train * log_test
                     (np.log(measurements_test) opaque: a swap of the roles is untranslatable)
  centre_train / centre_test / centre_fold
                     `X -= X.mean(axis=1, keepdims=True)` under `if remove_mean:` -> x - row_mean
  counts_ok          _gen_default_cv_descriptor: `assert np.all(counts == counts[0])` -> 1 if count == counts_0 else 0
  loops              header of the fold loops as (start, stop) of a `range`:
                       cross_loop_*   `for i_fold, fold in enumerate(cv_folds)`        (single-precision branch)
                       poisson_loop_* `for i_fold in range(len(cv_folds))`
                       list_loop_*    `for i, i_fold in enumerate(cv_folds)`          (collecting fold means)
                       pair_outer_*   `for i_fold in range(len(cv_folds))`
                       pair_inner_*   `for j_fold in range(i_fold + 1, len(cv_folds))`
                       pair_guard     `if i_fold != j_fold`                          -> 1 / 0
  noise_index        `variances.append(np.linalg.inv(noise[i]))` -> i   (precision i belongs to fold i)
  test_is_fold / train_excludes_fold
                     `subset_obs(cv_descriptor, fold)` / `subset_obs(cv_descriptor, np.setdiff1d(cv_folds, fold))`:
                     1 when the loop passes exactly these selectors (constant leaves; anything else underivable)
"""
import ast
import os

SRC = os.environ.get('RSA_REPO_SRC', '/repo/src/rsatoolbox')
HERE = os.path.dirname(os.path.abspath(__file__))
DERIVED = os.path.join(HERE, '_C02_derived.py')
CALC = 'rdm/calc.py'


class Underivable(Exception):
    pass


def _func(name):
    tree = ast.parse(open(os.path.join(SRC, CALC)).read())
    for node in ast.walk(tree):
        if isinstance(node, ast.FunctionDef) and node.name == name:
            return node
    raise Underivable(f'{CALC}: function {name} not found')


def _one(nodes, what):
    nodes = list(nodes)
    if len(nodes) != 1:
        raise Underivable(f'expected exactly one {what}, found {len(nodes)}')
    return nodes[0]


class _Subst(ast.NodeTransformer):
    """replace whole sub-expressions (matched by their unparsed text) by names"""

    def __init__(self, subs):
        self.subs = subs
        self.used = set()

    def visit(self, node):
        if isinstance(node, ast.expr):
            t = ast.unparse(node)
            if t in self.subs:
                self.used.add(t)
                return ast.Name(id=self.subs[t], ctx=ast.Load())
        return self.generic_visit(node)


def _substituted(expr, subs, allowed):
    tr = _Subst(subs)
    new = tr.visit(ast.parse(ast.unparse(expr), mode='eval').body)
    missing = [k for k in subs if k not in tr.used]
    if missing:
        raise Underivable(f'sub-expression(s) {missing} not found in `{ast.unparse(expr)}`')
    names = {n.id for n in ast.walk(new) if isinstance(n, ast.Name)}
    calls = [ast.unparse(n) for n in ast.walk(new) if isinstance(n, ast.Call)]
    if calls or not names <= set(allowed):
        raise Underivable(f'`{ast.unparse(expr)}` is not scalar arithmetic over {sorted(allowed)}')
    return ast.unparse(ast.fix_missing_locations(new))


def _assign(fn, target):
    hits = [n for n in ast.walk(fn) if isinstance(n, ast.Assign) and len(n.targets) == 1
            and ast.unparse(n.targets[0]) == target]
    return _one(hits, f'assignment to {target} in {fn.name}')


def _calls(node, name):
    return [n for n in ast.walk(node) if isinstance(n, ast.Call) and ast.unparse(n.func) == name]


# ------------------------------------------------------------------ the extractions

def single_norm():
    fn = _func('_calc_rdm_crossnobis_single')
    ret = _one([n for n in ast.walk(fn) if isinstance(n, ast.Return)], 'return in _calc_rdm_crossnobis_single')
    return _substituted(ret.value, {'_extract_triu_(rdm)': 'entry', 'meas1.shape[1]': 'meas1_shape_1'},
                        ['entry', 'meas1_shape_1'])


def poisson_norm():
    fn = _func('calc_rdm_poisson_cv')
    call = _one(_calls(fn, 'rdms.append'), 'rdms.append(...) in calc_rdm_poisson_cv')
    if len(call.args) != 1 or call.keywords:
        raise Underivable('rdms.append takes one argument')
    return _substituted(call.args[0], {'_extract_triu_(rdm)': 'entry',
                                       'measurements_train.shape[1]': 'measurements_train_shape_1'},
                        ['entry', 'measurements_train_shape_1'])


def poisson_fold_mean():
    fn = _func('calc_rdm_poisson_cv')
    # the assignment to `rdm` after the loop (module-level statement of the function body)
    hits = [n for n in fn.body if isinstance(n, ast.Assign) and ast.unparse(n.targets[0]) == 'rdm']
    node = _one(hits, 'assignment to rdm after the fold loop of calc_rdm_poisson_cv')
    text = ast.unparse(node.value)
    if text == 'np.mean(np.array(rdms), axis=0)' or text == 'np.array(rdms).mean(axis=0)':
        return 'fold_sum / n_folds'
    if text in ("np.einsum('ij->j', rdms) / rdms.shape[0]", 'np.sum(np.array(rdms), axis=0) / len(rdms)'):
        return 'fold_sum / n_folds'
    raise Underivable(f'fold reduction `{text}` is not the mean over all fold estimates')


def _single_call_list_branch():
    fn = _func('calc_rdm_crossnobis')
    calls = _calls(fn, '_calc_rdm_crossnobis_single')
    if len(calls) != 2:
        raise Underivable(f'expected two calls of _calc_rdm_crossnobis_single, found {len(calls)}')
    calls.sort(key=lambda n: n.lineno)
    return fn, calls[0], calls[1]


def pair_cov():
    _, _, call = _single_call_list_branch()
    if len(call.args) != 3:
        raise Underivable('list-branch call of _calc_rdm_crossnobis_single does not have 3 arguments')
    if [ast.unparse(a) for a in call.args[:2]] != ['measurements[i_fold]', 'measurements[j_fold]']:
        raise Underivable(f'fold means passed as {[ast.unparse(a) for a in call.args[:2]]}')
    inv = call.args[2]
    if not (isinstance(inv, ast.Call) and ast.unparse(inv.func) == 'np.linalg.inv' and len(inv.args) == 1):
        raise Underivable(f'pair precision `{ast.unparse(inv)}` is not np.linalg.inv(<one argument>)')
    return _substituted(inv.args[0], {'variances[i_fold]': 'v_i', 'variances[j_fold]': 'v_j'}, ['v_i', 'v_j'])


class _Scalarise(ast.NodeTransformer):
    """`@` -> `*`, `.T` dropped: the summand of a matrix product"""

    def visit_BinOp(self, node):
        self.generic_visit(node)
        if isinstance(node.op, ast.MatMult):
            return ast.BinOp(left=node.left, op=ast.Mult(), right=node.right)
        return node

    def visit_Attribute(self, node):
        self.generic_visit(node)
        if node.attr == 'T':
            return node.value
        return node


def _kernel(fn_name):
    node = _assign(_func(fn_name), 'kernel')
    new = _Scalarise().visit(ast.parse(ast.unparse(node.value), mode='eval').body)
    return ast.unparse(ast.fix_missing_locations(new))


def cross_kernel():
    text = _kernel('_calc_rdm_crossnobis_single')
    e = ast.parse(text, mode='eval').body
    names = [n.id for n in ast.walk(e) if isinstance(n, ast.Name)]
    if sorted(names) != ['meas1', 'meas2', 'noise'] or any(isinstance(n, ast.Call) for n in ast.walk(e)):
        raise Underivable(f'kernel `{text}` is not a product of meas1, noise, meas2')
    return text


def poisson_kernel():
    text = _kernel('calc_rdm_poisson_cv')      # measurements_train * np.log(measurements_test)
    e = ast.parse(text, mode='eval').body
    new = _Subst({'np.log(measurements_test)': 'log_test'})
    e2 = new.visit(e)
    out = ast.unparse(ast.fix_missing_locations(e2))
    names = sorted(n.id for n in ast.walk(e2) if isinstance(n, ast.Name))
    if names != ['log_test', 'measurements_train'] or any(isinstance(n, ast.Call) for n in ast.walk(e2)):
        raise Underivable(f'kernel `{text}` is not measurements_train @ np.log(measurements_test).T')
    return out


def _centre(var):
    fn = _func('calc_rdm_crossnobis')
    hits = [n for n in ast.walk(fn) if isinstance(n, ast.AugAssign) and ast.unparse(n.target) == var]
    node = _one(hits, f'in-place update of {var}')
    if not isinstance(node.op, ast.Sub) or ast.unparse(node.value) != f'{var}.mean(axis=1, keepdims=True)':
        raise Underivable(f'`{ast.unparse(node)}` is not `{var} -= {var}.mean(axis=1, keepdims=True)`')
    # it must sit directly under `if remove_mean:`
    for parent in ast.walk(fn):
        if isinstance(parent, ast.If) and node in parent.body:
            if ast.unparse(parent.test) != 'remove_mean' or parent.orelse:
                raise Underivable(f'centring of {var} is guarded by `{ast.unparse(parent.test)}`')
            return 'x - row_mean'
    raise Underivable(f'centring of {var} is not under `if remove_mean:`')


def counts_ok():
    fn = _func('_gen_default_cv_descriptor')
    node = _one([n for n in ast.walk(fn) if isinstance(n, ast.Assert)], 'assert in _gen_default_cv_descriptor')
    t = node.test
    if not (isinstance(t, ast.Call) and ast.unparse(t.func) == 'np.all' and len(t.args) == 1
            and isinstance(t.args[0], ast.Compare)):
        raise Underivable(f'assert test `{ast.unparse(t)}` is not np.all(<comparison>)')
    cmp_ = t.args[0]
    src = [n for n in ast.walk(fn) if isinstance(n, ast.Assign) and 'counts' in ast.unparse(n.targets[0])]
    if len(src) != 1 or ast.unparse(src[0].value) != 'np.unique(desc, return_counts=True)':
        raise Underivable('counts is not the second result of np.unique(desc, return_counts=True)')
    body = _substituted(cmp_, {'counts[0]': 'counts_0', 'counts': 'count'}, ['count', 'counts_0'])
    return f'1 if {body} else 0'


def _loop_bounds(for_node, seq):
    """(start, stop) as Python source over the name `n` (= len(seq)), for the accepted loop headers"""
    it = ast.unparse(for_node.iter)
    if it in (f'enumerate({seq})', seq, f'range(len({seq}))', f'range(0, len({seq}))'):
        return '0', 'n'
    if isinstance(for_node.iter, ast.Call) and ast.unparse(for_node.iter.func) == 'range' \
            and len(for_node.iter.args) == 2 and not for_node.iter.keywords:
        a, b = for_node.iter.args
        sub = {f'len({seq})': 'n'}
        def conv(e):
            tr = _Subst(sub)
            new = tr.visit(ast.parse(ast.unparse(e), mode='eval').body)
            return ast.unparse(ast.fix_missing_locations(new))
        return conv(a), conv(b)
    raise Underivable(f'loop header `for … in {it}` is not a full pass over {seq}')


def _for_loops(fn):
    return sorted([n for n in ast.walk(fn) if isinstance(n, ast.For)], key=lambda n: n.lineno)


def _scalar_over(text, allowed):
    e = ast.parse(text, mode='eval').body
    names = {n.id for n in ast.walk(e) if isinstance(n, ast.Name)}
    if not names <= set(allowed) or any(isinstance(n, ast.Call) for n in ast.walk(e)):
        raise Underivable(f'`{text}` is not arithmetic over {sorted(allowed)}')
    return text


def _cross_loops():
    fn = _func('calc_rdm_crossnobis')
    loops = _for_loops(fn)
    if len(loops) != 4:
        raise Underivable(f'expected 4 for-loops in calc_rdm_crossnobis, found {len(loops)}')
    return fn, loops


def cross_loop(which):
    _, loops = _cross_loops()
    lo, hi = _loop_bounds(loops[0], 'cv_folds')
    if ast.unparse(loops[0].target) != '(i_fold, fold)':
        raise Underivable('loop variables of the single-precision branch changed')
    return _scalar_over(lo if which == 'start' else hi, ['n'])


def list_loop(which):
    _, loops = _cross_loops()
    lo, hi = _loop_bounds(loops[1], 'cv_folds')
    if ast.unparse(loops[1].target) != '(i, i_fold)':
        raise Underivable('loop variables of the fold-mean loop changed')
    return _scalar_over(lo if which == 'start' else hi, ['n'])


def pair_outer(which):
    _, loops = _cross_loops()
    if ast.unparse(loops[2].target) != 'i_fold' or loops[3] not in loops[2].body:
        raise Underivable('pair loop nesting changed')
    lo, hi = _loop_bounds(loops[2], 'cv_folds')
    return _scalar_over(lo if which == 'start' else hi, ['n'])


def pair_inner(which):
    _, loops = _cross_loops()
    if ast.unparse(loops[3].target) != 'j_fold':
        raise Underivable('inner pair loop variable changed')
    lo, hi = _loop_bounds(loops[3], 'cv_folds')
    return _scalar_over(lo, ['n', 'i_fold']) if which == 'start' else _scalar_over(hi, ['n', 'i_fold'])


def pair_guard():
    _, loops = _cross_loops()
    body = loops[3].body
    if len(body) == 1 and isinstance(body[0], ast.If) and not body[0].orelse:
        test = ast.unparse(body[0].test)
        _scalar_over(test, ['i_fold', 'j_fold'])
        inner = body[0].body
    else:
        test, inner = None, body
    # the guarded body must compute and append one fold-pair estimate
    if not any(_calls(s, '_calc_rdm_crossnobis_single') for s in inner) \
            or not any(_calls(s, 'rdms.append') for s in inner):
        raise Underivable('inner pair loop does not append one _calc_rdm_crossnobis_single estimate')
    return f'1 if {test} else 0' if test else '1'


def noise_index():
    _, loops = _cross_loops()
    subs = [n for n in ast.walk(loops[1]) if isinstance(n, ast.Subscript) and ast.unparse(n.value) == 'noise']
    node = _one(subs, 'use of noise[...] in the fold-mean loop')
    app = _one(_calls(loops[1], 'variances.append'), 'variances.append in the fold-mean loop')
    if ast.unparse(app.args[0]) != f'np.linalg.inv({ast.unparse(node)})':
        raise Underivable(f'variances.append({ast.unparse(app.args[0])}) is not the inverse of noise[...]')
    return _scalar_over(ast.unparse(node.slice), ['i'])


def poisson_loop(which):
    fn = _func('calc_rdm_poisson_cv')
    loop = _one(_for_loops(fn), 'for-loop in calc_rdm_poisson_cv')
    lo, hi = _loop_bounds(loop, 'cv_folds')
    if ast.unparse(loop.target) != 'i_fold':
        raise Underivable('loop variable of calc_rdm_poisson_cv changed')
    fold = [n for n in loop.body if isinstance(n, ast.Assign) and ast.unparse(n.targets[0]) == 'fold']
    if len(fold) != 1 or ast.unparse(fold[0].value) != 'cv_folds[i_fold]':
        raise Underivable('fold is not cv_folds[i_fold]')
    return _scalar_over(lo if which == 'start' else hi, ['n'])


def _selectors(fn_name, ds):
    fn = _func(fn_name)
    loop = _for_loops(fn)[0]
    te = _one([n for n in ast.walk(loop) if isinstance(n, ast.Assign) and ast.unparse(n.targets[0]) == 'data_test'],
              'assignment to data_test')
    trn = _one([n for n in ast.walk(loop) if isinstance(n, ast.Assign) and ast.unparse(n.targets[0]) == 'data_train'],
               'assignment to data_train')
    return ast.unparse(te.value), ast.unparse(trn.value)


def test_is_fold(fn_name, ds):
    te, _ = _selectors(fn_name, ds)
    if te != f'{ds}.subset_obs(cv_descriptor, fold)':
        raise Underivable(f'test set is `{te}`')
    return '1'


def train_excludes_fold(fn_name, ds):
    _, trn = _selectors(fn_name, ds)
    if trn != f'{ds}.subset_obs(cv_descriptor, np.setdiff1d(cv_folds, fold))':
        raise Underivable(f'training set is `{trn}`')
    return '1'


# ------------------------------------------------------------------ write the derived file

_SPECS = []       # (python name, lean name, params (ordered dict), ret)


def _derive():
    out = ['# DERIVED by harness/leaves/C02.py from the source tree under check - do not edit', '']

    def emit(name, lean, params, ret, body_fn):
        try:
            body = body_fn()
        except Exception as exc:  # noqa: BLE001  (fail closed: any surprise = underivable)
            body = '__underivable__(' + repr(str(exc)) + ')'
        out.append(f'def {name}({", ".join(params)}):')
        out.append(f'    return {body}')
        out.append('')
        _SPECS.append(dict(name=lean, file=DERIVED, func=name, kind='func', params=dict(params), ret=ret))

    A2 = lambda a, b: {a: 'A', b: 'A'}      # noqa: E731
    emit('single_norm', 'singleNorm', A2('entry', 'meas1_shape_1'), 'A', single_norm)
    emit('poisson_norm', 'poissonNorm', A2('entry', 'measurements_train_shape_1'), 'A', poisson_norm)
    emit('poisson_fold_mean', 'poissonFoldMean', A2('fold_sum', 'n_folds'), 'A', poisson_fold_mean)
    emit('pair_cov', 'pairCov', A2('v_i', 'v_j'), 'A', pair_cov)
    emit('cross_kernel', 'crossKernel', {'meas1': 'A', 'noise': 'A', 'meas2': 'A'}, 'A', cross_kernel)
    emit('poisson_kernel', 'poissonKernel', A2('measurements_train', 'log_test'), 'A', poisson_kernel)
    for var, lean in (('measurements_train', 'centreTrain'), ('measurements_test', 'centreTest'),
                      ('ma', 'centreFold')):
        emit('centre_' + var, lean, A2('x', 'row_mean'), 'A', lambda var=var: _centre(var))
    emit('counts_ok', 'countsOk', {'count': 'Nat', 'counts_0': 'Nat'}, 'Nat', counts_ok)
    N1 = {'n': 'Nat'}
    emit('cross_loop_start', 'crossLoopStart', N1, 'Nat', lambda: cross_loop('start'))
    emit('cross_loop_stop', 'crossLoopStop', N1, 'Nat', lambda: cross_loop('stop'))
    emit('poisson_loop_start', 'poissonLoopStart', N1, 'Nat', lambda: poisson_loop('start'))
    emit('poisson_loop_stop', 'poissonLoopStop', N1, 'Nat', lambda: poisson_loop('stop'))
    emit('list_loop_start', 'listLoopStart', N1, 'Nat', lambda: list_loop('start'))
    emit('list_loop_stop', 'listLoopStop', N1, 'Nat', lambda: list_loop('stop'))
    emit('pair_outer_start', 'pairOuterStart', N1, 'Nat', lambda: pair_outer('start'))
    emit('pair_outer_stop', 'pairOuterStop', N1, 'Nat', lambda: pair_outer('stop'))
    N2 = {'i_fold': 'Nat', 'n': 'Nat'}
    emit('pair_inner_start', 'pairInnerStart', N2, 'Nat', lambda: pair_inner('start'))
    emit('pair_inner_stop', 'pairInnerStop', N2, 'Nat', lambda: pair_inner('stop'))
    emit('pair_guard', 'pairGuard', {'i_fold': 'Nat', 'j_fold': 'Nat'}, 'Nat', pair_guard)
    emit('noise_index', 'noiseIndex', {'i': 'Nat'}, 'Nat', noise_index)
    N0 = {}
    emit('cross_test_is_fold', 'crossTestIsFold', N0, 'Nat',
         lambda: test_is_fold('calc_rdm_crossnobis', 'datasetCopy'))
    emit('cross_train_excludes_fold', 'crossTrainExcludesFold', N0, 'Nat',
         lambda: train_excludes_fold('calc_rdm_crossnobis', 'datasetCopy'))
    emit('poisson_test_is_fold', 'poissonTestIsFold', N0, 'Nat',
         lambda: test_is_fold('calc_rdm_poisson_cv', 'dataset'))
    emit('poisson_train_excludes_fold', 'poissonTrainExcludesFold', N0, 'Nat',
         lambda: train_excludes_fold('calc_rdm_poisson_cv', 'dataset'))

    text = '\n'.join(out)
    if not (os.path.exists(DERIVED) and open(DERIVED).read() == text):
        with open(DERIVED + '.tmp', 'w') as f:
            f.write(text)
        os.replace(DERIVED + '.tmp', DERIVED)


_derive()

_DIAG = {"np.expand_dims(np.diag(kernel), 0)": "k_bb",
         "np.expand_dims(np.diag(kernel), 1)": "k_aa"}
_ENTRY_PARAMS = {'k_bb': 'A', 'k_aa': 'A', 'kernel': 'A', 'kernel_T': 'A'}
LEAVES = [
    # rdm = expand_dims(diag(kernel), 0) + expand_dims(diag(kernel), 1) - kernel - kernel.T
    # at position [a, b]: k_bb + k_aa - k_ab - k_ba
    dict(name='crossEntry', file='rdm/calc.py', func='_calc_rdm_crossnobis_single', kind='assign',
         target='rdm', nth=0, count=1, params=_ENTRY_PARAMS, opaque=_DIAG, ret='A'),
    dict(name='poissonEntry', file='rdm/calc.py', func='calc_rdm_poisson_cv', kind='assign',
         target='rdm', nth=0, count=2, params=_ENTRY_PARAMS, opaque=_DIAG, ret='A'),
    # rdm = np.einsum('ij->j', rdms) / rdms.shape[0]   (mean over folds / fold pairs)
    dict(name='foldAverage', file='rdm/calc.py', func='calc_rdm_crossnobis', kind='assign',
         target='rdm', nth=2, count=3, params={'fold_sum': 'A', 'rdms_shape_0': 'A'},
         opaque={"np.einsum('ij->j', rdms)": "fold_sum"}, ret='A'),
    # measurements_* = (measurements_* + prior_lambda * prior_weight) / (1 + prior_weight)
    dict(name='regTrain', file='rdm/calc.py', func='calc_rdm_poisson_cv', kind='assign',
         target='measurements_train', nth=0, count=1,
         params={'measurements_train': 'A', 'prior_lambda': 'A', 'prior_weight': 'A'}, ret='A'),
    dict(name='regTest', file='rdm/calc.py', func='calc_rdm_poisson_cv', kind='assign',
         target='measurements_test', nth=0, count=1,
         params={'measurements_test': 'A', 'prior_lambda': 'A', 'prior_weight': 'A'}, ret='A'),
] + _SPECS
