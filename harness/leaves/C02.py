"""translator leaves of C02: the scalar arithmetic of the cross-validated estimators
(entry formula k_aa + k_bb - k_ab - k_ba, fold average, prior regularisation)"""
_DIAG = {"np.expand_dims(np.diag(kernel), 0)": "k_bb",
         "np.expand_dims(np.diag(kernel), 1)": "k_aa"}
_ENTRY_PARAMS = {'k_bb': 'A', 'k_aa': 'A', 'kernel': 'A', 'kernel_T': 'A'}
LEAVES = [
    # rdm = expand_dims(diag(kernel), 0) + expand_dims(diag(kernel), 1) - kernel - kernel.T
    # at position [a, b]: k_bb + k_aa - k_ab - k_ba
    dict(name='crossEntry', file='rdm/calc.py', func='_calc_rdm_crossnobis_single', kind='assign',
         target='rdm', nth=0, count=1, params=_ENTRY_PARAMS, opaque=_DIAG, ret='A'),
    dict(name='poissonEntry', file='rdm/calc.py', func='calc_rdm_poisson_cv', kind='assign',
         target='rdm', nth=0, count=2, params=_ENTRY_PARAMS, opaque=_DIAG, ret='A'),
    # rdm = np.einsum('ij->j', rdms) / rdms.shape[0]   (mean over folds / fold pairs)
    dict(name='foldAverage', file='rdm/calc.py', func='calc_rdm_crossnobis', kind='assign',
         target='rdm', nth=2, count=3, params={'fold_sum': 'A', 'rdms_shape_0': 'A'},
         opaque={"np.einsum('ij->j', rdms)": "fold_sum"}, ret='A'),
    # measurements_* = (measurements_* + prior_lambda * prior_weight) / (1 + prior_weight)
    dict(name='regTrain', file='rdm/calc.py', func='calc_rdm_poisson_cv', kind='assign',
         target='measurements_train', nth=0, count=1,
         params={'measurements_train': 'A', 'prior_lambda': 'A', 'prior_weight': 'A'}, ret='A'),
    dict(name='regTest', file='rdm/calc.py', func='calc_rdm_poisson_cv', kind='assign',
         target='measurements_test', nth=0, count=1,
         params={'measurements_test': 'A', 'prior_lambda': 'A', 'prior_weight': 'A'}, ret='A'),
]
