"""translator leaves of C02: the scalar arithmetic of the cross-validated estimators.

Native py2lean leaves (translated straight from /repo's text; opaque calls):
  crossEntry / poissonEntry   rdm = expand_dims(diag(k),0) + expand_dims(diag(k),1) - kernel - kernel.T
  foldAverage                 rdm = np.einsum('ij->j', rdms) / rdms.shape[0]
  regTrain / regTest          (m + prior_lambda * prior_weight) / (1 + prior_weight)

Derived leaves (round 3).  Everything else the property depends on sits inside array
expressions, call arguments, `return` expressions, loop headers and an `assert` — outside
py2lean's `assign` anchor.  This module therefore first extracts, from the *current* source text
(Python `ast`), the **scalar skeleton** of those places and writes it as tiny Python functions
into `harness/leaves/_C02_derived.py`; py2lean then translates those functions as usual
(`file` = that absolute path).  Nothing is cached: the derived file is rewritten on every run.
Each extraction fails closed: an unexpected shape of the anchor produces a function calling
`__underivable__(…)`, which py2lean reports as an untranslatable leaf = broken obligation.

  single_norm        _calc_rdm_crossnobis_single: `return _extract_triu_(rdm) / meas1.shape[1]`
  poisson_norm       calc_rdm_poisson_cv: `rdms.append(_extract_triu_(rdm) / measurements_train.shape[1])`
  poisson_fold_mean  calc_rdm_poisson_cv: `rdm = np.mean(np.array(rdms), axis=0)`  -> fold_sum / n_folds
                     (only this exact reduction is accepted: `rdms[-1]`, np.sum, np.median … are underivable)
  pair_cov           calc_rdm_crossnobis: argument of `np.linalg.inv` inside the call of
                     `_calc_rdm_crossnobis_single`: `(variances[i_fold] + variances[j_fold]) / 2`
  cross_kernel       `kernel = meas1 @ noise @ meas2.T`  -> summand  meas1 * noise * meas2   (@ -> *, .T dropped)
  poisson_kernel     `kernel = measurements_train @ np.log(measurements_test).T` -> train * log_test
                     (np.log(measurements_test) opaque: a swap of the roles is untranslatable)
  centre_train / centre_test / centre_fold
                     `X -= X.mean(axis=1, keepdims=True)` under `if remove_mean:` -> x - row_mean
  counts_ok          _gen_default_cv_descriptor: `assert np.all(counts == counts[0])` -> 1 if count == counts_0 else 0
  loops              header of the fold loops as (start, stop) of a `range`:
                       cross_loop_*   `for i_fold, fold in enumerate(cv_folds)`        (single-precision branch)
                       poisson_loop_* `for i_fold in range(len(cv_folds))`
                       list_loop_*    `for i, i_fold in enumerate(cv_folds)`          (collecting fold means)
                       pair_outer_*   `for i_fold in range(len(cv_folds))`
                       pair_inner_*   `for j_fold in range(i_fold + 1, len(cv_folds))`
                       pair_guard     `if i_fold != j_fold`                          -> 1 / 0
  noise_index        `variances.append(np.linalg.inv(noise[i]))` -> i   (precision i belongs to fold i)
  test_is_fold / train_excludes_fold
                     `subset_obs(cv_descriptor, fold)` / `subset_obs(cv_descriptor, np.setdiff1d(cv_folds, fold))`:
                     1 when the loop passes exactly these selectors (constant leaves; anything else underivable)
"""
import ast
import os

SRC = os.environ.get('RSA_REPO_SRC', '/repo/src/rsatoolbox')
HERE = os.path.dirname(os.path.abspath(__file__))
DERIVED = os.path.join(HERE, '_C02_derived.py')
CALC = 'rdm/calc.py'


class Underivable(Exception):
    pass


def _func(name):
    tree = ast.parse(open(os.path.join(SRC, CALC)).read())
    for node in ast.walk(tree):
        if isinstance(node, ast.FunctionDef) and node.name == name:
            return node
    raise Underivable(f'{CALC}: function {name} not found')


def _one(nodes, what):
    nodes = list(nodes)
    if len(nodes) != 1:
        raise Underivable(f'expected exactly one {what}, found {len(nodes)}')
    return nodes[0]


class _Subst(ast.NodeTransformer):
    """replace whole sub-expressions (matched by their unparsed text) by names"""

    def __init__(self, subs):
        self.subs = subs
        self.used = set()

    def visit(self, node):
        if isinstance(node, ast.expr):
            t = ast.unparse(node)
            if t in self.subs:
                self.used.add(t)
                return ast.Name(id=self.subs[t], ctx=ast.Load())
        return self.generic_visit(node)


def _substituted(expr, subs, allowed):
    tr = _Subst(subs)
    new = tr.visit(ast.parse(ast.unparse(expr), mode='eval').body)
    missing = [k for k in subs if k not in tr.used]
    if missing:
        raise Underivable(f'sub-expression(s) {missing} not found in `{ast.unparse(expr)}`')
    names = {n.id for n in ast.walk(new) if isinstance(n, ast.Name)}
    calls = [ast.unparse(n) for n in ast.walk(new) if isinstance(n, ast.Call)]
    if calls or not names <= set(allowed):
        raise Underivable(f'`{ast.unparse(expr)}` is not scalar arithmetic over {sorted(allowed)}')
    return ast.unparse(ast.fix_missing_locations(new))


def _assign(fn, target):
    hits = [n for n in ast.walk(fn) if isinstance(n, ast.Assign) and len(n.targets) == 1
            and ast.unparse(n.targets[0]) == target]
    return _one(hits, f'assignment to {target} in {fn.name}')


def _calls(node, name):
    return [n for n in ast.walk(node) if isinstance(n, ast.Call) and ast.unparse(n.func) == name]


# ------------------------------------------------------------------ the extractions

def single_norm():
    fn = _func('_calc_rdm_crossnobis_single')
    ret = _one([n for n in ast.walk(fn) if isinstance(n, ast.Return)], 'return in _calc_rdm_crossnobis_single')
    return _substituted(ret.value, {'_extract_triu_(rdm)': 'entry', 'meas1.shape[1]': 'meas1_shape_1'},
                        ['entry', 'meas1_shape_1'])


def poisson_norm():
    fn = _func('calc_rdm_poisson_cv')
    call = _one(_calls(fn, 'rdms.append'), 'rdms.append(...) in calc_rdm_poisson_cv')
    if len(call.args) != 1 or call.keywords:
        raise Underivable('rdms.append takes one argument')
    return _substituted(call.args[0], {'_extract_triu_(rdm)': 'entry',
                                       'measurements_train.shape[1]': 'measurements_train_shape_1'},
                        ['entry', 'measurements_train_shape_1'])


def poisson_fold_mean():
    fn = _func('calc_rdm_poisson_cv')
    # the assignment to `rdm` after the loop (module-level statement of the function body)
    hits = [n for n in fn.body if isinstance(n, ast.Assign) and ast.unparse(n.targets[0]) == 'rdm']
    node = _one(hits, 'assignment to rdm after the fold loop of calc_rdm_poisson_cv')
    text = ast.unparse(node.value)
    if text == 'np.mean(np.array(rdms), axis=0)' or text == 'np.array(rdms).mean(axis=0)':
        return 'fold_sum / n_folds'
    if text in ("np.einsum('ij->j', rdms) / rdms.shape[0]", 'np.sum(np.array(rdms), axis=0) / len(rdms)'):
        return 'fold_sum / n_folds'
    raise Underivable(f'fold reduction `{text}` is not the mean over all fold estimates')


def _single_call_list_branch():
    fn = _func('calc_rdm_crossnobis')
    calls = _calls(fn, '_calc_rdm_crossnobis_single')
    if len(calls) != 2:
        raise Underivable(f'expected two calls of _calc_rdm_crossnobis_single, found {len(calls)}')
    calls.sort(key=lambda n: n.lineno)
    return fn, calls[0], calls[1]


def pair_cov():
    _, _, call = _single_call_list_branch()
    if len(call.args) != 3:
        raise Underivable('list-branch call of _calc_rdm_crossnobis_single does not have 3 arguments')
    if [ast.unparse(a) for a in call.args[:2]] != ['measurements[i_fold]', 'measurements[j_fold]']:
        raise Underivable(f'fold means passed as {[ast.unparse(a) for a in call.args[:2]]}')
    inv = call.args[2]
    if not (isinstance(inv, ast.Call) and ast.unparse(inv.func) == 'np.linalg.inv' and len(inv.args) == 1):
        raise Underivable(f'pair precision `{ast.unparse(inv)}` is not np.linalg.inv(<one argument>)')
    return _substituted(inv.args[0], {'variances[i_fold]': 'v_i', 'variances[j_fold]': 'v_j'}, ['v_i', 'v_j'])


class _Scalarise(ast.NodeTransformer):
    """`@` -> `*`, `.T` dropped: the summand of a matrix product"""

    def visit_BinOp(self, node):
        self.generic_visit(node)
        if isinstance(node.op, ast.MatMult):
            return ast.BinOp(left=node.left, op=ast.Mult(), right=node.right)
        return node

    def visit_Attribute(self, node):
        self.generic_visit(node)
        if node.attr == 'T':
            return node.value
        return node


def _kernel(fn_name):
    node = _assign(_func(fn_name), 'kernel')
    new = _Scalarise().visit(ast.parse(ast.unparse(node.value), mode='eval').body)
    return ast.unparse(ast.fix_missing_locations(new))


def cross_kernel():
    text = _kernel('_calc_rdm_crossnobis_single')
    e = ast.parse(text, mode='eval').body
    names = [n.id for n in ast.walk(e) if isinstance(n, ast.Name)]
    if sorted(names) != ['meas1', 'meas2', 'noise'] or any(isinstance(n, ast.Call) for n in ast.walk(e)):
        raise Underivable(f'kernel `{text}` is not a product of meas1, noise, meas2')
    return text


def poisson_kernel():
    text = _kernel('calc_rdm_poisson_cv')      # measurements_train * np.log(measurements_test)
    e = ast.parse(text, mode='eval').body
    new = _Subst({'np.log(measurements_test)': 'log_test'})
    e2 = new.visit(e)
    out = ast.unparse(ast.fix_missing_locations(e2))
    names = sorted(n.id for n in ast.walk(e2) if isinstance(n, ast.Name))
    if names != ['log_test', 'measurements_train'] or any(isinstance(n, ast.Call) for n in ast.walk(e2)):
        raise Underivable(f'kernel `{text}` is not measurements_train @ np.log(measurements_test).T')
    return out


def _centre(var):
    fn = _func('calc_rdm_crossnobis')
    hits = [n for n in ast.walk(fn) if isinstance(n, ast.AugAssign) and ast.unparse(n.target) == var]
    node = _one(hits, f'in-place update of {var}')
    if not isinstance(node.op, ast.Sub) or ast.unparse(node.value) != f'{var}.mean(axis=1, keepdims=True)':
        raise Underivable(f'`{ast.unparse(node)}` is not `{var} -= {var}.mean(axis=1, keepdims=True)`')
    # it must sit directly under `if remove_mean:`
    for parent in ast.walk(fn):
        if isinstance(parent, ast.If) and node in parent.body:
            if ast.unparse(parent.test) != 'remove_mean' or parent.orelse:
                raise Underivable(f'centring of {var} is guarded by `{ast.unparse(parent.test)}`')
            return 'x - row_mean'
    raise Underivable(f'centring of {var} is not under `if remove_mean:`')


def counts_ok():
    fn = _func('_gen_default_cv_descriptor')
    node = _one([n for n in ast.walk(fn) if isinstance(n, ast.Assert)], 'assert in _gen_default_cv_descriptor')
    t = node.test
    if not (isinstance(t, ast.Call) and ast.unparse(t.func) == 'np.all' and len(t.args) == 1
            and isinstance(t.args[0], ast.Compare)):
        raise Underivable(f'assert test `{ast.unparse(t)}` is not np.all(<comparison>)')
    cmp_ = t.args[0]
    src = [n for n in ast.walk(fn) if isinstance(n, ast.Assign) and 'counts' in ast.unparse(n.targets[0])]
    if len(src) != 1 or ast.unparse(src[0].value) != 'np.unique(desc, return_counts=True)':
        raise Underivable('counts is not the second result of np.unique(desc, return_counts=True)')
    body = _substituted(cmp_, {'counts[0]': 'counts_0', 'counts': 'count'}, ['count', 'counts_0'])
    return f'1 if {body} else 0'


def _loop_bounds(for_node, seq):
    """(start, stop) as Python source over the name `n` (= len(seq)), for the accepted loop headers"""
    it = ast.unparse(for_node.iter)
    if it in (f'enumerate({seq})', seq, f'range(len({seq}))', f'range(0, len({seq}))'):
        return '0', 'n'
    if isinstance(for_node.iter, ast.Call) and ast.unparse(for_node.iter.func) == 'range' \
            and len(for_node.iter.args) == 2 and not for_node.iter.keywords:
        a, b = for_node.iter.args
        sub = {f'len({seq})': 'n'}
        def conv(e):
            tr = _Subst(sub)
            new = tr.visit(ast.parse(ast.unparse(e), mode='eval').body)
            return ast.unparse(ast.fix_missing_locations(new))
        return conv(a), conv(b)
    raise Underivable(f'loop header `for … in {it}` is not a full pass over {seq}')


def _for_loops(fn):
    return sorted([n for n in ast.walk(fn) if isinstance(n, ast.For)], key=lambda n: n.lineno)


def _scalar_over(text, allowed):
    e = ast.parse(text, mode='eval').body
    names = {n.id for n in ast.walk(e) if isinstance(n, ast.Name)}
    if not names <= set(allowed) or any(isinstance(n, ast.Call) for n in ast.walk(e)):
        raise Underivable(f'`{text}` is not arithmetic over {sorted(allowed)}')
    return text


def _cross_loops():
    fn = _func('calc_rdm_crossnobis')
    loops = _for_loops(fn)
    if len(loops) != 4:
        raise Underivable(f'expected 4 for-loops in calc_rdm_crossnobis, found {len(loops)}')
    return fn, loops


def cross_loop(which):
    _, loops = _cross_loops()
    lo, hi = _loop_bounds(loops[0], 'cv_folds')
    if ast.unparse(loops[0].target) != '(i_fold, fold)':
        raise Underivable('loop variables of the single-precision branch changed')
    return _scalar_over(lo if which == 'start' else hi, ['n'])


def list_loop(which):
    _, loops = _cross_loops()
    lo, hi = _loop_bounds(loops[1], 'cv_folds')
    if ast.unparse(loops[1].target) != '(i, i_fold)':
        raise Underivable('loop variables of the fold-mean loop changed')
    return _scalar_over(lo if which == 'start' else hi, ['n'])


def pair_outer(which):
    _, loops = _cross_loops()
    if ast.unparse(loops[2].target) != 'i_fold' or loops[3] not in loops[2].body:
        raise Underivable('pair loop nesting changed')
    lo, hi = _loop_bounds(loops[2], 'cv_folds')
    return _scalar_over(lo if which == 'start' else hi, ['n'])


def pair_inner(which):
    _, loops = _cross_loops()
    if ast.unparse(loops[3].target) != 'j_fold':
        raise Underivable('inner pair loop variable changed')
    lo, hi = _loop_bounds(loops[3], 'cv_folds')
    return _scalar_over(lo, ['n', 'i_fold']) if which == 'start' else _scalar_over(hi, ['n', 'i_fold'])


def pair_guard():
    _, loops = _cross_loops()
    body = loops[3].body
    if len(body) == 1 and isinstance(body[0], ast.If) and not body[0].orelse:
        test = ast.unparse(body[0].test)
        _scalar_over(test, ['i_fold', 'j_fold'])
        inner = body[0].body
    else:
        test, inner = None, body
    # the guarded body must compute and append one fold-pair estimate
    if not any(_calls(s, '_calc_rdm_crossnobis_single') for s in inner) \
            or not any(_calls(s, 'rdms.append') for s in inner):
        raise Underivable('inner pair loop does not append one _calc_rdm_crossnobis_single estimate')
    return f'1 if {test} else 0' if test else '1'


def noise_index():
    _, loops = _cross_loops()
    subs = [n for n in ast.walk(loops[1]) if isinstance(n, ast.Subscript) and ast.unparse(n.value) == 'noise']
    node = _one(subs, 'use of noise[...] in the fold-mean loop')
    app = _one(_calls(loops[1], 'variances.append'), 'variances.append in the fold-mean loop')
    if ast.unparse(app.args[0]) != f'np.linalg.inv({ast.unparse(node)})':
        raise Underivable(f'variances.append({ast.unparse(app.args[0])}) is not the inverse of noise[...]')
    return _scalar_over(ast.unparse(node.slice), ['i'])


def poisson_loop(which):
    fn = _func('calc_rdm_poisson_cv')
    loop = _one(_for_loops(fn), 'for-loop in calc_rdm_poisson_cv')
    lo, hi = _loop_bounds(loop, 'cv_folds')
    if ast.unparse(loop.target) != 'i_fold':
        raise Underivable('loop variable of calc_rdm_poisson_cv changed')
    fold = [n for n in loop.body if isinstance(n, ast.Assign) and ast.unparse(n.targets[0]) == 'fold']
    if len(fold) != 1 or ast.unparse(fold[0].value) != 'cv_folds[i_fold]':
        raise Underivable('fold is not cv_folds[i_fold]')
    return _scalar_over(lo if which == 'start' else hi, ['n'])


def _selectors(fn_name, ds):
    fn = _func(fn_name)
    loop = _for_loops(fn)[0]
    te = _one([n for n in ast.walk(loop) if isinstance(n, ast.Assign) and ast.unparse(n.targets[0]) == 'data_test'],
              'assignment to data_test')
    trn = _one([n for n in ast.walk(loop) if isinstance(n, ast.Assign) and ast.unparse(n.targets[0]) == 'data_train'],
               'assignment to data_train')
    return ast.unparse(te.value), ast.unparse(trn.value)


def test_is_fold(fn_name, ds):
    te, _ = _selectors(fn_name, ds)
    if te != f'{ds}.subset_obs(cv_descriptor, fold)':
        raise Underivable(f'test set is `{te}`')
    return '1'


def train_excludes_fold(fn_name, ds):
    _, trn = _selectors(fn_name, ds)
    if trn != f'{ds}.subset_obs(cv_descriptor, np.setdiff1d(cv_folds, fold))':
        raise Underivable(f'training set is `{trn}`')
    return '1'



# ------------------------------------------------------------------ round 4: state that survives a call
#
#   input_writes      number of places in the anchored functions (the two estimators, their helpers in
#                     rdm/calc.py, `_build_rdms`, `average_dataset_by`, `get_unique_inverse`,
#                     `Dataset.subset_obs`, `subset_descriptor`, `num_index`, `bool_index`) that can leave
#                     something behind after the call returns:
#                       (a) a store into (an alias of) a parameter: augmented assignment, subscript /
#                           attribute store, `del`, mutating method, `out=`, np.copyto & co, a method or
#                           function the analysis does not know applied to caller data, any call of a
#                           helper of the same module that is outside the analysed scope;
#                       (b) a store into a name that is not local to the function (module-level memo,
#                           function attribute), `global` / `nonlocal`;
#                       (c) a decorator on, a mutable default argument of, or a module-level rebinding of
#                           an anchored function (memoisation wrappers).
#                     A parameter stops being caller data only by an unconditional top-level rebinding
#                     to a fresh object (`dataset = deepcopy(dataset)`).  The two stores of `_check_noise`
#                     that put back what they took out (`noise[k] = _check_noise(noise[k], n)`) are not
#                     counted; `check_noise_identity` is 1 iff `_check_noise` returns its argument itself.
#                     The Lean obligation is `inputWrites = 0`.
#   cross_work_is_copy / poisson_work_is_copy
#                     1 iff the object that receives `obs_descriptors['cv_desc'] = …` and `.sort_by(…)`
#                     is an unconditional `deepcopy(dataset)` made before any other use.
_SCALAR_PARAMS = {'descriptor', 'method', 'cv_descriptor', 'prior_lambda', 'prior_weight', 'remove_mean',
                  'by', 'n_channel', 'obs_desc_name', 'cv'}
_VIEW_METHODS = {'transpose', 'reshape', 'swapaxes', 'view', 'ravel', 'squeeze', 'items', 'values', 'keys',
                 'get', 'flat'}
_VIEW_FUNCS = {'np.asarray', 'np.asanyarray', 'np.transpose', 'np.swapaxes', 'np.reshape', 'np.squeeze',
               'np.ravel', 'np.atleast_1d', 'np.atleast_2d', 'np.atleast_3d', 'np.expand_dims',
               'np.diagonal', 'np.diag', 'np.broadcast_to', 'enumerate', 'zip', 'iter', 'reversed',
               '_check_noise'}
_MUTATORS = {'sort', 'fill', 'resize', 'put', 'itemset', 'setfield', 'partition', 'append', 'extend',
             'insert', 'remove', 'pop', 'popitem', 'clear', 'update', 'setdefault', 'reverse',
             'sort_by', 'setflags', '__setitem__', '__setattr__', '__delitem__', 'add', 'discard'}
_MUT_FUNCS = {'np.copyto', 'np.put', 'np.put_along_axis', 'np.putmask', 'np.place', 'np.fill_diagonal',
              'setattr', 'delattr'}
# methods of caller data known not to write
_PURE_METHODS = _VIEW_METHODS | {'subset_obs', 'mean', 'copy', 'astype', 'sum', 'all', 'any', 'tolist',
                                 'argsort', 'nonzero', 'min', 'max', 'index', 'count', 'dot', 'std', 'var'}
# functions that may receive caller data: numpy (minus the in-place ones), builtins, and the anchored
# functions themselves (analysed on their own)
_PURE_FUNCS = {'deepcopy', 'len', 'isinstance', 'enumerate', 'zip', 'range', 'list', 'tuple', 'set', 'dict',
               'iter', 'reversed', 'sorted', 'str', 'int', 'float', 'bool', 'type', 'print', 'repr',
               'ValueError', 'NotImplementedError', 'hasattr', 'getattr', 'id',
               'Dataset', 'RDMs', 'concat', 'from_partials', '_extract_triu_',
               'calc_rdm_euclidean', 'calc_rdm_correlation', 'calc_rdm_mahalanobis', 'calc_rdm_poisson'}
WRITE_SITES = []

_WRITE_SCOPE = [('rdm/calc.py', 'calc_rdm', None), ('rdm/calc.py', 'calc_rdm_crossnobis', None),
                ('rdm/calc.py', 'calc_rdm_poisson_cv', None), ('rdm/calc.py', '_calc_rdm_crossnobis_single', None),
                ('rdm/calc.py', '_gen_default_cv_descriptor', None), ('rdm/calc.py', '_check_noise', None),
                ('util/build_rdm.py', '_build_rdms', None), ('util/build_rdm.py', '_averaging_occurred', None),
                ('data/computations.py', 'average_dataset_by', None),
                ('util/data_utils.py', 'get_unique_inverse', None),
                ('data/dataset.py', 'subset_obs', 'Dataset'),
                ('util/descriptor_utils.py', 'subset_descriptor', None),
                ('util/descriptor_utils.py', 'num_index', None), ('util/descriptor_utils.py', 'bool_index', None)]


def _tree_of(path):
    return ast.parse(open(os.path.join(SRC, path)).read())


def _func_in(path, name, cls):
    tree = _tree_of(path)
    if cls is None:
        hits = [n for n in tree.body if isinstance(n, ast.FunctionDef) and n.name == name]
    else:
        hits = [m for n in tree.body if isinstance(n, ast.ClassDef) and n.name == cls
                for m in n.body if isinstance(m, ast.FunctionDef) and m.name == name]
    return _one(hits, f'definition of {name} in {path}'), tree


def _is_alias(e, alias):
    if isinstance(e, ast.Name):
        return e.id in alias
    if isinstance(e, (ast.Attribute, ast.Subscript, ast.Starred)):
        return _is_alias(e.value, alias)
    if isinstance(e, ast.Call):
        if isinstance(e.func, ast.Attribute) and e.func.attr in _VIEW_METHODS and _is_alias(e.func.value, alias):
            return True
        if ast.unparse(e.func) in _VIEW_FUNCS and any(_is_alias(a, alias) for a in e.args):
            return True
        return False
    if isinstance(e, (ast.Tuple, ast.List)):
        return any(_is_alias(x, alias) for x in e.elts)
    if isinstance(e, ast.IfExp):
        return _is_alias(e.body, alias) or _is_alias(e.orelse, alias)
    if isinstance(e, ast.BoolOp):
        return any(_is_alias(v, alias) for v in e.values)
    if isinstance(e, ast.NamedExpr):
        return _is_alias(e.value, alias)
    return False


def _tnames(t):
    if isinstance(t, ast.Name):
        return [t.id]
    if isinstance(t, (ast.Tuple, ast.List)):
        return [n for e in t.elts for n in _tnames(e)]
    if isinstance(t, ast.Starred):
        return _tnames(t.value)
    return []


def _root(e):
    while isinstance(e, (ast.Attribute, ast.Subscript, ast.Starred)):
        e = e.value
    return e.id if isinstance(e, ast.Name) else None


def _grow(stmt, alias):
    """flow-insensitive closure of the alias set over one (possibly compound) statement"""
    for _ in range(8):
        before = len(alias)
        for n in ast.walk(stmt):
            if isinstance(n, ast.Assign) and _is_alias(n.value, alias):
                for t in n.targets:
                    alias.update(_tnames(t))
            if isinstance(n, (ast.AnnAssign, ast.NamedExpr)) and n.value is not None and _is_alias(n.value, alias):
                alias.update(_tnames(n.target))
            if isinstance(n, (ast.For, ast.comprehension)) and _is_alias(n.iter, alias):
                alias.update(_tnames(n.target))
            if isinstance(n, ast.With):
                for it in n.items:
                    if it.optional_vars is not None and _is_alias(it.context_expr, alias):
                        alias.update(_tnames(it.optional_vars))
        if len(alias) == before:
            return


def _sites(stmt, alias, local_names, fname, module_funcs=()):
    out = []

    def hit(n, why):
        out.append((n.lineno, why + ': ' + ast.unparse(n).split('\n')[0][:110]))

    def foreign(e):
        r = _root(e)
        return r is not None and r not in local_names and not isinstance(e, ast.Name)

    for n in ast.walk(stmt):
        if isinstance(n, (ast.Global, ast.Nonlocal)):
            hit(n, 'global state')
        if isinstance(n, ast.AugAssign):
            if _is_alias(n.target, alias):
                hit(n, 'in-place update of caller data')
            elif foreign(n.target) or (isinstance(n.target, ast.Name) and n.target.id not in local_names):
                hit(n, 'store into a non-local name')
        if isinstance(n, (ast.Assign, ast.AnnAssign)):
            targets = n.targets if isinstance(n, ast.Assign) else [n.target]
            for t in targets:
                for tt in (t.elts if isinstance(t, (ast.Tuple, ast.List)) else [t]):
                    if isinstance(tt, (ast.Subscript, ast.Attribute)):
                        if _is_alias(tt.value, alias):
                            if not _is_self_restore(n, fname):
                                hit(n, 'store into caller data')
                        elif foreign(tt):
                            hit(n, 'store into a non-local name')
        if isinstance(n, ast.Delete):
            for t in n.targets:
                if isinstance(t, (ast.Subscript, ast.Attribute)) and (_is_alias(t.value, alias) or foreign(t)):
                    hit(n, 'del on caller data / non-local name')
        if isinstance(n, ast.Call):
            fn_txt = ast.unparse(n.func)
            args = list(n.args) + [k.value for k in n.keywords]
            if isinstance(n.func, ast.Attribute):
                recv = n.func.value
                if _is_alias(recv, alias):
                    if n.func.attr in _MUTATORS:
                        hit(n, 'mutating method on caller data')
                    elif n.func.attr not in _PURE_METHODS:
                        hit(n, 'unknown method on caller data')
                elif n.func.attr in _MUTATORS and foreign(n.func) and _root(n.func) != 'np':
                    hit(n, 'mutating method on a non-local name')
            if fn_txt in _MUT_FUNCS and args and (_is_alias(args[0], alias) or foreign(args[0])
                                                  or isinstance(args[0], ast.Name) and args[0].id not in local_names):
                hit(n, 'in-place function on caller data / non-local name')
            for k in n.keywords:
                if k.arg == 'out' and (_is_alias(k.value, alias) or foreign(k.value)):
                    hit(n, 'out= caller data')
            if isinstance(n.func, ast.Name):
                known = _PURE_FUNCS | {f for _, f, _ in _WRITE_SCOPE} | _VIEW_FUNCS
                if fn_txt not in known and any(_is_alias(a, alias) for a in args):
                    hit(n, 'caller data handed to a function the analysis does not know')
                elif fn_txt not in known and fn_txt in module_funcs:
                    hit(n, 'helper of the same module outside the analysed scope (may keep state)')
            if isinstance(n.func, ast.Attribute) and any(_is_alias(a, alias) for a in args) \
                    and not _is_alias(n.func.value, alias):
                root = _root(n.func)
                if fn_txt in _MUT_FUNCS:
                    pass
                elif root == 'np' or fn_txt in ('rdms.append', 'measurements.append', 'variances.append'):
                    pass
                elif root in local_names and n.func.attr in ('append', 'extend', 'subset_obs'):
                    pass
                else:
                    hit(n, 'caller data handed to a method the analysis does not know')
    return out


def _is_self_restore(node, fname):
    """`noise[key] = _check_noise(noise[key], n_channel)` / `noise[idx] = _check_noise(noise_i, n_channel)`
    inside `for idx, noise_i in enumerate(noise)`: puts back the object it took out (see
    check_noise_identity)"""
    if fname != '_check_noise' or not isinstance(node, ast.Assign):
        return False
    return ast.unparse(node) in ('noise[key] = _check_noise(noise[key], n_channel)',
                                 'noise[idx] = _check_noise(noise_i, n_channel)')


def _writes_in(fn, tree, where):
    params = [a.arg for a in fn.args.posonlyargs + fn.args.args + fn.args.kwonlyargs]
    if fn.args.vararg:
        params.append(fn.args.vararg.arg)
    if fn.args.kwarg:
        params.append(fn.args.kwarg.arg)
    alias = set(params) - _SCALAR_PARAMS
    local_names = set(params)
    for n in ast.walk(fn):
        if isinstance(n, ast.Name) and isinstance(n.ctx, ast.Store):
            local_names.add(n.id)
        if isinstance(n, (ast.Import, ast.ImportFrom)):
            local_names.update((a.asname or a.name).split('.')[0] for a in n.names)
        if isinstance(n, (ast.FunctionDef, ast.Lambda)) and n is not fn:
            local_names.update(a.arg for a in n.args.args)
    sites = []
    if fn.decorator_list:
        sites.append((fn.lineno, 'decorator: ' + ', '.join(ast.unparse(d) for d in fn.decorator_list)))
    for d in fn.args.defaults + [d for d in fn.args.kw_defaults if d is not None]:
        if isinstance(d, (ast.List, ast.Dict, ast.Set, ast.Call, ast.ListComp, ast.DictComp)):
            sites.append((fn.lineno, 'mutable default argument: ' + ast.unparse(d)))
    for st in tree.body:
        if isinstance(st, (ast.Assign, ast.AugAssign, ast.AnnAssign)) and fn in [
                n for n in tree.body if isinstance(n, ast.FunctionDef)]:
            targets = st.targets if isinstance(st, ast.Assign) else [st.target]
            if any(fn.name in _tnames(t) or _root(t) == fn.name for t in targets):
                sites.append((st.lineno, 'module-level rebinding: ' + ast.unparse(st)[:100]))
    module_funcs = {n.name for n in tree.body if isinstance(n, ast.FunctionDef)}
    for st in fn.body:
        _grow(st, alias)
        sites.extend(_sites(st, alias, local_names, fn.name, module_funcs))
        if isinstance(st, ast.Assign) and len(st.targets) == 1 and isinstance(st.targets[0], ast.Name) \
                and not _is_alias(st.value, alias):
            alias.discard(st.targets[0].id)            # unconditional rebinding to a fresh object
    # the two self-restores must be where the whitelist expects them
    return [f'{where}:{ln}: {txt}' for ln, txt in sorted(set(sites))]


def input_writes():
    del WRITE_SITES[:]
    for path, name, cls in _WRITE_SCOPE:
        fn, tree = _func_in(path, name, cls)
        WRITE_SITES.extend(_writes_in(fn, tree, f'{path}:{(cls + ".") if cls else ""}{name}'))
    return str(len(WRITE_SITES))


def check_noise_identity():
    fn, _ = _func_in(CALC, '_check_noise', None)
    rets = [n for n in ast.walk(fn) if isinstance(n, ast.Return)]
    if not rets or any(r.value is None or ast.unparse(r.value) != 'noise' for r in rets):
        raise Underivable('_check_noise does not return its argument `noise` in every branch')
    for n in ast.walk(fn):
        if isinstance(n, ast.Name) and n.id == 'noise' and isinstance(n.ctx, ast.Store):
            raise Underivable('_check_noise rebinds `noise`')
        if isinstance(n, ast.AugAssign) and _root(n.target) == 'noise':
            raise Underivable(f'_check_noise updates its argument in place: `{ast.unparse(n)}`')
    if not isinstance(fn.body[-1], ast.Return):
        raise Underivable('_check_noise does not end in a return')
    return '1'


def _work_is_copy(fn_name, work):
    fn, _ = _func_in(CALC, fn_name, None)
    copies = [i for i, st in enumerate(fn.body) if isinstance(st, ast.Assign) and len(st.targets) == 1
              and ast.unparse(st.targets[0]) == work]
    stores = [n for n in ast.walk(fn) if isinstance(n, ast.Name) and n.id == work and isinstance(n.ctx, ast.Store)]
    if len(copies) != 1 or len(stores) != 1:
        raise Underivable(f'{fn_name}: expected exactly one unconditional assignment to {work}')
    k = copies[0]
    if ast.unparse(fn.body[k].value) != 'deepcopy(dataset)':
        raise Underivable(f'{fn_name}: {work} is `{ast.unparse(fn.body[k].value)}`, not deepcopy(dataset)')
    imp = [n for n in _tree_of(CALC).body if isinstance(n, ast.ImportFrom) and n.module == 'copy'
           and any(a.name == 'deepcopy' and a.asname is None for a in n.names)]
    if not imp or any(isinstance(n, (ast.FunctionDef, ast.Assign)) and 'deepcopy' in
                      ([n.name] if isinstance(n, ast.FunctionDef) else [t for x in n.targets for t in _tnames(x)])
                      for n in _tree_of(CALC).body):
        raise Underivable('deepcopy is not copy.deepcopy')
    # before the copy the dataset may only be read for its channel count
    for st in fn.body[:k]:
        for n in ast.walk(st):
            if isinstance(n, ast.Name) and n.id == 'dataset':
                ok = any(isinstance(p, ast.Attribute) and p.value is n and p.attr == 'n_channel'
                         for p in ast.walk(st))
                if not ok:
                    raise Underivable(f'{fn_name}: dataset is used before the copy: `{ast.unparse(st)[:80]}`')
    # after the copy the caller's object is not mentioned any more (unless the copy took its name)
    if work != 'dataset':
        for st in fn.body[k + 1:]:
            if any(isinstance(n, ast.Name) and n.id == 'dataset' for n in ast.walk(st)):
                raise Underivable(f'{fn_name}: the caller\'s dataset is used after the copy: '
                                  f'`{ast.unparse(st)[:80]}`')
    # the in-place operations hit the copy
    sorts = [n for st in fn.body[k + 1:] for n in ast.walk(st) if isinstance(n, ast.Call)
             and isinstance(n.func, ast.Attribute) and n.func.attr == 'sort_by']
    if len(sorts) != 1 or ast.unparse(sorts[0].func.value) != work:
        raise Underivable(f'{fn_name}: expected exactly one `{work}.sort_by(…)` after the copy')
    cvs = [n for st in fn.body for n in ast.walk(st) if isinstance(n, ast.Assign)
           and any(isinstance(t, ast.Subscript) and "'cv_desc'" in ast.unparse(t.slice) for t in n.targets)]
    if len(cvs) != 1 or ast.unparse(cvs[0].targets[0]) != f"{work}.obs_descriptors['cv_desc']":
        raise Underivable(f'{fn_name}: the default fold descriptor is not stored into {work}.obs_descriptors')
    return '1'

# ------------------------------------------------------------------ write the derived file

_SPECS = []       # (python name, lean name, params (ordered dict), ret)


def _derive():
    out = ['# DERIVED by harness/leaves/C02.py from the source tree under check - do not edit', '']

    def emit(name, lean, params, ret, body_fn):
        try:
            body = body_fn()
        except Exception as exc:  # noqa: BLE001  (fail closed: any surprise = underivable)
            body = '__underivable__(' + repr(str(exc)) + ')'
        out.append(f'def {name}({", ".join(params)}):')
        out.append(f'    return {body}')
        out.append('')
        _SPECS.append(dict(name=lean, file=DERIVED, func=name, kind='func', params=dict(params), ret=ret))

    A2 = lambda a, b: {a: 'A', b: 'A'}      # noqa: E731
    emit('single_norm', 'singleNorm', A2('entry', 'meas1_shape_1'), 'A', single_norm)
    emit('poisson_norm', 'poissonNorm', A2('entry', 'measurements_train_shape_1'), 'A', poisson_norm)
    emit('poisson_fold_mean', 'poissonFoldMean', A2('fold_sum', 'n_folds'), 'A', poisson_fold_mean)
    emit('pair_cov', 'pairCov', A2('v_i', 'v_j'), 'A', pair_cov)
    emit('cross_kernel', 'crossKernel', {'meas1': 'A', 'noise': 'A', 'meas2': 'A'}, 'A', cross_kernel)
    emit('poisson_kernel', 'poissonKernel', A2('measurements_train', 'log_test'), 'A', poisson_kernel)
    for var, lean in (('measurements_train', 'centreTrain'), ('measurements_test', 'centreTest'),
                      ('ma', 'centreFold')):
        emit('centre_' + var, lean, A2('x', 'row_mean'), 'A', lambda var=var: _centre(var))
    emit('counts_ok', 'countsOk', {'count': 'Nat', 'counts_0': 'Nat'}, 'Nat', counts_ok)
    N1 = {'n': 'Nat'}
    emit('cross_loop_start', 'crossLoopStart', N1, 'Nat', lambda: cross_loop('start'))
    emit('cross_loop_stop', 'crossLoopStop', N1, 'Nat', lambda: cross_loop('stop'))
    emit('poisson_loop_start', 'poissonLoopStart', N1, 'Nat', lambda: poisson_loop('start'))
    emit('poisson_loop_stop', 'poissonLoopStop', N1, 'Nat', lambda: poisson_loop('stop'))
    emit('list_loop_start', 'listLoopStart', N1, 'Nat', lambda: list_loop('start'))
    emit('list_loop_stop', 'listLoopStop', N1, 'Nat', lambda: list_loop('stop'))
    emit('pair_outer_start', 'pairOuterStart', N1, 'Nat', lambda: pair_outer('start'))
    emit('pair_outer_stop', 'pairOuterStop', N1, 'Nat', lambda: pair_outer('stop'))
    N2 = {'i_fold': 'Nat', 'n': 'Nat'}
    emit('pair_inner_start', 'pairInnerStart', N2, 'Nat', lambda: pair_inner('start'))
    emit('pair_inner_stop', 'pairInnerStop', N2, 'Nat', lambda: pair_inner('stop'))
    emit('pair_guard', 'pairGuard', {'i_fold': 'Nat', 'j_fold': 'Nat'}, 'Nat', pair_guard)
    emit('noise_index', 'noiseIndex', {'i': 'Nat'}, 'Nat', noise_index)
    N0 = {}
    emit('cross_test_is_fold', 'crossTestIsFold', N0, 'Nat',
         lambda: test_is_fold('calc_rdm_crossnobis', 'datasetCopy'))
    emit('cross_train_excludes_fold', 'crossTrainExcludesFold', N0, 'Nat',
         lambda: train_excludes_fold('calc_rdm_crossnobis', 'datasetCopy'))
    emit('poisson_test_is_fold', 'poissonTestIsFold', N0, 'Nat',
         lambda: test_is_fold('calc_rdm_poisson_cv', 'dataset'))
    emit('poisson_train_excludes_fold', 'poissonTrainExcludesFold', N0, 'Nat',
         lambda: train_excludes_fold('calc_rdm_poisson_cv', 'dataset'))
    emit('input_writes', 'inputWrites', N0, 'Nat', input_writes)
    emit('check_noise_identity', 'checkNoiseIdentity', N0, 'Nat', check_noise_identity)
    emit('cross_work_is_copy', 'crossWorkIsCopy', N0, 'Nat',
         lambda: _work_is_copy('calc_rdm_crossnobis', 'datasetCopy'))
    emit('poisson_work_is_copy', 'poissonWorkIsCopy', N0, 'Nat',
         lambda: _work_is_copy('calc_rdm_poisson_cv', 'dataset'))
    out.append('# places that can leave state behind after a call (input_writes counts these):')
    out.extend('#   ' + w for w in WRITE_SITES)
    out.append('')

    text = '\n'.join(out)
    if not (os.path.exists(DERIVED) and open(DERIVED).read() == text):
        with open(DERIVED + '.tmp', 'w') as f:
            f.write(text)
        os.replace(DERIVED + '.tmp', DERIVED)


_derive()

_DIAG = {"np.expand_dims(np.diag(kernel), 0)": "k_bb",
         "np.expand_dims(np.diag(kernel), 1)": "k_aa"}
_ENTRY_PARAMS = {'k_bb': 'A', 'k_aa': 'A', 'kernel': 'A', 'kernel_T': 'A'}
LEAVES = [
    # rdm = expand_dims(diag(kernel), 0) + expand_dims(diag(kernel), 1) - kernel - kernel.T
    # at position [a, b]: k_bb + k_aa - k_ab - k_ba
    dict(name='crossEntry', file='rdm/calc.py', func='_calc_rdm_crossnobis_single', kind='assign',
         target='rdm', nth=0, count=1, params=_ENTRY_PARAMS, opaque=_DIAG, ret='A'),
    dict(name='poissonEntry', file='rdm/calc.py', func='calc_rdm_poisson_cv', kind='assign',
         target='rdm', nth=0, count=2, params=_ENTRY_PARAMS, opaque=_DIAG, ret='A'),
    # rdm = np.einsum('ij->j', rdms) / rdms.shape[0]   (mean over folds / fold pairs)
    dict(name='foldAverage', file='rdm/calc.py', func='calc_rdm_crossnobis', kind='assign',
         target='rdm', nth=2, count=3, params={'fold_sum': 'A', 'rdms_shape_0': 'A'},
         opaque={"np.einsum('ij->j', rdms)": "fold_sum"}, ret='A'),
    # measurements_* = (measurements_* + prior_lambda * prior_weight) / (1 + prior_weight)
    dict(name='regTrain', file='rdm/calc.py', func='calc_rdm_poisson_cv', kind='assign',
         target='measurements_train', nth=0, count=1,
         params={'measurements_train': 'A', 'prior_lambda': 'A', 'prior_weight': 'A'}, ret='A'),
    dict(name='regTest', file='rdm/calc.py', func='calc_rdm_poisson_cv', kind='assign',
         target='measurements_test', nth=0, count=1,
         params={'measurements_test': 'A', 'prior_lambda': 'A', 'prior_weight': 'A'}, ret='A'),
] + _SPECS
