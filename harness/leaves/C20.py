# leaves of property C20 regenerated from /repo's text on every run
_DM = 'io/fmriprep.py'
LEAVES = [
    # make_design_matrix — `dof = n_vols - dm.shape[1]`
    dict(name='dmDof', file=_DM, func='make_design_matrix', kind='assign',
         target='dof', count=1, params={'n_vols': 'Int', 'dm_shape_1': 'Int'}, ret='Int'),
    # make_design_matrix — `dm = (dm - dm.mean(axis=0)) / (dm.max(axis=0) - dm.min(axis=0))`,
    # one entry; the three column statistics are opaque calls that become parameters
    dict(name='dmNormEntry', file=_DM, func='make_design_matrix', kind='assign',
         target='dm', nth=2, count=3,
         params={'dm': 'A', 'col_mean': 'A', 'col_max': 'A', 'col_min': 'A'}, ret='A',
         opaque={'dm.mean(axis=0)': 'col_mean', 'dm.max(axis=0)': 'col_max',
                 'dm.min(axis=0)': 'col_min'}),
    # make_design_matrix — `hrf = hrf / hrf.max()` (peak scaling of the resampled response)
    dict(name='hrfPeakScale', file=_DM, func='make_design_matrix', kind='assign',
         target='hrf', nth=2, count=3, params={'hrf': 'A', 'peak': 'A'}, ret='A',
         opaque={'hrf.max()': 'peak'}),
    # SpmGlm.get_betas / get_residuals — `indx = self.reg_of_interest-1` (1-based -> 0-based)
    dict(name='regIndexBetas', file='io/spm.py', func='get_betas', kind='assign',
         target='indx', count=1, params={'self_reg_of_interest': 'Int'}, ret='Int'),
    dict(name='regIndexResiduals', file='io/spm.py', func='get_residuals', kind='assign',
         target='indx', count=1, params={'self_reg_of_interest': 'Int'}, ret='Int'),
]
