# leaves of property C20 regenerated from /repo's text on every run
LEAVES = [
    # io/fmriprep.py: make_design_matrix — `dof = n_vols - dm.shape[1]`
    dict(name='dmDof', file='io/fmriprep.py', func='make_design_matrix', kind='assign',
         target='dof', count=1, params={'n_vols': 'Int', 'dm_shape_1': 'Int'}, ret='Int'),
]
