"""Leaf specs for C20 (importers), regenerated from /repo's text on every run.

Native py2lean leaves (scalar arithmetic, translated straight from the source text):
  dmDof, dmNormEntry, hrfPeakScale     io/fmriprep.py  make_design_matrix
  regIndexBetas, regIndexResiduals     io/spm.py       get_betas / get_residuals

Derived leaves.  The importers are mostly *string* code: separators, entity keys, the order in
which entities are written, the dict of entities a look-up replaces, slice bounds.  py2lean only
knows numbers, so this module first derives — from the current source text, by matching the
exact statement shapes with Python's `ast` — every such constant and writes it as a tiny Python
function `def name(): return <int>` into harness/leaves/_C20_derived.py; py2lean then translates
those functions as usual.  Encodings:
  character            its code point                                   ('-' -> 45)
  string               big-endian bytes behind a leading 0x01 byte      ('sub' -> 0x01737562)
  list of strings      the ','-joined string                            ('ses,task,run')
  python index         the integer (negative indices by their absolute value, name says so)
  look-up dict entry   0 = key absent (inherit), 2 = None, 3 = the `desc` argument,
                       4 = the `suffix` argument, otherwise the encoded string literal
`Rsa.Core.C20Syntax` decodes them (`natToStr`), the model functions of namespace
`Rsa.Importers.Src` are written in terms of them, and `Rsa/Lemmas/C20Syntax.lean` proves
`Src.f = f` for the literal model the property theorems were proved about — so an edit of a
separator, a key, the entity order or a look-up dict breaks `bids_roundtrip`,
`lookup_changes_only`, `mne_descriptors`, … instead of relying on the generator.

Each derivation fails closed: an unexpected statement shape gives a function calling
`__underivable__`, which py2lean reports as an untranslatable leaf (= broken obligation, the
failing-input search runs).  Nothing is cached; the derived file is rewritten on every run.
"""
import ast
import os

SRC = os.environ.get('RSA_REPO_SRC', '/repo/src/rsatoolbox')
HERE = os.path.dirname(os.path.abspath(__file__))
DERIVED = os.path.join(HERE, '_C20_derived.py')

ENT_KEYS = ['sub', 'ses', 'run', 'task', 'space', 'desc']
ALL_ENTS = ['derivative', 'sub', 'ses', 'task', 'run', 'space', 'desc', 'modality', 'suffix', 'ext']


class Underivable(Exception):
    pass


def enc(s):
    if not isinstance(s, str):
        raise Underivable(f'not a string literal: {s!r}')
    return int.from_bytes(b'\x01' + s.encode('ascii'), 'big')


def ch(s):
    if not (isinstance(s, str) and len(s) == 1):
        raise Underivable(f'not a single character: {s!r}')
    return ord(s)


def need(cond, msg):
    if not cond:
        raise Underivable(msg)


_TREES = {}


def _tree(path):
    if path not in _TREES:
        _TREES[path] = ast.parse(open(os.path.join(SRC, path)).read())
    return _TREES[path]


def _func(path, name, cls=None):
    tree = _tree(path)
    scope = tree
    if cls is not None:
        hits = [n for n in ast.walk(tree) if isinstance(n, ast.ClassDef) and n.name == cls]
        need(len(hits) == 1, f'{path}: class {cls} not found')
        scope = hits[0]
    hits = [n for n in ast.walk(scope) if isinstance(n, ast.FunctionDef) and n.name == name]
    need(len(hits) == 1, f'{path}: function {name} found {len(hits)} times')
    return hits[0]


def _body(fn):
    """statements without the docstring"""
    b = list(fn.body)
    if b and isinstance(b[0], ast.Expr) and isinstance(b[0].value, ast.Constant) \
            and isinstance(b[0].value.value, str):
        b = b[1:]
    return b


def u(node):
    return ast.unparse(node)


def const(node, typ=None):
    need(isinstance(node, ast.Constant), f'`{u(node)}` is not a literal')
    if typ is not None:
        need(isinstance(node.value, typ) and not isinstance(node.value, bool),
             f'`{u(node)}` is not a {typ.__name__} literal')
    return node.value


def fstring_parts(node):
    """JoinedStr -> list of ('lit', str) | ('var', source text)"""
    if isinstance(node, ast.Constant) and isinstance(node.value, str):
        return [('lit', node.value)]
    need(isinstance(node, ast.JoinedStr), f'`{u(node)}` is not an f-string')
    out = []
    for v in node.values:
        if isinstance(v, ast.Constant):
            out.append(('lit', v.value))
        else:
            need(isinstance(v, ast.FormattedValue) and v.conversion == -1 and v.format_spec is None,
                 f'formatted value with conversion in `{u(node)}`')
            out.append(('var', u(v.value)))
    return out


def method_call(node, obj=None, name=None, nargs=None):
    """`obj.name(args)` -> (object node, args)"""
    need(isinstance(node, ast.Call) and isinstance(node.func, ast.Attribute) and not node.keywords,
         f'`{u(node)}` is not a method call')
    if name is not None:
        need(node.func.attr == name, f'`{u(node)}` is not a call of .{name}()')
    if obj is not None:
        need(u(node.func.value) == obj, f'`{u(node)}` is not a method of {obj}')
    if nargs is not None:
        need(len(node.args) == nargs, f'`{u(node)}` does not have {nargs} argument(s)')
    return node.func.value, node.args


def index_of(node):
    """constant integer subscript -> int"""
    need(isinstance(node, ast.Subscript), f'`{u(node)}` is not a subscript')
    s = node.slice
    if isinstance(s, ast.UnaryOp) and isinstance(s.op, ast.USub):
        return -const(s.operand, int)
    return const(s, int)


def slice_of(node):
    """`x[a:b]` -> (a, b) with None for an absent bound (constant ints only)"""
    need(isinstance(node, ast.Subscript) and isinstance(node.slice, ast.Slice)
         and node.slice.step is None, f'`{u(node)}` is not a plain slice')

    def b(x):
        if x is None:
            return None
        if isinstance(x, ast.UnaryOp) and isinstance(x.op, ast.USub):
            return -const(x.operand, int)
        return const(x, int)
    return b(node.slice.lower), b(node.slice.upper)


# ------------------------------------------------------------------ numeric derivations

def linspace_entry(path, func, target, index_name, subs=None):
    """entry `index_name` of `target = numpy.linspace(start, stop, num)`:
    numpy computes step = (stop - start) / (num - 1), y = arange(num) * step + start"""
    fn = _func(path, func)
    hits = [n for n in ast.walk(fn) if isinstance(n, ast.Assign) and len(n.targets) == 1
            and u(n.targets[0]) == target]
    need(len(hits) == 1, f'expected one assignment to {target}, found {len(hits)}')
    call = hits[0].value
    need(isinstance(call, ast.Call) and u(call.func) in ('numpy.linspace', 'np.linspace')
         and len(call.args) == 3 and not call.keywords, f'{target} is not linspace(start, stop, num)')
    start, stop, num = (u(a) for a in call.args)
    for k, v in (subs or {}).items():
        start, stop, num = (t.replace(k, v) for t in (start, stop, num))
    return f'({index_name} * ((({stop}) - ({start})) / (({num}) - 1)) + ({start}))'


def mne_slice_start():
    fn = _func('io/mne.py', 'descriptors_from_bids_filename')
    hits = [n for n in ast.walk(fn) if isinstance(n, ast.Subscript) and isinstance(n.slice, ast.Slice)]
    need(len(hits) == 1, 'expected one slice in descriptors_from_bids_filename')
    sl = hits[0]
    need(u(sl.value) == 'segment' and sl.slice.upper is None and sl.slice.step is None
         and sl.slice.lower is not None, f'`{u(sl)}` is not segment[<start>:]')
    return u(sl.slice.lower).replace('len(dname)', 'len_dname')


# ------------------------------------------------------------------ BIDS: parsing

def bids_find_entity():
    """BidsFile._findEntity: for seg in in_fname.split(S): if seg.startswith(f'{entity}K'):
    return seg.replace(f'{entity}K', '')"""
    fn = _func('io/bids.py', '_findEntity', 'BidsFile')
    need([a.arg for a in fn.args.args] == ['self', 'entity', 'in_fname'], 'signature of _findEntity')
    loops = [s for s in _body(fn) if isinstance(s, ast.For)]
    rest = [s for s in _body(fn) if not isinstance(s, ast.For)]
    need(len(loops) == 1 and all(isinstance(s, ast.Expr) for s in rest),
         '_findEntity is not a single loop')
    loop = loops[0]
    need(not loop.orelse and isinstance(loop.target, ast.Name), 'loop shape')
    var = loop.target.id
    _, args = method_call(loop.iter, obj='in_fname', name='split', nargs=1)
    seg_sep = ch(const(args[0], str))
    need(len(loop.body) == 1 and isinstance(loop.body[0], ast.If) and not loop.body[0].orelse,
         'loop body is not a single if')
    test, body = loop.body[0].test, loop.body[0].body
    _, targs = method_call(test, obj=var, name='startswith', nargs=1)
    need(len(body) == 1 and isinstance(body[0], ast.Return), 'if body is not a single return')
    _, rargs = method_call(body[0].value, obj=var, name='replace', nargs=2)
    need(const(rargs[1], str) == '', 'the prefix is not replaced by the empty string')
    p1, p2 = fstring_parts(targs[0]), fstring_parts(rargs[0])
    need(p1 == p2 and len(p1) == 2 and p1[0] == ('var', 'entity') and p1[1][0] == 'lit',
         f'prefix is not f"{{entity}}<sep>": {p1} / {p2}')
    return {'p_seg_sep': seg_sep, 'p_key_sep': ch(p1[1][1])}


def bids_deconstruct():
    fn = _func('io/bids.py', '_deconstruct', 'BidsFile')
    out = {}
    stmts = _body(fn)
    src = [u(s) for s in stmts]
    need(src[0] == 'parts = normpath(self.relpath).split(os.sep)', f'first statement: {src[0]}')
    need(src[1] == 'fname = basename(self.relpath)', f'second statement: {src[1]}')
    # derivative
    s = stmts[2]
    need(isinstance(s, ast.If) and isinstance(s.test, ast.Compare) and len(s.test.ops) == 1
         and isinstance(s.test.ops[0], ast.Eq), 'derivative test')
    need(u(s.test.left.value) == 'parts' and index_of(s.test.left) == 0, 'derivative test is not on parts[0]')
    out['p_deriv_dir'] = enc(const(s.test.comparators[0], str))
    need(len(s.body) == 2 and len(s.orelse) == 1, 'derivative branches')
    a, b = s.body
    need(isinstance(a, ast.Assign) and u(a.targets[0]) == 'self.derivative'
         and u(a.value.value) == 'parts', 'self.derivative = parts[k]')
    out['p_deriv_idx'] = index_of(a.value)
    need(isinstance(b, ast.Assign) and u(b.targets[0]) == 'parts' and u(b.value.value) == 'parts',
         'parts = parts[k:]')
    lo, hi = slice_of(b.value)
    need(hi is None and lo is not None and lo >= 0, 'parts = parts[k:]')
    out['p_deriv_skip'] = lo
    need(u(s.orelse[0]) == 'self.derivative = None', 'else branch of the derivative test')
    # entities, modality, suffix, ext: order matters only for `ses` before the modality block
    seen = {}
    ses_line = mod_line = None
    for i, s in enumerate(stmts[3:], 3):
        if isinstance(s, ast.Assign) and len(s.targets) == 1 and u(s.targets[0]).startswith('self.') \
                and isinstance(s.value, ast.Call) and u(s.value.func) == 'self._findEntity':
            attr = u(s.targets[0])[5:]
            need(len(s.value.args) == 2 and u(s.value.args[1]) == 'fname' and not s.value.keywords,
                 f'_findEntity call for {attr}')
            need(attr not in seen, f'{attr} assigned twice')
            seen[attr] = enc(const(s.value.args[0], str))
            if attr == 'ses':
                ses_line = i
        elif isinstance(s, ast.If):
            need(mod_line is None, 'second if block')
            mod_line = i
            t = s.test
            need(isinstance(t, ast.Compare) and u(t.left) == 'len(parts)' and len(t.ops) == 1
                 and isinstance(t.ops[0], ast.Gt) and not s.orelse, 'modality guard is not len(parts) > k')
            out['p_mod_minlen'] = const(t.comparators[0], int)
            need(len(s.body) == 1 and isinstance(s.body[0], ast.If), 'modality block')
            inner = s.body[0]
            need(u(inner.test) == 'self.ses' and len(inner.body) == 1 and len(inner.orelse) == 1,
                 'modality is not chosen by self.ses')
            for key, st in (('p_mod_idx_ses', inner.body[0]), ('p_mod_idx', inner.orelse[0])):
                need(isinstance(st, ast.Assign) and u(st.targets[0]) == 'self.modality'
                     and u(st.value.value) == 'parts', 'self.modality = parts[k]')
                out[key] = index_of(st.value)
    need(sorted(seen) == sorted(ENT_KEYS), f'entities parsed: {sorted(seen)}')
    need(ses_line is not None and mod_line is not None and ses_line < mod_line,
         'self.ses must be parsed before the modality is chosen')
    for k in ENT_KEYS:
        out['p_key_' + k] = seen[k]
    tail = [u(s) for s in stmts if isinstance(s, ast.Assign) and u(s.targets[0]) in
            ('suffix_ext', 'self.suffix', 'self.ext')]
    need(len(tail) == 3, 'suffix / ext statements')
    asg = {u(s.targets[0]): s.value for s in stmts if isinstance(s, ast.Assign)
           and u(s.targets[0]) in ('suffix_ext', 'self.suffix', 'self.ext')}
    v = asg['suffix_ext']
    need(index_of(v) == -1, 'suffix_ext is not the last segment')
    _, a = method_call(v.value, obj='fname', name='split', nargs=1)
    out['p_sfx_seg_sep'] = ch(const(a[0], str))
    v = asg['self.suffix']
    need(index_of(v) == 0, 'suffix is not the first dotted part')
    _, a = method_call(v.value, obj='suffix_ext', name='split', nargs=1)
    out['p_ext_sep'] = ch(const(a[0], str))
    v = asg['self.ext']
    jo, ja = method_call(v, name='join', nargs=1)
    need(ch(const(jo, str)) == out['p_ext_sep'], 'ext is joined with another separator')
    lo, hi = slice_of(ja[0])
    need((lo, hi) == (1, None), 'ext is not split[1:]')
    _, a = method_call(ja[0].value, obj='suffix_ext', name='split', nargs=1)
    need(ch(const(a[0], str)) == out['p_ext_sep'], 'ext is split on another separator')
    return out


# ------------------------------------------------------------------ BIDS: formatting

def _cond_list(value):
    """`[elts] if X else []` -> (elts, X)"""
    need(isinstance(value, ast.IfExp) and isinstance(value.body, ast.List)
         and isinstance(value.orelse, ast.List) and not value.orelse.elts
         and isinstance(value.test, ast.Name), f'`{u(value)}` is not `[..] if x else []`')
    return value.body.elts, value.test.id


def bids_replace():
    fn = _func('io/bids.py', '_replace', 'BidsLayout')
    inner = [s for s in _body(fn) if isinstance(s, ast.FunctionDef)]
    need(len(inner) == 1 and inner[0].name == 'replace_or_inherit', 'replace_or_inherit helper')
    need([u(s) for s in inner[0].body] ==
         ['if entity in replace_entities:\n    return replace_entities[entity]',
          'return getattr(base, entity)'], 'replace_or_inherit body changed')
    out = {}
    bound = {}
    dirs, names = [], []
    key_seps, first = set(), None
    done = False
    for s in _body(fn):
        if isinstance(s, ast.FunctionDef):
            continue
        need(not done, 'statement after return')
        if isinstance(s, ast.Return):
            need(u(s.value) == 'join(*path_segs)', f'return: {u(s.value)}')
            done = True
            continue
        if isinstance(s, ast.Assign) and len(s.targets) == 1 and isinstance(s.targets[0], ast.Name):
            tgt = s.targets[0].id
            if isinstance(s.value, ast.Call) and u(s.value.func) == 'replace_or_inherit':
                need(len(s.value.args) == 2 and u(s.value.args[0]) == 'base', 'replace_or_inherit call')
                key = const(s.value.args[1], str)
                need(tgt == key and tgt not in bound, f'{tgt} = replace_or_inherit(base, {key!r})')
                bound[tgt] = key
                continue
            if tgt == 'path_segs':
                need(u(s.value) == '[]' and not dirs, 'path_segs initialisation')
                continue
            if tgt == 'fname_segs':
                need(isinstance(s.value, ast.List) and len(s.value.elts) == 1 and first is None,
                     'fname_segs initialisation')
                p = fstring_parts(s.value.elts[0])
                need(len(p) == 2 and p[0][0] == 'lit' and p[1][0] == 'var' and p[1][1] in bound
                     and len(p[0][1]) >= 2, f'first name segment {p}')
                first = (p[0][1][:-1], p[1][1])
                key_seps.add(p[0][1][-1])
                continue
        if isinstance(s, ast.AugAssign) and isinstance(s.op, ast.Add) and isinstance(s.target, ast.Name):
            tgt = s.target.id
            if tgt == 'path_segs' and isinstance(s.value, ast.List):
                need(u(s.value) == "['_'.join(fname_segs)]" or
                     (len(s.value.elts) == 1 and isinstance(s.value.elts[0], ast.Call)
                      and u(s.value.elts[0].args[0]) == 'fname_segs'), 'file name appended to the path')
                jo, _ = method_call(s.value.elts[0], name='join', nargs=1)
                out['f_seg_sep'] = ch(const(jo, str))
                continue
            if tgt == 'fname_segs' and isinstance(s.value, ast.List):
                need(len(s.value.elts) == 1, 'last name segment')
                p = fstring_parts(s.value.elts[0])
                need(len(p) == 3 and p[0] == ('var', 'suffix') and p[1][0] == 'lit'
                     and p[2] == ('var', 'ext') and 'suffix' in bound and 'ext' in bound,
                     f'last name segment {p}')
                out['f_ext_sep'] = ch(p[1][1])
                names.append(None)            # marks the end
                continue
            elts, cond = _cond_list(s.value)
            need(cond in bound, f'condition {cond} is not an inherited entity')
            if tgt == 'path_segs':
                need(names == [] and first is None, 'directory after the file name started')
                if len(elts) == 2:
                    need(u(elts[1]) == cond, f'directory pair for {cond}')
                    dirs.append((cond, 'pair', const(elts[0], str)))
                elif len(elts) == 1 and u(elts[0]) == cond:
                    dirs.append((cond, 'bare', ''))
                else:
                    need(len(elts) == 1, f'directory for {cond}')
                    p = fstring_parts(elts[0])
                    need(len(p) == 2 and p[0][0] == 'lit' and p[1] == ('var', cond)
                         and len(p[0][1]) >= 2, f'directory for {cond}: {p}')
                    dirs.append((cond, 'keyed', p[0][1][:-1]))
                    key_seps.add(p[0][1][-1])
                continue
            if tgt == 'fname_segs':
                need(first is not None and None not in names, 'name segment out of place')
                need(len(elts) == 1, f'name segment for {cond}')
                p = fstring_parts(elts[0])
                need(len(p) == 2 and p[0][0] == 'lit' and p[1] == ('var', cond) and len(p[0][1]) >= 2,
                     f'name segment for {cond}: {p}')
                names.append((cond, p[0][1][:-1]))
                key_seps.add(p[0][1][-1])
                continue
        raise Underivable(f'unexpected statement in _replace: {u(s)[:60]}')
    need(done and names and names[-1] is None, '_replace does not end with <suffix>.<ext>')
    names = names[:-1]
    need(sorted(bound) == sorted(ALL_ENTS), f'entities inherited: {sorted(bound)}')
    need(len(key_seps) == 1, f'several key separators {key_seps}')
    out['f_key_sep'] = ch(key_seps.pop())
    # directories: kinds are fixed by the model (derivative = pair, sub/ses = keyed, modality = bare)
    kinds = {'derivative': 'pair', 'sub': 'keyed', 'ses': 'keyed', 'modality': 'bare'}
    need(all(kinds.get(c) == k for c, k, _ in dirs) and len({c for c, _, _ in dirs}) == len(dirs),
         f'directory components {dirs}')
    out['f_dir_order'] = enc(','.join(c for c, _, _ in dirs))
    for c, k, lit in dirs:
        if k == 'pair':
            out['f_deriv_dir'] = enc(lit)
        elif k == 'keyed':
            out['f_dirkey_' + c] = enc(lit)
    need(first[1] == 'sub', f'first name segment is {first}')
    out['f_namekey_sub'] = enc(first[0])
    need(len({c for c, _ in names}) == len(names), 'entity written twice')
    out['f_name_order'] = enc(','.join(c for c, _ in names))
    for c, lit in names:
        out['f_namekey_' + c] = enc(lit)
    return out


LOOKUPS = {'meta': 'find_meta_for', 'events': 'find_events_for',
           'table': 'find_table_sibling_of', 'mri': 'find_mri_sibling_of'}


def bids_lookup(func):
    fn = _func('io/bids.py', func, 'BidsLayout')
    calls = [n for n in ast.walk(fn) if isinstance(n, ast.Call) and u(n.func) == 'self._replace']
    need(len(calls) == 1 and len(calls[0].args) == 2 and u(calls[0].args[0]) == 'base'
         and not calls[0].keywords, f'{func}: one self._replace(base, dict(...)) call')
    d = calls[0].args[1]
    need(isinstance(d, ast.Call) and u(d.func) == 'dict' and not d.args, f'{func}: dict(...) argument')
    params = [a.arg for a in fn.args.args]
    codes = {k: 0 for k in ALL_ENTS}
    for kw in d.keywords:
        need(kw.arg in codes and codes[kw.arg] == 0, f'{func}: key {kw.arg}')
        v = kw.value
        if isinstance(v, ast.Constant) and v.value is None:
            need(kw.arg not in ('suffix', 'ext'), f'{func}: {kw.arg}=None')
            codes[kw.arg] = 2
        elif isinstance(v, ast.Name) and v.id in ('desc', 'suffix') and v.id in params:
            codes[kw.arg] = 3 if v.id == 'desc' else 4
        else:
            s = const(v, str)
            need(s != '', 'empty literal')
            codes[kw.arg] = enc(s)
    # the file found is constructed from exactly that path
    rets = [n for n in ast.walk(fn) if isinstance(n, ast.Return)]
    need(len(rets) == 1 and isinstance(rets[0].value, ast.Call) and u(rets[0].value.args[0]) == 'fpath'
         and u(rets[0].value.args[1]) == 'self', f'{func}: return <File>(fpath, self, ...)')
    return codes


def bids_table_key():
    fn = _func('io/bids.py', 'find_table_key_for', 'BidsLayout')
    st = _body(fn)
    need(len(st) == 3, 'find_table_key_for has three statements')
    need(isinstance(st[0], ast.Assign) and u(st[0].targets[0]) == 'path_segs', 'first statement')
    v = st[0].value
    need(isinstance(v, ast.IfExp) and u(v.test) == 'base.derivative' and u(v.orelse) == '[]'
         and isinstance(v.body, ast.List) and len(v.body.elts) == 2
         and u(v.body.elts[1]) == 'base.derivative', 'derivative directory of the key file')
    out = {'tk_deriv_dir': enc(const(v.body.elts[0], str))}
    need(isinstance(st[1], ast.AugAssign) and u(st[1].target) == 'path_segs'
         and isinstance(st[1].value, ast.List) and len(st[1].value.elts) == 1, 'second statement')
    p = fstring_parts(st[1].value.elts[0])
    need([k for k, _ in p] == ['lit', 'var', 'lit', 'var', 'lit']
         and p[1][1] == 'base.desc' and p[3][1] == 'base.suffix', f'key file name {p}')
    out.update(tk_pre=enc(p[0][1]), tk_mid=enc(p[2][1]), tk_post=enc(p[4][1]))
    need(u(st[2]) == 'return BidsTableFile(join(*path_segs), self)', 'return statement')
    return out


def bids_derivative_files():
    fn = _func('io/bids.py', 'find_mri_derivative_files', 'BidsLayout')
    src = u(fn)
    out = {}
    asg = [n for n in ast.walk(fn) if isinstance(n, ast.Assign) and u(n.targets[0]) == 'deriv_dir']
    need(len(asg) == 1 and u(asg[0].value.func) == 'join' and len(asg[0].value.args) == 3
         and u(asg[0].value.args[0]) == 'self._path' and u(asg[0].value.args[2]) == 'derivative',
         'deriv_dir = join(self._path, <dir>, derivative)')
    out['df_deriv_dir'] = enc(const(asg[0].value.args[1], str))
    globs = [n for n in ast.walk(fn) if isinstance(n, ast.Call) and u(n.func) == 'glob']
    need(len(globs) == 1 and u(globs[0]).startswith("glob(join(deriv_dir, '**', ")
         and u(globs[0]).endswith('), recursive=True)'), 'glob call')
    pat = const(globs[0].args[0].args[2], str)
    need(pat.endswith('*') and '*' not in pat[:-1] and len(pat) > 1, f'glob pattern {pat}')
    out['df_glob_prefix'] = enc(pat[:-1])
    need('fpaths = sorted(glob(' in src, 'candidates are not sorted')
    comps = [n for n in ast.walk(fn) if isinstance(n, ast.ListComp)]
    tests = {}
    for c in comps:
        if len(c.generators) == 1 and len(c.generators[0].ifs) == 1 and u(c.elt) == 'f':
            t = c.generators[0].ifs[0]
            tests[u(c.generators[0].iter) + '|' + u(t)] = t
    desc = [t for k, t in tests.items() if isinstance(t, ast.Compare) and isinstance(t.ops[0], ast.In)
            and 'desc' in u(t.left)]
    task = [t for k, t in tests.items() if isinstance(t, ast.Compare) and isinstance(t.ops[0], ast.In)
            and 'task' in u(t.left)]
    meta = [t for k, t in tests.items() if isinstance(t, ast.UnaryOp) and isinstance(t.op, ast.Not)]
    need(len(desc) == 1 and len(task) == 1 and len(meta) == 1 and len(tests) == 3,
         f'filters: {list(tests)}')
    p = fstring_parts(desc[0].left)
    need(len(p) == 2 and p[0][0] == 'lit' and p[1] == ('var', 'desc') and u(desc[0].comparators[0]) == 'f',
         f'desc filter {p}')
    out['df_desc_pre'] = enc(p[0][1])
    p = fstring_parts(task[0].left)
    need(len(p) == 2 and p[0][0] == 'lit' and p[1] == ('var', 'task') and u(task[0].comparators[0]) == 'f',
         f'task filter {p}')
    out['df_task_pre'] = enc(p[0][1])
    _, a = method_call(meta[0].operand, obj='f', name='endswith', nargs=1)
    out['df_meta_ext'] = enc(const(a[0], str))
    return out


# ------------------------------------------------------------------ fMRIPrep

def fmriprep_constants():
    out = {}
    fn = _func('io/fmriprep.py', 'find_fmriprep_runs')
    calls = [n for n in ast.walk(fn) if isinstance(n, ast.Call)
             and u(n.func) == 'bids.find_mri_derivative_files']
    need(len(calls) == 1 and not calls[0].args, 'find_mri_derivative_files(keyword arguments)')
    kw = {k.arg: k.value for k in calls[0].keywords}
    need(sorted(kw) == ['derivative', 'desc', 'tasks'] and u(kw['tasks']) == 'tasks', f'keywords {sorted(kw)}')
    out['fp_derivative'] = enc(const(kw['derivative'], str))
    out['fp_desc'] = enc(const(kw['desc'], str))

    def sibling(func, method):
        f = _func('io/fmriprep.py', func, 'FmriprepRun')
        cs = [n for n in ast.walk(f) if isinstance(n, ast.Call) and u(n.func) == 'self.boldFile.' + method]
        need(len(cs) == 1 and not cs[0].args, f'{func}: one {method}(desc=, suffix=) call')
        k = {x.arg: x.value for x in cs[0].keywords}
        need(sorted(k) == ['desc', 'suffix'], f'{func}: keywords {sorted(k)}')
        return enc(const(k['desc'], str)), enc(const(k['suffix'], str))
    out['fp_mask_desc'], out['fp_mask_suffix'] = sibling('get_mask', 'get_mri_sibling')
    out['fp_conf_desc'], out['fp_conf_suffix'] = sibling('get_confounds', 'get_table_sibling')
    a = sibling('get_parcellation', 'get_mri_sibling')
    b = sibling('get_parcellation_labels', 'get_mri_sibling')
    need(a == b, 'parcellation and its labels come from different files')
    out['fp_parc_desc'], out['fp_parc_suffix'] = a
    # default confound names
    f = _func('io/fmriprep.py', 'get_confounds', 'FmriprepRun')
    asg = [n for n in ast.walk(f) if isinstance(n, ast.Assign) and u(n.targets[0]) == 'cf_names']
    need(len(asg) == 1 and isinstance(asg[0].value, ast.BoolOp) and isinstance(asg[0].value.op, ast.Or)
         and u(asg[0].value.values[0]) == 'cf_names' and isinstance(asg[0].value.values[1], ast.List),
         'cf_names = cf_names or [...]')
    names = [const(e, str) for e in asg[0].value.values[1].elts]
    need(all(',' not in n for n in names), 'comma in a confound name')
    out['fp_conf_default'] = enc(','.join(names))
    rets = [n for n in ast.walk(f) if isinstance(n, ast.Return)]
    need(len(rets) == 1 and u(rets[0].value) == 'df[cf_names]', 'return df[cf_names]')
    # dataset descriptors: key, attribute, guard
    f = _func('io/fmriprep.py', 'get_dataset_descriptors', 'FmriprepRun')
    st = _body(f)
    need(u(st[0]) == 'ds_descs = dict()' and u(st[-1]) == 'return ds_descs', 'frame of get_dataset_descriptors')
    order = []

    def assign(s):
        need(isinstance(s, ast.Assign) and isinstance(s.targets[0], ast.Subscript)
             and u(s.targets[0].value) == 'ds_descs' and u(s.value).startswith('self.boldFile.'),
             f'descriptor assignment: {u(s)}')
        return const(s.targets[0].slice, str), u(s.value)[len('self.boldFile.'):]
    for s in st[1:-1]:
        if isinstance(s, ast.If):
            need(not s.orelse and len(s.body) == 1 and u(s.test).startswith('self.boldFile.'),
                 f'guard: {u(s.test)}')
            key, attr = assign(s.body[0])
            guard = u(s.test)[len('self.boldFile.'):]
        else:
            key, attr = assign(s)
            guard = ''
        need(key not in [k for k, _, _ in order], f'descriptor {key} twice')
        order.append((key, attr, guard))
    out['dd_order'] = enc(','.join(k for k, _, _ in order))
    out['dd_attrs'] = enc(','.join(a for _, a, _ in order))
    out['dd_guards'] = enc(','.join(g for _, _, g in order))
    return out


# ------------------------------------------------------------------ MNE

def mne_descriptors():
    fn = _func('io/mne.py', 'descriptors_from_bids_filename')
    st = _body(fn)
    need(len(st) == 3 and u(st[0]) == 'descs = dict()' and u(st[2]) == 'return descs', 'frame')
    outer = st[1]
    need(isinstance(outer, ast.For) and u(outer.target) == 'dname' and isinstance(outer.iter, ast.List)
         and not outer.orelse and len(outer.body) == 1, 'outer loop over the descriptor names')
    keys = [const(e, str) for e in outer.iter.elts]
    inner = outer.body[0]
    need(isinstance(inner, ast.For) and u(inner.target) == 'segment' and not inner.orelse
         and len(inner.body) == 1, 'inner loop over the segments')
    _, a = method_call(inner.iter, obj='fname', name='split', nargs=1)
    out = {'m_keys': enc(','.join(keys)), 'm_seg_sep': ch(const(a[0], str))}
    iff = inner.body[0]
    need(isinstance(iff, ast.If) and not iff.orelse and len(iff.body) == 1, 'if in the inner loop')
    _, t = method_call(iff.test, obj='segment', name='startswith', nargs=1)
    need(isinstance(t[0], ast.BinOp) and isinstance(t[0].op, ast.Add) and u(t[0].left) == 'dname',
         'startswith(dname + <sep>)')
    out['m_key_sep'] = ch(const(t[0].right, str))
    asg = iff.body[0]
    need(isinstance(asg, ast.Assign) and u(asg.targets[0]) == 'descs[dname]'
         and u(asg.value.value) == 'segment', 'descs[dname] = segment[k:]')
    return out


# ------------------------------------------------------------------ Meadows, SPM (indices, separators)

def meadows_segments():
    fn = _func('io/meadows.py', 'extract_filename_segments')
    st = _body(fn)
    out = {}
    need(isinstance(st[0], ast.Assign) and u(st[0].targets[0]) == '(fname, ext)', 'fname, ext = ...')
    bo, a = method_call(st[0].value, name='split', nargs=1)
    need(u(bo) == 'basename(fpath)', 'basename(fpath).split')
    out['md_ext_sep'] = ch(const(a[0], str))
    need(isinstance(st[1], ast.Assign) and u(st[1].targets[0]) == 'segments', 'segments = ...')
    _, a = method_call(st[1].value, obj='fname', name='split', nargs=1)
    out['md_seg_sep'] = ch(const(a[0], str))
    need(isinstance(st[2], ast.Assign) and u(st[2].targets[0]) == 'info' and u(st[2].value.func) == 'dict',
         'info = dict(...)')
    kw = {k.arg: k.value for k in st[2].value.keywords}
    need(sorted(kw) == ['experiment_name', 'filetype', 'structure', 'version'] and u(kw['filetype']) == 'ext',
         f'info keys {sorted(kw)}')
    vo, va = method_call(kw['version'], name='replace', nargs=2)
    need(u(vo.value) == 'segments' and const(va[1], str) == '', 'version = segments[k].replace(c, "")')
    out['md_version_idx'] = index_of(vo)
    out['md_version_strip'] = ch(const(va[0], str))
    out['md_exp_idx'] = index_of(kw['experiment_name'])
    need(index_of(kw['structure']) < 0, 'structure index')
    out['md_struct_back'] = -index_of(kw['structure'])
    iff = st[3]
    need(isinstance(iff, ast.If) and len(iff.orelse) == 1 and isinstance(iff.orelse[0], ast.If),
         'if / elif / else on the last-but-one segment')
    eli = iff.orelse[0]
    d, _ = method_call(iff.test, name='isdigit', nargs=0)
    need(u(d.value) == 'segments', 'isdigit on a segment')
    p = eli.test
    need(isinstance(p, ast.Call) and u(p.func) == 'is_petname' and len(p.args) == 1
         and u(p.args[0].value) == 'segments', 'is_petname on a segment')
    out['md_digit_back'] = -index_of(d)
    out['md_pet_back'] = -index_of(p.args[0])

    def assigns(body):
        r = {}
        for s in body:
            need(isinstance(s, ast.Assign) and isinstance(s.targets[0], ast.Subscript)
                 and u(s.targets[0].value) == 'info', f'info[...] = ...: {u(s)}')
            r[const(s.targets[0].slice, str)] = s.value
        return r
    b1, b2, b3 = assigns(iff.body), assigns(eli.body), assigns(eli.orelse)
    need(sorted(b1) == ['participant', 'participant_scope', 'task_index', 'task_scope']
         and sorted(b2) == ['participant', 'participant_scope', 'task_scope']
         and sorted(b3) == ['participant_scope', 'task_name', 'task_scope'], 'keys of the three branches')
    scopes = [const(b['task_scope'], str) + '/' + const(b['participant_scope'], str) for b in (b1, b2, b3)]
    need(scopes == ['single/single', 'multiple/single', 'single/multiple'], f'scopes {scopes}')
    out['md_a_participant_back'] = -index_of(b1['participant'])
    ti = b1['task_index']
    need(isinstance(ti, ast.Call) and u(ti.func) == 'int' and len(ti.args) == 1, 'task_index = int(...)')
    out['md_a_index_back'] = -index_of(ti.args[0])
    out['md_b_participant_back'] = -index_of(b2['participant'])
    out['md_c_task_back'] = -index_of(b3['task_name'])
    # is_petname
    fn = _func('io/meadows.py', 'is_petname')
    src = [u(s) for s in _body(fn)]
    need(len(src) == 2 and src[1] == 'return False', 'is_petname frame')
    i1 = _body(fn)[0]
    need(isinstance(i1, ast.If) and not i1.orelse and isinstance(i1.test, ast.Compare)
         and isinstance(i1.test.ops[0], ast.In) and u(i1.test.comparators[0]) == 'segment', 'sep in segment')
    sep = const(i1.test.left, str)
    need(len(i1.body) == 2, 'is_petname body')
    _, a = method_call(i1.body[0].value, obj='segment', name='split', nargs=1)
    need(const(a[0], str) == sep, 'split on another separator')
    out['md_pet_sep'] = ch(sep)
    i2 = i1.body[1]
    need(isinstance(i2, ast.If) and u(i2.test.left) == 'len(parts)' and isinstance(i2.test.ops[0], ast.Eq),
         'len(parts) == k')
    out['md_pet_parts'] = const(i2.test.comparators[0], int)
    i3 = i2.body[0]
    need(isinstance(i3, ast.If) and isinstance(i3.test.ops[0], ast.In)
         and u(i3.test.comparators[0]) == 'PETNAMES' and u(i3.body[0]) == 'return True', 'parts[k] in PETNAMES')
    out['md_pet_idx'] = index_of(i3.test.left)
    return out


def meadows_loader():
    """load_rdms / load_rdms_comps_mat / load_rdms_comps_json: variable names, key names, the
    participant <-> variable name mapping, the stem of a stimulus name"""
    out = {}
    fn = _func('io/meadows.py', 'load_rdms')
    comps = [n for n in ast.walk(fn) if isinstance(n, ast.ListComp) and u(n.generators[0].iter) == 'stimuli']
    need(len(comps) == 1 and u(comps[0].generators[0].target) == 'f' and not comps[0].generators[0].ifs,
         'conds = [... for f in stimuli]')
    out['ml_stem_idx'] = index_of(comps[0].elt)
    _, a = method_call(comps[0].elt.value, obj='f', name='split', nargs=1)
    out['ml_stem_sep'] = ch(const(a[0], str))
    keys = [const(n.targets[0].slice, str) for n in ast.walk(fn) if isinstance(n, ast.Assign)
            and isinstance(n.targets[0], ast.Subscript) and u(n.targets[0].value) == 'rdm_descriptors']
    out['ml_rdm_keys'] = enc(','.join(keys))
    need('if sort:\n        rdms.sort_by(conds=\'alpha\')' in u(fn), 'sort on request')
    fn = _func('io/meadows.py', 'load_rdms_comps_mat')
    loops = [n for n in ast.walk(fn) if isinstance(n, ast.For) and u(n.target) == 'var']
    need(len(loops) == 1 and isinstance(loops[0].iter, ast.Tuple), 'for var in (...)')
    out['ml_single_vars'] = enc(','.join(const(e, str) for e in loops[0].iter.elts))
    asg = {u(n.targets[0]): n.value for n in ast.walk(fn) if isinstance(n, ast.Assign)}
    need(u(asg['utvs']).startswith('numpy.stack([data[v] for v in utv_vars])'), 'utvs of the multi-participant file')
    svs = [n.value for n in ast.walk(fn) if isinstance(n, ast.Assign) and u(n.targets[0]) == 'stim_vars'
           and isinstance(n.value, ast.ListComp)]
    need(len(svs) == 1, 'one comprehension assigned to stim_vars (see also ml_mat_same)')
    sv = svs[0]
    need(isinstance(sv, ast.ListComp) and u(sv.generators[0].iter) == 'data.keys()'
         and len(sv.generators[0].ifs) == 1, 'stim_vars comprehension')
    t = sv.generators[0].ifs[0]
    need(isinstance(t, ast.Compare) and isinstance(t.ops[0], ast.Eq), 'v[:k] == <prefix>')
    lo, hi = slice_of(t.left)
    need(lo is None and hi is not None, 'v[:k]')
    out['ml_stim_prefix_len'] = hi
    out['ml_stim_prefix'] = enc(const(t.comparators[0], str))
    need(u(asg['stimuli']) == 'data[stim_vars[0]]' or 'stim_vars[0]' in u(fn), 'stimuli of the first participant')
    pn = asg['pnames']
    need(isinstance(pn, ast.ListComp) and u(pn.generators[0].iter) == 'stim_vars', 'pnames comprehension')
    jo, ja = method_call(pn.elt, name='join', nargs=1)
    out['ml_pname_join'] = ch(const(jo, str))
    lo, hi = slice_of(ja[0])
    need(hi is None and lo is not None, 'split[k:]')
    out['ml_pname_from'] = lo
    _, a = method_call(ja[0].value, obj='v', name='split', nargs=1)
    out['ml_pname_split'] = ch(const(a[0], str))
    uv = asg['utv_vars']
    need(isinstance(uv, ast.ListComp) and u(uv.generators[0].iter) == 'pnames'
         and isinstance(uv.elt, ast.BinOp) and isinstance(uv.elt.op, ast.Add), 'utv_vars comprehension')
    out['ml_utv_prefix'] = enc(const(uv.elt.left, str))
    _, a = method_call(uv.elt.right, obj='p', name='replace', nargs=2)
    out['ml_utv_from'] = ch(const(a[0], str))
    out['ml_utv_to'] = ch(const(a[1], str))
    fn = _func('io/meadows.py', 'load_rdms_comps_json')
    src = u(fn).replace('(t, task)', 't, task')
    for frag in ("for t, task in enumerate(data['tasks']):", "task_meta = task.get('task', {})",
                 "if task_meta.get('task_type') != 'multiarrange':", "[s['name'] for s in task['stimuli']]",
                 "utvs.append(task['rdm'])", "tnames.append(task_meta['name'])", 'tidx.append(t)',
                 'if len(utvs) == 0:'):
        need(frag in src, f'json loader: `{frag}` not found')
    out['ml_json_type'] = enc('multiarrange')
    return out


def meadows_mat_filter():
    """load_rdms_comps_mat, multi-participant branch: every participant has its own
    `stimuli_<p>` / `rdmutv_<p>` pair, the vector in that participant's own stimulus order, and only
    the first participant's list labels the result — so the branch must keep exactly the participants
    whose list passes a test against the first one.  The whole statement sequence of the branch is
    matched; code 1 = `numpy.array_equal(data[v], stimuli)`; anything else is underivable."""
    fn = _func('io/meadows.py', 'load_rdms_comps_mat')
    ifs = [n for n in _body(fn) if isinstance(n, ast.If)]
    need(len(ifs) == 1 and u(ifs[0].test) == "info['participant_scope'] == 'single'",
         "if info['participant_scope'] == 'single': ... else: ...")
    br = ifs[0].orelse
    need(len(br) == 9, f'multi-participant branch has {len(br)} statements, expected 9')
    heads = [u(x).split(' = ')[0] if isinstance(x, ast.Assign) else type(x).__name__ for x in br]
    need(heads == ['stim_vars', 'stimuli', 'matching', 'If', 'stim_vars', 'pnames', 'utv_vars', 'utvs',
                   'tnames'], f'statement order of the multi-participant branch: {heads}')
    need(u(br[1]) == 'stimuli = data[stim_vars[0]]', 'labels = the first participant\'s list')
    m = br[2].value
    need(isinstance(m, ast.ListComp) and u(m.elt) == 'v' and len(m.generators) == 1
         and u(m.generators[0].target) == 'v' and u(m.generators[0].iter) == 'stim_vars'
         and len(m.generators[0].ifs) == 1, 'matching = [v for v in stim_vars if <test>]')
    test = u(m.generators[0].ifs[0])
    need(test in ('numpy.array_equal(data[v], stimuli)', 'numpy.array_equal(stimuli, data[v])'),
         f'unknown participant test `{test}`')
    w = br[3]
    need(u(w.test) == 'len(matching) < len(stim_vars)' and not w.orelse and len(w.body) == 1
         and u(w.body[0]).startswith('warnings.warn('), 'warning when a participant is skipped')
    need(u(br[4]) == 'stim_vars = matching', 'stim_vars = matching')
    need(u(br[5].value.generators[0].iter) == 'stim_vars' and u(br[6].value.generators[0].iter) == 'pnames'
         and u(br[7]).startswith('utvs = numpy.stack([data[v] for v in utv_vars])')
         and u(br[8]) == "tnames = [info['task_name']] * len(pnames)",
         'names / vectors / task names follow from the kept participants')
    return {'ml_mat_same': 1}


def meadows_json_loop():
    """load_rdms_comps_json: the test that decides whether a *later* multi-arrangement task is kept.
    Each task's `rdm` is laid out in that task's own stimulus order and only the first task's
    labels are kept, so the test matters: code 1 = the lists are compared as lists
    (`stimuli != task_stimuli` skips), 2 = compared after `sorted`, 3 = as `set`s, 4 = by `len`.
    The loop must have the shape: skip non-multiarrange; first kept task fixes `stimuli`; a later one
    failing the test is skipped with a warning; otherwise rdm / name / index are appended."""
    fn = _func('io/meadows.py', 'load_rdms_comps_json')
    loops = [n for n in ast.walk(fn) if isinstance(n, ast.For)]
    need(len(loops) == 1 and u(loops[0].iter) == "enumerate(data['tasks'])"
         and u(loops[0].target).strip('()') == 't, task' and not loops[0].orelse, 'one loop over the tasks')
    body = loops[0].body
    need([u(x) for x in body[:2]] == ["task_meta = task.get('task', {})",
                                      "if task_meta.get('task_type') != 'multiarrange':\n    continue"],
         'non-multiarrange tasks are skipped first')
    need(len(body) == 7 and u(body[2]) == "task_stimuli = [s['name'] for s in task['stimuli']]",
         'task_stimuli = names of the task\'s stimuli')
    need([u(x) for x in body[4:]] == ["utvs.append(task['rdm'])", "tnames.append(task_meta['name'])",
                                      'tidx.append(t)'], 'rdm / name / index appended after the test')
    first = body[3]
    need(isinstance(first, ast.If) and u(first.test) == 'len(utvs) == 0'
         and [u(x) for x in first.body] == ['stimuli = task_stimuli'] and len(first.orelse) == 1,
         'if len(utvs) == 0: stimuli = task_stimuli / else: <test>')
    later = first.orelse[0]
    need(isinstance(later, ast.If) and not later.orelse
         and [u(x) for x in later.body] == ['warnings.warn(STIM_MISMATCH)', 'continue'],
         'a later task failing the test is skipped with a warning')
    t = later.test
    need(isinstance(t, ast.Compare) and len(t.ops) == 1 and isinstance(t.ops[0], ast.NotEq),
         '<a> != <b> decides')
    sides = sorted([u(t.left), u(t.comparators[0])])
    codes = {('stimuli', 'task_stimuli'): 1,
             ('sorted(stimuli)', 'sorted(task_stimuli)'): 2,
             ('set(stimuli)', 'set(task_stimuli)'): 3,
             ('len(stimuli)', 'len(task_stimuli)'): 4}
    need(tuple(sides) in codes, f'unknown stimulus test `{u(t)}`')
    # nothing else in the function touches the accumulators
    stores = sorted(u(n.value) for n in ast.walk(fn) if isinstance(n, ast.Assign)
                    and any(u(x) == 'stimuli' for x in n.targets))
    need(stores == ['[]', 'task_stimuli'], f'`stimuli` assigned elsewhere: {stores}')
    for acc in ('utvs', 'tnames', 'tidx'):
        calls = [u(n) for n in ast.walk(fn) if isinstance(n, ast.Call) and isinstance(n.func, ast.Attribute)
                 and u(n.func.value) == acc]
        need(len(calls) == 1, f'`{acc}` modified elsewhere: {calls}')
    return {'ml_json_same': codes[tuple(sides)]}


def spm_constants():
    out = {}
    fn = _func('io/spm.py', 'get_info_from_spm_mat', 'SpmGlm')
    loops = [n for n in ast.walk(fn) if isinstance(n, ast.For) and u(n.target) == 'reg_name']
    need(len(loops) == 1 and len(loops[0].body) == 3, 'loop over the regressor names')
    a, b, c = loops[0].body
    _, sa = method_call(a.value, obj='reg_name', name='split', nargs=1)
    need(u(a.targets[0]) == 's', 's = reg_name.split(sep)')
    out['sp_name_sep'] = ch(const(sa[0], str))
    _, ra = method_call(b.value, obj='self.run_number', name='append', nargs=1)
    need(u(ra[0].func) == 'int' and len(ra[0].args) == 1, 'run number is int(...)')
    sl = ra[0].args[0]
    lo, hi = slice_of(sl)
    need(lo is not None and lo >= 0 and hi is not None and hi < 0 and u(sl.value.value) == 's',
         'run number slice')
    out['sp_run_tok'] = index_of(sl.value)
    out['sp_run_lo'] = lo
    out['sp_run_hi_back'] = -hi
    _, na = method_call(c.value, obj='self.beta_names', name='append', nargs=1)
    need(u(na[0].value) == 's', 'beta name is a token of s')
    out['sp_name_tok'] = index_of(na[0])
    fn = _func('io/spm.py', 'relocate_file', 'SpmGlm')
    st = [u(s) for s in _body(fn)]
    need(len(st) == 4, 'relocate_file has four statements')
    b = _body(fn)
    _, r1 = method_call(b[0].value, obj='fpath', name='replace', nargs=2)
    _, r2 = method_call(b[1].value, obj='dirname(self.path)', name='replace', nargs=2)
    need((const(r1[0], str), const(r1[1], str)) == (const(r2[0], str), const(r2[1], str)),
         'path and base are normalised differently')
    out['sp_reloc_from'] = ch(const(r1[0], str))
    out['sp_reloc_to'] = ch(const(r1[1], str))
    _, f = method_call(b[2].value, obj='norm_fpath', name='find', nargs=1)
    out['sp_reloc_anchor'] = enc(const(f[0], str))
    need(st[3] == "return base_path + '/' + norm_fpath[c:]", f'return statement: {st[3]}')
    return out


def hrf_table():
    """io/hrf.py: `HRF = numpy.array([<decimal literals>])`.  Every literal is read as the decimal
    fraction that is written (multiples of 1e-7); value i is stored as (v·1e7 + 2^19) in bits
    20·i … 20·i+19 of one natural number, behind a leading 1."""
    from fractions import Fraction
    tree = _tree('io/hrf.py')
    hits = [n for n in tree.body if isinstance(n, ast.Assign) and u(n.targets[0]) == 'HRF']
    need(len(hits) == 1 and isinstance(hits[0].value, ast.Call)
         and u(hits[0].value.func) in ('numpy.array', 'np.array') and len(hits[0].value.args) == 1
         and isinstance(hits[0].value.args[0], ast.List) and not hits[0].value.keywords,
         'HRF = numpy.array([...])')
    lines = open(os.path.join(SRC, 'io/hrf.py')).read()
    code = 1
    vals = []
    for e in hits[0].value.args[0].elts:
        txt = ast.get_source_segment(lines, e)
        try:
            v = Fraction(txt.replace(' ', '')) * 10 ** 7
        except (ValueError, ZeroDivisionError):
            raise Underivable(f'entry `{txt}` is not a decimal literal')
        need(v.denominator == 1 and abs(v) < 2 ** 19, f'entry `{txt}` is not a multiple of 1e-7 below 0.05')
        vals.append(int(v))
    need(0 < len(vals) <= 2000, 'table length')
    for v in reversed(vals):
        code = code * 2 ** 20 + (v + 2 ** 19)
    return {'hrf_table_code': code}


def _self_targets(fn):
    """names X of every `self.X = / += / : T =` in a function, in source order"""
    out = []
    for n in ast.walk(fn):
        tg = []
        if isinstance(n, ast.Assign):
            tg = n.targets
        elif isinstance(n, (ast.AugAssign, ast.AnnAssign)):
            tg = [n.target]
        elif isinstance(n, (ast.With, ast.For)):
            tg = [i.optional_vars for i in n.items if i.optional_vars is not None] \
                if isinstance(n, ast.With) else [n.target]
        elif isinstance(n, ast.NamedExpr):
            tg = [n.target]
        for t in tg:
            for sub in ast.walk(t):
                if isinstance(sub, ast.Attribute) and u(sub.value) == 'self':
                    out.append(sub.attr)
                elif isinstance(sub, ast.Attribute) and isinstance(sub.ctx, ast.Store):
                    # state stored on another object (the layout, the bold file, a class)
                    raise Underivable(f'{fn.name}: assignment to `{u(sub)}`')
                elif isinstance(sub, ast.Subscript) and isinstance(sub.ctx, ast.Store) \
                        and isinstance(sub.value, ast.Attribute) and u(sub.value.value) != 'self':
                    raise Underivable(f'{fn.name}: assignment into `{u(sub.value)}`')
    return out


def _class(path, name):
    hits = [n for n in ast.walk(_tree(path)) if isinstance(n, ast.ClassDef) and n.name == name]
    need(len(hits) == 1, f'{path}: class {name} not found')
    return hits[0]


def bids_state():
    """the state the BIDS classes carry between calls: which attributes exist, where the two
    caches (`_meta`, `_data`) live and what guards them; no other memory (class-level values,
    module globals, memoising decorators, mutable defaults, setattr / __dict__ tricks)"""
    out = {}
    for path in ('io/bids.py', 'io/fmriprep.py'):
        tree = _tree(path)
        for n in ast.walk(tree):
            need(not isinstance(n, (ast.Global, ast.Nonlocal)), f'{path}: global / nonlocal statement')
            if isinstance(n, (ast.FunctionDef, ast.ClassDef)):
                for d in n.decorator_list:
                    need(u(d) == 'property', f'{path}: decorator @{u(d)} on {n.name}')
            if isinstance(n, ast.FunctionDef):
                for d in list(n.args.defaults) + [k for k in n.args.kw_defaults if k is not None]:
                    need(isinstance(d, ast.Constant), f'{path}: non-literal default `{u(d)}` in {n.name}')
            if isinstance(n, ast.Call):
                need(u(n.func) not in ('setattr', 'vars', 'globals', 'object.__setattr__'),
                     f'{path}: call of {u(n.func)}')
            if isinstance(n, ast.Attribute):
                need(n.attr != '__dict__', f'{path}: use of .{n.attr}')
        for st in tree.body:
            ok = isinstance(st, (ast.Import, ast.ImportFrom, ast.FunctionDef, ast.ClassDef)) \
                or (isinstance(st, ast.Expr) and isinstance(st.value, ast.Constant)) \
                or (isinstance(st, ast.If) and u(st.test) == 'TYPE_CHECKING'
                    and all(isinstance(b, (ast.Import, ast.ImportFrom)) for b in st.body))
            if path == 'io/fmriprep.py' and isinstance(st, ast.Assign):
                continue      # none today; constants of the design matrix would be harmless
            need(ok, f'{path}: module-level statement `{u(st)[:40]}`')
    for path in ('io/bids.py', 'io/fmriprep.py'):
        for n in ast.walk(_tree(path)):
            if isinstance(n, ast.FunctionDef):
                _self_targets(n)
    for cname in ('BidsFile', 'BidsTableFile', 'BidsJsonFile', 'BidsMriFile', 'BidsLayout'):
        for st in _class('io/bids.py', cname).body:
            ok = isinstance(st, ast.FunctionDef) \
                or (isinstance(st, ast.AnnAssign) and st.value is None) \
                or (isinstance(st, ast.Expr) and isinstance(st.value, ast.Constant))
            need(ok, f'class {cname}: class-level statement `{u(st)[:40]}`')
    for st in _class('io/fmriprep.py', 'FmriprepRun').body:
        ok = isinstance(st, ast.FunctionDef) or (isinstance(st, ast.AnnAssign) and st.value is None) \
            or (isinstance(st, ast.Expr) and isinstance(st.value, ast.Constant))
        need(ok, f'class FmriprepRun: class-level statement `{u(st)[:40]}`')
    lay = _class('io/bids.py', 'BidsLayout')
    fields = []
    for fn in lay.body:
        if isinstance(fn, ast.FunctionDef):
            fields += _self_targets(fn)
    out['st_layout_fields'] = enc(','.join(sorted(set(fields))))
    # file objects: __init__ assigns relpath, layout, _meta; every other attribute is an entity
    # set by _deconstruct; no other method of a file class assigns to self except the caches
    init = _func('io/bids.py', '__init__', 'BidsFile')
    out['st_file_fields'] = enc(','.join(_self_targets(init)))
    dec = set(_self_targets(_func('io/bids.py', '_deconstruct', 'BidsFile')))
    need(dec == set(ALL_ENTS), f'_deconstruct assigns {sorted(dec)}')
    jinit = _func('io/bids.py', '__init__', 'BidsJsonFile')
    out['st_json_fields'] = enc(','.join(_self_targets(jinit)))
    need(_self_targets(_func('io/bids.py', '__init__', 'BidsMriFile')) == ['nibabel'], 'BidsMriFile.__init__')
    assigned = {}
    for cname in ('BidsFile', 'BidsTableFile', 'BidsJsonFile', 'BidsMriFile'):
        for fn in _class('io/bids.py', cname).body:
            if isinstance(fn, ast.FunctionDef) and fn.name not in ('__init__', '_deconstruct'):
                for t in _self_targets(fn):
                    assigned.setdefault(f'{cname}.{fn.name}', []).append(t)
    need(assigned == {'BidsFile.get_meta': ['_meta'], 'BidsJsonFile.get_data': ['_data']},
         f'attributes assigned outside the constructors: {assigned}')
    gm = '\n'.join(u(x) for x in _body(_func('io/bids.py', 'get_meta', 'BidsFile')))
    need(gm == 'if self._meta is None:\n    self._meta = self.layout.find_meta_for(self)\n'
               'return self._meta.get_data()', f'get_meta: {gm!r}')
    out['st_meta_cache'] = enc('self._meta')
    gd = '\n'.join(u(x) for x in _body(_func('io/bids.py', 'get_data', 'BidsJsonFile')))
    need(gd == 'if self._data is None:\n    with open(self.fpath) as fhandle:\n'
               '        self._data = json.load(fhandle)\nreturn self._data', f'get_data: {gd!r}')
    out['st_data_cache'] = enc('self._data')
    # an fMRIPrep run holds its bold file and nothing else; the search builds its own layout
    run = _class('io/fmriprep.py', 'FmriprepRun')
    rf = []
    for fn in run.body:
        if isinstance(fn, ast.FunctionDef):
            rf += _self_targets(fn)
    out['st_run_fields'] = enc(','.join(rf))
    ffr = _body(_func('io/fmriprep.py', 'find_fmriprep_runs'))
    need(len(ffr) == 3 and u(ffr[0]) == 'bids = BidsLayout(bids_root_path)'
         and u(ffr[2]) == 'return [FmriprepRun(f) for f in files]', 'find_fmriprep_runs shape')
    return out


# ------------------------------------------------------------------ write the derived file

def _derive():
    out = ['# DERIVED by harness/leaves/C20.py from the source tree under check - do not edit', '']
    leaves = []

    def emit_group(names, fn):
        """one derivation yielding several named integers"""
        try:
            vals = fn()
            missing = [n for n in names if n not in vals]
            if missing or len(vals) != len(names):
                raise Underivable(f'derivation yields {sorted(vals)} instead of {sorted(names)}')
            bodies = {n: repr(int(vals[n])) for n in names}
        except Exception as exc:  # noqa: BLE001  (fail closed: any surprise = underivable)
            bodies = {n: '__underivable__(' + repr(str(exc)[:200]) + ')' for n in names}
        for n in names:
            out.extend([f'def {n}():', f'    return {bodies[n]}', ''])
            leaves.append(dict(name=_camel(n), file=DERIVED, func=n, kind='func', params={}, ret='Nat'))

    def emit_expr(name, params, fn, ret='A'):
        try:
            body = fn()
        except Exception as exc:  # noqa: BLE001
            body = '__underivable__(' + repr(str(exc)[:200]) + ')'
        out.extend([f'def {name}({", ".join(params)}):', f'    return {body}', ''])
        leaves.append(dict(name=_camel(name), file=DERIVED, func=name, kind='func',
                           params=dict(params), ret=ret))

    emit_expr('vol_time', {'i': 'A', 'tr': 'A', 'n_vols': 'A'},
              lambda: linspace_entry('io/fmriprep.py', 'make_design_matrix', 'all_times', 'i'))
    emit_expr('hrf_time', {'j': 'A', 'tr': 'A', 'len_hrf': 'A'},
              lambda: linspace_entry('io/fmriprep.py', 'make_design_matrix', 'hrf_times', 'j',
                                     {'len(hrf)': 'len_hrf'}))
    emit_expr('mne_slice_start', {'len_dname': 'Nat'}, mne_slice_start, ret='Nat')

    emit_group(['hrf_table_code'], hrf_table)
    emit_group(['p_seg_sep', 'p_key_sep'], bids_find_entity)
    emit_group(['p_deriv_dir', 'p_deriv_idx', 'p_deriv_skip', 'p_mod_minlen', 'p_mod_idx_ses',
                'p_mod_idx', 'p_sfx_seg_sep', 'p_ext_sep'] + ['p_key_' + k for k in ENT_KEYS],
               bids_deconstruct)
    emit_group(['f_seg_sep', 'f_ext_sep', 'f_key_sep', 'f_dir_order', 'f_deriv_dir', 'f_dirkey_sub',
                'f_dirkey_ses', 'f_namekey_sub', 'f_name_order'] +
               ['f_namekey_' + k for k in ('ses', 'task', 'run', 'space', 'desc')], bids_replace)
    for short, func in LOOKUPS.items():
        emit_group([f'lk_{short}_{e}' for e in ALL_ENTS],
                   lambda func=func, short=short: {f'lk_{short}_{e}': c
                                                   for e, c in bids_lookup(func).items()})
    emit_group(['tk_deriv_dir', 'tk_pre', 'tk_mid', 'tk_post'], bids_table_key)
    emit_group(['df_deriv_dir', 'df_glob_prefix', 'df_desc_pre', 'df_task_pre', 'df_meta_ext'],
               bids_derivative_files)
    emit_group(['fp_derivative', 'fp_desc', 'fp_mask_desc', 'fp_mask_suffix', 'fp_conf_desc',
                'fp_conf_suffix', 'fp_parc_desc', 'fp_parc_suffix', 'fp_conf_default',
                'dd_order', 'dd_attrs', 'dd_guards'], fmriprep_constants)
    emit_group(['m_keys', 'm_seg_sep', 'm_key_sep'], mne_descriptors)
    emit_group(['md_ext_sep', 'md_seg_sep', 'md_version_idx', 'md_version_strip', 'md_exp_idx',
                'md_struct_back', 'md_digit_back', 'md_pet_back', 'md_a_participant_back',
                'md_a_index_back', 'md_b_participant_back', 'md_c_task_back', 'md_pet_sep',
                'md_pet_parts', 'md_pet_idx'], meadows_segments)
    emit_group(['ml_stem_idx', 'ml_stem_sep', 'ml_rdm_keys', 'ml_single_vars', 'ml_stim_prefix_len',
                'ml_stim_prefix', 'ml_pname_join', 'ml_pname_from', 'ml_pname_split', 'ml_utv_prefix',
                'ml_utv_from', 'ml_utv_to', 'ml_json_type'], meadows_loader)
    emit_group(['ml_json_same'], meadows_json_loop)
    emit_group(['ml_mat_same'], meadows_mat_filter)
    emit_group(['sp_name_sep', 'sp_run_tok', 'sp_run_lo', 'sp_run_hi_back', 'sp_name_tok',
                'sp_reloc_from', 'sp_reloc_to', 'sp_reloc_anchor'], spm_constants)

    emit_group(['st_layout_fields', 'st_file_fields', 'st_json_fields', 'st_meta_cache',
                'st_data_cache', 'st_run_fields'], bids_state)

    text = '\n'.join(out)
    if not (os.path.exists(DERIVED) and open(DERIVED).read() == text):
        with open(DERIVED + '.tmp', 'w') as f:
            f.write(text)
        os.replace(DERIVED + '.tmp', DERIVED)
    return leaves


def _camel(name):
    parts = name.split('_')
    return parts[0] + ''.join(p[:1].upper() + p[1:] for p in parts[1:])


_DM = 'io/fmriprep.py'
LEAVES = [
    # make_design_matrix — `dof = n_vols - dm.shape[1]`
    dict(name='dmDof', file=_DM, func='make_design_matrix', kind='assign',
         target='dof', count=1, params={'n_vols': 'Int', 'dm_shape_1': 'Int'}, ret='Int'),
    # make_design_matrix — `dm = (dm - dm.mean(axis=0)) / (dm.max(axis=0) - dm.min(axis=0))`,
    # one entry; the three column statistics are opaque calls that become parameters
    dict(name='dmNormEntry', file=_DM, func='make_design_matrix', kind='assign',
         target='dm', nth=2, count=3,
         params={'dm': 'A', 'col_mean': 'A', 'col_max': 'A', 'col_min': 'A'}, ret='A',
         opaque={'dm.mean(axis=0)': 'col_mean', 'dm.max(axis=0)': 'col_max',
                 'dm.min(axis=0)': 'col_min'}),
    # make_design_matrix — `hrf = hrf / hrf.max()` (peak scaling of the resampled response)
    dict(name='hrfPeakScale', file=_DM, func='make_design_matrix', kind='assign',
         target='hrf', nth=2, count=3, params={'hrf': 'A', 'peak': 'A'}, ret='A',
         opaque={'hrf.max()': 'peak'}),
    # SpmGlm.get_betas / get_residuals — `indx = self.reg_of_interest-1` (1-based -> 0-based)
    dict(name='regIndexBetas', file='io/spm.py', func='get_betas', kind='assign',
         target='indx', count=1, params={'self_reg_of_interest': 'Int'}, ret='Int'),
    dict(name='regIndexResiduals', file='io/spm.py', func='get_residuals', kind='assign',
         target='indx', count=1, params={'self_reg_of_interest': 'Int'}, ret='Int'),
] + _derive()
