# DERIVED by harness/leaves/C18.py from /tmp/wt/seed-C17-1/src/rsatoolbox - do not edit

def cond_index(k, n_cond, n_part):
    return (k % n_cond)

def part_index(k, n_cond, n_part):
    return (k // n_cond)

def centering_entry(delta, size):
    return delta - 1 / size

def g_scale(hdh):
    return (0 - 1 * hdh) / 2

def noise_scale(z, sqrt_noise):
    return z * sqrt_noise

def data_entry(zu, sqrt_signal, eps):
    return zu * sqrt_signal + eps

def euclid_gram(ssa, ssb, dotab):
    return ssa + ssb - 2 * dotab

def euclid_norm(x, n_channel):
    return x / n_channel
