"""Leaf specs of property C05 (fold index arithmetic of inference/crossvalsets.py).

The fold size in the source is written `np.floor(len(select) / k)` (no surrounding
`int(...)`) and the number of groups of the groups-of-k generators `int(len(select) / k)`.
Both are floor divisions of non-negative integers, but neither spelling is in the subset
of the shared translator (it knows `int(np.floor(a / b))` only).  The translator is a
shared, read-only file, so the two spellings are added here, from the outside, in a purely
additive way (forms that were untranslatable before; nothing that translated changes).
Wish recorded in notes/C05.md: move these two cases into harness/py2lean.py.
"""
import ast
import sys


def _translator_module():
    for name in ('py2lean', '__main__'):
        m = sys.modules.get(name)
        if m is not None and hasattr(m, 'Tr') and hasattr(m, 'Untranslatable'):
            return m
    return None


def _install():
    m = _translator_module()
    if m is None or getattr(m.Tr, '_c05_floor_div', False):
        return
    base_call = m.Tr.call

    def call(self, e, env, want):
        name = m.call_name(e)
        if name in ('np.floor', 'int') and len(e.args) == 1 and not e.keywords \
                and isinstance(e.args[0], ast.BinOp) and isinstance(e.args[0].op, ast.Div):
            try:
                a = self.expr(e.args[0].left, env, 'Nat')
                b = self.expr(e.args[0].right, env, 'Nat')
            except m.Untranslatable:
                a = b = None
            if a is not None and a is not m.NONE and b is not m.NONE \
                    and a[1] == 'Nat' and b[1] == 'Nat':
                # floor (and truncation) of a quotient of naturals = natural division
                return (f'({a[0]} / {b[0]})', 'Nat')
        return base_call(self, e, env, want)

    m.Tr.call = call
    m.Tr._c05_floor_div = True


_install()

_F = 'inference/crossvalsets.py'
_U = 'util/inference_util.py'


def _nat(*names):
    return {n: 'Nat' for n in names}


LEAVES = [
    # fold size and number of enlarged folds, one copy per k-fold generator
    dict(name='groupSizeKFold', file=_F, func='sets_k_fold', kind='assign',
         target='group_size_rdm', count=1, params=_nat('len_rdm_select', 'k_rdm'), ret='Nat'),
    dict(name='additionalKFold', file=_F, func='sets_k_fold', kind='assign',
         target='additional_rdms', count=1, params=_nat('len_rdm_select', 'k_rdm'), ret='Nat'),
    dict(name='groupSizeKFoldRdm', file=_F, func='sets_k_fold_rdm', kind='assign',
         target='group_size_rdm', count=1, params=_nat('len_rdm_select', 'k_rdm'), ret='Nat'),
    dict(name='additionalKFoldRdm', file=_F, func='sets_k_fold_rdm', kind='assign',
         target='additional_rdms', count=1, params=_nat('len_rdm_select', 'k_rdm'), ret='Nat'),
    dict(name='groupSizeKFoldPattern', file=_F, func='sets_k_fold_pattern', kind='assign',
         target='group_size', count=1, params=_nat('len_pattern_select', 'k'), ret='Nat'),
    dict(name='additionalKFoldPattern', file=_F, func='sets_k_fold_pattern', kind='assign',
         target='additional_patterns', count=1, params=_nat('len_pattern_select', 'k'), ret='Nat'),
    # number of groups of the groups-of-k generators
    dict(name='nGroupsOfKRdm', file=_F, func='sets_of_k_rdm', kind='assign',
         target='n_groups', count=1, params=_nat('len_rdm_select', 'k'), ret='Nat'),
    dict(name='nGroupsOfKPattern', file=_F, func='sets_of_k_pattern', kind='assign',
         target='n_groups', count=1, params=_nat('len_pattern_select', 'k'), ret='Nat'),
    # default test-set sizes of sets_random
    dict(name='randomNRdm', file=_F, func='sets_random', kind='assign',
         target='n_rdm', count=1, params=_nat('len_rdm_select', 'k_rdm'), ret='Nat'),
    dict(name='randomNPattern', file=_F, func='sets_random', kind='assign',
         target='n_pattern', count=1, params=_nat('len_pattern_select', 'k_pattern'), ret='Nat'),
    # default numbers of folds
    dict(name='defaultKPattern', file=_U, func='default_k_pattern', kind='func',
         params=_nat('n_pattern'), ret='Int'),
    dict(name='defaultKRdm', file=_U, func='default_k_rdm', kind='func',
         params=_nat('n_rdm'), ret='Int'),
]
