"""Leaf specs of property C05 (fold index arithmetic of inference/crossvalsets.py, default
fold counts of util/inference_util.py, dispatch tests of inference/evaluate.py).

Native py2lean leaves: right-hand sides of assignments (`np.floor(a / b)`, `int(a / b)`, `%`) and
the two default-k functions.

Round 3: *derived* leaves.  The positions a fold tests, the guard of the enlarged folds, the
`k <= 1` dispatch, the `assert`s that delimit the accepted calls, the index ranges of
`sets_random`, the skip test of `crossval`, the noise-ceiling dispatch of `_internal_cv` and
the guard of `bootstrap_crossval` are `if` / `assert` tests or arguments of array calls, not
assignments py2lean can anchor.  For those this module first extracts, from the current source
text (Python `ast`), the scalar expression / test and writes it as a tiny Python function into
`harness/leaves/_C05_derived.py` (tests as `1 if <test> else 0`); py2lean then translates those
functions as usual.  Nothing is cached: the derived file is rewritten on every run.  Every
derivation fails closed: an unexpected shape of the anchor yields a function calling
`__underivable__`, which py2lean reports as an untranslatable leaf = broken obligation."""
import ast
import os

SRC = os.environ.get('RSA_REPO_SRC', '/repo/src/rsatoolbox')
HERE = os.path.dirname(os.path.abspath(__file__))
DERIVED = os.path.join(HERE, '_C05_derived.py')

_F = 'inference/crossvalsets.py'
_U = 'util/inference_util.py'
_E = 'inference/evaluate.py'


def _nat(*names):
    return {n: 'Nat' for n in names}


class Underivable(Exception):
    pass


def _func(path, name):
    tree = ast.parse(open(os.path.join(SRC, path)).read())
    for node in ast.walk(tree):
        if isinstance(node, ast.FunctionDef) and node.name == name:
            return node
    raise Underivable(f'{path}: function {name} not found')


def _u(node):
    return ast.unparse(node)


def _one(items, what):
    items = list(items)
    if len(items) != 1:
        raise Underivable(f'expected exactly one {what}, found {len(items)}')
    return items[0]


def _group_loop(fn):
    """the `for i_group in range(K):` loop of a k-fold generator -> (loop node, text of K)"""
    loops = [n for n in fn.body if isinstance(n, ast.For) and isinstance(n.target, ast.Name)
             and n.target.id == 'i_group']
    loop = _one(loops, 'top-level `for i_group` loop')
    it = loop.iter
    if not (isinstance(it, ast.Call) and _u(it.func) == 'range' and len(it.args) == 1 and not it.keywords):
        raise Underivable(f'loop range is `{_u(it)}`, not range(k)')
    if loop.orelse:
        raise Underivable('for-else on the group loop')
    return loop, _u(it.args[0])


def _assign_to(stmts, target):
    return [s for s in stmts if isinstance(s, ast.Assign) and len(s.targets) == 1
            and isinstance(s.targets[0], ast.Name) and s.targets[0].id == target]


def _all_assigns(node, target):
    return [s for s in ast.walk(node) if isinstance(s, ast.Assign) and len(s.targets) == 1
            and isinstance(s.targets[0], ast.Name) and s.targets[0].id == target]


def _kfold_parts(func, sel):
    """scalar pieces of the loop body of one k-fold generator.
    -> dict(n_folds, lo, hi, guard, extra, nosplit, accept) of expression texts"""
    fn = _func(_F, func)
    loop, k_text = _group_loop(fn)
    body = loop.body
    # every write to test_idx inside the loop: the block, then (guarded) the appended position
    writes = _all_assigns(loop, 'test_idx')
    if len(writes) != 2:
        raise Underivable(f'expected 2 assignments to test_idx in the loop, found {len(writes)}')
    first = _one(_assign_to(body, 'test_idx'), 'unconditional assignment to test_idx')
    if body.index(first) != 0:
        raise Underivable('the block assignment is not the first statement of the loop')
    call = first.value
    if not (isinstance(call, ast.Call) and _u(call.func) == 'np.arange' and len(call.args) == 2
            and not call.keywords):
        raise Underivable(f'test_idx block is `{_u(call)}`, not np.arange(lo, hi)')
    lo, hi = _u(call.args[0]), _u(call.args[1])
    ifs = [s for s in body if isinstance(s, ast.If) and _all_assigns(s, 'test_idx')]
    node = _one(ifs, '`if` that extends test_idx')
    if node.orelse or len(node.body) != 1 or body.index(node) != 1:
        raise Underivable('the `if` extending test_idx has an else / several statements / moved')
    ext = node.body[0]
    if not (isinstance(ext, ast.Assign) and _u(ext.targets[0]) == 'test_idx'
            and isinstance(ext.value, ast.Call) and _u(ext.value.func) == 'np.concatenate'
            and len(ext.value.args) == 1 and isinstance(ext.value.args[0], ast.Tuple)
            and len(ext.value.args[0].elts) == 2 and _u(ext.value.args[0].elts[0]) == 'test_idx'
            and isinstance(ext.value.args[0].elts[1], ast.List)
            and len(ext.value.args[0].elts[1].elts) == 1):
        raise Underivable(f'extension is `{_u(ext)}`, not np.concatenate((test_idx, [pos]))')
    guard = _u(node.test)
    extra = _u(ext.value.args[0].elts[1].elts[0])
    # training positions: complement, or (behind a test) the test positions themselves
    setdiff = f'np.setdiff1d(np.arange(len({sel})), test_idx)'
    twrites = _all_assigns(loop, 'train_idx')
    direct = _assign_to(body, 'train_idx')
    if len(twrites) == 1 and len(direct) == 1:
        if _u(direct[0].value) != setdiff:
            raise Underivable(f'train_idx is `{_u(direct[0].value)}`, not the complement of test_idx')
        nosplit = None
        tpos = body.index(direct[0])
    elif len(twrites) == 2 and not direct:
        tif = _one([s for s in body if isinstance(s, ast.If) and _all_assigns(s, 'train_idx')],
                   '`if` choosing train_idx')
        if not (len(tif.body) == 1 and len(tif.orelse) == 1
                and _u(tif.body[0]) == 'train_idx = test_idx'
                and _u(tif.orelse[0]) == 'train_idx = ' + setdiff):
            raise Underivable(f'unexpected train_idx dispatch `{_u(tif)[:120]}`')
        nosplit = _u(tif.test)
        tpos = body.index(tif)
    else:
        raise Underivable('unexpected assignments to train_idx')
    if tpos != 2:
        raise Underivable('train_idx is not computed right after test_idx is complete')
    # later statements must not touch the positions again
    for s in body[3:]:
        for n in ast.walk(s):
            if isinstance(n, ast.Name) and isinstance(n.ctx, ast.Store) and n.id in ('test_idx', 'train_idx'):
                raise Underivable('positions are rewritten later in the loop')
    # the values come from the positions by plain indexing
    for tgt, idx in (('rdm_idx_test' if 'rdm' in sel else 'pattern_idx_test', 'test_idx'),
                     ('rdm_idx_train' if 'rdm' in sel else 'pattern_idx_train', 'train_idx')):
        a = _one(_assign_to(body, tgt), f'assignment to {tgt}')
        if _u(a.value) != f'[{sel}[int(idx)] for idx in {idx}]':
            raise Underivable(f'{tgt} is `{_u(a.value)}`')
    asserts = [s for s in fn.body if isinstance(s, ast.Assert)]
    a = _one(asserts, 'assert')
    return {'n_folds': k_text, 'lo': lo, 'hi': hi, 'guard': guard, 'extra': extra,
            'nosplit': nosplit, 'accept': _u(a.test)}


def _bool(test):
    return f'(1 if {test} else 0)'


def _of_k_accept(func):
    fn = _func(_F, func)
    a = _one([s for s in fn.body if isinstance(s, ast.Assert)], 'assert')
    return _bool(_u(a.test))


def _random_parts(axis):
    """sets_random, one axis ('rdm' / 'pattern'): -> dict(nosplit, test_hi, train_lo, train_hi, full)"""
    fn = _func(_F, 'sets_random')
    loop = _one([n for n in fn.body if isinstance(n, ast.For)], 'loop')
    nvar, sel = f'n_{axis}', f'{axis}_select'
    node = _one([s for s in loop.body if isinstance(s, ast.If) and _u(s.test).startswith(nvar + ' ')],
                f'`if` on {nvar}')
    if len(node.body) != 2 or len(node.orelse) != 2:
        raise Underivable('unexpected shape of the index dispatch')

    def pick(stmts, target):
        a = _one(_assign_to(stmts, target), f'assignment to {target}')
        c = a.value
        if not (isinstance(c, ast.Call) and _u(c.func) == 'np.arange' and not c.keywords
                and len(c.args) in (1, 2)):
            raise Underivable(f'{target} is `{_u(c)}`, not np.arange')
        return ['0'] + [_u(c.args[0])] if len(c.args) == 1 else [_u(c.args[0]), _u(c.args[1])]
    full_tr, full_te = pick(node.body, 'train_idx'), pick(node.body, 'test_idx')
    if full_tr != full_te or full_tr[0] != '0':
        raise Underivable('the unsplit branch does not use the same full range for both sides')
    te, tr = pick(node.orelse, 'test_idx'), pick(node.orelse, 'train_idx')
    if te[0] != '0':
        raise Underivable('test positions do not start at 0')
    for tgt, idx in ((f'{axis}_idx_test', 'test_idx'), (f'{axis}_idx_train', 'train_idx')):
        a = _one(_assign_to(loop.body, tgt), f'assignment to {tgt}')
        if _u(a.value) != f'[{sel}[int(idx)] for idx in {idx}]':
            raise Underivable(f'{tgt} is `{_u(a.value)}`')
    return {'nosplit': _bool(_u(node.test)), 'test_hi': te[1], 'train_lo': tr[0], 'train_hi': tr[1],
            'full': full_tr[1]}


def _crossval_skip():
    fn = _func(_E, 'crossval')
    loop = _one([n for n in fn.body if isinstance(n, ast.For)], 'loop')
    if _u(loop.target) != '(i, train)' or _u(loop.iter) != 'enumerate(train_set)':
        raise Underivable(f'loop header `for {_u(loop.target)} in {_u(loop.iter)}`')
    if _u(loop.body[0]) != 'test = test_set[i]':
        raise Underivable(f'test set is chosen by `{_u(loop.body[0])}`')
    node = loop.body[1]
    if not (isinstance(node, ast.If) and 'np.nan' in _u(node.body[0])):
        raise Underivable('skip test not found')
    return _bool(_u(node.test))


def _crossval_asserts():
    fn = _func(_E, 'crossval')
    a = [s for s in fn.body if isinstance(s, ast.Assert)]
    if len(a) != 1 or _u(a[0].test) != 'len(train_set) == len(test_set)':
        raise Underivable('length assertion of crossval changed')
    node = _one([s for s in fn.body if isinstance(s, ast.If) and _u(s.test) == 'ceil_set is not None'
                 and len(s.body) == 1 and isinstance(s.body[0], ast.Assert)], 'ceil length assertion')
    if _u(node.body[0].test) != 'len(ceil_set) == len(test_set)':
        raise Underivable('ceil length assertion of crossval changed')
    return _bool('len_train_set == len_test_set'), _bool('len_ceil_set == len_test_set')


def _icv_dispatch():
    fn = _func(_E, '_internal_cv')
    node = _one([s for s in fn.body if isinstance(s, ast.If)], '`if`')
    if 'cv_noise_ceiling' not in _u(node.body[0]) or 'boot_noise_ceiling' not in _u(node.orelse[0]):
        raise Underivable('noise ceiling dispatch changed')
    return _bool(_u(node.test))


def _bootcv_guard():
    fn = _func(_E, 'bootstrap_crossval')
    hits = [n for n in ast.walk(fn) if isinstance(n, ast.If) and '_internal_cv' in _u(n)
            and 'np.unique(rdm_idx)' in _u(n.test)]
    node = _one(hits, 'guard of the cross-validation of one sample')
    t = _u(node.test)
    for old, new in (('len(np.unique(rdm_idx))', 'n_rdm_groups'), ('len(np.unique(pattern_idx))', 'n_pattern_groups')):
        if old not in t:
            raise Underivable(f'`{old}` not in the guard')
        t = t.replace(old, new)
    return _bool(t)


def _cv_nc_pairing():
    """cv_noise_ceiling pairs ceil_set[i] with test_set[i] -> the offset (0) of the two subscripts"""
    fn = _func('inference/noise_ceiling.py', 'cv_noise_ceiling')
    loop = _one([n for n in fn.body if isinstance(n, ast.For)], 'loop')
    if _u(loop.target) != 'i' or _u(loop.iter) != 'range(len(ceil_set))':
        raise Underivable(f'loop header `for {_u(loop.target)} in {_u(loop.iter)}`')
    tr = _one(_assign_to(loop.body, 'train'), 'assignment to train')
    te = _one(_assign_to(loop.body, 'test'), 'assignment to test')
    for a, base in ((tr, 'ceil_set'), (te, 'test_set')):
        if not (isinstance(a.value, ast.Subscript) and _u(a.value.value) == base):
            raise Underivable(f'`{_u(a)}`')
    return _u(tr.value.slice), _u(te.value.slice)



# -- round 4: in-place writes to caller data --------------------------------------------------------
# `input_writes` = number of statements in the anchored functions (every function of
# inference/crossvalsets.py, add_pattern_index, crossval, _internal_cv, cv_noise_ceiling and the three
# RDMs selection methods the generators call) that store into an object reachable from one of the
# function's parameters: subscript / attribute assignment, augmented assignment, `del`, a mutating
# method (`sort`, `append`, ...), `np.random.shuffle(x)`, `np.copyto(x, ...)`, `out=x`.  The analysis is
# flow-sensitive in the simplest way (statements in order, loop bodies twice, branches joined): a name
# bound to a *view* of a parameter (attribute, subscript, slice, `np.asarray`, `.T`, `.reshape`, ...,
# or the result of a same-module function that returns such a view) is an alias, a name re-bound to
# the result of any other call (`np.unique`, `deepcopy`, `rdms.subsample`, a list comprehension) is
# fresh.  `np.random.shuffle(rdm_select)` after `rdm_select = np.unique(rdm_select)` is therefore not a
# write to the caller's descriptor; after `rdm_select = np.asarray(rdm_select)` it is.  Fail closed: a
# function of the scope that is not found makes the leaf underivable.
_VIEW_METHODS = {'transpose', 'reshape', 'swapaxes', 'view', 'ravel', 'squeeze', 'items', 'values', 'keys',
                 'get', 'flat', 'astype_view'}
_VIEW_FUNCS = {'np.asarray', 'np.asanyarray', 'np.transpose', 'np.swapaxes', 'np.reshape', 'np.squeeze',
               'np.ravel', 'np.atleast_1d', 'np.atleast_2d', 'np.atleast_3d', 'np.expand_dims',
               'np.diagonal', 'np.broadcast_to', 'enumerate', 'zip', 'iter', 'reversed', 'np.ascontiguousarray',
               'np.asfortranarray', 'tuple'}
_MUTATORS = {'sort', 'fill', 'resize', 'put', 'itemset', 'setfield', 'partition', 'append', 'extend',
             'insert', 'remove', 'pop', 'popitem', 'clear', 'update', 'setdefault', 'reverse', 'setflags'}
_MUT_FUNCS = {'np.copyto', 'np.put', 'np.put_along_axis', 'np.putmask', 'np.place', 'np.fill_diagonal',
              'np.random.shuffle', 'random.shuffle', 'setattr', 'delattr'}
_SCALAR_PARAMS = {'k', 'k_rdm', 'k_pattern', 'n_rdm', 'n_pattern', 'n_cv', 'random', 'method', 'by',
                  'pattern_descriptor', 'rdm_descriptor', 'calc_noise_ceil', 'N', 'boot_type',
                  'use_correction'}
WRITE_SITES = []
_WRITE_SCOPE = [(_F, None, None), ('util/rdm_utils.py', 'add_pattern_index', None),
                (_E, 'crossval', None), (_E, '_internal_cv', None), (_E, '_concat_sampling', None),
                ('inference/noise_ceiling.py', 'cv_noise_ceiling', None),
                ('rdm/rdms.py', 'subset', 'RDMs'), ('rdm/rdms.py', 'subsample', 'RDMs'),
                ('rdm/rdms.py', 'subset_pattern', 'RDMs')]


def _tree(path):
    return ast.parse(open(os.path.join(SRC, path)).read())


def _names(t):
    if isinstance(t, ast.Name):
        return [t.id]
    if isinstance(t, (ast.Tuple, ast.List)):
        return [n for e in t.elts for n in _names(e)]
    if isinstance(t, ast.Starred):
        return _names(t.value)
    return []


class _Writes:
    def __init__(self, module_funcs):
        self.module_funcs = module_funcs      # name -> FunctionDef of the same module
        self.ret_cache = {}

    def is_alias(self, e, A):
        if isinstance(e, ast.Name):
            return e.id in A
        if isinstance(e, (ast.Attribute, ast.Subscript, ast.Starred)):
            return self.is_alias(e.value, A)
        if isinstance(e, ast.Call):
            f = _u(e.func)
            args = list(e.args) + [k.value for k in e.keywords]
            if isinstance(e.func, ast.Attribute) and e.func.attr in _VIEW_METHODS \
                    and self.is_alias(e.func.value, A):
                return True
            if f in _VIEW_FUNCS and any(self.is_alias(a, A) for a in args):
                return True
            if f in self.module_funcs and any(self.is_alias(a, A) for a in args):
                return self.returns_alias(f)
            return False
        if isinstance(e, (ast.Tuple, ast.List, ast.Set)):
            return any(self.is_alias(x, A) for x in e.elts)
        if isinstance(e, ast.IfExp):
            return self.is_alias(e.body, A) or self.is_alias(e.orelse, A)
        if isinstance(e, ast.BoolOp):
            return any(self.is_alias(x, A) for x in e.values)
        if isinstance(e, ast.NamedExpr):
            return self.is_alias(e.value, A)
        return False

    def returns_alias(self, name):
        if name not in self.ret_cache:
            self.ret_cache[name] = True          # recursion: assume the worst
            fn = self.module_funcs[name]
            hits = []
            self.run(fn, hits, returns=hits)
            self.ret_cache[name] = any(h == 'return' for h in hits)
        return self.ret_cache[name]

    def bind(self, target, value_is_alias, A):
        for n in _names(target):
            (A.add if value_is_alias else A.discard)(n)

    def check_expr(self, node, A, sites):
        for n in ast.walk(node):
            if isinstance(n, ast.Call):
                f = _u(n.func)
                if isinstance(n.func, ast.Attribute) and n.func.attr in _MUTATORS \
                        and self.is_alias(n.func.value, A):
                    sites.append((n.lineno, _u(n)))
                if f in _MUT_FUNCS and n.args and self.is_alias(n.args[0], A):
                    sites.append((n.lineno, _u(n)))
                for k in n.keywords:
                    if k.arg == 'out' and self.is_alias(k.value, A):
                        sites.append((n.lineno, _u(n)))

    def stmts(self, body, A, sites, returns):
        for s in body:
            self.stmt(s, A, sites, returns)

    def stmt(self, s, A, sites, returns):
        if isinstance(s, (ast.FunctionDef, ast.ClassDef)):
            return
        if isinstance(s, ast.Assign):
            self.check_expr(s.value, A, sites)
            al = self.is_alias(s.value, A)
            for t in s.targets:
                for tt in (t.elts if isinstance(t, (ast.Tuple, ast.List)) else [t]):
                    if isinstance(tt, (ast.Subscript, ast.Attribute)):
                        if self.is_alias(tt.value, A):
                            sites.append((s.lineno, _u(s)))
                    else:
                        self.bind(tt, al, A)
        elif isinstance(s, ast.AugAssign):
            self.check_expr(s.value, A, sites)
            if self.is_alias(s.target, A):
                sites.append((s.lineno, _u(s)))
            elif isinstance(s.target, ast.Name) and self.is_alias(s.value, A):
                A.add(s.target.id)            # `lst += [view]`
        elif isinstance(s, ast.AnnAssign):
            if s.value is not None:
                self.check_expr(s.value, A, sites)
                if isinstance(s.target, (ast.Subscript, ast.Attribute)):
                    if self.is_alias(s.target.value, A):
                        sites.append((s.lineno, _u(s)))
                else:
                    self.bind(s.target, self.is_alias(s.value, A), A)
        elif isinstance(s, ast.Delete):
            for t in s.targets:
                if isinstance(t, (ast.Subscript, ast.Attribute)) and self.is_alias(t.value, A):
                    sites.append((s.lineno, _u(s)))
        elif isinstance(s, (ast.For, ast.While)):
            for _ in range(2):
                if isinstance(s, ast.For):
                    self.check_expr(s.iter, A, sites)
                    if isinstance(s.iter, ast.Call) and _u(s.iter.func) == 'enumerate' \
                            and isinstance(s.target, ast.Tuple) and len(s.target.elts) == 2:
                        self.bind(s.target.elts[0], False, A)         # the counter is a fresh int
                        self.bind(s.target.elts[1], self.is_alias(s.iter, A), A)
                    else:
                        self.bind(s.target, self.is_alias(s.iter, A), A)
                else:
                    self.check_expr(s.test, A, sites)
                self.stmts(s.body, A, sites, returns)
            self.stmts(s.orelse, A, sites, returns)
        elif isinstance(s, ast.If):
            self.check_expr(s.test, A, sites)
            A1, A2 = set(A), set(A)
            self.stmts(s.body, A1, sites, returns)
            self.stmts(s.orelse, A2, sites, returns)
            A.clear()
            A.update(A1 | A2)
        elif isinstance(s, (ast.With, ast.Try)):
            for part in ('body', 'handlers', 'orelse', 'finalbody'):
                for b in getattr(s, part, []):
                    if isinstance(b, ast.ExceptHandler):
                        self.stmts(b.body, A, sites, returns)
                    else:
                        self.stmt(b, A, sites, returns)
        elif isinstance(s, ast.Return):
            if s.value is not None:
                self.check_expr(s.value, A, sites)
                if returns is not None and self.is_alias(s.value, A):
                    returns.append('return')
        else:
            self.check_expr(s, A, sites)
            # a mutating method on a list that *contains* views keeps it an alias; an append of a view
            # to a fresh list makes the list an alias
            for n in ast.walk(s):
                if isinstance(n, ast.Call) and isinstance(n.func, ast.Attribute) \
                        and n.func.attr in ('append', 'extend', 'insert') and isinstance(n.func.value, ast.Name) \
                        and any(self.is_alias(a, A) for a in n.args):
                    A.add(n.func.value.id)

    def run(self, fn, sites, returns=None):
        A = {a.arg for a in fn.args.posonlyargs + fn.args.args + fn.args.kwonlyargs} - _SCALAR_PARAMS
        self.stmts(fn.body, A, sites, returns)


def _input_writes():
    del WRITE_SITES[:]
    n_fn = 0
    for path, name, cls in _WRITE_SCOPE:
        tree = _tree(path)
        top = {n.name: n for n in tree.body if isinstance(n, ast.FunctionDef)}
        if name is None:
            fns = list(top.values())
        elif cls is None:
            if name not in top:
                raise Underivable(f'{path}: function {name} not found')
            fns = [top[name]]
        else:
            cdef = [n for n in tree.body if isinstance(n, ast.ClassDef) and n.name == cls]
            fns = [m for c in cdef for m in c.body if isinstance(m, ast.FunctionDef) and m.name == name]
            if len(fns) != 1:
                raise Underivable(f'{path}: method {cls}.{name} not found')
        w = _Writes(top)
        for fn in fns:
            n_fn += 1
            sites = []
            w.run(fn, sites)
            WRITE_SITES.extend(f'{path}:{fn.name}:{ln}: {txt}' for ln, txt in sorted(set(sites)))
    if n_fn < 16:
        raise Underivable(f'only {n_fn} functions found in the write scope')
    return str(len(WRITE_SITES))


_KF = [('KFold', 'sets_k_fold', 'rdm_select'), ('KFoldRdm', 'sets_k_fold_rdm', 'rdm_select'),
       ('KFoldPattern', 'sets_k_fold_pattern', 'pattern_select')]


def _derive():
    out = ['# DERIVED by harness/leaves/C05.py from the source tree under check - do not edit', '']
    specs = []

    def emit(name, lean_name, params, body_fn, types=None, ret='Nat'):
        try:
            body = body_fn()
        except Exception as exc:  # noqa: BLE001  (fail closed: any surprise = underivable)
            body = '__underivable__(' + repr(str(exc)) + ')'
        out.append(f'def {name}({", ".join(params)}):')
        out.append(f'    return {body}')
        out.append('')
        specs.append(dict(name=lean_name, file=DERIVED, func=name, kind='func',
                          params=types or _nat(*params), ret=ret))

    for tag, func, sel in _KF:
        cache = {}

        def parts(func=func, sel=sel, cache=cache):
            if 'v' not in cache:
                try:
                    cache['v'] = _kfold_parts(func, sel)
                except Exception as exc:  # noqa: BLE001
                    cache['v'] = exc
            if isinstance(cache['v'], Exception):
                raise cache['v']
            return cache['v']
        ln = f'len_{sel}'
        low = tag[0].lower() + tag[1:]
        # names of the local variables as the source spells them
        kname = 'k' if func == 'sets_k_fold_pattern' else 'k_rdm'
        gs = 'group_size' if func == 'sets_k_fold_pattern' else 'group_size_rdm'
        ad = 'additional_patterns' if func == 'sets_k_fold_pattern' else 'additional_rdms'
        emit(f'n_folds_{low}', f'nFolds{tag}', [kname], lambda p=parts: p()['n_folds'])
        emit(f'block_lo_{low}', f'blockLo{tag}', ['i_group', gs], lambda p=parts: p()['lo'])
        emit(f'block_hi_{low}', f'blockHi{tag}', ['i_group', gs], lambda p=parts: p()['hi'])
        emit(f'extra_guard_{low}', f'extraGuard{tag}', ['i_group', ad], lambda p=parts: _bool(p()['guard']))
        emit(f'extra_pos_{low}', f'extraPos{tag}', [ln, 'i_group'], lambda p=parts: p()['extra'])
        emit(f'no_split_{low}', f'noSplit{tag}', [kname],
             lambda p=parts: '0' if p()['nosplit'] is None else _bool(p()['nosplit']))
        emit(f'accept_{low}', f'accept{tag}', [kname, ln], lambda p=parts: _bool(p()['accept']))

    for tag, func, sel in (('Rdm', 'sets_of_k_rdm', 'rdm_select'), ('Pattern', 'sets_of_k_pattern', 'pattern_select')):
        emit(f'accept_of_k_{tag.lower()}', f'acceptOfK{tag}', ['k', f'len_{sel}'],
             lambda func=func: _of_k_accept(func), types={'k': 'A', f'len_{sel}': 'A'})

    for axis, tag in (('rdm', 'Rdm'), ('pattern', 'Pattern')):
        cache = {}

        def rparts(axis=axis, cache=cache):
            if 'v' not in cache:
                try:
                    cache['v'] = _random_parts(axis)
                except Exception as exc:  # noqa: BLE001
                    cache['v'] = exc
            if isinstance(cache['v'], Exception):
                raise cache['v']
            return cache['v']
        n, ln = f'n_{axis}', f'len_{axis}_select'
        emit(f'random_no_split_{axis}', f'randomNoSplit{tag}', [n], lambda p=rparts: p()['nosplit'])
        emit(f'random_test_hi_{axis}', f'randomTestHi{tag}', [n], lambda p=rparts: p()['test_hi'])
        emit(f'random_train_lo_{axis}', f'randomTrainLo{tag}', [n], lambda p=rparts: p()['train_lo'])
        emit(f'random_train_hi_{axis}', f'randomTrainHi{tag}', [ln], lambda p=rparts: p()['train_hi'])
        emit(f'random_full_{axis}', f'randomFull{tag}', [ln], lambda p=rparts: p()['full'])

    emit('cv_skip', 'cvSkip', ['train_0_n_rdm', 'test_0_n_rdm', 'train_0_n_cond', 'test_0_n_cond'],
         _crossval_skip)
    emit('cv_len_ok', 'cvLenOk', ['len_train_set', 'len_test_set'], lambda: _crossval_asserts()[0])
    emit('cv_ceil_len_ok', 'cvCeilLenOk', ['len_ceil_set', 'len_test_set'], lambda: _crossval_asserts()[1])
    emit('icv_cv_nc', 'icvUsesCvNc', ['k_rdm', 'k_pattern'], _icv_dispatch)
    emit('bootcv_guard', 'bootcvGuard', ['n_rdm_groups', 'k_rdm', 'n_pattern_groups', 'k_pattern'],
         _bootcv_guard)
    emit('nc_ceil_index', 'ncCeilIndex', ['i'], lambda: _cv_nc_pairing()[0])
    emit('nc_test_index', 'ncTestIndex', ['i'], lambda: _cv_nc_pairing()[1])
    emit('input_writes', 'inputWrites', [], _input_writes)
    out.append('# stores into caller data found by the analysis (input_writes counts these):')
    out.extend('#   ' + w for w in WRITE_SITES)
    out.append('')

    text = '\n'.join(out)
    if not (os.path.exists(DERIVED) and open(DERIVED).read() == text):
        with open(DERIVED + '.tmp', 'w') as f:
            f.write(text)
        os.replace(DERIVED + '.tmp', DERIVED)
    return specs


LEAVES = [
    # fold size and number of enlarged folds, one copy per k-fold generator
    dict(name='groupSizeKFold', file=_F, func='sets_k_fold', kind='assign',
         target='group_size_rdm', count=1, params=_nat('len_rdm_select', 'k_rdm'), ret='Nat'),
    dict(name='additionalKFold', file=_F, func='sets_k_fold', kind='assign',
         target='additional_rdms', count=1, params=_nat('len_rdm_select', 'k_rdm'), ret='Nat'),
    dict(name='groupSizeKFoldRdm', file=_F, func='sets_k_fold_rdm', kind='assign',
         target='group_size_rdm', count=1, params=_nat('len_rdm_select', 'k_rdm'), ret='Nat'),
    dict(name='additionalKFoldRdm', file=_F, func='sets_k_fold_rdm', kind='assign',
         target='additional_rdms', count=1, params=_nat('len_rdm_select', 'k_rdm'), ret='Nat'),
    dict(name='groupSizeKFoldPattern', file=_F, func='sets_k_fold_pattern', kind='assign',
         target='group_size', count=1, params=_nat('len_pattern_select', 'k'), ret='Nat'),
    dict(name='additionalKFoldPattern', file=_F, func='sets_k_fold_pattern', kind='assign',
         target='additional_patterns', count=1, params=_nat('len_pattern_select', 'k'), ret='Nat'),
    # number of groups of the groups-of-k generators
    dict(name='nGroupsOfKRdm', file=_F, func='sets_of_k_rdm', kind='assign',
         target='n_groups', count=1, params=_nat('len_rdm_select', 'k'), ret='Nat'),
    dict(name='nGroupsOfKPattern', file=_F, func='sets_of_k_pattern', kind='assign',
         target='n_groups', count=1, params=_nat('len_pattern_select', 'k'), ret='Nat'),
    # default test-set sizes of sets_random
    dict(name='randomNRdm', file=_F, func='sets_random', kind='assign',
         target='n_rdm', count=1, params=_nat('len_rdm_select', 'k_rdm'), ret='Nat'),
    dict(name='randomNPattern', file=_F, func='sets_random', kind='assign',
         target='n_pattern', count=1, params=_nat('len_pattern_select', 'k_pattern'), ret='Nat'),
    # default numbers of folds
    dict(name='defaultKPattern', file=_U, func='default_k_pattern', kind='func',
         params=_nat('n_pattern'), ret='Int'),
    dict(name='defaultKRdm', file=_U, func='default_k_rdm', kind='func',
         params=_nat('n_rdm'), ret='Int'),
    # the same two functions on a real argument (bootstrap_crossval calls them on
    # (1 - 1/e) * n, the expected number of distinct groups in a bootstrap sample)
    dict(name='defaultKPatternReal', file=_U, func='default_k_pattern', kind='func',
         params={'n_pattern': 'A'}, ret='Int'),
    dict(name='defaultKRdmReal', file=_U, func='default_k_rdm', kind='func',
         params={'n_rdm': 'A'}, ret='Int'),
] + _derive()
