"""Leaf specs of property C05 (fold index arithmetic of inference/crossvalsets.py, default
fold counts of util/inference_util.py).  `np.floor(a / b)` and `int(a / b)` on naturals are
translated natively by harness/py2lean.py (round 2; the local extension was removed)."""

_F = 'inference/crossvalsets.py'
_U = 'util/inference_util.py'


def _nat(*names):
    return {n: 'Nat' for n in names}


LEAVES = [
    # fold size and number of enlarged folds, one copy per k-fold generator
    dict(name='groupSizeKFold', file=_F, func='sets_k_fold', kind='assign',
         target='group_size_rdm', count=1, params=_nat('len_rdm_select', 'k_rdm'), ret='Nat'),
    dict(name='additionalKFold', file=_F, func='sets_k_fold', kind='assign',
         target='additional_rdms', count=1, params=_nat('len_rdm_select', 'k_rdm'), ret='Nat'),
    dict(name='groupSizeKFoldRdm', file=_F, func='sets_k_fold_rdm', kind='assign',
         target='group_size_rdm', count=1, params=_nat('len_rdm_select', 'k_rdm'), ret='Nat'),
    dict(name='additionalKFoldRdm', file=_F, func='sets_k_fold_rdm', kind='assign',
         target='additional_rdms', count=1, params=_nat('len_rdm_select', 'k_rdm'), ret='Nat'),
    dict(name='groupSizeKFoldPattern', file=_F, func='sets_k_fold_pattern', kind='assign',
         target='group_size', count=1, params=_nat('len_pattern_select', 'k'), ret='Nat'),
    dict(name='additionalKFoldPattern', file=_F, func='sets_k_fold_pattern', kind='assign',
         target='additional_patterns', count=1, params=_nat('len_pattern_select', 'k'), ret='Nat'),
    # number of groups of the groups-of-k generators
    dict(name='nGroupsOfKRdm', file=_F, func='sets_of_k_rdm', kind='assign',
         target='n_groups', count=1, params=_nat('len_rdm_select', 'k'), ret='Nat'),
    dict(name='nGroupsOfKPattern', file=_F, func='sets_of_k_pattern', kind='assign',
         target='n_groups', count=1, params=_nat('len_pattern_select', 'k'), ret='Nat'),
    # default test-set sizes of sets_random
    dict(name='randomNRdm', file=_F, func='sets_random', kind='assign',
         target='n_rdm', count=1, params=_nat('len_rdm_select', 'k_rdm'), ret='Nat'),
    dict(name='randomNPattern', file=_F, func='sets_random', kind='assign',
         target='n_pattern', count=1, params=_nat('len_pattern_select', 'k_pattern'), ret='Nat'),
    # default numbers of folds
    dict(name='defaultKPattern', file=_U, func='default_k_pattern', kind='func',
         params=_nat('n_pattern'), ret='Int'),
    dict(name='defaultKRdm', file=_U, func='default_k_rdm', kind='func',
         params=_nat('n_rdm'), ret='Int'),
    # the same two functions on a real argument (bootstrap_crossval calls them on
    # (1 - 1/e) * n, the expected number of distinct groups in a bootstrap sample)
    dict(name='defaultKPatternReal', file=_U, func='default_k_pattern', kind='func',
         params={'n_pattern': 'A'}, ret='Int'),
    dict(name='defaultKRdmReal', file=_U, func='default_k_rdm', kind='func',
         params={'n_rdm': 'A'}, ret='Int'),
]
