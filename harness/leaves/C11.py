"""Leaf specs for C11 (dataset operations).

The anchored code of C11 has no scalar arithmetic, but it has a handful of *decisions* whose exact
text carries the property: comparison operators, a constancy test, slice starts / steps, an index.
They sit inside list comprehensions, slices and method chains (outside the straight-line subset of
py2lean), so this module first *derives* from the current source text (Python `ast`) a tiny Python
function for each and writes them to `harness/leaves/_C11_derived.py`; py2lean then translates those
functions as usual.  Nothing is cached; every derivation fails closed (an unexpected shape of the
anchor gives a function calling `__underivable__`, which py2lean reports as an untranslatable
leaf = broken obligation, so run_check starts the failing-input search).

  subsetTimeKeep  TemporalDataset.subset_time: `sel_time = [t for t in time if t_from <= t <= t_to]`
                  -> the comparison chain as a conjunction, operators as written      (1 / 0)
  fromDfIsConst   Dataset.from_df: `if df[desc].unique().size == 1:` -> test on the number of distinct
                  values *as counted by `.unique().size`* (missing values count); any other counting
                  expression (e.g. `.nunique()`) is underivable                       (1 / 0)
  oddStart, evenStart, oeStep
                  Dataset.odd_even_split: `odd_list = ds_part[0::2]`, `even_list = ds_part[1::2]`
  mergeIsSame     ops.merge_datasets: `if len({s.descriptors[k] for s in sets}) == 1:`  (1 / 0)
  binFirst        TemporalDataset.bin_time: the other time descriptors take
                  `values[np.flatnonzero(np.isin(time, bins[t]))[0]]` -> the index 0
  selMatch        Dataset.split_obs: `selection = np.where(inverse == i_v)[0]` -> the mask test (1 / 0)
  avgMatch        computations.average_dataset_by: `dataset.measurements[inverse == i_v, :]`  (1 / 0)
  tacFlat, tacChanOf, tacTimeOf   (round 5)
                  TemporalDataset.time_as_channels: the values are flattened by
                  `self.measurements.reshape(n_obs, -1)` -- numpy's default C *index* order, whatever the
                  memory layout of the array: column of (channel j, time t) = `j * n_tps + t` -- while the
                  labels are built by `np.repeat(v, n_tps)` (column q carries channel `q // n_tps`) and
                  `np.tile(v, n_chans)` (time `q % n_tps`).  Any `order=` other than 'C' (in particular
                  'A' / 'K', whose index order depends on the memory layout, and 'F', which interleaves
                  observations), a reshape of anything but `self.measurements` itself, another target
                  shape, or other repeat / tile arguments are underivable.
"""
import ast
import os

SRC = os.environ.get('RSA_REPO_SRC', '/repo/src/rsatoolbox')
HERE = os.path.dirname(os.path.abspath(__file__))
DERIVED = os.path.join(HERE, '_C11_derived.py')


class Underivable(Exception):
    pass


def _func(path, name, cls=None):
    tree = ast.parse(open(os.path.join(SRC, path)).read())
    scope = tree
    if cls is not None:
        hits = [n for n in ast.walk(tree) if isinstance(n, ast.ClassDef) and n.name == cls]
        if len(hits) != 1:
            raise Underivable(f'{path}: class {cls} not found')
        scope = hits[0]
    hits = [n for n in ast.walk(scope) if isinstance(n, ast.FunctionDef) and n.name == name
            and not any(ast.unparse(d) == 'overload' for d in n.decorator_list)]
    if len(hits) != 1:
        raise Underivable(f'{path}: expected one definition of {name}, found {len(hits)}')
    return hits[0]


def _assigns(fn, target):
    hits = [n for n in ast.walk(fn) if isinstance(n, ast.Assign) and len(n.targets) == 1
            and isinstance(n.targets[0], ast.Name) and n.targets[0].id == target]
    hits.sort(key=lambda n: n.lineno)
    return hits


def _one(hits, what):
    if len(hits) != 1:
        raise Underivable(f'expected exactly one {what}, found {len(hits)}')
    return hits[0]


def _chain(cmp, names):
    """a (possibly chained) comparison over the given names, as a conjunction of binary tests"""
    if not isinstance(cmp, ast.Compare):
        raise Underivable(f'`{ast.unparse(cmp)}` is not a comparison')
    terms = [cmp.left] + list(cmp.comparators)
    for t in terms:
        if not (isinstance(t, ast.Name) and t.id in names):
            raise Underivable(f'operand `{ast.unparse(t)}` of `{ast.unparse(cmp)}` is not one of {names}')
    parts = []
    for a, op, b in zip(terms, cmp.ops, terms[1:]):
        parts.append('(' + ast.unparse(ast.Compare(left=a, ops=[op], comparators=[b])) + ')')
    return ' and '.join(parts)


def _count_test(test, counted, param):
    """`<counted> <op> <int>` -> `<param> <op> <int>`; the counting expression must be `counted`"""
    if not (isinstance(test, ast.Compare) and len(test.ops) == 1):
        raise Underivable(f'`{ast.unparse(test)}` is not a single comparison')
    if ast.unparse(test.left) != counted:
        raise Underivable(f'the counted expression is `{ast.unparse(test.left)}`, not `{counted}`')
    rhs = test.comparators[0]
    if not (isinstance(rhs, ast.Constant) and isinstance(rhs.value, int)):
        raise Underivable(f'`{ast.unparse(test)}` does not compare with an integer literal')
    return ast.unparse(ast.Compare(left=ast.Name(id=param, ctx=ast.Load()), ops=test.ops, comparators=[rhs]))


def _slice_of(fn, target, base):
    node = _one(_assigns(fn, target), f'assignment to {target}').value
    if not (isinstance(node, ast.Subscript) and ast.unparse(node.value) == base
            and isinstance(node.slice, ast.Slice) and node.slice.upper is None):
        raise Underivable(f'`{target} = {ast.unparse(node)}` is not `{base}[a::b]`')
    lo, st = node.slice.lower, node.slice.step
    for x in (lo, st):
        if not (isinstance(x, ast.Constant) and isinstance(x.value, int) and x.value >= 0):
            raise Underivable(f'slice `{ast.unparse(node)}` has a non-literal start / step')
    return lo.value, st.value


def _mask_test(expr, left, right):
    """`<left> == <right>` (any single comparison operator) over two names"""
    if not (isinstance(expr, ast.Compare) and len(expr.ops) == 1 and ast.unparse(expr.left) == left
            and ast.unparse(expr.comparators[0]) == right):
        raise Underivable(f'mask `{ast.unparse(expr)}` is not a comparison of {left} with {right}')
    return ast.unparse(expr)


def _derive():
    out = ['# DERIVED by harness/leaves/C11.py from the source tree under check - do not edit', '']

    def emit_test(name, params, test_fn):
        try:
            test = test_fn()
            out.append(f'def {name}({", ".join(params)}):')
            out.append(f'    if {test}:')
            out.append('        return 1')
            out.append('    return 0')
        except Exception as exc:  # noqa: BLE001  (fail closed)
            out.append(f'def {name}({", ".join(params)}):')
            out.append('    return __underivable__(' + repr(str(exc)) + ')')
        out.append('')

    def emit_const(name, val_fn):
        try:
            body = str(int(val_fn()))
        except Exception as exc:  # noqa: BLE001
            body = '__underivable__(' + repr(str(exc)) + ')'
        out.append(f'def {name}():')
        out.append(f'    return {body}')
        out.append('')

    def subset_time():
        fn = _func('data/dataset.py', 'subset_time', 'TemporalDataset')
        comp = _one(_assigns(fn, 'sel_time'), 'assignment to sel_time').value
        if not (isinstance(comp, ast.ListComp) and len(comp.generators) == 1
                and ast.unparse(comp.elt) == 't' and ast.unparse(comp.generators[0].target) == 't'
                and ast.unparse(comp.generators[0].iter) == 'time'):
            raise Underivable(f'sel_time is not `[t for t in time if ...]`: `{ast.unparse(comp)}`')
        tm = _one(_assigns(fn, 'time'), 'assignment to time').value
        if ast.unparse(tm) != 'get_unique_unsorted(self.time_descriptors[by])':
            raise Underivable(f'time is `{ast.unparse(tm)}`')
        cond = _one(comp.generators[0].ifs, 'filter of sel_time')
        return _chain(cond, ['t_from', 't', 't_to'])
    emit_test('subset_time_keep', ['t_from', 't', 't_to'], subset_time)

    def from_df():
        fn = _func('data/dataset.py', 'from_df', 'Dataset')
        loops = [n for n in fn.body if isinstance(n, ast.For) and ast.unparse(n.target) == 'desc']
        loop = _one(loops, '`for desc in descriptors` loop')
        node = _one([n for n in loop.body if isinstance(n, ast.If)], '`if` in the descriptor loop')
        first = ast.unparse(node.body[0]) if node.body else ''
        other = ast.unparse(node.orelse[0]) if node.orelse else ''
        if first != 'ds_descriptors[desc] = df[desc][0]' or other != 'obs_descriptors[desc] = list(df[desc])':
            raise Underivable(f'branches of the constancy test changed: `{first}` / `{other}`')
        return _count_test(node.test, 'df[desc].unique().size', 'n_unique')
    emit_test('from_df_is_const', ['n_unique'], from_df)

    def oe(target, which):
        fn = _func('data/dataset.py', 'odd_even_split', 'Dataset')
        return _slice_of(fn, target, 'ds_part')[which]
    emit_const('odd_start', lambda: oe('odd_list', 0))
    emit_const('even_start', lambda: oe('even_list', 0))

    def step():
        a, b = oe('odd_list', 1), oe('even_list', 1)
        if a != b:
            raise Underivable(f'odd and even lists use different steps ({a}, {b})')
        return a
    emit_const('oe_step', step)

    def merge_same():
        fn = _func('data/ops.py', 'merge_datasets')
        loops = [n for n in fn.body if isinstance(n, ast.For) and ast.unparse(n.iter) == '_shared_descriptors(sets)']
        loop = _one(loops, 'loop over the shared dataset descriptors')
        node = _one([n for n in loop.body if isinstance(n, ast.If)], '`if` in that loop')
        if not node.body or ast.unparse(node.body[-1]) != 'dat_decs[k] = ds0.descriptors[k]':
            raise Underivable('the "same value everywhere" branch changed')
        return _count_test(node.test, 'len({s.descriptors[k] for s in sets})', 'n_distinct')
    emit_test('merge_is_same', ['n_distinct'], merge_same)

    def bin_first():
        fn = _func('data/dataset.py', 'bin_time', 'TemporalDataset')
        hits = [n for n in ast.walk(fn) if isinstance(n, ast.Subscript) and ast.unparse(n.value) == 'values']
        node = _one(hits, 'subscript of `values` in bin_time')
        idx = node.slice
        if not (isinstance(idx, ast.Subscript)
                and ast.unparse(idx.value) == 'np.flatnonzero(np.isin(time, bins[t]))'
                and isinstance(idx.slice, ast.Constant) and isinstance(idx.slice.value, int)
                and idx.slice.value >= 0):
            raise Underivable(f'`values[{ast.unparse(idx)}]` is not `values[np.flatnonzero(np.isin(time, bins[t]))[k]]`')
        return idx.slice.value
    emit_const('bin_first', bin_first)

    def sel_match():
        fn = _func('data/dataset.py', 'split_obs', 'Dataset')
        node = _one(_assigns(fn, 'selection'), 'assignment to selection').value
        if not (isinstance(node, ast.Subscript) and ast.unparse(node.slice) == '0'
                and isinstance(node.value, ast.Call) and ast.unparse(node.value.func) == 'np.where'
                and len(node.value.args) == 1):
            raise Underivable(f'selection is `{ast.unparse(node)}`')
        return _mask_test(node.value.args[0], 'inverse', 'i_v')
    emit_test('sel_match', ['inverse', 'i_v'], sel_match)

    def avg_match():
        fn = _func('data/computations.py', 'average_dataset_by')
        node = _one(_assigns(fn, 'measurements'), 'assignment to measurements').value
        if not (isinstance(node, ast.Subscript) and ast.unparse(node.value) == 'dataset.measurements'
                and isinstance(node.slice, ast.Tuple) and len(node.slice.elts) == 2
                and ast.unparse(node.slice.elts[1]) == ':'):
            raise Underivable(f'group rows are `{ast.unparse(node)}`')
        return _mask_test(node.slice.elts[0], 'inverse', 'i_v')
    emit_test('avg_match', ['inverse', 'i_v'], avg_match)

    # ---- round 5: time_as_channels -- index order of the flattening vs. the order of the labels
    def tac_parts():
        fn = _func('data/dataset.py', 'time_as_channels', 'TemporalDataset')
        sh = [n for n in ast.walk(fn) if isinstance(n, ast.Assign)
              and ast.unparse(n.value) == 'self.measurements.shape']
        node = _one(sh, 'unpacking of self.measurements.shape')
        if ast.unparse(node.targets[0]) != '(n_obs, n_chans, n_tps)':
            raise Underivable(f'shape is unpacked as `{ast.unparse(node.targets[0])}`')
        ret = _one([n for n in ast.walk(fn) if isinstance(n, ast.Return)], 'return statement')
        if not (isinstance(ret.value, ast.Call) and ast.unparse(ret.value.func) == 'Dataset' and not ret.value.args):
            raise Underivable(f'time_as_channels returns `{ast.unparse(ret.value)[:60]}`')
        return fn, {k.arg: k.value for k in ret.value.keywords}

    def tac_flat():
        fn, kw = tac_parts()
        m = kw.get('measurements')
        if m is None:
            raise Underivable('no measurements= argument')
        if isinstance(m, ast.Call) and isinstance(m.func, ast.Attribute) and m.func.attr == 'copy':
            if m.args or m.keywords:
                raise Underivable(f'`{ast.unparse(m)}`: copy with arguments')
            m = m.func.value
        if not (isinstance(m, ast.Call) and isinstance(m.func, ast.Attribute) and m.func.attr == 'reshape'):
            raise Underivable(f'measurements are `{ast.unparse(m)}`, not a reshape')
        if ast.unparse(m.func.value) != 'self.measurements':
            raise Underivable(f'the reshaped array is `{ast.unparse(m.func.value)}`, not self.measurements')
        shape = ast.unparse(ast.Tuple(elts=m.args, ctx=ast.Load())) if len(m.args) != 1 else ast.unparse(m.args[0])
        if shape.replace(' ', '') not in ('(n_obs,-1)', '(n_obs,n_chans*n_tps)'):
            raise Underivable(f'target shape `{shape}`')
        for k in m.keywords:
            if not (k.arg == 'order' and isinstance(k.value, ast.Constant) and k.value.value == 'C'):
                raise Underivable(f'reshape keyword `{ast.unparse(k)}`: the index order is not C')
        return 'j * n_tps + t'          # C index order over the trailing axes (n_chans, n_tps)

    def tac_labels(which):
        fn, kw = tac_parts()
        if ast.unparse(kw.get('channel_descriptors', ast.Constant(value=None))) != 'chn_des':
            raise Underivable('channel_descriptors is not chn_des')
        node = _one(_assigns(fn, 'chn_des'), 'assignment to chn_des').value
        if ast.unparse(node) != '{k: np.repeat(v, n_tps) for k, v in old_chn_des.items()}':
            raise Underivable(f'chn_des is `{ast.unparse(node)}`')
        if ast.unparse(_one(_assigns(fn, 'old_chn_des'), 'assignment to old_chn_des').value) != 'self.channel_descriptors':
            raise Underivable('old_chn_des is not self.channel_descriptors')
        loops = [n for n in fn.body if isinstance(n, ast.For)]
        loop = _one(loops, 'loop over the time descriptors')
        if ast.unparse(loop.iter) != 'self.time_descriptors.items()' or ast.unparse(loop.target) != '(k, v)' \
                or len(loop.body) != 1 or ast.unparse(loop.body[0]) != 'chn_des[k] = np.tile(v, n_chans)':
            raise Underivable(f'time labels are built by `{ast.unparse(loop)[:80]}`')
        return 'q // n_tps' if which == 'chan' else 'q % n_tps'

    def emit_expr(name, params, expr_fn):
        try:
            body = expr_fn()
        except Exception as exc:  # noqa: BLE001  (fail closed)
            body = '__underivable__(' + repr(str(exc)) + ')'
        out.append(f'def {name}({", ".join(params)}):')
        out.append(f'    return {body}')
        out.append('')
    emit_expr('tac_flat', ['j', 't', 'n_tps'], tac_flat)
    emit_expr('tac_chan_of', ['q', 'n_tps'], lambda: tac_labels('chan'))
    emit_expr('tac_time_of', ['q', 'n_tps'], lambda: tac_labels('time'))

    text = '\n'.join(out)
    if not (os.path.exists(DERIVED) and open(DERIVED).read() == text):
        with open(DERIVED + '.tmp', 'w') as f:
            f.write(text)
        os.replace(DERIVED + '.tmp', DERIVED)


_derive()

_T = dict(file=DERIVED, kind='func', ret='Nat')
LEAVES = [
    dict(_T, name='subsetTimeKeep', func='subset_time_keep', params={'t_from': 'A', 't': 'A', 't_to': 'A'}),
    dict(_T, name='fromDfIsConst', func='from_df_is_const', params={'n_unique': 'Nat'}),
    dict(_T, name='oddStart', func='odd_start', params={}),
    dict(_T, name='evenStart', func='even_start', params={}),
    dict(_T, name='oeStep', func='oe_step', params={}),
    dict(_T, name='mergeIsSame', func='merge_is_same', params={'n_distinct': 'Nat'}),
    dict(_T, name='binFirst', func='bin_first', params={}),
    dict(_T, name='selMatch', func='sel_match', params={'inverse': 'Nat', 'i_v': 'Nat'}),
    dict(_T, name='avgMatch', func='avg_match', params={'inverse': 'Nat', 'i_v': 'Nat'}),
    dict(_T, name='tacFlat', func='tac_flat', params={'j': 'Nat', 't': 'Nat', 'n_tps': 'Nat'}),
    dict(_T, name='tacChanOf', func='tac_chan_of', params={'q': 'Nat', 'n_tps': 'Nat'}),
    dict(_T, name='tacTimeOf', func='tac_time_of', params={'q': 'Nat', 'n_tps': 'Nat'}),
]
