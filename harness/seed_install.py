#!/usr/bin/env python3
"""copy a confirmed seeded change from /root/seeds into /verif/seeded/<id>/ and record what was run
usage: seed_install.py <Cxx-k> "<seedtest result line>" [note]"""
import json, os, shutil, sys
sid, line = sys.argv[1], sys.argv[2]
note = sys.argv[3] if len(sys.argv) > 3 else ''
src = '/root/seeds'
dst = f'/verif/seeded/{sid}'
os.makedirs(dst, exist_ok=True)
shutil.copy(f'{src}/{sid}.diff', f'{dst}/patch.diff')
shutil.copy(f'{src}/{sid}-demo.py', f'{dst}/demo.py')
meta = json.load(open(f'{src}/{sid}-meta.json'))
meta['id'] = sid
meta['confirmed_by_coordinator'] = {
    'how': 'harness/seedtest.sh: fresh worktree of /repo HEAD + patch; demo.py on /repo (expect 0) and on the mutant (expect 1); '
           'RSA_REPO=<mutant> ./check ' + sid.split('-')[0] + ' (expect VIOLATION); the seeding agent ran the pinned suite on the mutant (340/340)',
    'result': line}
if note:
    meta['note'] = note
json.dump(meta, open(f'{dst}/meta.json', 'w'), indent=1)
print('installed', dst)
