#!/usr/bin/env python3
"""seed_sweep.py [id-regex] — run every seeded change (sequentially!) against the committed check of its property and
record the outcome as `now` in seeded/<id>/meta.json: concrete | nfif | missed | neutralised | patch-does-not-apply.
Sequential on purpose: two runs against different trees share lean/Rsa/Gen and the driver (DESIGN §12 note a)."""
import json, os, re, subprocess, sys, time
ROOT = os.path.normpath(os.path.join(os.path.dirname(os.path.abspath(__file__)), '..'))
pat = re.compile(sys.argv[1] if len(sys.argv) > 1 else '.')
env = dict(os.environ, TQDM_DISABLE='1')


def sh(cmd, **kw):
    return subprocess.run(cmd, shell=True, stdout=subprocess.PIPE, stderr=subprocess.STDOUT, **kw)


for sid in sorted(os.listdir(os.path.join(ROOT, 'seeded'))):
    if not pat.search(sid):
        continue
    d = os.path.join(ROOT, 'seeded', sid)
    prop = sid.split('-')[0]
    wt = f'/tmp/wt/sweep-{sid}'
    sh(f'git -C /repo worktree remove --force {wt}')
    if sh(f'git -C /repo worktree add --detach {wt} HEAD').returncode:
        print(sid, 'worktree failed'); continue
    sh(f'cp /repo/src/rsatoolbox/cengine/similarity*.so /repo/src/rsatoolbox/cengine/similarity.c {wt}/src/rsatoolbox/cengine/')
    t0 = time.time()
    if sh(f'git -C {wt} apply {d}/patch.diff').returncode:
        now, detail = 'patch-does-not-apply', ''
    else:
        r0 = sh(f'/venv/bin/python {d}/demo.py /repo', env=env).returncode
        r1 = sh(f'/venv/bin/python {d}/demo.py {wt}', env=env).returncode
        out = sh(f'cd {ROOT} && RSA_REPO={wt} ./check {prop}', env=env).stdout.decode(errors='replace')
        v = [l for l in out.splitlines() if l.startswith('VIOLATION')]
        if r1 == 0:
            now = 'neutralised'
        elif any('no-failing-input-found' not in l for l in v):
            now = 'concrete'
        elif v:
            now = 'nfif'
        else:
            now = 'missed'
        detail = f'demo repo={r0} mutant={r1}; ' + ' '.join(l for l in out.splitlines() if ' quick: ' in l)[:160]
    sh(f'git -C /repo worktree remove --force {wt}')
    mp = os.path.join(d, 'meta.json')
    m = json.load(open(mp))
    m['now'] = now
    m['now_detail'] = detail
    json.dump(m, open(mp, 'w'), indent=1)
    print(f'{sid}: {now} ({time.time() - t0:.0f} s) {detail[:120]}', flush=True)
# leave Gen / driver in the state of /repo
sh(f'cd {ROOT} && /venv/bin/python harness/py2lean.py && cd lean && lake build driver')
