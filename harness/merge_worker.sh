#!/bin/bash
# harness/merge_worker.sh Cxx "Mod1 Mod2"   -- copy a worker's owned files from /tmp/w/Cxx into /verif
set -e
P=$1; W=/tmp/w/$P; V=/verif
for m in $2; do [ -f $W/lean/Rsa/Core/$m.lean ] && cp -v $W/lean/Rsa/Core/$m.lean $V/lean/Rsa/Core/; done
# any additional Core modules the worker created (not present in /verif, not shared)
for f in $W/lean/Rsa/Core/*.lean; do b=$(basename $f); [ -f $V/lean/Rsa/Core/$b ] || { echo "NEW core module $b"; cp -v $f $V/lean/Rsa/Core/; }; done
cp -v $W/lean/Rsa/Lemmas/$P*.lean $V/lean/Rsa/Lemmas/ 2>/dev/null || true
cp -v $W/lean/Rsa/Props/$P.lean $V/lean/Rsa/Props/
cp -v $W/lean/Rsa/Drv/$P.lean $V/lean/Rsa/Drv/
[ -f $W/harness/leaves/$P.py ] && cp -v $W/harness/leaves/$P.py $V/harness/leaves/
cp -v $W/harness/engines/$P*.py $V/harness/engines/
mkdir -p $V/corpus/$P $V/notes
cp -rv $W/corpus/$P/. $V/corpus/$P/ 2>/dev/null || true
cp -v $W/notes/$P* $V/notes/ 2>/dev/null || true
echo "--- shared files changed by worker (should be none):"
for f in lean/Rsa/Core/Num.lean lean/Rsa/Core/Wire.lean lean/Rsa/Core/Tri.lean lean/Rsa/Core/GenPrelude.lean lean/Rsa/Lemmas/Tri.lean lean/Main.lean lean/Rsa/Drv/All.lean lean/lakefile.toml harness/run_check.py harness/py2lean.py harness/lean.py; do
  cmp -s $W/$f $V/$f || echo "DIFFERS: $f"; done
