import Rsa.Props.C12
#print axioms Rsa.Props.C12.exec_frame
#print axioms Rsa.Props.C12.step_frame
#print axioms Rsa.Props.C12.step_preserves_sep
#print axioms Rsa.Props.C12.frame
#print axioms Rsa.Props.C12.frame_history
#print axioms Rsa.Props.C12.fresh_producer_sep
#print axioms Rsa.Props.C12.fresh_producer_safe
#print axioms Rsa.Props.C12.copy_is_fresh
#print axioms Rsa.Props.C12.shared_dict_counterexample
#print axioms Rsa.Props.C12.rebind_makes_shared_dict_harmless
#print axioms Rsa.Props.C12.transform_inplace_counterexample
#print axioms Rsa.Props.C12.concat_reorders_argument
#print axioms Rsa.Props.C12.shared_write_interferes
