import Rsa.Props.C06
#print axioms Rsa.Props.C06.dual_le_two_factor
#print axioms Rsa.Props.C06.dual_ge_single
#print axioms Rsa.Props.C06.dualN_le_two_factor
#print axioms Rsa.Props.C06.dualN_ge_single
#print axioms Rsa.Props.C06.correct1d_factor
