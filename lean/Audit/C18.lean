import Rsa.Props.C18
#print axioms Rsa.Props.C18.G_to_D
#print axioms Rsa.Props.C18.G_to_D_squareform
#print axioms Rsa.Props.C18.make_signal_exact
#print axioms Rsa.Props.C18.exact_signal_reproduces
#print axioms Rsa.Props.C18.euclid_algo_eq_spec
#print axioms Rsa.Props.C18.simulated_rdm_eq_model
#print axioms Rsa.Props.C18.descriptors_contents
#print axioms Rsa.Props.C18.same_signal_reused
#print axioms Rsa.Props.C18.same_signal_zero_noise_identical
#print axioms Rsa.Props.C18.fresh_signal
#print axioms Rsa.Props.C18.noise_additive_sqrt
#print axioms Rsa.Props.C18.real_sqrt_contracts
#print axioms Rsa.Props.C18.design_once_per_partition
#print axioms Rsa.Props.C18.design_conditions
#print axioms Rsa.Props.C18.design_matrix_same_data
