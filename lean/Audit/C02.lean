import Rsa.Props.C02
#print axioms Rsa.Props.C02.train_mean_eq_mean_of_fold_means
#print axioms Rsa.Props.C02.lofo_eq_pair_average
#print axioms Rsa.Props.C02.crossnobis_eq_pair_average
#print axioms Rsa.Props.C02.crossnobis_identity_precision
#print axioms Rsa.Props.C02.crossnobis_foldprec_eq
#print axioms Rsa.Props.C02.poissoncv_eq_pair_average
#print axioms Rsa.Props.C02.no_within_fold_product
#print axioms Rsa.Props.C02.cv_obs_perm
#print axioms Rsa.Props.C02.cv_obs_perm_estimators
#print axioms Rsa.Props.C02.cv_fold_relabel
#print axioms Rsa.Props.C02.cv_fold_relabel_estimators
#print axioms Rsa.Props.C02.cv_channel_perm
#print axioms Rsa.Props.C02.cv_labels_from_descriptor
#print axioms Rsa.Props.C02.defaultCv_balanced
#print axioms Rsa.Props.C02.defaultCv_dataset_balanced
#print axioms Rsa.Props.C02.defaultCv_rejects_unbalanced
