import Rsa.Props.C20
#print axioms Rsa.Props.C20.split_join
#print axioms Rsa.Props.C20.join_split
#print axioms Rsa.Props.C20.bids_roundtrip
#print axioms Rsa.Props.C20.bids_rebuild
#print axioms Rsa.Props.C20.lookup_changes_only
#print axioms Rsa.Props.C20.meadows_segments
#print axioms Rsa.Props.C20.meadows_sort_labelled
#print axioms Rsa.Props.C20.meadows_components
#print axioms Rsa.Props.C20.epochs_mapping
#print axioms Rsa.Props.C20.mne_descriptors
#print axioms Rsa.Props.C20.columns_range_one_mean_zero
#print axioms Rsa.Props.C20.dm_dof
#print axioms Rsa.Props.C20.confounds_flagged
#print axioms Rsa.Props.C20.dm_one_column_per_condition
#print axioms Rsa.Props.C20.spm_filter_projection
#print axioms Rsa.Props.C20.spm_filter_runs_independent
#print axioms Rsa.Props.C20.spm_filter_idempotent
