/-
  driver — one JSON request per line on stdin, one JSON answer per line on stdout.
  request : {"op": "<name>", ...}      answer : {"ok": <value>} | {"err": "<message>"}
  Links no Mathlib: imports only `Rsa.Core`, `Rsa.Gen` and `Rsa.Drv`.
-/
import Rsa.Drv.All

open Lean Rsa.Wire

def answer (line : String) : String :=
  match Json.parse line with
  | .error e => (obj [("err", Json.str s!"parse: {e}")]).compress
  | .ok j =>
    match fld j "op" >>= asStr with
    | .error e => (obj [("err", Json.str e)]).compress
    | .ok op =>
      match Rsa.Drv.dispatch op j with
      | none => (obj [("err", Json.str s!"unknown op {op}")]).compress
      | some (.error e) => (obj [("err", Json.str e)]).compress
      | some (.ok v) => (obj [("ok", v)]).compress

partial def loop (hin hout : IO.FS.Stream) : IO Unit := do
  let line ← hin.getLine
  if line.isEmpty then return ()
  let l := line.trimAscii.toString
  if !l.isEmpty then
    hout.putStrLn (answer l)
    hout.flush
  loop hin hout

def main : IO Unit := do
  loop (← IO.getStdin) (← IO.getStdout)
