/-
  Helper lemmas for C08, part 4: the coded cosine pooling is a pooled target (`IsPool`);
  `Fit.meanSim` for the plain criteria is `meanSimIp`; linearity of `dot` with only the
  two summands of equal length; whitened cosine from a precision matrix.
-/
import Rsa.Lemmas.C08Algo

set_option linter.unusedSectionVars false
set_option linter.unusedVariables false
set_option linter.unusedSimpArgs false

namespace Rsa
namespace Fit
open Rsa.Compare

section more
variable {K : Type} [Field K]

/-- `dot` is additive in its first argument as soon as the two summands have equal length -/
theorem dot_vadd_left' (a b c : List K) (hab : a.length = b.length) :
    dot (vadd a b) c = dot a c + dot b c := by
  induction a generalizing b c with
  | nil => cases b with
    | nil => simp [vadd]
    | cons _ _ => simp at hab
  | cons x a ih => cases b with
    | nil => simp at hab
    | cons y b => cases c with
      | nil => simp
      | cons z c =>
        simp only [List.length_cons, Nat.add_right_cancel_iff] at hab
        have : vadd (x :: a) (y :: b) = (x + y) :: vadd a b := by simp [vadd]
        rw [this, dot_cons_cons, dot_cons_cons, dot_cons_cons, ih b c hab]
        ring

theorem dot_map_div_right (a l : List K) (r : K) :
    dot a (l.map (fun x => x / r)) = dot a l / r := by
  induction a generalizing l with
  | nil => simp
  | cons x a ih => cases l with
    | nil => simp
    | cons y l => simp only [List.map_cons, dot_cons_cons, ih l]; ring

theorem sum_sq_eq_dot (d : List K) : (d.map (fun a => a * a)).sum = dot d d := by
  induction d with
  | nil => simp
  | cons x d ih => simp [ih]

theorem foldr_vadd_length (m : ℕ) (rows : List (List K)) (h : ∀ r ∈ rows, r.length = m) :
    (rows.foldr vadd (List.replicate m 0)).length = m := by
  induction rows with
  | nil => simp
  | cons r rows ih =>
    simp only [List.foldr_cons]
    rw [vadd_length, h r (by simp), ih (fun r' hr' => h r' (List.mem_cons_of_mem _ hr'))]
    simp

theorem dot_foldr_vadd (m : ℕ) (rows : List (List K)) (a : List K)
    (h : ∀ r ∈ rows, r.length = m) :
    dot a (rows.foldr vadd (List.replicate m 0)) = (rows.map (dot a)).sum := by
  induction rows with
  | nil => simp [dot_comm' a, dot_replicate_zero]
  | cons r rows ih =>
    have h' : ∀ r' ∈ rows, r'.length = m := fun r' hr' => h r' (List.mem_cons_of_mem _ hr')
    simp only [List.foldr_cons, List.map_cons, List.sum_cons]
    rw [dot_comm' a, dot_vadd_left' r _ a (by rw [h r (by simp), foldr_vadd_length m rows h']),
      dot_comm' r a, dot_comm' _ a, ih h']

theorem dot_rowMean (m : ℕ) (rows : List (List K)) (a : List K) (h : ∀ r ∈ rows, r.length = m) :
    dot a (rowMean m rows) = (rows.map (dot a)).sum / (rows.length : K) := by
  unfold rowMean
  rw [dot_map_div_right, dot_foldr_vadd m rows a h]

theorem rowMean_length (m : ℕ) (rows : List (List K)) (h : ∀ r ∈ rows, r.length = m) :
    (rowMean m rows).length = m := by
  unfold rowMean
  rw [List.length_map, foldr_vadd_length m rows h]

end more

/-- the coded cosine pooling (`rdm / sqrt(mean(rdm²))`, then the mean over RDMs) is a pooled
    target for the plain inner product, with factor `√m / R` -/
theorem pool_cosine_isPool (m : ℕ) (hm : 0 < m) (sol : List ℝ → List ℝ) (data : List (List ℝ))
    (hne : data ≠ []) (hlen : ∀ d ∈ data, d.length = m) (hpos : ∀ d ∈ data, 0 < dot d d) :
    IsPool m dot data (pool .cosine sol data) (Real.sqrt m / (data.length : ℝ)) := by
  have hR : (0 : ℝ) < (data.length : ℝ) := by
    exact_mod_cast List.length_pos_of_ne_nil hne
  have hmR : (0 : ℝ) < (m : ℝ) := by exact_mod_cast hm
  have hhead : (data.headD []).length = m := by
    cases data with
    | nil => exact absurd rfl hne
    | cons d _ => exact hlen d (by simp)
  have hrows : ∀ r ∈ data.map (fun d =>
      d.map (fun a => a / HasSqrt.sqrt (mean (d.map (fun a => a * a))))), r.length = m := by
    intro r hr
    obtain ⟨d, hd, rfl⟩ := List.mem_map.mp hr
    rw [List.length_map]; exact hlen d hd
  refine ⟨div_pos (Real.sqrt_pos.mpr hmR) hR, ?_, ?_⟩
  · show (pool .cosine sol data).length = m
    unfold pool
    simp only [hhead]
    exact rowMean_length m _ hrows
  · intro a ha
    show dot a (pool .cosine sol data) = _
    unfold pool
    simp only [hhead]
    rw [dot_rowMean m _ a hrows, List.length_map, List.map_map]
    have e : (data.map ((dot a) ∘ fun d =>
        d.map (fun x => x / HasSqrt.sqrt (mean (d.map (fun a => a * a)))))) =
        data.map (fun d => Real.sqrt m * (dot a d / Real.sqrt (dot d d))) := by
      apply List.map_congr_left
      intro d hd
      simp only [Function.comp]
      rw [dot_map_div_right]
      have hs : mean (d.map (fun a => a * a)) = dot d d / (m : ℝ) := by
        unfold mean
        rw [sum_sq_eq_dot, List.length_map, hlen d hd]
      rw [hs, hasSqrt_real, Real.sqrt_div (hpos d hd).le]
      have h1 : 0 < Real.sqrt (dot d d) := Real.sqrt_pos.mpr (hpos d hd)
      have h2 : 0 < Real.sqrt (m : ℝ) := Real.sqrt_pos.mpr hmR
      field_simp
    rw [e, List.sum_map_mul_left]
    field_simp

/-! ### `Fit.meanSim` for the plain criteria -/

theorem mapM_some_map {β γ : Type} (f : β → γ) (l : List β) :
    l.mapM (fun d => (some (f d) : Option γ)) = some (l.map f) := by
  induction l with
  | nil => rfl
  | cons d l ih => simp [List.mapM_cons, ih]

theorem meanSim_cosine (V : List (List ℝ)) (x : List ℝ) (data : List (List ℝ)) :
    Fit.meanSim .cosine V x data = some (meanSimIp dot x data) := by
  unfold Fit.meanSim meanSimIp sim
  simp only
  rw [mapM_some_map]
  rfl

theorem meanSim_corr (V : List (List ℝ)) (x : List ℝ) (data : List (List ℝ)) :
    Fit.meanSim .corr V x data =
      some (meanSimIp (fun a b => dot (center a) (center b)) x data) := by
  unfold Fit.meanSim meanSimIp sim
  simp only
  rw [mapM_some_map]
  rfl

/-- `_cosine_cov_weighted_slow` with the solves `s = W r` of a precision matrix `W` is the
    guarded similarity of the `W`-weighted inner product -/
theorem wcosFrom_eq_simIp (W : List (List ℝ)) (r1 r2 : List ℝ)
    (h1 : 0 < ipW W r1 r1) (h2 : 0 < ipW W r2 r2) :
    wcosFrom r1 r2 (matVec W r1) (matVec W r2) = some (simIp (ipW W) r1 r2) := by
  unfold wcosFrom simIp
  have g1 : 0 < dot r1 (matVec W r1) := h1
  have g2 : 0 < dot r2 (matVec W r2) := h2
  simp only [hasSqrt_real]
  rw [if_pos ⟨g1, g2⟩, if_pos ⟨Real.sqrt_pos.mpr h1, Real.sqrt_pos.mpr h2⟩]
  rfl

end Fit
end Rsa
