/-
  Helper lemmas for C17, rank part: the count-form ranks (all five `rankdata` methods) only
  depend on the order relations among the entries, hence are unchanged by any map that is
  strictly increasing on the entries; scatter / present bookkeeping for missing values.
-/
import Mathlib.Order.Monotone.Basic
import Mathlib.Algebra.Order.Field.Basic
import Mathlib.Data.List.Basic
import Mathlib.Tactic.Linarith
import Mathlib.Tactic.Ring
import Mathlib.Tactic.Positivity
import Rsa.Core.Transform

set_option linter.unusedSectionVars false
set_option linter.unusedVariables false
set_option linter.unusedSimpArgs false
set_option linter.unnecessarySimpa false

namespace Rsa.Transform

open Rsa Rsa.Compare

/-- `f` preserves and reflects `<` among the entries of `x` -/
def OrdEmbOn {K : Type} [LT K] (f : K → K) (x : List K) : Prop :=
  ∀ a ∈ x, ∀ b ∈ x, (f a < f b ↔ a < b)

section
variable {K : Type} [Field K] [LinearOrder K] [IsStrictOrderedRing K]

theorem ordEmbOn_of_strictMonoOn {f : K → K} {s : Set K} (hf : StrictMonoOn f s) {x : List K}
    (hx : ∀ a ∈ x, a ∈ s) : OrdEmbOn f x :=
  fun a ha b hb => hf.lt_iff_lt (hx a ha) (hx b hb)

theorem OrdEmbOn.sublist {f : K → K} {x y : List K} (h : OrdEmbOn f x) (hy : ∀ a ∈ y, a ∈ x) :
    OrdEmbOn f y := fun a ha b hb => h a (hy a ha) b (hy b hb)

theorem cntLt_map {f : K → K} {x : List K} {a : K} (h : ∀ b ∈ x, (f b < f a ↔ b < a)) :
    cntLt (x.map f) (f a) = cntLt x a := by
  unfold cntLt
  rw [List.countP_map]
  apply List.countP_congr
  intro b hb
  simp [h b hb]

theorem cntEq_map {f : K → K} {x : List K} {a : K} (h1 : ∀ b ∈ x, (f b < f a ↔ b < a))
    (h2 : ∀ b ∈ x, (f a < f b ↔ a < b)) : cntEq (x.map f) (f a) = cntEq x a := by
  unfold cntEq
  rw [List.countP_map]
  apply List.countP_congr
  intro b hb
  simp [h1 b hb, h2 b hb]

theorem tiedB_map {f : K → K} {a b : K} (h1 : f a < f b ↔ a < b) (h2 : f b < f a ↔ b < a) :
    tiedB (f a) (f b) = tiedB a b := by
  unfold tiedB
  simp [h1, h2]

theorem mem_dedup {x : List K} {a : K} (h : a ∈ dedup x) : a ∈ x := by
  induction x with
  | nil => simp [dedup] at h
  | cons b t ih =>
    simp only [dedup, List.mem_cons] at h ⊢
    rcases h with h | h
    · exact Or.inl h
    · exact Or.inr (ih (List.mem_of_mem_filter h))

theorem dedup_map {f : K → K} {x : List K} (h : OrdEmbOn f x) :
    dedup (x.map f) = (dedup x).map f := by
  induction x with
  | nil => simp [dedup]
  | cons b t ih =>
    have ht : OrdEmbOn f t := h.sublist (fun a ha => List.mem_cons_of_mem _ ha)
    simp only [List.map_cons, dedup, ih ht, List.filter_map]
    congr 1
    congr 1
    apply List.filter_congr
    intro c hc
    have hc' : c ∈ b :: t := List.mem_cons_of_mem _ (mem_dedup hc)
    simp only [Function.comp]
    rw [tiedB_map (h b (List.mem_cons_self) c hc') (h c hc' b (List.mem_cons_self))]

theorem rankList_length (m : RankMethod) (x : List K) : (rankList m x).length = x.length := by
  cases m <;> simp [rankList, avgRank]

/-- all five rank methods are unchanged by a map that is strictly increasing on the entries -/
theorem rankList_map {f : K → K} {x : List K} (h : OrdEmbOn f x) (m : RankMethod) :
    rankList m (x.map f) = rankList m x := by
  have hl : ∀ a ∈ x, cntLt (x.map f) (f a) = cntLt x a :=
    fun a ha => cntLt_map (fun b hb => h b hb a ha)
  have he : ∀ a ∈ x, cntEq (x.map f) (f a) = cntEq x a :=
    fun a ha => cntEq_map (fun b hb => h b hb a ha) (fun b hb => h a ha b hb)
  cases m with
  | average =>
    simp only [rankList, avgRank, List.map_map]
    apply List.map_congr_left
    intro a ha
    simp only [Function.comp, rankOf, hl a ha, he a ha]
  | min =>
    simp only [rankList, List.map_map]
    apply List.map_congr_left
    intro a ha
    simp only [Function.comp, hl a ha]
  | max =>
    simp only [rankList, List.map_map]
    apply List.map_congr_left
    intro a ha
    simp only [Function.comp, hl a ha, he a ha]
  | dense =>
    simp only [rankList, List.map_map]
    apply List.map_congr_left
    intro a ha
    simp only [Function.comp, dedup_map h]
    rw [cntLt_map (fun b hb => h b (mem_dedup hb) a ha)]
  | ordinal =>
    simp only [rankList, List.zipIdx_map, List.map_map]
    apply List.map_congr_left
    rintro ⟨a, i⟩ hp
    have ha : a ∈ x := by
      obtain ⟨_, h2, h3⟩ := List.mem_zipIdx hp
      rw [h3]; exact List.getElem_mem _
    simp only [Function.comp, Prod.map, id, ordinalAt, hl a ha, ← List.map_take]
    rw [cntEq_map (fun b hb => h b (List.mem_of_mem_take hb) a ha)
      (fun b hb => h a ha b (List.mem_of_mem_take hb))]

end

/-! ### missing values: `present` and `scatter` -/

section scatter
variable {β γ : Type}

theorem present_map_some (x : List β) : present (x.map some) = x := by
  induction x with
  | nil => rfl
  | cons a t ih => simpa [present] using ih

theorem present_map (f : β → γ) (v : List (Option β)) :
    present (v.map (Option.map f)) = (present v).map f := by
  induction v with
  | nil => rfl
  | cons a t ih =>
    cases a with
    | none => simpa [present] using ih
    | some a => simpa [present] using ih

theorem scatter_length (v : List (Option β)) (rs : List γ) : (scatter v rs).length = v.length := by
  induction v generalizing rs with
  | nil => rfl
  | cons a t ih =>
    cases a with
    | none => simp [scatter, ih]
    | some a => cases rs <;> simp [scatter, ih]

/-- scattering `rs` (one value per non-missing entry) and reading the non-missing entries
    back gives `rs` -/
theorem present_scatter (v : List (Option β)) (rs : List γ) (h : rs.length = (present v).length) :
    present (scatter v rs) = rs := by
  induction v generalizing rs with
  | nil => cases rs with
    | nil => rfl
    | cons r rs => simp [present] at h
  | cons a t ih =>
    cases a with
    | none =>
      have : rs.length = (present t).length := by simpa [present] using h
      simpa [scatter, present] using ih rs this
    | some a =>
      cases rs with
      | nil => simp [present] at h
      | cons r rs =>
        have : rs.length = (present t).length := by simpa [present] using h
        have := ih rs this
        simp only [present] at this
        simp only [scatter, present, List.filterMap_cons, id]
        exact congrArg (r :: ·) this

/-- the missing positions of the result are exactly the missing positions of the input -/
theorem scatter_none_iff (v : List (Option β)) (rs : List γ) (h : rs.length = (present v).length)
    (i : Nat) : (scatter v rs)[i]? = some none ↔ v[i]? = some none := by
  induction v generalizing rs i with
  | nil => simp [scatter]
  | cons a t ih =>
    cases a with
    | none =>
      have h' : rs.length = (present t).length := by simpa [present] using h
      cases i with
      | zero => simp [scatter]
      | succ i => simpa [scatter] using ih rs h' i
    | some a =>
      cases rs with
      | nil => simp [present] at h
      | cons r rs =>
        have h' : rs.length = (present t).length := by simpa [present] using h
        cases i with
        | zero => simp [scatter]
        | succ i => simpa [scatter] using ih rs h' i

theorem scatter_map_left (f : β → β) (v : List (Option β)) (rs : List γ) :
    scatter (v.map (Option.map f)) rs = scatter v rs := by
  induction v generalizing rs with
  | nil => rfl
  | cons a t ih =>
    cases a with
    | none => simp [scatter, ih]
    | some a => cases rs <;> simp [scatter, ih]

end scatter

end Rsa.Transform
