/- C10 helper lemmas, vector level: each vector algorithm of the model (`maskVec`, `reindexVec`,
   `scatterVec`) applied to a rendered vector is the rendering of the re-indexed provenance -/
import Rsa.Lemmas.C10Tri
import Rsa.Core.Rdm

set_option linter.unusedSectionVars false
set_option linter.unusedVariables false
set_option linter.unusedSimpArgs false

namespace Rsa.Rdm

open Rsa

variable {α : Type}

/-! ### `entryOf` -/

theorem entryOf_symm (e : Nat → Nat → Option α) (hs : ∀ x y, e x y = e y x) (a b : Option Nat) :
    entryOf e a b = entryOf e b a := by
  cases a <;> cases b <;> simp only [entryOf]
  rename_i x y
  by_cases h : x = y
  · subst h; rfl
  · have h' : ¬ y = x := fun e => h e.symm
    simp [h, h', hs x y]

theorem entryOf_self (e : Nat → Nat → Option α) (a : Option Nat) : entryOf e a a = none := by
  cases a <;> simp [entryOf]

theorem entryOf_none_left (e : Nat → Nat → Option α) (b : Option Nat) : entryOf e none b = none := by
  simp [entryOf]

theorem entryOf_none_right (e : Nat → Nat → Option α) (a : Option Nat) : entryOf e a none = none := by
  cases a <;> simp [entryOf]

theorem renderVec_length (e : Nat → Nat → Option α) (cp : List (Option Nat)) :
    (renderVec e cp).length = triLen cp.length := by
  simp [renderVec, pairsOf_length, triLen]

/-! ### square form of a rendered vector -/

theorem matOf_render (e : Nat → Nat → Option α) (hs : ∀ x y, e x y = e y x)
    (cp : List (Option Nat)) (diag : Option α) (i j : Nat)
    (hi : i < cp.length) (hj : j < cp.length) (hne : i ≠ j) :
    matOf cp.length diag (renderVec e cp) i j = entryOf e (cp.getD i none) (cp.getD j none) := by
  wlog hij : i < j generalizing i j
  · have hji : j < i := by omega
    unfold matOf
    rw [vecToMat_symm, entryOf_symm e hs]
    exact this j i hj hi (Ne.symm hne) hji
  unfold matOf
  rw [vecToMat_upper _ _ _ _ _ _ hij, List.getD_eq_getElem?_getD]
  unfold renderVec
  rw [List.getElem?_map, pairsOf_getElem? cp i j hij hj]
  simp [List.getD_eq_getElem?_getD, List.getElem?_eq_getElem hi, List.getElem?_eq_getElem hj]

/-! ### masks (`subset_pattern`) -/

/-- keep the members of `l` whose mask bit is set -/
def pickMask {β : Type} (mask : List Bool) (l : List β) : List β :=
  ((mask.zip l).filter (·.1)).map (·.2)

theorem maskVec_left {β γ : Type} (f : β × β → γ) (m : Bool) (c : β) (rest : List (Bool × β)) :
    ((((rest.map Prod.fst).map (fun y => (m, y))).zip
        (((rest.map Prod.snd).map (fun y => (c, y))).map f)).filterMap
      (fun mv => if mv.1.1 && mv.1.2 then some mv.2 else none))
    = if m then ((rest.filter (·.1)).map Prod.snd).map (fun y => f (c, y)) else [] := by
  induction rest with
  | nil => cases m <;> rfl
  | cons r rs ih =>
    obtain ⟨rm, rc⟩ := r
    cases m
    · simp only [List.map_cons, List.zip_cons_cons, List.filterMap_cons, Bool.false_and] at ih ⊢
      simpa using ih
    · cases rm
      · simp only [List.map_cons, List.zip_cons_cons, List.filterMap_cons, Bool.true_and,
          List.filter_cons] at ih ⊢
        simpa using ih
      · simp only [List.map_cons, List.zip_cons_cons, List.filterMap_cons, Bool.true_and,
          List.filter_cons] at ih ⊢
        simpa using ih

theorem maskVec_aux {β γ : Type} (f : β × β → γ) (xs : List (Bool × β)) :
    ((pairsOf (xs.map Prod.fst)).zip ((pairsOf (xs.map Prod.snd)).map f)).filterMap
      (fun mv => if mv.1.1 && mv.1.2 then some mv.2 else none)
    = (pairsOf ((xs.filter (·.1)).map Prod.snd)).map f := by
  induction xs with
  | nil => rfl
  | cons x rest ih =>
    obtain ⟨m, c⟩ := x
    simp only [List.map_cons, pairsOf, List.map_append]
    rw [List.zip_append (by simp), List.filterMap_append, ih, maskVec_left]
    cases m
    · simp
    · simp [pairsOf, List.map_map, Function.comp_def]

/-- the generated leaf (the source's `&`) is the conjunction of the two mask bits -/
theorem pairSelected_spec (a b : Bool) :
    (Rsa.Gen.C10.pairSelected a.toNat b.toNat == 1) = (a && b) := by
  cases a <;> cases b <;> rfl

theorem maskVec_def {β : Type} (mask : List Bool) (v : List (Option β)) :
    maskVec mask v = ((pairsOf mask).zip v).filterMap
      (fun mv => if mv.1.1 && mv.1.2 then some mv.2 else none) := by
  unfold maskVec
  congr 1
  funext mv
  rw [pairSelected_spec]

theorem maskVec_render (e : Nat → Nat → Option α) (mask : List Bool) (cp : List (Option Nat))
    (hlen : mask.length = cp.length) :
    maskVec mask (renderVec e cp) = renderVec e (pickMask mask cp) := by
  rw [maskVec_def]
  have h := maskVec_aux (fun p : Option Nat × Option Nat => entryOf e p.1 p.2) (mask.zip cp)
  rw [List.map_fst_zip (by omega), List.map_snd_zip (by omega)] at h
  exact h

/-- positions found by `idxWhereFrom` lie in the scanned window -/
theorem idxWhereFrom_range {β : Type} (q : β → Bool) (k : Nat) (col : List β) :
    ∀ i ∈ idxWhereFrom q k col, k ≤ i ∧ i < k + col.length := by
  induction col generalizing k with
  | nil => simp [idxWhereFrom]
  | cons c cs ih =>
    intro i hi
    simp only [idxWhereFrom] at hi
    split at hi
    · rcases List.mem_cons.mp hi with rfl | hi
      · simp
      · have := ih (k + 1) i hi; simp only [List.length_cons]; omega
    · have := ih (k + 1) i hi; simp only [List.length_cons]; omega

theorem idxWhere_lt {β : Type} (q : β → Bool) (col : List β) :
    ∀ i ∈ idxWhere q col, i < col.length := by
  intro i hi
  have := idxWhereFrom_range q 0 col i hi
  omega

/-- selecting by the index list `np.where(mask)` = selecting by the mask -/
theorem pick_idxWhereFrom {β γ : Type} (q : β → Bool) (d : γ) (k : Nat) (col : List β) (l : List γ)
    (hlen : col.length = l.length) :
    (idxWhereFrom q k col).map (fun i => l.getD (i - k) d) = pickMask (col.map q) l := by
  induction col generalizing k l with
  | nil => simp [idxWhereFrom, pickMask]
  | cons c cs ih =>
    cases l with
    | nil => simp at hlen
    | cons y ys =>
      have hlen' : cs.length = ys.length := by simpa using hlen
      have tail : (idxWhereFrom q (k + 1) cs).map (fun i => (y :: ys).getD (i - k) d)
          = pickMask (cs.map q) ys := by
        rw [← ih (k + 1) ys hlen']
        apply List.map_congr_left
        intro i hi
        have := idxWhereFrom_range q (k + 1) cs i hi
        have e : i - k = (i - (k + 1)) + 1 := by omega
        rw [e, List.getD_cons_succ]
      simp only [idxWhereFrom]
      by_cases hq : q c = true
      · simp only [hq, if_true, List.map_cons, Nat.sub_self, List.getD_cons_zero, tail]
        simp [pickMask, hq]
      · have hq' : q c = false := by simpa using hq
        simp only [hq', Bool.false_eq_true, if_false, tail]
        simp [pickMask, hq']

theorem pick_idxWhere {β γ : Type} (q : β → Bool) (d : γ) (col : List β) (l : List γ)
    (hlen : col.length = l.length) :
    pick d l (idxWhere q col) = pickMask (col.map q) l := by
  have := pick_idxWhereFrom q d 0 col l hlen
  simpa [pick, idxWhere] using this

/-! ### fancy indexing (`reorder`, `subsample_pattern`, `permute_rdms`) -/

theorem map_getD_range {β : Type} (l : List β) (d : β) :
    (List.range l.length).map (fun a => l.getD a d) = l := by
  apply List.ext_getElem
  · simp
  · intro i h1 h2
    simp [List.getD_eq_getElem?_getD, List.getElem?_eq_getElem h2]

theorem reindexVec_render (e : Nat → Nat → Option α) (hs : ∀ x y, e x y = e y x)
    (cp : List (Option Nat)) (diag : Option α) (ord : List Nat)
    (hord : ∀ a ∈ ord, a < cp.length) (hd : diag = none ∨ ord.Nodup) :
    reindexVec cp.length diag ord (renderVec e cp) = renderVec e (pick none cp ord) := by
  have hrhs : renderVec e (pick none cp ord)
      = (pairs ord.length).map (fun p =>
          entryOf e (cp.getD (ord.getD p.1 0) none) (cp.getD (ord.getD p.2 0) none)) := by
    unfold renderVec pick pairs
    conv_lhs => rw [← map_getD_range ord 0]
    rw [List.map_map, pairsOf_map, List.map_map]
    rfl
  rw [hrhs]
  unfold reindexVec matToVec
  apply List.map_congr_left
  intro p hp
  have hlt := mem_pairs hp
  have h1 : p.1 < ord.length := by omega
  have h2 : p.2 < ord.length := hlt.2
  have ea : ord.getD p.1 0 = ord[p.1] := by
    simp [List.getD_eq_getElem?_getD, List.getElem?_eq_getElem h1]
  have eb : ord.getD p.2 0 = ord[p.2] := by
    simp [List.getD_eq_getElem?_getD, List.getElem?_eq_getElem h2]
  have ha : ord[p.1] < cp.length := hord _ (List.getElem_mem h1)
  have hb : ord[p.2] < cp.length := hord _ (List.getElem_mem h2)
  show matOf cp.length diag (renderVec e cp) (ord.getD p.1 0) (ord.getD p.2 0) = _
  rw [ea, eb]
  by_cases hab : ord[p.1] = ord[p.2]
  · rcases hd with hd | hd
    · rw [hab, entryOf_self]
      subst hd
      simp [matOf, vecToMat_diag]
    · have := (List.Nodup.getElem_inj_iff hd).mp hab
      omega
  · exact matOf_render e hs cp diag _ _ ha hb hab

/-! ### scatter (`from_partials`) -/

theorem scatterVec_render [Zero α] (e : Nat → Nat → Option α) (hs : ∀ x y, e x y = e y x)
    (cp : List (Option Nat)) (bigN : Nat) (pidx : List Nat) (hlen : pidx.length = cp.length) :
    scatterVec cp.length bigN pidx (renderVec e cp) = renderVec e (scatterCp bigN pidx cp) := by
  have hrhs : renderVec e (scatterCp bigN pidx cp)
      = (pairs bigN).map (fun p =>
          entryOf e ((pidx.idxOf? p.1).bind (fun x => cp.getD x none))
                    ((pidx.idxOf? p.2).bind (fun x => cp.getD x none))) := by
    unfold renderVec scatterCp pairs
    rw [pairsOf_map, List.map_map]
    rfl
  rw [hrhs]
  unfold scatterVec matToVec
  apply List.map_congr_left
  intro p hp
  have hlt := mem_pairs hp
  beta_reduce
  cases h1 : pidx.idxOf? p.1 with
  | none => simp [entryOf_none_left]
  | some x =>
    cases h2 : pidx.idxOf? p.2 with
    | none => simp [entryOf_none_right]
    | some y =>
      obtain ⟨hx, hx', _⟩ := List.idxOf?_eq_some_iff.mp h1
      obtain ⟨hy, hy', _⟩ := List.idxOf?_eq_some_iff.mp h2
      have hxy : x ≠ y := by
        intro hxy; subst hxy
        rw [hx'] at hy'; omega
      simp only [Option.bind_some]
      exact matOf_render e hs cp (some 0) x y (by omega) (by omega) hxy

end Rsa.Rdm
