/-
  Helper lemmas for property C13, round 3: the weighted mean as minimiser of the weighted squared
  error (one half-step of `_rescale`), sums of squares under scaling, positivity of the rescaling weights.
-/
import Rsa.Lemmas.C13Mean
import Mathlib.Tactic.Ring
import Mathlib.Tactic.Linarith
import Mathlib.Tactic.Positivity

set_option linter.unusedSectionVars false
set_option linter.unusedVariables false
set_option linter.unusedSimpArgs false

namespace Rsa.Nan

open Rsa Rsa.Compare

section wsq
variable {K : Type} [Field K] [LinearOrder K] [IsStrictOrderedRing K]

/-- weighted squared error of a candidate estimate `e` against (value, weight) pairs -/
def wsq (l : List (K × K)) (e : K) : K := (l.map (fun p => p.2 * (p.1 - e) ^ 2)).sum

/-- Σ w (v − e)² = Σ w v² − 2 e Σ v w + e² Σ w -/
theorem wsq_expand (l : List (K × K)) (e : K) :
    wsq l e = (l.map (fun p => p.2 * p.1 ^ 2)).sum - 2 * e * (l.map (fun p => p.1 * p.2)).sum
      + e ^ 2 * (l.map (·.2)).sum := by
  induction l with
  | nil => simp [wsq]
  | cons a l ih =>
    simp only [wsq, List.map_cons, List.sum_cons] at ih ⊢
    rw [ih]
    ring

/-- Pythagoras for the weighted mean `m = Σ v w / Σ w`:
    Σ w (v − e)² = Σ w (v − m)² + (Σ w)(m − e)² -/
theorem wsq_decomp (l : List (K × K)) (e : K) (hW : (l.map (·.2)).sum ≠ 0) :
    wsq l e = wsq l ((l.map (fun p => p.1 * p.2)).sum / (l.map (·.2)).sum)
      + (l.map (·.2)).sum * ((l.map (fun p => p.1 * p.2)).sum / (l.map (·.2)).sum - e) ^ 2 := by
  rw [wsq_expand, wsq_expand]
  field_simp
  ring

theorem wsq_mean_le (l : List (K × K)) (e : K) (hW : 0 < (l.map (·.2)).sum) :
    wsq l ((l.map (fun p => p.1 * p.2)).sum / (l.map (·.2)).sum) ≤ wsq l e := by
  rw [wsq_decomp l e hW.ne']
  have : 0 ≤ (l.map (·.2)).sum * ((l.map (fun p => p.1 * p.2)).sum / (l.map (·.2)).sum - e) ^ 2 :=
    mul_nonneg hW.le (sq_nonneg _)
  linarith

end wsq

section ss

theorem ssO_map_mul (v : List (Option ℝ)) (c : ℝ) :
    ssO (v.map (fun o => o.map (fun a => a * c))) = c ^ 2 * ssO v := by
  induction v with
  | nil => simp [ssO]
  | cons o v ih =>
    simp only [ssO, List.map_cons, List.map_map] at ih ⊢
    cases o with
    | none => simpa using ih
    | some a =>
      simp only [Option.map_some, nansum_cons_some, ih]
      ring

theorem ssO_nonneg (v : List (Option ℝ)) : 0 ≤ ssO v := by
  induction v with
  | nil => simp [ssO]
  | cons o v ih =>
    simp only [ssO, List.map_cons] at ih ⊢
    cases o with
    | none => simpa using ih
    | some a =>
      simp only [Option.map_some, nansum_cons_some]
      nlinarith [mul_self_nonneg a]

end ss

section count
variable {α : Type}

theorem count_pos_of_mem (row : List (Option α)) (d : α) (h : some d ∈ row) : 0 < count row := by
  unfold count delete
  apply List.length_pos_of_mem (a := d)
  exact List.mem_filterMap.mpr ⟨some d, h, rfl⟩

end count

end Rsa.Nan
