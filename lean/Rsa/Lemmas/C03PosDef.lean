/-
  Helper lemmas for C03 (round 2): for `sigma_k = None` the covariance `V = getV n none` of the
  RDM entries is symmetric positive definite for every number of conditions
  (`symPosDef_getV_none`): `sᵀVs = ‖Lap s‖_F²` (`quad_getV_none`) and the off-diagonal
  entries of the Laplacian `Lap s = Σ_p s_p c_p c_pᵀ` are `−s_p` (`Lap_offdiag`).
-/
import Rsa.Lemmas.C03Cka

set_option linter.unusedVariables false
set_option linter.unusedSectionVars false
set_option linter.unusedSimpArgs false
open Finset Rsa Rsa.Compare

namespace Rsa.Compare

/-- for `k < l` the product of the two contrast entries of a pair `p = (a,b)`, `a < b`, is
    `-1` exactly when `p = (k,l)` and `0` otherwise -/
theorem contrast_mul_of_lt (p : ℕ × ℕ) (hp : p.1 < p.2) (k l : ℕ) (hkl : k < l) :
    (contrast p k * contrast p l : ℝ) = if k = p.1 ∧ l = p.2 then -1 else 0 := by
  obtain ⟨a, b⟩ := p
  simp only at hp
  unfold contrast
  simp only
  have hab : a ≠ b := by omega
  have hba : b ≠ a := by omega
  by_cases h1 : k = a <;> by_cases h2 : l = b <;> by_cases h3 : k = b <;> by_cases h4 : l = a <;>
    simp [h1, h2, h3, h4, hab, hba] <;> omega

theorem sum_zip_indicator {β : Type} [DecidableEq β] (l : List β) (hl : l.Nodup) (s : List ℝ)
    (i : ℕ) (hi : i < l.length) (hs : l.length = s.length) :
    ((l.zip s).map (fun z => z.2 * (if z.1 = l[i] then (-1 : ℝ) else 0))).sum = -(s.getD i 0) := by
  induction l generalizing s i with
  | nil => simp at hi
  | cons a l ih =>
    cases s with
    | nil => simp at hs
    | cons b s =>
      rw [List.nodup_cons] at hl
      simp only [List.length_cons, Nat.add_right_cancel_iff] at hs
      have hzero : ((l.zip s).map (fun z => z.2 * (if z.1 = a then (-1 : ℝ) else 0))).sum = 0 := by
        apply List.sum_eq_zero
        intro x hx
        obtain ⟨z, hz, rfl⟩ := List.mem_map.mp hx
        have : z.1 ≠ a := fun e => hl.1 (e ▸ (List.of_mem_zip hz).1)
        simp [this]
      cases i with
      | zero =>
        simp only [List.zip_cons_cons, List.map_cons, List.sum_cons, List.getElem_cons_zero,
          if_true, List.getD_cons_zero]
        rw [hzero]; ring
      | succ i =>
        have hi' : i < l.length := by simpa using hi
        have hne : a ≠ l[i] := fun e => hl.1 (e ▸ List.getElem_mem hi')
        simp only [List.zip_cons_cons, List.map_cons, List.sum_cons, List.getElem_cons_succ,
          List.getD_cons_succ]
        rw [ih hl.2 s i hi' hs]
        simp [hne]

/-- off-diagonal entries of the Laplacian are minus the weights -/
theorem Lap_offdiag (n : ℕ) (s : List ℝ) (hs : s.length = triLen n) (i : ℕ) (hi : i < (pairs n).length) :
    Lap ((pairs n).zip s) (pairs n)[i].1 (pairs n)[i].2 = -(s.getD i 0) := by
  have hp := mem_pairs (List.getElem_mem hi)
  unfold Lap
  rw [← sum_zip_indicator (pairs n) (pairs_nodup n) s i hi (by rw [pairs_length, hs])]
  congr 1
  apply List.map_congr_left
  intro z hz
  have hz1 := mem_pairs (List.of_mem_zip hz).1
  rw [contrast_mul_of_lt z.1 hz1.1 _ _ hp.1]
  congr 1
  apply if_congr _ rfl rfl
  constructor
  · rintro ⟨e1, e2⟩; exact Prod.ext e1.symm e2.symm
  · intro e; rw [e]; exact ⟨rfl, rfl⟩

theorem frob_self_pos (n : ℕ) (M : ℕ → ℕ → ℝ) (k l : ℕ) (hk : k < n) (hl : l < n) (h : M k l ≠ 0) :
    0 < frob n M M := by
  unfold frob
  have h1 : ∀ a ∈ range n, 0 ≤ ∑ b ∈ range n, M a b * M a b :=
    fun a _ => Finset.sum_nonneg (fun b _ => mul_self_nonneg _)
  calc 0 < M k l * M k l := mul_self_pos.mpr h
    _ ≤ ∑ b ∈ range n, M k b * M k b :=
        Finset.single_le_sum (f := fun b => M k b * M k b) (fun b _ => mul_self_nonneg _) (Finset.mem_range.mpr hl)
    _ ≤ _ := Finset.single_le_sum (f := fun a => ∑ b ∈ range n, M a b * M a b) h1 (Finset.mem_range.mpr hk)

/-- `sᵀ V s = ‖Lap s‖_F²` for `V = getV n none` -/
theorem quad_getV_none (n : ℕ) (s : List ℝ) :
    dot s (matVec (getV n (SigmaK.none : SigmaK ℝ)) s)
      = frob n (Lap ((pairs n).zip s)) (Lap ((pairs n).zip s)) := by
  rw [matVec_getV_none, dot_comm, dot_map_left]
  rw [← sum_dist_eq_frob n _ (Lap_symm _) ((pairs n).zip s)
    (fun z hz => mem_pairs_lt (List.of_mem_zip hz).1)]
  congr 1
  apply List.map_congr_left
  intro z _
  ring

theorem ent_vSpec (n : ℕ) (σ : ℕ → ℕ → ℝ) (i j : ℕ) (hi : i < (pairs n).length)
    (hj : j < (pairs n).length) :
    ent (vSpec n σ) i j = xiSpec σ (pairs n)[i] (pairs n)[j] * xiSpec σ (pairs n)[i] (pairs n)[j] := by
  unfold ent vSpec
  simp [List.getD_eq_getElem?_getD, List.getElem?_map, List.getElem?_eq_getElem hi,
    List.getElem?_eq_getElem hj]

/-- for `sigma_k = None` the covariance `V` of the RDM entries is symmetric positive
    definite, for every number of conditions: `sᵀVs = ‖Σ_p s_p c_p c_pᵀ‖_F²` and the
    off-diagonal entries of that Laplacian are `−s_p`. -/
theorem symPosDef_getV_none (n : ℕ) :
    SymPosDef (getV n (SigmaK.none : SigmaK ℝ)) (triLen n) := by
  have hlen : (pairs n).length = triLen n := pairs_length n
  have hrows : (getV n (SigmaK.none : SigmaK ℝ)).length = triLen n := by simp [getV, hlen]
  have hcols : ∀ r ∈ getV n (SigmaK.none : SigmaK ℝ), r.length = triLen n := by
    intro r hr
    simp only [getV, List.mem_map] at hr
    obtain ⟨p, _, rfl⟩ := hr
    simp [hlen]
  refine ⟨hrows, hcols, ?_, ?_⟩
  · intro i j hi hj
    rw [getV_eq_vSpec, ent_vSpec n _ i j (hlen ▸ hi) (hlen ▸ hj), ent_vSpec n _ j i (hlen ▸ hj) (hlen ▸ hi)]
    have : ∀ p q : ℕ × ℕ, xiSpec (SigmaK.none : SigmaK ℝ).entry p q
        = xiSpec (SigmaK.none : SigmaK ℝ).entry q p := by
      intro p q
      rw [xi_none, xi_none]
      unfold contrast
      have e : ∀ a b : ℕ, (if a = b then (1 : ℝ) else 0) = if b = a then 1 else 0 := by
        intro a b; by_cases h : a = b <;> simp [h, eq_comm]
      rw [e p.1 q.1, e p.1 q.2, e p.2 q.1, e p.2 q.2]
      ring
    rw [this]
  · intro f hf
    obtain ⟨i, hi, hne⟩ := hf
    set s := (List.range (triLen n)).map f with hs
    have hsl : s.length = triLen n := by simp [hs]
    have hget : ∀ a, a < triLen n → s.getD a 0 = f a := by
      intro a ha
      rw [List.getD_eq_getElem _ _ (by simpa [hs] using ha)]
      simp [hs]
    have hQ : Q (getV n (SigmaK.none : SigmaK ℝ)) (triLen n) f f
        = dot s (matVec (getV n (SigmaK.none : SigmaK ℝ)) s) := by
      rw [dot_matVec hrows hcols s s hsl hsl]
      unfold Q
      apply Finset.sum_congr rfl
      intro a ha
      apply Finset.sum_congr rfl
      intro b hb
      simp only [hget a (Finset.mem_range.mp ha), hget b (Finset.mem_range.mp hb)]
    rw [hQ, quad_getV_none]
    have hi' : i < (pairs n).length := hlen ▸ hi
    have hp := mem_pairs_lt (List.getElem_mem hi')
    apply frob_self_pos n _ (pairs n)[i].1 (pairs n)[i].2 hp.1 hp.2
    rw [Lap_offdiag n s hsl i hi', hget i hi]
    exact neg_ne_zero.mpr hne

end Rsa.Compare
