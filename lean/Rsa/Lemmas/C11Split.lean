/-
  Helper lemmas for property C11: split / merge bookkeeping, label order.
-/
import Mathlib.Data.String.Basic
import Mathlib.Algebra.Order.Ring.Rat
import Rsa.Lemmas.C11Inv

set_option linter.unusedSectionVars false
set_option linter.unusedVariables false
set_option linter.unusedSimpArgs false

namespace Rsa.Lemmas.C11

open Rsa.Dataset

variable {α β γ : Type}

theorem Lbl.le_total' (a b : Lbl) : (Lbl.le a b || Lbl.le b a) = true := by
  cases a <;> cases b <;> simp [Lbl.le, Lbl.rank] <;> exact _root_.le_total _ _

theorem Lbl.le_trans' (a b c : Lbl) : Lbl.le a b = true → Lbl.le b c = true → Lbl.le a c = true := by
  cases a <;> cases b <;> cases c <;> simp [Lbl.le, Lbl.rank] <;> exact _root_.le_trans

/-- the filter of `subset_time` (the comparison chain generated from the source text) is
    `t_from ≤ t ≤ t_to`, both ends inclusive -/
theorem between_eq (lo t hi : Lbl) : Lbl.between lo t hi = (Lbl.le lo t && Lbl.le t hi) := by
  cases lo <;> cases t <;> cases hi <;>
    simp [Lbl.between, Lbl.numVal, subsetTimeKeep_eq, Lbl.le]

theorem zipIdx_map_sel [DecidableEq β] {δ : Type} (col : List β) (F : β → Nat → List Nat → δ) :
    (uniqueFirst col).zipIdx.map (fun p => F p.1 p.2 (selectionOf col p.2))
      = (uniqueFirst col).map (fun u => F u ((uniqueFirst col).idxOf u) (indicesWhere (fun x => x == u) col)) := by
  apply List.ext_getElem?
  intro a
  simp only [List.getElem?_map, List.getElem?_zipIdx, Nat.zero_add]
  cases hu : (uniqueFirst col)[a]? with
  | none => simp
  | some u =>
    have hlt : a < (uniqueFirst col).length := (List.getElem?_eq_some_iff.1 hu).1
    have hua : (uniqueFirst col)[a] = u := (List.getElem?_eq_some_iff.1 hu).2
    simp only [Option.map_some, Option.some.injEq]
    rw [selectionOf_eq col a hlt, hua]
    have : (uniqueFirst col).idxOf u = a := by
      rw [← hua]; exact (nodup_uniqueFirst col).idxOf_getElem a hlt
    rw [this]

/-- measurements of the parts of `split_obs`, in index form -/
theorem splitObs_meas {d : DS α} {by_ : String} {col : Col} {parts : List (DS α)}
    (hcol : d.obs.col by_ = some col) (hp : splitObs by_ d = some parts) :
    parts.map (·.meas) = (uniqueFirst col).map
      (fun u => gather (indicesWhere (fun x => x == u) col) d.meas) := by
  unfold splitObs at hp
  simp only [hcol, Option.some.injEq] at hp
  rw [← hp, List.map_map]
  have := zipIdx_map_sel col (fun _ _ sel => gather sel d.meas)
  rw [show ((fun x : DS α => x.meas) ∘ fun x : Lbl × Nat =>
      if d.temporal = true then gatherObs (selectionOf col x.2) d
      else { gatherObs (selectionOf col x.2) d with
             desc := setKey by_ x.1 (gatherObs (selectionOf col x.2) d).desc })
    = fun p => gather (selectionOf col p.2) d.meas from by
      funext x; simp only [Function.comp]; split <;> rfl]
  exact this

theorem splitObs_obs {d : DS α} {by_ : String} {col : Col} {parts : List (DS α)}
    (hcol : d.obs.col by_ = some col) (hp : splitObs by_ d = some parts) :
    parts.map (·.obs) = (uniqueFirst col).map
      (fun u => Tbl.gather (indicesWhere (fun x => x == u) col) d.obs) := by
  unfold splitObs at hp
  simp only [hcol, Option.some.injEq] at hp
  rw [← hp, List.map_map]
  have := zipIdx_map_sel col (fun _ _ sel => Tbl.gather sel d.obs)
  rw [show ((fun x : DS α => x.obs) ∘ fun x : Lbl × Nat =>
      if d.temporal = true then gatherObs (selectionOf col x.2) d
      else { gatherObs (selectionOf col x.2) d with
             desc := setKey by_ x.1 (gatherObs (selectionOf col x.2) d).desc })
    = fun p => Tbl.gather (selectionOf col p.2) d.obs from by
      funext x; simp only [Function.comp]; split <;> rfl]
  exact this

theorem merge_meas {sets : List (DS α)} {m : DS α} (hm : merge sets = some m) :
    m.meas = (sets.map (·.meas)).flatten := by
  cases sets with
  | nil => simp [merge] at hm
  | cons d0 rest =>
    simp only [merge, Option.some.injEq] at hm
    rw [← hm]

theorem gather_perm {idx : List Nat} {l : List β} (h : idx.Perm (List.range l.length)) :
    (gather idx l).Perm l := by
  have := h.filterMap (fun i => l[i]?)
  have h2 : List.filterMap (fun i => l[i]?) (List.range l.length) = l := gather_range l
  unfold gather
  rw [h2] at this
  exact this

theorem evens_odds_perm : ∀ (l : List β), (evens l ++ odds l).Perm l
  | [] => by simp [evens, odds]
  | [x] => by simp [evens, odds]
  | x :: y :: r => by
    simp only [evens, odds, List.cons_append]
    refine List.Perm.cons x ?_
    have ih := evens_odds_perm r
    exact (List.perm_middle.trans (List.Perm.cons y ih))

theorem evens_map (f : β → γ) : ∀ (l : List β), evens (l.map f) = (evens l).map f
  | [] => rfl
  | [x] => rfl
  | x :: y :: r => by simp [evens, evens_map f r]

theorem odds_map (f : β → γ) : ∀ (l : List β), odds (l.map f) = (odds l).map f
  | [] => rfl
  | [x] => rfl
  | x :: y :: r => by simp [odds, odds_map f r]


theorem splitChan_meas {d : DS α} {by_ : String} {col : Col} {parts : List (DS α)}
    (hcol : d.chan.col by_ = some col) (hp : splitChan by_ d = some parts) :
    parts.map (·.meas) = (uniqueFirst col).map
      (fun u => d.meas.map (fun r => gather (indicesWhere (fun x => x == u) col) r)) := by
  unfold splitChan at hp
  simp only [hcol, Option.some.injEq] at hp
  rw [← hp, List.map_map]
  exact zipIdx_map_sel col (fun _ _ sel => d.meas.map (fun r => gather sel r))

theorem splitChan_chan {d : DS α} {by_ : String} {col : Col} {parts : List (DS α)}
    (hcol : d.chan.col by_ = some col) (hp : splitChan by_ d = some parts) :
    parts.map (·.chan) = (uniqueFirst col).map
      (fun u => Tbl.gather (indicesWhere (fun x => x == u) col) d.chan) := by
  unfold splitChan at hp
  simp only [hcol, Option.some.injEq] at hp
  rw [← hp, List.map_map]
  exact zipIdx_map_sel col (fun _ _ sel => Tbl.gather sel d.chan)

theorem splitChan_rest {d : DS α} {by_ : String} {parts : List (DS α)}
    (hp : splitChan by_ d = some parts) : ∀ p ∈ parts, p.obs = d.obs ∧ p.time = d.time := by
  unfold splitChan at hp
  cases hcol : d.chan.col by_ with
  | none => simp [hcol] at hp
  | some col =>
    simp only [hcol, Option.some.injEq] at hp
    subst hp
    intro p hp
    obtain ⟨x, _, rfl⟩ := List.mem_map.1 hp
    exact ⟨rfl, rfl⟩

/-- the constructor's executable check implies alignment -/
theorem wfB_sound {d : DS α} (h : d.wfB = true) : d.WF d.nObs d.nChan d.nTime := by
  unfold DS.wfB at h
  simp only [Bool.and_eq_true, List.all_eq_true, beq_iff_eq] at h
  obtain ⟨⟨⟨hm, ho⟩, hc⟩, ht⟩ := h
  exact ⟨rfl, fun r hr => (hm r hr).1, fun r hr c hc' => (hm r hr).2 c hc',
    fun kc hkc => ho kc hkc, fun kc hkc => hc kc hkc, fun kc hkc => ht kc hkc⟩


/-! ### descriptor columns of `merge (split_obs d)` -/

theorem lookup_map_col (t : Tbl) (f : Col → Col) (k : String) :
    List.lookup k (t.map (fun kc => (kc.1, f kc.2))) = (List.lookup k t).map f := by
  induction t with
  | nil => rfl
  | cons kc t ih =>
    obtain ⟨k0, c0⟩ := kc
    simp only [List.map_cons, List.lookup_cons]
    by_cases hk : k == k0 <;> simp [hk, ih]

theorem lookup_of_mem_nodup {δ : Type} {t : List (String × δ)} (hnd : (t.map (·.1)).Nodup) {k : String}
    {c : δ} (h : (k, c) ∈ t) : t.lookup k = some c := by
  induction t with
  | nil => simp at h
  | cons kc t ih =>
    obtain ⟨k0, c0⟩ := kc
    simp only [List.map_cons, List.nodup_cons] at hnd
    rw [List.lookup_cons]
    rcases List.mem_cons.1 h with h | h
    · cases h; simp
    · have hne : ¬ (k == k0) = true := by
        intro hk
        have : k = k0 := by simpa using hk
        exact hnd.1 (List.mem_map.2 ⟨(k, c), h, this⟩)
      simp only [hne]
      exact ih hnd.2 h

theorem lookup_setKey_ne {δ : Type} (k0 : String) (v : δ) (d : List (String × δ)) {k : String}
    (hk : k ≠ k0) : (setKey k0 v d).lookup k = d.lookup k := by
  unfold setKey
  have hk' : (k == k0) = false := by simpa using hk
  induction d with
  | nil => simp [List.lookup_cons, hk']
  | cons kc d ih =>
    obtain ⟨k1, c1⟩ := kc
    by_cases h1 : k1 = k0
    · subst h1
      rw [List.filter_cons_of_neg (by simp), List.lookup_cons, hk']
      exact ih
    · rw [List.filter_cons_of_pos (by simpa using h1), List.cons_append, List.lookup_cons,
        List.lookup_cons]
      cases (k == k1) with
      | true => rfl
      | false => exact ih

theorem sharedKeys_of_all {δ : Type} {t0 : List (String × δ)} {rest : List (List (String × δ))}
    {k : String} (h : ∀ t ∈ t0 :: rest, k ∈ t.map (·.1)) : k ∈ sharedKeys (t0 :: rest) := by
  simp only [sharedKeys, List.mem_filter, List.all_eq_true, List.contains_iff_mem]
  exact ⟨h t0 (by simp), fun t ht => h t (by simp [ht])⟩

/-- dataset descriptors of the parts of `split_obs` agree with `d` away from `by` -/
theorem splitObs_desc_lookup {d : DS α} {by_ : String} {parts : List (DS α)}
    (hp : splitObs by_ d = some parts) {k : String} (hk : k ≠ by_) :
    ∀ s ∈ parts, s.desc.lookup k = d.desc.lookup k := by
  unfold splitObs at hp
  cases hcol : d.obs.col by_ with
  | none => simp [hcol] at hp
  | some col =>
    simp only [hcol, Option.some.injEq] at hp
    subst hp
    intro s hs
    obtain ⟨x, _, rfl⟩ := List.mem_map.1 hs
    split
    · rfl
    · exact lookup_setKey_ne by_ x.1 _ hk

theorem varyKeys_sub {d : DS α} {by_ : String} {parts : List (DS α)}
    (hp : splitObs by_ d = some parts) : ∀ k ∈ varyKeys parts, k = by_ := by
  intro k hk
  by_contra hne
  cases hparts : parts with
  | nil => simp [hparts, varyKeys, sharedKeys] at hk
  | cons p0 rest =>
    rw [hparts] at hk
    simp only [varyKeys, List.mem_filter, Bool.not_eq_true'] at hk
    have hsame : sameEverywhere (p0 :: rest) k = true := by
      apply sameEverywhere_iff.2
      intro s hs
      have h1 := splitObs_desc_lookup hp hne s (by rw [hparts]; exact hs)
      have h2 := splitObs_desc_lookup hp hne p0 (by rw [hparts]; simp)
      rw [h1, h2]
    rw [hsame] at hk
    simp at hk

/-- `merge(split_obs(d))` keeps every observation descriptor column of `d` (other than a
    promoted one), re-indexed by the same permutation σ as the measurement rows -/
theorem merge_split_column {d m : DS α} {no nc nt : Nat} (h : d.WF no nc nt) {by_ : String}
    {col : Col} {parts : List (DS α)} (hcol : d.obs.col by_ = some col)
    (hp : splitObs by_ d = some parts) (hm : merge parts = some m)
    (hnd : (d.obs.map (·.1)).Nodup) {k : String} {c : Col} (hkc : (k, c) ∈ d.obs)
    (hk : k ∉ varyKeys parts) :
    (k, gather ((uniqueFirst col).flatMap (fun u => indicesWhere (fun x => x == u) col)) c) ∈ m.obs := by
  have hobs := splitObs_obs hcol hp
  cases hparts : parts with
  | nil => simp [hparts, merge] at hm
  | cons p0 rest =>
    have hmobs : m.obs = (mergedObsKeys parts).map
        (fun k => (k, (parts.map (partCol (varyKeys parts) k)).flatten)) := by
      rw [hparts] at hm
      simp only [merge, Option.some.injEq] at hm
      rw [← hm, hparts]
    have hkeys : ∀ t ∈ parts.map (·.obs), k ∈ t.map (·.1) := by
      intro t ht
      rw [hobs] at ht
      obtain ⟨u, _, rfl⟩ := List.mem_map.1 ht
      simp only [Tbl.gather, List.map_map, Function.comp]
      exact List.mem_map.2 ⟨(k, c), hkc, rfl⟩
    have hshared : k ∈ sharedKeys (parts.map (·.obs)) := by
      rw [hparts] at hkeys ⊢
      exact sharedKeys_of_all hkeys
    have hmk : k ∈ mergedObsKeys parts := by
      unfold mergedObsKeys
      exact List.mem_append_left _ (List.mem_filter.2 ⟨hshared, by simpa using hk⟩)
    rw [hmobs]
    apply List.mem_map.2
    refine ⟨k, hmk, ?_⟩
    congr 1
    have hpc : parts.map (partCol (varyKeys parts) k)
        = (parts.map (·.obs)).map (fun t => (Tbl.col t k).getD []) := by
      rw [List.map_map]
      apply List.map_congr_left
      intro s _
      have : (varyKeys parts).contains k = false := by simpa using hk
      simp only [partCol, this, Bool.false_eq_true, if_false, Function.comp]
    rw [hpc, hobs, List.map_map, gather_flatMap, List.flatMap_def]
    congr 1
    apply List.map_congr_left
    intro u _
    simp only [Function.comp, Tbl.col, Tbl.gather]
    rw [lookup_map_col, lookup_of_mem_nodup hnd hkc]
    rfl

end Rsa.Lemmas.C11
