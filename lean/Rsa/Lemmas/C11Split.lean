/-
  Helper lemmas for property C11: split / merge bookkeeping, label order.
-/
import Mathlib.Data.String.Basic
import Mathlib.Algebra.Order.Ring.Rat
import Rsa.Lemmas.C11Inv

set_option linter.unusedSectionVars false
set_option linter.unusedVariables false
set_option linter.unusedSimpArgs false

namespace Rsa.Lemmas.C11

open Rsa.Dataset

variable {α β γ : Type}

theorem Lbl.le_total' (a b : Lbl) : (Lbl.le a b || Lbl.le b a) = true := by
  cases a <;> cases b <;> simp [Lbl.le] <;> exact _root_.le_total _ _

theorem Lbl.le_trans' (a b c : Lbl) : Lbl.le a b = true → Lbl.le b c = true → Lbl.le a c = true := by
  cases a <;> cases b <;> cases c <;> simp [Lbl.le] <;> exact _root_.le_trans

theorem zipIdx_map_sel [DecidableEq β] {δ : Type} (col : List β) (F : β → Nat → List Nat → δ) :
    (uniqueFirst col).zipIdx.map (fun p => F p.1 p.2 (selectionOf col p.2))
      = (uniqueFirst col).map (fun u => F u ((uniqueFirst col).idxOf u) (indicesWhere (fun x => x == u) col)) := by
  apply List.ext_getElem?
  intro a
  simp only [List.getElem?_map, List.getElem?_zipIdx, Nat.zero_add]
  cases hu : (uniqueFirst col)[a]? with
  | none => simp
  | some u =>
    have hlt : a < (uniqueFirst col).length := (List.getElem?_eq_some_iff.1 hu).1
    have hua : (uniqueFirst col)[a] = u := (List.getElem?_eq_some_iff.1 hu).2
    simp only [Option.map_some, Option.some.injEq]
    rw [selectionOf_eq col a hlt, hua]
    have : (uniqueFirst col).idxOf u = a := by
      rw [← hua]; exact (nodup_uniqueFirst col).idxOf_getElem a hlt
    rw [this]

/-- measurements of the parts of `split_obs`, in index form -/
theorem splitObs_meas {d : DS α} {by_ : String} {col : Col} {parts : List (DS α)}
    (hcol : d.obs.col by_ = some col) (hp : splitObs by_ d = some parts) :
    parts.map (·.meas) = (uniqueFirst col).map
      (fun u => gather (indicesWhere (fun x => x == u) col) d.meas) := by
  unfold splitObs at hp
  simp only [hcol, Option.some.injEq] at hp
  rw [← hp, List.map_map]
  have := zipIdx_map_sel col (fun _ _ sel => gather sel d.meas)
  rw [show ((fun x : DS α => x.meas) ∘ fun x : Lbl × Nat =>
      if d.temporal = true then gatherObs (selectionOf col x.2) d
      else { gatherObs (selectionOf col x.2) d with
             desc := setKey by_ x.1 (gatherObs (selectionOf col x.2) d).desc })
    = fun p => gather (selectionOf col p.2) d.meas from by
      funext x; simp only [Function.comp]; split <;> rfl]
  exact this

theorem splitObs_obs {d : DS α} {by_ : String} {col : Col} {parts : List (DS α)}
    (hcol : d.obs.col by_ = some col) (hp : splitObs by_ d = some parts) :
    parts.map (·.obs) = (uniqueFirst col).map
      (fun u => Tbl.gather (indicesWhere (fun x => x == u) col) d.obs) := by
  unfold splitObs at hp
  simp only [hcol, Option.some.injEq] at hp
  rw [← hp, List.map_map]
  have := zipIdx_map_sel col (fun _ _ sel => Tbl.gather sel d.obs)
  rw [show ((fun x : DS α => x.obs) ∘ fun x : Lbl × Nat =>
      if d.temporal = true then gatherObs (selectionOf col x.2) d
      else { gatherObs (selectionOf col x.2) d with
             desc := setKey by_ x.1 (gatherObs (selectionOf col x.2) d).desc })
    = fun p => Tbl.gather (selectionOf col p.2) d.obs from by
      funext x; simp only [Function.comp]; split <;> rfl]
  exact this

theorem merge_meas {sets : List (DS α)} {m : DS α} (hm : merge sets = some m) :
    m.meas = (sets.map (·.meas)).flatten := by
  cases sets with
  | nil => simp [merge] at hm
  | cons d0 rest =>
    simp only [merge, Option.some.injEq] at hm
    rw [← hm]

theorem gather_perm {idx : List Nat} {l : List β} (h : idx.Perm (List.range l.length)) :
    (gather idx l).Perm l := by
  have := h.filterMap (fun i => l[i]?)
  have h2 : List.filterMap (fun i => l[i]?) (List.range l.length) = l := gather_range l
  unfold gather
  rw [h2] at this
  exact this

theorem evens_odds_perm : ∀ (l : List β), (evens l ++ odds l).Perm l
  | [] => by simp [evens, odds]
  | [x] => by simp [evens, odds]
  | x :: y :: r => by
    simp only [evens, odds, List.cons_append]
    refine List.Perm.cons x ?_
    have ih := evens_odds_perm r
    exact (List.perm_middle.trans (List.Perm.cons y ih))

theorem evens_map (f : β → γ) : ∀ (l : List β), evens (l.map f) = (evens l).map f
  | [] => rfl
  | [x] => rfl
  | x :: y :: r => by simp [evens, evens_map f r]

theorem odds_map (f : β → γ) : ∀ (l : List β), odds (l.map f) = (odds l).map f
  | [] => rfl
  | [x] => rfl
  | x :: y :: r => by simp [odds, odds_map f r]

end Rsa.Lemmas.C11
