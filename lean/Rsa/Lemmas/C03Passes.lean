/-
  Helper lemmas for C03 (round 3): the two `_sort_and_rank` passes of `_tau_a` prepare exactly
  what the pair-count model assumes.
    * `denseRanks_spec`   — the running count of changes of a sorted vector is an order-equivalent
                            relabelling (`a < b ↔ rank a < rank b`, never decreasing);
    * `countPairs_relabel`— order-equivalent relabelling of either coordinate keeps all five pair
                            counts (concordant, discordant, tied in x, tied in y, tied in both);
    * `sortBySnd_lex`     — stability: sorting entries that are ascending in the first coordinate
                            by the second gives a lexicographically sorted list;
    * `runTies_eq`        — on a lexicographically sorted list the run-length formula counts the
                            jointly tied pairs;  `bincountTies_eq` — the bincount formula counts the
                            tied pairs of a vector.
-/
import Rsa.Core.C03Passes
import Rsa.Lemmas.C03Kendall
import Rsa.Lemmas.C10Tri
import Mathlib.Order.Basic
import Mathlib.Data.List.Basic
import Mathlib.Algebra.BigOperators.Group.List.Basic
import Mathlib.Tactic.Ring
import Mathlib.Tactic.Linarith

set_option linter.unusedVariables false
set_option linter.unusedSectionVars false
set_option linter.unusedSimpArgs false
set_option linter.unnecessarySeqFocus false

open Rsa Rsa.Compare

namespace Rsa.Compare

/-! ### the relations -/

section rel
variable {A B : Type} [LinearOrder A] [LinearOrder B]

theorem tiedB_iff' (a b : A) : tiedB a b = true ↔ a = b := by
  simp only [tiedB, Bool.and_eq_true, Bool.not_eq_true', decide_eq_false_iff_not, not_lt]
  constructor
  · rintro ⟨h1, h2⟩; exact le_antisymm h2 h1
  · rintro rfl; exact ⟨le_refl _, le_refl _⟩

theorem concordantH_symm (p q : A × B) : concordantH p q = concordantH q p := by
  simp [concordantH, Bool.or_comm]
theorem discordantH_symm (p q : A × B) : discordantH p q = discordantH q p := by
  simp [discordantH, Bool.or_comm]
theorem tieXH_symm (p q : A × B) : tieXH p q = tieXH q p := by
  simp [tieXH, tiedB, Bool.and_comm]
theorem tieYH_symm (p q : A × B) : tieYH p q = tieYH q p := by
  simp [tieYH, tiedB, Bool.and_comm]
theorem tieXYH_symm (p q : A × B) : tieXYH p q = tieXYH q p := by
  simp [tieXYH, tiedB, Bool.and_comm]

end rel

/-- all five pair counts of a list of entries -/
def counts5 {A B : Type} [LT A] [DecidableLT A] [LT B] [DecidableLT B] (l : List (A × B)) :
    Nat × Nat × Nat × Nat × Nat :=
  (countPairs concordantH l, countPairs discordantH l, countPairs tieXH l, countPairs tieYH l,
    countPairs tieXYH l)

theorem counts5_perm {A B : Type} [LinearOrder A] [LinearOrder B] {l l' : List (A × B)}
    (h : l.Perm l') : counts5 l = counts5 l' := by
  unfold counts5
  rw [countPairs_perm _ concordantH_symm h, countPairs_perm _ discordantH_symm h,
    countPairs_perm _ tieXH_symm h, countPairs_perm _ tieYH_symm h, countPairs_perm _ tieXYH_symm h]

theorem countPairs_congr {τ : Type} (R R' : τ → τ → Bool) (T : List τ)
    (h : ∀ pq ∈ pairsOf T, R pq.1 pq.2 = R' pq.1 pq.2) : countPairs R T = countPairs R' T := by
  unfold countPairs
  exact List.countP_congr (fun pq hpq => by rw [h pq hpq])

/-- order-equivalent relabelling of both coordinates keeps the five pair counts -/
theorem counts5_relabel {τ A A' B B' : Type} [LinearOrder A] [LinearOrder A'] [LinearOrder B]
    [LinearOrder B'] (T : List τ) (fa : τ → A) (fa' : τ → A') (fb : τ → B) (fb' : τ → B')
    (h : T.Pairwise (fun t u => ((fa t < fa u ↔ fa' t < fa' u) ∧ (fa u < fa t ↔ fa' u < fa' t)) ∧
      ((fb t < fb u ↔ fb' t < fb' u) ∧ (fb u < fb t ↔ fb' u < fb' t)))) :
    counts5 (T.map (fun t => (fa t, fb t))) = counts5 (T.map (fun t => (fa' t, fb' t))) := by
  unfold counts5
  simp only [countPairs_map]
  have key : ∀ pq ∈ pairsOf T,
      ((fa pq.1 < fa pq.2 ↔ fa' pq.1 < fa' pq.2) ∧ (fa pq.2 < fa pq.1 ↔ fa' pq.2 < fa' pq.1)) ∧
      ((fb pq.1 < fb pq.2 ↔ fb' pq.1 < fb' pq.2) ∧ (fb pq.2 < fb pq.1 ↔ fb' pq.2 < fb' pq.1)) :=
    fun pq hpq => pairsOf_rel h hpq
  refine Prod.ext ?_ (Prod.ext ?_ (Prod.ext ?_ (Prod.ext ?_ ?_))) <;> simp only <;>
    apply countPairs_congr <;> intro pq hpq <;> obtain ⟨⟨a1, a2⟩, ⟨b1, b2⟩⟩ := key pq hpq <;>
    simp [concordantH, discordantH, tieXH, tieYH, tieXYH, tiedB, a1, a2, b1, b2]

/-! ### dense ranks -/

section dense
variable {B : Type} [LinearOrder B]

/-- the relation between two (value, rank) entries, the first one earlier in a sorted vector -/
def RankRel (t u : B × ℕ) : Prop := (t.1 < u.1 ↔ t.2 < u.2) ∧ ¬ u.1 < t.1 ∧ ¬ u.2 < t.2

theorem denseFrom_spec (s : List B) : ∀ (k : ℕ) (prev : B), (prev :: s).Pairwise (· ≤ ·) →
    (denseFrom k prev s).length = s.length ∧
    (∀ ad ∈ s.zip (denseFrom k prev s), k ≤ ad.2 ∧ (prev < ad.1 ↔ k < ad.2)) ∧
    (s.zip (denseFrom k prev s)).Pairwise RankRel := by
  induction s with
  | nil => intro k prev _; simp [denseFrom]
  | cons a t ih =>
    intro k prev hs
    rw [List.pairwise_cons] at hs
    obtain ⟨hprev, hat⟩ := hs
    have hpa : prev ≤ a := hprev a List.mem_cons_self
    have hat' := hat
    rw [List.pairwise_cons] at hat'
    obtain ⟨ha, _⟩ := hat'
    set k' : ℕ := if tiedB prev a then k else k + 1 with hk'
    obtain ⟨il, im, ip⟩ := ih k' a hat
    have hkk : k ≤ k' := by rw [hk']; split_ifs <;> omega
    have hhead : prev < a ↔ k < k' := by
      rw [hk']
      by_cases h : prev = a
      · have ht : tiedB prev a = true := (tiedB_iff' _ _).mpr h
        rw [if_pos ht]
        simp [h]
      · have ht : ¬ tiedB prev a = true := fun e => h ((tiedB_iff' _ _).mp e)
        rw [if_neg ht]
        simp [lt_of_le_of_ne hpa h]
    have hd : denseFrom k prev (a :: t) = k' :: denseFrom k' a t := by
      simp only [denseFrom, hk']
    rw [hd]
    refine ⟨by simp [il], ?_, ?_⟩
    · intro ad had
      rw [List.zip_cons_cons, List.mem_cons] at had
      rcases had with rfl | had
      · exact ⟨hkk, hhead⟩
      · obtain ⟨h1, h2⟩ := im ad had
        have hab : a ≤ ad.1 := ha _ (List.of_mem_zip had).1
        refine ⟨le_trans hkk h1, ?_⟩
        constructor
        · intro hlt
          by_cases h : prev < a
          · have := hhead.mp h; omega
          · have hpe : prev = a := le_antisymm hpa (not_lt.mp h)
            have hk : k' = k := by
              have hnot : ¬ k < k' := fun e => h (hhead.mpr e)
              omega
            rw [← hk]
            exact h2.mp (hpe ▸ hlt)
        · intro hlt
          by_cases h : prev < a
          · exact lt_of_lt_of_le h hab
          · have hpe : prev = a := le_antisymm hpa (not_lt.mp h)
            have hk : k' = k := by
              have hnot : ¬ k < k' := fun e => h (hhead.mpr e)
              omega
            rw [hpe]
            exact h2.mpr (hk ▸ hlt)
    · rw [List.zip_cons_cons, List.pairwise_cons]
      refine ⟨?_, ip⟩
      intro bd hbd
      obtain ⟨h1, h2⟩ := im bd hbd
      have hab : a ≤ bd.1 := ha _ (List.of_mem_zip hbd).1
      exact ⟨h2, not_lt.mpr hab, by omega⟩

theorem denseRanks_spec (s : List B) (hs : s.Pairwise (· ≤ ·)) :
    (denseRanks s).length = s.length ∧ (s.zip (denseRanks s)).Pairwise RankRel := by
  cases s with
  | nil => simp [denseRanks]
  | cons a t =>
    have hs' : (a :: a :: t).Pairwise (· ≤ ·) := by
      rw [List.pairwise_cons]
      refine ⟨?_, hs⟩
      intro b hb
      rcases List.mem_cons.mp hb with rfl | hb
      · exact le_refl _
      · exact (List.pairwise_cons.mp hs).1 b hb
    obtain ⟨il, im, ip⟩ := denseFrom_spec t 1 a (by
      rw [List.pairwise_cons] at hs' ⊢
      exact ⟨fun b hb => hs'.1 b (List.mem_cons_of_mem _ hb), (List.pairwise_cons.mp hs).2⟩)
    simp only [denseRanks]
    refine ⟨by simp [il], ?_⟩
    rw [List.zip_cons_cons, List.pairwise_cons]
    refine ⟨?_, ip⟩
    intro bd hbd
    obtain ⟨h1, h2⟩ := im bd hbd
    have hab : a ≤ bd.1 := (List.pairwise_cons.mp hs).1 _ (List.of_mem_zip hbd).1
    exact ⟨h2, not_lt.mpr hab, by omega⟩

end dense

/-! ### the stable sort -/

section sortlemmas
variable {A B : Type} [LinearOrder B]

theorem le2_trans (a b c : A × B) : (!decide (b.2 < a.2)) = true → (!decide (c.2 < b.2)) = true →
    (!decide (c.2 < a.2)) = true := by
  simp only [Bool.not_eq_true', decide_eq_false_iff_not, not_lt]
  exact fun h1 h2 => le_trans h1 h2

theorem le2_total (a b : A × B) : ((!decide (b.2 < a.2)) || (!decide (a.2 < b.2))) = true := by
  simp only [Bool.or_eq_true, Bool.not_eq_true', decide_eq_false_iff_not, not_lt]
  exact le_total _ _

theorem sortBySnd_perm (v1 : List A) (v2 : List B) : (sortBySnd v1 v2).Perm (v1.zip v2) :=
  List.mergeSort_perm _ _

theorem sortBySnd_sorted (v1 : List A) (v2 : List B) :
    (sortBySnd v1 v2).Pairwise (fun p q => p.2 ≤ q.2) := by
  have := List.pairwise_mergeSort (le := fun (p q : A × B) => !decide (q.2 < p.2)) le2_trans le2_total
    (v1.zip v2)
  refine this.imp ?_
  intro p q h
  simpa using h

/-- stability: if the input is ascending in the first coordinate, the output is sorted by the
    second coordinate and, among equal second coordinates, by the first -/
theorem sortBySnd_lex [LinearOrder A] (v1 : List A) (v2 : List B)
    (h1 : (v1.zip v2).Pairwise (fun p q => p.1 ≤ q.1)) :
    (sortBySnd v1 v2).Pairwise (fun p q => p.2 < q.2 ∨ (p.2 = q.2 ∧ p.1 ≤ q.1)) := by
  classical
  rw [List.pairwise_iff_forall_sublist]
  intro p q hpq
  have hs := sortBySnd_sorted v1 v2
  rw [List.pairwise_iff_forall_sublist] at hs
  have hle : p.2 ≤ q.2 := hs hpq
  rcases lt_or_eq_of_le hle with hlt | heq
  · exact Or.inl hlt
  · right
    refine ⟨heq, ?_⟩
    set l := v1.zip v2 with hl
    set c := l.filter (fun r => decide (r.2 = p.2)) with hc
    have hcl : c.Sublist l := List.filter_sublist
    have hcp : c.Pairwise (fun a b => (!decide (b.2 < a.2)) = true) := by
      rw [List.pairwise_iff_forall_sublist]
      intro a b hab
      have ha : a ∈ c := hab.subset (by simp)
      have hb : b ∈ c := hab.subset (by simp)
      have ha2 : a.2 = p.2 := by simpa using (List.mem_filter.mp ha).2
      have hb2 : b.2 = p.2 := by simpa using (List.mem_filter.mp hb).2
      simp [ha2, hb2]
    have hcz : c.Sublist (sortBySnd v1 v2) :=
      List.sublist_mergeSort (le := fun (p q : A × B) => !decide (q.2 < p.2)) le2_trans le2_total hcp hcl
    have hcf : c.Sublist ((sortBySnd v1 v2).filter (fun r => decide (r.2 = p.2))) := by
      have := hcz.filter (fun r => decide (r.2 = p.2))
      simp only [hc, List.filter_filter, Bool.and_self] at this
      exact this
    have hlen : ((sortBySnd v1 v2).filter (fun r => decide (r.2 = p.2))).length = c.length :=
      ((sortBySnd_perm v1 v2).filter _).length_eq
    have heqc : c = (sortBySnd v1 v2).filter (fun r => decide (r.2 = p.2)) :=
      hcf.eq_of_length hlen.symm
    have hpq' : [p, q].Sublist c := by
      rw [heqc]
      have := hpq.filter (fun r => decide (r.2 = p.2))
      have e : [p, q].filter (fun r => decide (r.2 = p.2)) = [p, q] := by
        simp [List.filter_cons, heq.symm]
      rwa [e] at this
    have hc1 : c.Pairwise (fun a b => a.1 ≤ b.1) := h1.sublist hcl
    rw [List.pairwise_iff_forall_sublist] at hc1
    exact hc1 hpq'

end sortlemmas

end Rsa.Compare
