/- helper lemmas for C20: the BIDS grammar, `findEntity`, `bidsParse (bidsFormat e)` -/
import Rsa.Lemmas.C20Str

set_option linter.unusedSectionVars false
set_option linter.unusedVariables false
set_option linter.unusedSimpArgs false

namespace Rsa.Importers

/-! ### the grammar the property quantifies over -/

/-- an entity label: non-empty, free of the three separators of a BIDS name
    (BIDS itself demands alphanumeric labels, a subset) -/
def Label (s : Str) : Prop := s ≠ [] ∧ '_' ∉ s ∧ '/' ∉ s ∧ '-' ∉ s

/-- a directory name (derivative pipeline, modality): non-empty, one path component that
    `normpath` keeps -/
def Seg (s : Str) : Prop := s ≠ [] ∧ '/' ∉ s ∧ s ≠ ['.'] ∧ s ≠ ['.', '.']

/-- an optional entity is absent or a label -/
def OptLabel : Option Str → Prop
  | none => True
  | some s => Label s

def OptSeg : Option Str → Prop
  | none => True
  | some s => Seg s

/-- a valid entity record: subject and modality directory present; session, task, run,
    space, description and derivative each present or absent; suffix without separator;
    extension (possibly compound, `nii.gz`) without `_` and `/` -/
structure ValidEnt (e : BidsEnt) : Prop where
  sub : ∃ s, e.sub = some s ∧ Label s
  ses : OptLabel e.ses
  task : OptLabel e.task
  run : OptLabel e.run
  space : OptLabel e.space
  desc : OptLabel e.desc
  derivative : OptSeg e.derivative
  modality : ∃ m, e.modality = some m ∧ Seg m
  suffix : '_' ∉ e.suffix ∧ '/' ∉ e.suffix ∧ '-' ∉ e.suffix ∧ '.' ∉ e.suffix
  ext : '_' ∉ e.ext ∧ '/' ∉ e.ext

/-! ### segments that cannot be mistaken for an entity -/

/-- no segment of `l` starts with `<X>-` -/
def NoPfx (X : Str) (l : List Str) : Prop := ∀ s ∈ l, (X ++ ['-']).isPrefixOf s = false

theorem NoPfx_nil (X : Str) : NoPfx X [] := by intro s h; simp at h

theorem NoPfx_append {X : Str} {a b : List Str} : NoPfx X (a ++ b) ↔ NoPfx X a ∧ NoPfx X b := by
  simp only [NoPfx, List.mem_append]
  constructor
  · intro h; exact ⟨fun s hs => h s (Or.inl hs), fun s hs => h s (Or.inr hs)⟩
  · rintro ⟨h1, h2⟩ s (hs | hs)
    · exact h1 s hs
    · exact h2 s hs

theorem NoPfx_singleton {X s : Str} : NoPfx X [s] ↔ (X ++ ['-']).isPrefixOf s = false := by
  simp [NoPfx]

theorem NoPfx_entSeg {X Y : Str} (v : Option Str) (hx : 2 ≤ X.length) (hy : 2 ≤ Y.length)
    (h : (X.take 2 == Y.take 2) = false) : NoPfx X (entSeg Y v) := by
  unfold entSeg
  split
  · rw [NoPfx_singleton]; exact prefix_mismatch _ hx hy h
  · exact NoPfx_nil X

theorem findEntity_skip {X : Str} {pre : List Str} (post : List Str) (h : NoPfx X pre) :
    findEntity X (pre ++ post) = findEntity X post := by
  induction pre with
  | nil => rfl
  | cons s r ih =>
    have hs : (X ++ ['-']).isPrefixOf s = false := h s List.mem_cons_self
    have hr : NoPfx X r := fun z hz => h z (List.mem_cons_of_mem _ hz)
    simp [findEntity, hs, ih hr]

theorem findEntity_none {X : Str} {l : List Str} (h : NoPfx X l) : findEntity X l = none := by
  have := findEntity_skip (X := X) [] h
  simpa [findEntity] using this

theorem findEntity_hit (X : Str) {l : Str} (post : List Str) (hl : '-' ∉ l) :
    findEntity X ((X ++ '-' :: l) :: post) = some l := by
  have hp : (X ++ ['-']).isPrefixOf (X ++ '-' :: l) = true := by
    rw [List.isPrefixOf_iff_prefix]; exact ⟨l, by simp⟩
  have hr : pyReplace (X ++ ['-']) [] (X ++ '-' :: l) = l := by
    have : X ++ '-' :: l = (X ++ ['-']) ++ l := by simp
    rw [this]; exact pyReplace_prefix (c := '-') (by simp) hl
  simp [findEntity, hp, hr]

theorem truthy_label {s : Str} (h : Label s) : truthy (some s) = true := by
  cases s with
  | nil => exact absurd rfl h.1
  | cons _ _ => rfl

theorem truthy_seg {s : Str} (h : Seg s) : truthy (some s) = true := by
  cases s with
  | nil => exact absurd rfl h.1
  | cons _ _ => rfl

/-- the entity `X` is read back from `pre ++ entSeg X v ++ post` -/
theorem findEntity_entSeg {X : Str} {pre post : List Str} {v : Option Str}
    (hpre : NoPfx X pre) (hpost : NoPfx X post) (hv : OptLabel v) :
    findEntity X (pre ++ (entSeg X v ++ post)) = v := by
  rw [findEntity_skip _ hpre]
  cases v with
  | none => simpa [entSeg, truthy] using findEntity_none hpost
  | some l =>
    have hl : Label l := hv
    simp only [entSeg, truthy_label hl, if_true, pyStr, List.cons_append, List.nil_append]
    exact findEntity_hit X post hl.2.2.2

/-! ### the same for the *last* match (`descriptors_from_bids_filename`) -/

theorem findLast_noPfx {X : Str} {l : List Str} (h : NoPfx X l) : findLastEntity X l = none := by
  induction l with
  | nil => rfl
  | cons s r ih =>
    have hs : (X ++ ['-']).isPrefixOf s = false := h s List.mem_cons_self
    have hr : NoPfx X r := fun z hz => h z (List.mem_cons_of_mem _ hz)
    simp [findLastEntity, ih hr, hs]

theorem findLast_skip {X : Str} {pre : List Str} (post : List Str) (h : NoPfx X pre) :
    findLastEntity X (pre ++ post) =
      findLastEntity X post := by
  induction pre with
  | nil => rfl
  | cons s r ih =>
    have hs : (X ++ ['-']).isPrefixOf s = false := h s List.mem_cons_self
    have hr : NoPfx X r := fun z hz => h z (List.mem_cons_of_mem _ hz)
    simp only [List.cons_append, findLastEntity, ih hr, hs]
    cases findLastEntity X post <;> simp

theorem findLast_entSeg {X : Str} {pre post : List Str} {v : Option Str}
    (hpre : NoPfx X pre) (hpost : NoPfx X post) (hv : OptLabel v) :
    findLastEntity X (pre ++ (entSeg X v ++ post)) = v := by
  rw [findLast_skip _ hpre]
  cases v with
  | none => simpa [entSeg, truthy] using findLast_noPfx hpost
  | some l =>
    have hl : Label l := hv
    have hp : (X ++ ['-']).isPrefixOf (X ++ '-' :: l) = true := by
      rw [List.isPrefixOf_iff_prefix]; exact ⟨l, by simp⟩
    have hd : (X ++ '-' :: l).drop (X.length + 1) = l := by
      have : X ++ '-' :: l = (X ++ ['-']) ++ l := by simp
      rw [this, List.drop_append]; simp
    simp [entSeg, truthy_label hl, pyStr, findLastEntity, findLast_noPfx hpost, hp, hd]

/-! ### the six entity names -/

theorem len_sub : 2 ≤ sSub.length := by decide
theorem len_ses : 2 ≤ sSes.length := by decide
theorem len_task : 2 ≤ sTask.length := by decide
theorem len_run : 2 ≤ sRun.length := by decide
theorem len_space : 2 ≤ sSpace.length := by decide
theorem len_desc : 2 ≤ sDesc.length := by decide

/-- the first file-name segment `sub-<label>` and the last `<suffix>.<ext>` -/
theorem NoPfx_subSeg {X : Str} (s : Str) (hx : 2 ≤ X.length)
    (h : (X.take 2 == sSub.take 2) = false) : NoPfx X [sSub ++ '-' :: s] := by
  rw [NoPfx_singleton]; exact prefix_mismatch _ hx len_sub h

theorem NoPfx_last {X : Str} (suffix ext : Str) (hX : '.' ∉ X) (hs : '-' ∉ suffix) :
    NoPfx X [suffix ++ '.' :: ext] := by
  rw [NoPfx_singleton]; exact prefix_last_false X suffix ext hX hs

end Rsa.Importers
