/- specification sums as full rectangles of ordered observation pairs (symmetric kernels) -/
import Rsa.Lemmas.C15Sum

set_option linter.unusedSectionVars false
set_option linter.unusedVariables false

namespace Rsa.Unb

open Finset

variable {K : Type} [Field K] [LinearOrder K] [IsStrictOrderedRing K]

/-- summand of the specification for the unordered condition pair {a, b} -/
def gU (c : Cfg K) (f : K × K → K) (a b i j : Nat) : K :=
  if adm c i j = true ∧ 0 < (c.kern i j).2 ∧
      ((c.desc i = a ∧ c.desc j = b) ∨ (c.desc i = b ∧ c.desc j = a))
  then f (c.kern i j) else 0

/-- summand for the ordered condition pair (a, b) -/
def gO (c : Cfg K) (f : K × K → K) (a b i j : Nat) : K :=
  if c.desc i = a ∧ c.desc j = b ∧ adm c i j = true ∧ 0 < (c.kern i j).2
  then f (c.kern i j) else 0

theorem adm_symm (c : Cfg K) (i j : Nat) : adm c i j = adm c j i := by
  unfold adm
  cases c.crossval <;> simp [bne_comm]

theorem gU_symm (c : Cfg K) (hk : ∀ i j, c.kern i j = c.kern j i) (f : K × K → K) (a b i j : Nat) :
    gU c f a b i j = gU c f a b j i := by
  unfold gU
  rw [adm_symm c i j, hk i j]
  apply if_congr _ rfl rfl
  constructor <;> rintro ⟨h1, h2, h3⟩ <;> exact ⟨h1, h2, h3.symm.imp id id |>.elim Or.inl Or.inr |> Or.symm |> fun h => by tauto⟩

/-- generic form: `Σ_i (self_i/2 + Σ_{j>i} g i j)` doubled is the full square -/
theorem spec_sum_rect (c : Cfg K) (hk : ∀ i j, c.kern i j = c.kern j i) (f : K × K → K)
    (a b : Nat) :
    2 * sumTo c.nObs (fun i =>
      (if c.crossval = false ∧ a = b ∧ c.desc i = a ∧ 0 < (c.kern i i).2
        then f (c.kern i i) / two else 0) +
      sumTo (c.nObs - (i + 1)) (fun t =>
        if adm c i (i + 1 + t) = true ∧ 0 < (c.kern i (i + 1 + t)).2 ∧
            ((c.desc i = a ∧ c.desc (i + 1 + t) = b) ∨ (c.desc i = b ∧ c.desc (i + 1 + t) = a))
        then f (c.kern i (i + 1 + t)) else 0))
    = ∑ i ∈ range c.nObs, ∑ j ∈ range c.nObs, gU c f a b i j := by
  have hself : ∀ i, (if c.crossval = false ∧ a = b ∧ c.desc i = a ∧ 0 < (c.kern i i).2
        then f (c.kern i i) / two else 0) = gU c f a b i i / 2 := by
    intro i
    unfold gU adm two
    by_cases h : c.crossval = false ∧ a = b ∧ c.desc i = a ∧ 0 < (c.kern i i).2
    · obtain ⟨h1, h2, h3, h4⟩ := h
      subst h2
      simp [h1, h3, h4]
    · rw [if_neg h, if_neg]
      · simp
      · rintro ⟨h1, h2, h3⟩
        apply h
        refine ⟨?_, ?_, ?_, h2⟩
        · cases hc : c.crossval <;> simp [hc] at h1 ⊢
        · rcases h3 with ⟨x, y⟩ | ⟨x, y⟩ <;> omega
        · rcases h3 with ⟨x, y⟩ | ⟨x, y⟩ <;> omega
  have htail : ∀ i, sumTo (c.nObs - (i + 1)) (fun t =>
        if adm c i (i + 1 + t) = true ∧ 0 < (c.kern i (i + 1 + t)).2 ∧
            ((c.desc i = a ∧ c.desc (i + 1 + t) = b) ∨ (c.desc i = b ∧ c.desc (i + 1 + t) = a))
        then f (c.kern i (i + 1 + t)) else 0)
      = ∑ j ∈ range c.nObs, if i < j then gU c f a b i j else 0 := by
    intro i
    exact sumTo_tail c.nObs i (fun j => gU c f a b i j)
  rw [sumTo_eq_sum]
  simp only [hself, htail]
  rw [Finset.sum_add_distrib, mul_add,
    two_mul_sum_upper c.nObs (gU c f a b) (gU_symm c hk f a b), Finset.mul_sum]
  have : ∀ i, 2 * (gU c f a b i i / 2) = gU c f a b i i := by intro i; ring
  simp only [this]; ring

/-- unordered → ordered: for `a ≠ b` the square sum is twice the (a, b) rectangle -/
theorem gU_sum_ne (c : Cfg K) (hk : ∀ i j, c.kern i j = c.kern j i) (f : K × K → K)
    (a b : Nat) (hne : a ≠ b) :
    (∑ i ∈ range c.nObs, ∑ j ∈ range c.nObs, gU c f a b i j)
      = 2 * ∑ i ∈ range c.nObs, ∑ j ∈ range c.nObs, gO c f a b i j := by
  have h1 : ∀ i j, gU c f a b i j = gO c f a b i j + gO c f a b j i := by
    intro i j
    unfold gU gO
    rw [adm_symm c j i, hk j i]
    by_cases hA : c.desc i = a ∧ c.desc j = b
    · have hB : ¬ (c.desc j = a ∧ c.desc i = b) := by
        rintro ⟨x, y⟩; exact hne (by rw [← hA.1, y])
      by_cases hr : adm c i j = true ∧ 0 < (c.kern i j).2
      · rw [if_pos ⟨hr.1, hr.2, Or.inl hA⟩, if_pos ⟨hA.1, hA.2, hr.1, hr.2⟩, if_neg]
        · simp
        · rintro ⟨x, y, _⟩; exact hB ⟨x, y⟩
      · rw [if_neg, if_neg, if_neg]
        · simp
        · rintro ⟨x, y, _⟩; exact hB ⟨x, y⟩
        · rintro ⟨_, _, x, y⟩; exact hr ⟨x, y⟩
        · rintro ⟨x, y, _⟩; exact hr ⟨x, y⟩
    · by_cases hB : c.desc j = a ∧ c.desc i = b
      · by_cases hr : adm c i j = true ∧ 0 < (c.kern i j).2
        · rw [if_pos ⟨hr.1, hr.2, Or.inr ⟨hB.2, hB.1⟩⟩, if_neg, if_pos ⟨hB.1, hB.2, hr.1, hr.2⟩]
          · simp
          · rintro ⟨x, y, _⟩; exact hA ⟨x, y⟩
        · rw [if_neg, if_neg, if_neg]
          · simp
          · rintro ⟨_, _, x, y⟩; exact hr ⟨x, y⟩
          · rintro ⟨x, y, _⟩; exact hA ⟨x, y⟩
          · rintro ⟨x, y, _⟩; exact hr ⟨x, y⟩
      · rw [if_neg, if_neg, if_neg]
        · simp
        · rintro ⟨x, y, _⟩; exact hB ⟨x, y⟩
        · rintro ⟨x, y, _⟩; exact hA ⟨x, y⟩
        · rintro ⟨_, _, h3⟩
          rcases h3 with h3 | h3
          · exact hA h3
          · exact hB ⟨h3.2, h3.1⟩
  simp only [h1, Finset.sum_add_distrib]
  rw [Finset.sum_comm (f := fun i j => gO c f a b j i)]
  ring

theorem gU_sum_eq (c : Cfg K) (f : K × K → K) (a : Nat) :
    (∑ i ∈ range c.nObs, ∑ j ∈ range c.nObs, gU c f a a i j)
      = ∑ i ∈ range c.nObs, ∑ j ∈ range c.nObs, gO c f a a i j := by
  apply Finset.sum_congr rfl; intro i _
  apply Finset.sum_congr rfl; intro j _
  unfold gU gO
  apply if_congr _ rfl rfl
  constructor
  · rintro ⟨h1, h2, h3⟩
    rcases h3 with h3 | h3
    · exact ⟨h3.1, h3.2, h1, h2⟩
    · exact ⟨h3.1, h3.2, h1, h2⟩
  · rintro ⟨h1, h2, h3, h4⟩; exact ⟨h3, h4, Or.inl ⟨h1, h2⟩⟩

theorem rectNum_eq_sum (c : Cfg K) (a b : Nat) :
    rectNum c a b = ∑ i ∈ range c.nObs, ∑ j ∈ range c.nObs, gO c (cVal c.number) a b i j := by
  unfold rectNum gO; simp only [sumTo_eq_sum]

theorem rectDen_eq_sum (c : Cfg K) (a b : Nat) :
    rectDen c a b = ∑ i ∈ range c.nObs, ∑ j ∈ range c.nObs, gO c (cW c.number) a b i j := by
  unfold rectDen gO; simp only [sumTo_eq_sum]

/-- numerator and denominator of the pair average are the same multiple (1 or 1/2) of the
    rectangle sums -/
theorem spec_eq_rect (c : Cfg K) (hk : ∀ i j, c.kern i j = c.kern j i) (a b : Nat) :
    specNum c a b = (if a = b then 1 / 2 else 1) * rectNum c a b ∧
    specDen c a b = (if a = b then 1 / 2 else 1) * rectDen c a b := by
  have hN := spec_sum_rect c hk (cVal c.number) a b
  have hD := spec_sum_rect c hk (cW c.number) a b
  change 2 * specNum c a b = _ at hN
  change 2 * specDen c a b = _ at hD
  rw [rectNum_eq_sum, rectDen_eq_sum]
  by_cases hab : a = b
  · subst hab
    rw [gU_sum_eq] at hN hD
    simp only [if_true]
    constructor <;> linarith
  · rw [gU_sum_ne c hk _ a b hab] at hN hD
    simp only [hab, if_false]
    constructor <;> linarith

end Rsa.Unb
