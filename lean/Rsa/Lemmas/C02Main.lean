/-
  Helper lemmas for property C02, part 4: one iteration of the leave-one-fold-out loop and
  the whole estimator in closed form (still lemmas; the property theorems are in Props/C02).
-/
import Rsa.Lemmas.C02Struct

set_option linter.unusedSectionVars false
set_option linter.unusedVariables false
set_option linter.unusedSimpArgs false
set_option linter.unusedDecidableInType false

namespace Rsa.CrossVal

open List

variable {L F : Type} [LinearOrder L] [LinearOrder F]
variable {K : Type} [Field K] [LinearOrder K] [IsStrictOrderedRing K]

/-- `_calc_rdm_crossnobis_single` on two mean matrices whose rows are indexed by the same
    condition list -/
theorem single_map {β : Type} (κ : (Nat → K) → (Nat → K) → K) (P : Nat) (conds : List β)
    (trf tef : β → Nat → K) :
    single κ P (conds.map trf) (conds.map tef)
      = (pairsOf conds).map (fun ab =>
          kdiff κ (trf ab.1) (trf ab.2) (tef ab.1) (tef ab.2) / ((P : Nat) : K)) := by
  unfold single Rsa.Gen.C02.singleNorm
  rw [zip_map_map, pairsOf_map, List.map_map]
  rfl

theorem averageBy_fst (rows : List (Obs L F K)) :
    (averageBy rows).map (·.1) = uniqueFirst (rows.map (·.cond)) := by
  unfold averageBy
  rw [List.map_map]
  simp [Function.comp_def]

theorem averageBy_T (T : (Nat → K) → (Nat → K)) (rows : List (Obs L F K)) :
    (averageBy rows).map (fun p => T p.2)
      = (uniqueFirst (rows.map (·.cond))).map
          (fun c => T (meanVec ((rows.filter (fun r => r.cond = c)).map (·.x)))) := by
  unfold averageBy
  rw [List.map_map]
  rfl

/-- facts about the folds of a dataset -/
theorem mem_foldsOf {D : List (Obs L F K)} {f : F} : f ∈ foldsOf D ↔ f ∈ D.map (·.fold) :=
  mem_sortedDistinct

/-- one iteration of the loop, for a test fold `f`, in closed form -/
theorem lofoFold_eq (T : (Nat → K) → (Nat → K)) (κ : (Nat → K) → (Nat → K) → K) (P : Nat)
    (hT : MeanCommute T) (hκ : MeanLinear κ)
    (Ds : List (Obs L F K)) (hs : (Ds.map (·.cond)).Pairwise (· ≤ ·)) {R : Nat}
    (hbal : Balanced Ds R) (hM : 2 ≤ (foldsOf Ds).length) {f : F} (hf : f ∈ foldsOf Ds) :
    lofoFold T κ P Ds (foldsOf Ds) f
      = (pairsOf (uniqueFirst (Ds.map (·.cond)))).map (fun ab =>
          (((foldsOf Ds).filter (fun n => n ≠ f)).map (fun n =>
              kdiff κ (foldMean T Ds ab.1 n) (foldMean T Ds ab.2 n)
                      (foldMean T Ds ab.1 f) (foldMean T Ds ab.2 f))).sum
            / ((((foldsOf Ds).filter (fun n => n ≠ f)).length : Nat) : K)
            / ((P : Nat) : K)) := by
  set folds := foldsOf Ds with hfolds
  set others := folds.filter (fun n => n ≠ f) with hothers
  set conds := uniqueFirst (Ds.map (·.cond)) with hconds
  have hnd : folds.Nodup := sortedDistinct_nodup _
  have hond : others.Nodup := hnd.filter _
  have holen : others.length + 1 = folds.length := length_filter_ne hnd hf
  have hone : others ≠ [] := by
    intro h
    rw [h] at holen
    simp at holen
    omega
  have hosub : ∀ n ∈ others, n ∈ Ds.map (·.fold) := fun n hn =>
    mem_foldsOf.mp (List.mem_filter.mp hn).1
  have hfD : f ∈ Ds.map (·.fold) := mem_foldsOf.mp hf
  -- every condition is present in the test fold and in the other folds
  have htest : uniqueFirst ((Ds.filter (fun r => r.fold = f)).map (·.cond)) = conds := by
    apply conds_of_subset hs
    intro c hc
    have hpos : 0 < (cell Ds c f).length := by rw [hbal.2 c hc f hfD]; exact hbal.1
    obtain ⟨r, hr, h1, h2⟩ := exists_row_of_cell hpos
    exact ⟨r, hr, by simp [h2], h1⟩
  have htrain : uniqueFirst ((Ds.filter (fun r => r.fold ∈ others)).map (·.cond)) = conds := by
    apply conds_of_subset hs
    intro c hc
    obtain ⟨n, hn⟩ := List.exists_mem_of_ne_nil _ hone
    have hpos : 0 < (cell Ds c n).length := by rw [hbal.2 c hc n (hosub n hn)]; exact hbal.1
    obtain ⟨r, hr, h1, h2⟩ := exists_row_of_cell hpos
    exact ⟨r, hr, by simp [h2, hn], h1⟩
  unfold lofoFold
  simp only []
  rw [averageBy_T, averageBy_T, htest, htrain, single_map]
  apply List.map_congr_left
  intro ab hab
  obtain ⟨ha, hb⟩ := mem_pairsOf hab
  have hac : ab.1 ∈ Ds.map (·.cond) := mem_uniqueFirst.mp ha
  have hbc : ab.2 ∈ Ds.map (·.cond) := mem_uniqueFirst.mp hb
  -- training means are means of the other folds' means
  have htr : ∀ c ∈ Ds.map (·.cond),
      T (meanVec (((Ds.filter (fun r => r.fold ∈ others)).filter (fun r => r.cond = c)).map (·.x)))
        = meanVec (others.map (fun n => foldMean T Ds c n)) := by
    intro c hc
    rw [train_mean Ds hond hone c hbal.1 (fun n hn => hbal.2 c hc n (hosub n hn))]
    rw [hT _ (by simpa using hone), List.map_map]
    rfl
  rw [htr _ hac, htr _ hbc, test_rows_cell, test_rows_cell]
  rw [kdiff_mean_left hκ]
  rfl

/-- the estimator in closed form: for every pair of conditions, the mean over test folds of
    the mean over the other folds of the `κ`-products -/
theorem lofoAlgo_closed (T : (Nat → K) → (Nat → K)) (κ : (Nat → K) → (Nat → K) → K) (P : Nat)
    (hT : MeanCommute T) (hκ : MeanLinear κ)
    (D : List (Obs L F K)) {R : Nat} (hbal : Balanced D R)
    (hM : 2 ≤ (sortedDistinct (D.map (·.fold))).length) :
    lofoAlgo T κ P D
      = (pairsOf (sortedDistinct (D.map (·.cond)))).map (fun ab =>
          (ab, cvSpec T κ P D (sortedDistinct (D.map (·.fold))) ab.1 ab.2)) := by
  have hperm := sortByCond_perm D
  have hs := sortByCond_sorted D
  have hbal' : Balanced (sortByCond D) R := hbal.perm hperm.symm
  have hfolds : foldsOf (sortByCond D) = sortedDistinct (D.map (·.fold)) := by
    unfold foldsOf
    exact sortedDistinct_congr (fun b => (hperm.map _).mem_iff)
  have hconds : uniqueFirst ((sortByCond D).map (·.cond)) = sortedDistinct (D.map (·.cond)) := by
    rw [uniqueFirst_of_sorted hs]
    exact sortedDistinct_congr (fun b => (hperm.map _).mem_iff)
  have hM' : 2 ≤ (foldsOf (sortByCond D)).length := by rw [hfolds]; exact hM
  unfold lofoAlgo
  simp only []
  have hrd : (foldsOf (sortByCond D)).map
        (lofoFold T κ P (sortByCond D) (foldsOf (sortByCond D)))
      = (foldsOf (sortByCond D)).map (fun f =>
          (pairsOf (uniqueFirst ((sortByCond D).map (·.cond)))).map (fun ab =>
            (((foldsOf (sortByCond D)).filter (fun n => n ≠ f)).map (fun n =>
                kdiff κ (foldMean T (sortByCond D) ab.1 n) (foldMean T (sortByCond D) ab.2 n)
                  (foldMean T (sortByCond D) ab.1 f) (foldMean T (sortByCond D) ab.2 f))).sum
              / ((((foldsOf (sortByCond D)).filter (fun n => n ≠ f)).length : Nat) : K)
              / ((P : Nat) : K))) :=
    List.map_congr_left (fun f hf => lofoFold_eq T κ P hT hκ _ hs hbal' hM' hf)
  rw [hrd]
  have hne : foldsOf (sortByCond D) ≠ [] := by
    intro h; rw [h] at hM'; simp at hM'
  rw [colMean_family _ hne]
  unfold pairLabels
  rw [averageBy_fst, zip_map_self, hconds, hfolds]
  apply List.map_congr_left
  intro ab _
  congr 1
  -- the value: (1/M) Σ_f (1/(M−1)) Σ_{n≠f} g n f  =  (1/(M(M−1))) Σ_{m≠n} g m n
  set S := sortedDistinct (D.map (·.fold)) with hS
  have hnd : S.Nodup := sortedDistinct_nodup _
  have hlen : ∀ f ∈ S, (((S.filter (fun n => n ≠ f)).length : Nat) : K)
      = ((S.length : Nat) : K) - 1 := by
    intro f hf
    have := length_filter_ne hnd hf
    have h2 : (((S.filter (fun n => n ≠ f)).length + 1 : Nat) : K) = ((S.length : Nat) : K) := by
      rw [this]
    push_cast at h2
    exact eq_sub_of_add_eq h2
  have hfm : ∀ c f, foldMean T (sortByCond D) c f = foldMean T D c f :=
    fun c f => foldMean_perm hperm T c f
  simp only [hfm]
  unfold cvSpec pairAverage
  rw [offDiagSum_swap hnd]
  unfold offDiagSum
  rw [lsum_congr (fun f hf => by rw [hlen f hf])]
  simp only [lsum_div]
  have hM1 : ((S.length : Nat) : K) - 1 ≠ 0 := by
    have : (2 : K) ≤ ((S.length : Nat) : K) := by exact_mod_cast hM
    intro h
    linarith
  have hM0 : ((S.length : Nat) : K) ≠ 0 := by
    have : (2 : K) ≤ ((S.length : Nat) : K) := by exact_mod_cast hM
    intro h
    linarith
  by_cases hP : ((P : Nat) : K) = 0
  · simp [hP]
  · field_simp

end Rsa.CrossVal
