/- helper lemmas for property C16: structural operations keep an RDMs object well-formed
   and storable -/
import Rsa.Lemmas.C16FS

set_option linter.unusedSectionVars false
set_option linter.unusedVariables false
set_option linter.unusedSimpArgs false

namespace Rsa.Store

/-- a dictionary entry is written either as a sub-group or as a leaf -/
def fieldOk (c : Codec) (v : Val) : Bool := if v.isDict then storable c v else storableLeaf c v

theorem storable_dcons (c : Codec) (k : String) (v r : Val) :
    storable c (.dcons k v r) = (fieldOk c v && storable c r) := rfl

theorem storable_mkRdms (c : Codec) (a b d e f : Val) :
    storable c (mkRdms a b d e f) =
      (fieldOk c a && (fieldOk c b && (fieldOk c d && (fieldOk c e && (fieldOk c f && true))))) := rfl

theorem mem_gather0 (sh : List Nat) (el : List Atom) (idx : List Nat) (a : Atom)
    (h : a ∈ gather0 sh el idx) : a ∈ el := by
  simp only [gather0, List.mem_flatMap] at h
  obtain ⟨i, _, hi⟩ := h
  exact List.mem_of_mem_drop (List.mem_of_mem_take hi)

theorem all_gather0 (p : Atom → Bool) (sh : List Nat) (el : List Atom) (idx : List Nat)
    (h : el.all p = true) : (gather0 sh el idx).all p = true := by
  rw [List.all_eq_true] at h ⊢
  intro a ha
  exact h a (mem_gather0 sh el idx a ha)

theorem storableLeaf_utf8_tens (cont : Cont) (sh : List Nat) (el : List Atom) :
    storableLeaf .utf8 (.tens cont sh el) = (el.all Atom.isNum || el.all Atom.isStr) := by
  simp [storableLeaf]

theorem fieldOk_gather (cont : Cont) (sh sh' : List Nat) (el : List Atom) (idx : List Nat)
    (h : fieldOk .utf8 (.tens cont sh el) = true) :
    fieldOk .utf8 (.tens cont sh' (gather0 (0 :: sh.drop 1) el idx)) = true := by
  simp only [fieldOk, Val.isDict, Bool.false_eq_true, if_false, storableLeaf_utf8_tens,
    Bool.or_eq_true] at h ⊢
  rcases h with h | h
  · exact Or.inl (all_gather0 _ _ _ _ h)
  · exact Or.inr (all_gather0 _ _ _ _ h)

theorem fieldOk_none (c : Codec) : fieldOk c .none = true := rfl

theorem fieldOk_natVal (c : Codec) (n : Nat) : fieldOk c (natVal n) = true := by
  simp [fieldOk, natVal, Val.isDict, storableLeaf, Atom.isNum]

theorem fieldOk_nth (c : Codec) (items : Val) (i : Nat) (h : storable c items = true) :
    fieldOk c (items.nth i) = true := by
  induction items generalizing i with
  | none => rfl
  | str s => rfl
  | tens _ _ _ => rfl
  | dnil => rfl
  | dcons k v r ihv ihr =>
    simp only [storable_dcons, Bool.and_eq_true] at h
    cases i with
    | zero => exact h.1
    | succ j => exact ihr j h.2

theorem storable_takeItems (c : Codec) (items : Val) (j : Nat) (idx : List Nat)
    (h : storable c items = true) : storable c (takeItems items j idx) = true := by
  induction idx generalizing j with
  | nil => rfl
  | cons i r ih =>
    simp only [takeItems, storable_dcons, Bool.and_eq_true]
    exact ⟨fieldOk_nth c items i h, ih (j + 1)⟩

theorem size_takeItems (items : Val) (j : Nat) (idx : List Nat) :
    (takeItems items j idx).size = idx.length := by
  induction idx generalizing j with
  | nil => rfl
  | cons i r ih => simp [takeItems, Val.size, ih (j + 1)]

theorem fieldOk_takeVal (idx : List Nat) (v : Val) (h : fieldOk .utf8 v = true) :
    fieldOk .utf8 (takeVal idx v) = true := by
  cases v with
  | tens c sh el =>
    cases sh with
    | nil => exact h
    | cons n rest =>
      simp only [takeVal]
      have := fieldOk_gather c (n :: rest) (idx.length :: rest) el idx h
      simpa using this
  | none => exact h
  | str s => exact h
  | dnil => exact h
  | dcons k x items =>
    simp only [takeVal]
    by_cases hk : k = listKey
    · simp only [hk, if_true, mkList]
      simp only [fieldOk, Val.isDict, if_true, storable_dcons, Bool.and_eq_true] at h ⊢
      exact ⟨fieldOk_natVal _ _, storable_takeItems .utf8 items 0 idx h.2⟩
    · simp only [hk, if_false]
      exact h

theorem storable_mapVals_takeVal (idx : List Nat) (d : Val) (h : storable .utf8 d = true) :
    storable .utf8 (d.mapVals (takeVal idx)) = true := by
  induction d with
  | none => exact h
  | str s => exact h
  | tens c sh el => exact h
  | dnil => rfl
  | dcons k v r ihv ihr =>
    simp only [storable_dcons, Bool.and_eq_true] at h
    simp only [Val.mapVals, storable_dcons, Bool.and_eq_true]
    exact ⟨fieldOk_takeVal idx v h.1, ihr h.2⟩

theorem isDict_mapVals (f : Val → Val) (d : Val) : (d.mapVals f).isDict = d.isDict := by
  cases d <;> rfl

theorem elemOk_mapVals_takeVal (n : Nat) (idx : List Nat) (d : Val) (h : elemOk n d = true) :
    elemOk idx.length (d.mapVals (takeVal idx)) = true := by
  induction d with
  | none => simp [elemOk] at h
  | str s => simp [elemOk] at h
  | tens c sh el => simp [elemOk] at h
  | dnil => rfl
  | dcons k v r ihv ihr =>
    cases v with
    | tens c sh el =>
      cases sh with
      | nil => simp [elemOk] at h
      | cons m rest =>
        simp only [elemOk, Bool.and_eq_true] at h
        simp [Val.mapVals, takeVal, elemOk, ihr h.2]
    | none => simp [elemOk] at h
    | str s => simp [elemOk] at h
    | dnil => simp [elemOk] at h
    | dcons k2 x2 items =>
      simp only [elemOk, Bool.and_eq_true] at h
      have hk' : k2 = listKey := by simpa using h.1.1
      simp [Val.mapVals, takeVal, hk', mkList, elemOk, size_takeItems, ihr h.2]

theorem get?_mapVals (f : Val → Val) (d : Val) (k : String) :
    ((d.mapVals f).get? k) = (d.get? k).map f := by
  induction d with
  | none => rfl
  | str s => rfl
  | tens c sh el => rfl
  | dnil => rfl
  | dcons k' v r ihv ihr =>
    simp only [Val.mapVals, Val.get?]
    by_cases h : k' = k
    · simp [h]
    · simp [h, ihr]

/-- what an operation may put into the object -/
def opOk : RdmOp → Bool
  | .takeRdms _ => true
  | .setDesc _ v => fieldOk .utf8 v
  | .setMeasure m => !m.isDict && storableLeaf .utf8 m

theorem storable_set (d : Val) (key : String) (v : Val) (hd : storable .utf8 d = true)
    (hv : fieldOk .utf8 v = true) : storable .utf8 (d.set key v) = true := by
  induction d with
  | none => simp [storable] at hd
  | str s => simp [storable] at hd
  | tens c sh el => simp [storable] at hd
  | dnil => simp [Val.set, storable_dcons, hv, storable]
  | dcons k x r ihx ihr =>
    simp only [storable_dcons, Bool.and_eq_true] at hd
    simp only [Val.set]
    by_cases h : k = key
    · simp [h, storable_dcons, hv, hd.2]
    · simp [h, storable_dcons, hd.1, ihr hd.2]

theorem isDict_set (d : Val) (key : String) (v : Val) : (d.set key v).isDict = d.isDict := by
  cases d with
  | dcons k x r =>
    simp only [Val.set]
    by_cases h : k = key <;> simp [h, Val.isDict]
  | none => rfl
  | str s => rfl
  | tens _ _ _ => rfl
  | dnil => rfl

/-- one operation keeps the object a well-formed, storable RDMs object -/
theorem applyRdmOp_keeps (op : RdmOp) (o : Val) (hop : opOk op = true) (hg : Good .rdms o)
    (hst : storable .utf8 o = true) :
    Good .rdms (applyRdmOp op o) ∧ storable .utf8 (applyRdmOp op o) = true := by
  obtain ⟨dis, desc, rd, pd, meas, rfl, hwf⟩ := hg
  rw [storable_mkRdms] at hst
  simp only [Bool.and_eq_true, Bool.and_true] at hst
  obtain ⟨s1, s2, s3, s4, s5⟩ := hst
  cases op with
  | takeRdms idx =>
    cases dis with
    | tens c sh el =>
      match sh, hwf with
      | [nr, np], hwf =>
        simp only [rdmsWF, Bool.and_eq_true] at hwf
        obtain ⟨⟨⟨w1, w2⟩, w3⟩, w4⟩ := hwf
        have e : applyRdmOp (.takeRdms idx) (mkRdms (.tens c [nr, np] el) desc rd pd meas) =
            mkRdms (.tens c [idx.length, np] (gather0 [0, np] el idx)) desc
              (rd.mapVals (takeVal idx)) pd meas := by
          simp [applyRdmOp, mkRdms, mkDict, Val.get?, Val.set]
        rw [e]
        refine ⟨⟨_, _, _, _, _, rfl, ?_⟩, ?_⟩
        · simp only [rdmsWF, Bool.and_eq_true]
          refine ⟨⟨⟨elemOk_mapVals_takeVal nr idx rd w1, ?_⟩, w3⟩, w4⟩
          rw [get?_mapVals]
          cases h : rd.get? "index" <;> simp [h] at w2 ⊢
        · rw [storable_mkRdms]
          simp only [Bool.and_eq_true, Bool.and_true]
          refine ⟨?_, s2, ?_, s4, s5⟩
          · have := fieldOk_gather c [nr, np] [idx.length, np] el idx s1
            simpa using this
          · simp only [fieldOk, isDict_mapVals] at s3 ⊢
            by_cases hd : rd.isDict = true
            · simp only [hd, if_true] at s3 ⊢
              exact storable_mapVals_takeVal idx rd s3
            · -- a non-dictionary here contradicts well-formedness (`elemOk`)
              cases rd <;> simp [elemOk, Val.isDict] at w1 hd
    | none => simp [rdmsWF] at hwf
    | str s => simp [rdmsWF] at hwf
    | dnil => simp [rdmsWF] at hwf
    | dcons _ _ _ => simp [rdmsWF] at hwf
  | setDesc key v =>
    have e : applyRdmOp (.setDesc key v) (mkRdms dis desc rd pd meas) =
        mkRdms dis (desc.set key v) rd pd meas := by
      simp [applyRdmOp, mkRdms, mkDict, Val.get?, Val.set]
    rw [e]
    refine ⟨⟨_, _, _, _, _, rfl, hwf⟩, ?_⟩
    rw [storable_mkRdms]
    simp only [Bool.and_eq_true, Bool.and_true]
    refine ⟨s1, ?_, s3, s4, s5⟩
    simp only [fieldOk, isDict_set] at s2 ⊢
    by_cases hd : desc.isDict = true
    · simp only [hd, if_true] at s2 ⊢
      exact storable_set desc key v s2 hop
    · have hd' : desc.isDict = false := by simpa using hd
      simp only [hd', Bool.false_eq_true, if_false] at s2 ⊢
      cases desc <;> simp [Val.isDict] at hd' <;> exact s2
  | setMeasure m =>
    have e : applyRdmOp (.setMeasure m) (mkRdms dis desc rd pd meas) =
        mkRdms dis desc rd pd m := by
      simp [applyRdmOp, mkRdms, mkDict, Val.set]
    rw [e]
    refine ⟨⟨_, _, _, _, _, rfl, hwf⟩, ?_⟩
    rw [storable_mkRdms]
    simp only [Bool.and_eq_true, Bool.and_true]
    refine ⟨s1, s2, s3, s4, ?_⟩
    simp only [opOk, Bool.and_eq_true, Bool.not_eq_true'] at hop
    simp [fieldOk, hop.1, hop.2]

theorem applyRdmOps_keeps (ops : List RdmOp) (o : Val) (hops : ∀ op ∈ ops, opOk op = true)
    (hg : Good .rdms o) (hst : storable .utf8 o = true) :
    Good .rdms (applyRdmOps ops o) ∧ storable .utf8 (applyRdmOps ops o) = true := by
  induction ops generalizing o with
  | nil => exact ⟨hg, hst⟩
  | cons op r ih =>
    obtain ⟨g1, s1⟩ := applyRdmOp_keeps op o (hops op (by simp)) hg hst
    exact ih (applyRdmOp op o) (fun op' h => hops op' (by simp [h])) g1 s1

end Rsa.Store
