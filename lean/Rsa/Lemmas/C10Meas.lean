/- C10 helper lemmas (round 3): measures beside the store, index forms of `__getitem__`,
   descriptor rules of `append` / `concat` / `from_partials` -/
import Rsa.Lemmas.C10RKeys
import Rsa.Core.C10Meas

set_option linter.unusedSectionVars false
set_option linter.unusedVariables false
set_option linter.unusedSimpArgs false

namespace Rsa.Rdm

open Rsa

variable {α : Type} [Zero α]

/-! ### how many objects a step adds -/

/-- value-returning operations bind one new object, in-place operations none -/
def Op.adds : Op → Nat
  | .reorder _ _ => 0
  | .sortAlpha _ _ _ => 0
  | .sortList _ _ _ _ => 0
  | .append _ _ => 0
  | _ => 1

theorem writeBack_length (s : Store α) : ∀ (is : List Nat) (args : List (Obj α)),
    (writeBack s is args).length = s.length := by
  intro is
  induction is generalizing s with
  | nil => intro args; simp [writeBack]
  | cons i is ih =>
    intro args
    cases args with
    | nil => simp [writeBack]
    | cons a as => simp [writeBack, ih]

theorem stepE_length {cm : Bool} {s s' : Store α} {op : Op} (hs : stepE cm s op = some s') :
    s'.length = s.length + op.adds := by
  cases op <;>
    simp only [stepE, Option.bind_eq_bind, Option.bind_eq_some_iff, bindNew, replaceAt,
      Option.map_eq_some_iff, Option.pure_def] at hs
  case getitem => obtain ⟨_, _, _, _, rfl⟩ := hs; simp [Op.adds]
  case subset => obtain ⟨_, _, _, _, rfl⟩ := hs; simp [Op.adds]
  case subsample => obtain ⟨_, _, _, _, rfl⟩ := hs; simp [Op.adds]
  case subsetPattern => obtain ⟨_, _, _, _, rfl⟩ := hs; simp [Op.adds]
  case subsamplePattern => obtain ⟨_, _, _, _, rfl⟩ := hs; simp [Op.adds]
  case copy => obtain ⟨_, _, _, _, rfl⟩ := hs; simp [Op.adds]
  case permute => obtain ⟨_, _, _, _, rfl⟩ := hs; simp [Op.adds]
  case inversePermute => obtain ⟨_, _, _, _, rfl⟩ := hs; simp [Op.adds]
  case fromPartials => obtain ⟨_, _, _, _, rfl⟩ := hs; simp [Op.adds]
  case reorder => obtain ⟨_, _, _, _, rfl⟩ := hs; simp [Op.adds]
  case sortAlpha => obtain ⟨_, _, _, _, rfl⟩ := hs; simp [Op.adds]
  case sortList => obtain ⟨_, _, _, _, rfl⟩ := hs; simp [Op.adds]
  case append => obtain ⟨_, _, _, _, _, _, rfl⟩ := hs; simp [Op.adds]
  case concat =>
    obtain ⟨_, _, ⟨res, args⟩, _, hs⟩ := hs
    simp only [Option.some.injEq] at hs
    subst hs
    cases cm <;> simp [Op.adds, writeBack_length]

theorem measStep_length {pk : Bool} {m m' : MStore} {op : Op} (h : measStep pk m op = some m') :
    m'.length = m.length + op.adds := by
  cases op <;>
    simp only [measStep, Option.bind_eq_bind, Option.bind_eq_some_iff, Option.pure_def,
      Option.some.injEq] at h
  case getitem => obtain ⟨_, _, rfl⟩ := h; simp [Op.adds]
  case subset => obtain ⟨_, _, rfl⟩ := h; simp [Op.adds]
  case subsample => obtain ⟨_, _, rfl⟩ := h; simp [Op.adds]
  case subsetPattern => obtain ⟨_, _, rfl⟩ := h; simp [Op.adds]
  case subsamplePattern => obtain ⟨_, _, rfl⟩ := h; simp [Op.adds]
  case copy => obtain ⟨_, _, rfl⟩ := h; simp [Op.adds]
  case permute => obtain ⟨_, _, rfl⟩ := h; simp [Op.adds]
  case inversePermute => obtain ⟨_, _, rfl⟩ := h; simp [Op.adds]
  case reorder => obtain ⟨_, _, rfl⟩ := h; simp [Op.adds]
  case sortAlpha => obtain ⟨_, _, rfl⟩ := h; simp [Op.adds]
  case sortList => obtain ⟨_, _, rfl⟩ := h; simp [Op.adds]
  case append =>
    obtain ⟨a, _, b, _, h⟩ := h
    split at h
    · simp only [Option.some.injEq] at h; subst h; simp [Op.adds]
    · simp at h
  case concat =>
    obtain ⟨ms, _, h⟩ := h
    split at h
    · simp at h
    · split at h
      · simp only [Option.some.injEq] at h; subst h; simp [Op.adds]
      · simp at h
  case fromPartials =>
    obtain ⟨ms, _, h⟩ := h
    split at h
    · simp only [Option.some.injEq] at h; subst h; simp [Op.adds]
    · simp at h

/-- no step ever changes the measure of an object that already exists -/
theorem measStep_frame {pk : Bool} {m m' : MStore} {op : Op} (h : measStep pk m op = some m')
    (j : Nat) (hj : j < m.length) : m'[j]? = m[j]? := by
  cases op <;>
    simp only [measStep, Option.bind_eq_bind, Option.bind_eq_some_iff, Option.pure_def,
      Option.some.injEq] at h
  case getitem => obtain ⟨_, _, rfl⟩ := h; exact List.getElem?_append_left hj
  case subset => obtain ⟨_, _, rfl⟩ := h; exact List.getElem?_append_left hj
  case subsample => obtain ⟨_, _, rfl⟩ := h; exact List.getElem?_append_left hj
  case subsetPattern => obtain ⟨_, _, rfl⟩ := h; exact List.getElem?_append_left hj
  case subsamplePattern => obtain ⟨_, _, rfl⟩ := h; exact List.getElem?_append_left hj
  case copy => obtain ⟨_, _, rfl⟩ := h; exact List.getElem?_append_left hj
  case permute => obtain ⟨_, _, rfl⟩ := h; exact List.getElem?_append_left hj
  case inversePermute => obtain ⟨_, _, rfl⟩ := h; exact List.getElem?_append_left hj
  case reorder => obtain ⟨_, _, rfl⟩ := h; rfl
  case sortAlpha => obtain ⟨_, _, rfl⟩ := h; rfl
  case sortList => obtain ⟨_, _, rfl⟩ := h; rfl
  case append =>
    obtain ⟨a, _, b, _, h⟩ := h
    split at h
    · simp only [Option.some.injEq] at h; subst h; rfl
    · simp at h
  case concat =>
    obtain ⟨ms, _, h⟩ := h
    split at h
    · simp at h
    · split at h
      · simp only [Option.some.injEq] at h; subst h; exact List.getElem?_append_left hj
      · simp at h
  case fromPartials =>
    obtain ⟨ms, _, h⟩ := h
    split at h
    · simp only [Option.some.injEq] at h; subst h; exact List.getElem?_append_left hj
    · simp at h

theorem measOf_mem {m : MStore} : ∀ {is : List Nat} {ms : List (Option String)},
    measOf m is = some ms → ∀ x ∈ ms, x ∈ m := by
  intro is ms h
  exact mem_of_mapM_getElem? h

theorem measOf_forall₂ {m : MStore} : ∀ {is : List Nat} {ms : List (Option String)},
    measOf m is = some ms → List.Forall₂ (fun i x => m[i]? = some x) is ms := by
  intro is ms h
  exact forall₂_of_mapM_opt _ h

/-! ### index forms -/

theorem normIdx_lt {n : Nat} {i : Int} {a : Nat} (h : normIdx n i = some a) : a < n := by
  unfold normIdx at h
  split at h
  · split at h
    · simp only [Option.some.injEq] at h; omega
    · simp at h
  · split at h
    · rename_i h0 h1
      simp only [Option.some.injEq] at h
      have : 0 < (-i).toNat := by omega
      omega
    · simp at h

theorem upFrom_lt (stop step : Nat) : ∀ (fuel start : Nat), ∀ a ∈ upFrom start stop step fuel, a < stop := by
  intro fuel
  induction fuel with
  | zero => intro start a ha; simp [upFrom] at ha
  | succ f ih =>
    intro start a ha
    simp only [upFrom] at ha
    split at ha
    · rcases List.mem_cons.mp ha with rfl | ha
      · assumption
      · exact ih _ a ha
    · simp at ha

theorem downFrom_le (stop : Option Nat) (step : Nat) :
    ∀ (fuel start : Nat), ∀ a ∈ downFrom start stop step fuel, a ≤ start := by
  intro fuel
  induction fuel with
  | zero => intro start a ha; simp [downFrom] at ha
  | succ f ih =>
    intro start a ha
    have key : a ∈ start :: (if step ≤ start then downFrom (start - step) stop step f else []) := by
      simp only [downFrom] at ha
      cases stop with
      | none => simpa using ha
      | some b =>
        simp only at ha
        split at ha
        · exact ha
        · simp at ha
    rcases List.mem_cons.mp key with rfl | hk
    · exact Nat.le_refl _
    · split at hk
      · have := ih _ a hk; omega
      · simp at hk

theorem clampPos_le (n : Nat) (b : Int) : clampPos n b ≤ n := by
  unfold clampPos
  split <;> omega

theorem clampNeg_lt {n : Nat} (hn : n ≠ 0) {b : Int} {a : Nat} (h : clampNeg n b = some a) : a < n := by
  unfold clampNeg at h
  split at h
  · simp only [Option.some.injEq] at h; omega
  · split at h
    · rename_i h0 h1
      simp only [Option.some.injEq] at h
      have : 0 < (-b).toNat := by omega
      omega
    · simp at h

theorem mapM_normIdx_lt {n : Nat} : ∀ {l : List Int} {sel : List Nat},
    l.mapM (normIdx n) = some sel → ∀ a ∈ sel, a < n := by
  intro l
  induction l with
  | nil =>
    intro sel h a ha
    simp only [List.mapM_nil, Option.pure_def, Option.some.injEq] at h
    subst h; simp at ha
  | cons i is ih =>
    intro sel h a ha
    simp only [List.mapM_cons, Option.bind_eq_bind, Option.pure_def, Option.bind_eq_some_iff] at h
    obtain ⟨x, hx, xs, hxs, hsel⟩ := h
    simp only [Option.some.injEq] at hsel
    subst hsel
    rcases List.mem_cons.mp ha with rfl | ha
    · exact normIdx_lt hx
    · exact ih hxs a ha

theorem upFrom_range' : ∀ (fuel a : Nat), upFrom a (a + fuel) 1 fuel = List.range' a fuel := by
  intro fuel
  induction fuel with
  | zero => intro a; simp [upFrom]
  | succ f ih =>
    intro a
    simp only [upFrom]
    rw [if_pos (by omega)]
    have : a + (f + 1) = (a + 1) + f := by omega
    rw [this, ih (a + 1), List.range'_succ]

end Rsa.Rdm
