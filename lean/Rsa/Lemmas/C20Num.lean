/- helper lemmas for C20: numeric part (design-matrix normalisation, SPM projection) -/
import Mathlib.Algebra.Order.Field.Basic
import Mathlib.Algebra.BigOperators.Ring.Finset
import Mathlib.Algebra.BigOperators.Group.Finset.Sigma
import Mathlib.Algebra.Order.BigOperators.Group.List
import Mathlib.Tactic.Ring
import Mathlib.Tactic.FieldSimp
import Mathlib.Tactic.Linarith
import Rsa.Core.Importers

set_option linter.unusedSectionVars false
set_option linter.unusedVariables false
set_option linter.unusedSimpArgs false

namespace Rsa.Importers

open Finset

/-! ### sums -/

theorem sumRange_eq {K : Type} [AddCommMonoid K] (n : Nat) (f : Nat → K) :
    sumRange n f = ∑ i ∈ range n, f i := by
  unfold sumRange
  induction n with
  | zero => simp
  | succ n ih => rw [List.range_succ, List.map_append, List.sum_append, ih, sum_range_succ]; simp

section field
variable {K : Type} [Field K]

/-- `X0ᵀ (Y − X0 (X0ᵀ Y)) = 0` when `X0ᵀ X0 = I` -/
theorem filterRun_orth (t k : Nat) (X Y : Nat → Nat → K)
    (horth : ∀ c < k, ∀ c' < k, ∑ r ∈ range t, X r c * X r c' = if c = c' then 1 else 0)
    (c : Nat) (hc : c < k) (p : Nat) :
    ∑ r ∈ range t, X r c * filterRun t k X Y r p = 0 := by
  set A : Nat → K := fun c' => ∑ r' ∈ range t, X r' c' * Y r' p with hA
  have key : ∀ r, filterRun t k X Y r p = Y r p - ∑ c' ∈ range k, X r c' * A c' := by
    intro r; simp only [filterRun, sumRange_eq, hA]
  simp only [key]
  calc ∑ r ∈ range t, X r c * (Y r p - ∑ c' ∈ range k, X r c' * A c')
      = A c - ∑ r ∈ range t, ∑ c' ∈ range k, X r c * (X r c' * A c') := by
        simp only [mul_sub, sum_sub_distrib, mul_sum, hA]
    _ = A c - ∑ c' ∈ range k, ∑ r ∈ range t, X r c * (X r c' * A c') := by rw [sum_comm]
    _ = A c - ∑ c' ∈ range k, (∑ r ∈ range t, X r c * X r c') * A c' := by
        congr 1; apply sum_congr rfl; intro c' _
        rw [sum_mul]; apply sum_congr rfl; intro r _; ring
    _ = A c - ∑ c' ∈ range k, (if c = c' then 1 else 0) * A c' := by
        congr 1; apply sum_congr rfl; intro c' hc'
        rw [horth c hc c' (mem_range.mp hc')]
    _ = 0 := by simp [ite_mul, hc]

end field

/-! ### max / min / normalisation -/

section ord
variable {K : Type} [Field K] [LinearOrder K] [IsStrictOrderedRing K]

theorem lmin_le_lmax : ∀ {x : List K}, x ≠ [] → lmin x ≤ lmax x
  | [a], _ => le_refl a
  | a :: b :: r, _ => by
    have ih := lmin_le_lmax (x := b :: r) (by simp)
    show min a (lmin (b :: r)) ≤ max a (lmax (b :: r))
    exact le_trans (min_le_left _ _) (le_max_left _ _)

theorem lmax_map_mono {f : K → K} (hf : Monotone f) : ∀ {x : List K}, x ≠ [] →
    lmax (x.map f) = f (lmax x)
  | [a], _ => rfl
  | a :: b :: r, _ => by
    have ih := lmax_map_mono hf (x := b :: r) (by simp)
    show max (f a) (lmax ((b :: r).map f)) = f (max a (lmax (b :: r)))
    rw [ih, hf.map_max]

theorem lmin_map_mono {f : K → K} (hf : Monotone f) : ∀ {x : List K}, x ≠ [] →
    lmin (x.map f) = f (lmin x)
  | [a], _ => rfl
  | a :: b :: r, _ => by
    have ih := lmin_map_mono hf (x := b :: r) (by simp)
    show min (f a) (lmin ((b :: r).map f)) = f (min a (lmin (b :: r)))
    rw [ih, hf.map_min]

theorem sum_map_affine (m r : K) (x : List K) :
    (x.map (fun v => (v - m) / r)).sum = (x.sum - x.length * m) / r := by
  induction x with
  | nil => simp
  | cons a as ih =>
    simp only [List.map_cons, List.sum_cons, ih, List.length_cons, Nat.cast_succ]
    ring

end ord

/-! ### `uniq`, `allSome` -/

theorem mem_uniq {τ : Type} [DecidableEq τ] (l : List τ) (y : τ) : y ∈ uniq l ↔ y ∈ l := by
  induction l with
  | nil => simp [uniq]
  | cons x xs ih =>
    simp only [uniq, List.mem_cons, List.mem_filter, ih]
    by_cases h : y = x
    · simp [h]
    · simp [h]

theorem nodup_uniq {τ : Type} [DecidableEq τ] (l : List τ) : (uniq l).Nodup := by
  induction l with
  | nil => simp [uniq]
  | cons x xs ih =>
    simp only [uniq, List.nodup_cons, List.mem_filter]
    exact ⟨by simp, ih.filter _⟩

theorem allSome_eq_some_iff {α : Type} : ∀ (c : List (Option α)) (col : List α),
    allSome c = some col ↔ c = col.map some
  | [], col => by cases col <;> simp [allSome]
  | none :: r, col => by cases col <;> simp [allSome]
  | some v :: r, col => by
    cases col with
    | nil => simp [allSome]
    | cons w ws =>
      simp only [allSome, Option.map_eq_some_iff, List.map_cons, List.cons.injEq, Option.some.injEq]
      constructor
      · rintro ⟨a, ha, hv, rfl⟩
        exact ⟨hv, (allSome_eq_some_iff r a).mp ha⟩
      · rintro ⟨hv, hr⟩
        exact ⟨ws, (allSome_eq_some_iff r ws).mpr hr, hv, rfl⟩

end Rsa.Importers
