/-
  Helper lemmas for property C02, part 3: the structure of the leave-one-fold-out loop
  (sorting, fold subsets, alignment of the condition rows, training mean).
-/
import Rsa.Lemmas.C02Num

set_option linter.unusedSectionVars false
set_option linter.unusedVariables false
set_option linter.unusedSimpArgs false
set_option linter.unusedDecidableInType false

namespace Rsa.CrossVal

open List

variable {L F : Type} [LinearOrder L] [LinearOrder F]
variable {K : Type} [Field K] [LinearOrder K] [IsStrictOrderedRing K]

/-- fold balance: every condition of the dataset is observed exactly `R ≥ 1` times in every
    fold of the dataset -/
def Balanced (D : List (Obs L F K)) (R : Nat) : Prop :=
  0 < R ∧ ∀ c ∈ D.map (·.cond), ∀ f ∈ D.map (·.fold), (cell D c f).length = R

theorem sortByCond_perm (D : List (Obs L F K)) : (sortByCond D).Perm D :=
  List.mergeSort_perm D _

theorem sortByCond_sorted (D : List (Obs L F K)) :
    ((sortByCond D).map (·.cond)).Pairwise (· ≤ ·) := by
  rw [List.pairwise_map]
  have := List.pairwise_mergeSort (le := fun (r s : Obs L F K) => leB r.cond s.cond)
    (fun a b c hab hbc => by
      rw [leB_iff] at *; exact le_trans hab hbc)
    (fun a b => by
      rcases le_total a.cond b.cond with h | h
      · simp [(leB_iff a.cond b.cond).mpr h]
      · simp [(leB_iff b.cond a.cond).mpr h]) D
  exact this.imp (fun {a b} h => (leB_iff a.cond b.cond).mp h)

theorem cell_perm {D1 D2 : List (Obs L F K)} (h : D1.Perm D2) (c : L) (f : F) :
    (cell D1 c f).Perm (cell D2 c f) := (h.filter _).map _

theorem foldMean_perm {D1 D2 : List (Obs L F K)} (h : D1.Perm D2) (T : (Nat → K) → (Nat → K))
    (c : L) (f : F) : foldMean T D1 c f = foldMean T D2 c f := by
  unfold foldMean
  rw [meanVec_perm (cell_perm h c f)]

theorem Balanced.perm {D1 D2 : List (Obs L F K)} {R : Nat} (hb : Balanced D1 R)
    (h : D1.Perm D2) : Balanced D2 R := by
  refine ⟨hb.1, ?_⟩
  intro c hc f hf
  have hc' : c ∈ D1.map (·.cond) := ((h.map _).mem_iff).mpr hc
  have hf' : f ∈ D1.map (·.fold) := ((h.map _).mem_iff).mpr hf
  rw [← hb.2 c hc' f hf']
  exact (cell_perm h c f).length_eq.symm

/-- rows of fold `f`, then of condition `c`: the cell -/
theorem test_rows_cell (Ds : List (Obs L F K)) (c : L) (f : F) :
    ((Ds.filter (fun r => r.fold = f)).filter (fun r => r.cond = c)).map (·.x) = cell Ds c f := by
  unfold cell
  rw [List.filter_filter]
  congr 1
  apply List.filter_congr
  intro r _
  by_cases h1 : r.fold = f <;> by_cases h2 : r.cond = c <;> simp [h1, h2]

/-- rows of the other folds, of condition `c`, restricted to fold `n`: the cell of `n` -/
theorem train_rows_cell (Ds : List (Obs L F K)) (others : List F) (c : L) {n : F}
    (hn : n ∈ others) :
    ((((Ds.filter (fun r => r.fold ∈ others)).filter (fun r => r.cond = c)).filter
      (fun r => r.fold = n)).map (·.x)) = cell Ds c n := by
  unfold cell
  rw [List.filter_filter, List.filter_filter]
  congr 1
  apply List.filter_congr
  intro r _
  by_cases h1 : r.fold = n
  · subst h1
    by_cases h2 : r.cond = c <;> simp [h2, hn]
  · simp [h1]

/-- a cell of positive length contains a row -/
theorem exists_row_of_cell {Ds : List (Obs L F K)} {c : L} {f : F}
    (h : 0 < (cell Ds c f).length) : ∃ r ∈ Ds, r.cond = c ∧ r.fold = f := by
  unfold cell at h
  rw [List.length_map] at h
  obtain ⟨r, hr⟩ := List.exists_mem_of_length_pos h
  have := List.mem_filter.mp hr
  exact ⟨r, this.1, by simpa using this.2⟩

/-- In a dataset sorted by condition, a subset of the rows that still contains every
    condition has the same distinct conditions in the same order — this is what makes the
    positional alignment of training and test means correct. -/
theorem conds_of_subset {Ds : List (Obs L F K)} (hs : (Ds.map (·.cond)).Pairwise (· ≤ ·))
    (p : Obs L F K → Bool)
    (hall : ∀ c ∈ Ds.map (·.cond), ∃ r ∈ Ds, p r = true ∧ r.cond = c) :
    uniqueFirst ((Ds.filter p).map (·.cond)) = uniqueFirst (Ds.map (·.cond)) := by
  apply uniqueFirst_eq_of_sorted _ hs
  · intro c
    constructor
    · intro hc
      obtain ⟨r, hr, rfl⟩ := List.mem_map.mp hc
      exact List.mem_map.mpr ⟨r, (List.mem_filter.mp hr).1, rfl⟩
    · intro hc
      obtain ⟨r, hr, hp, rfl⟩ := hall c hc
      exact List.mem_map.mpr ⟨r, List.mem_filter.mpr ⟨hr, hp⟩, rfl⟩
  · exact hs.sublist ((List.filter_sublist (l := Ds)).map _)

/-- **training mean = mean of the other folds' means** (fold balance is what makes the
    weights equal): the mean over all rows of condition `c` in the other folds is the
    mean over those folds of the fold-wise condition means -/
theorem train_mean (Ds : List (Obs L F K)) {others : List F} (hnd : others.Nodup)
    (hne : others ≠ []) (c : L) {R : Nat} (hR : 0 < R)
    (hcells : ∀ n ∈ others, (cell Ds c n).length = R) :
    meanVec (((Ds.filter (fun r => r.fold ∈ others)).filter (fun r => r.cond = c)).map (·.x))
      = meanVec (others.map (fun n => meanVec (cell Ds c n))) := by
  set l := (Ds.filter (fun r => r.fold ∈ others)).filter (fun r => r.cond = c) with hl
  have hkey : ∀ r ∈ l, r.fold ∈ others := by
    intro r hr
    have := (List.mem_filter.mp (List.mem_filter.mp hr).1).2
    simpa using this
  have hRK : ((R : Nat) : K) ≠ 0 := by exact_mod_cast hR.ne'
  have hMK : ((others.length : Nat) : K) ≠ 0 := by
    have : others.length ≠ 0 := fun h => hne (List.length_eq_zero_iff.mp h)
    exact_mod_cast this
  -- the number of training rows
  have hlen : ((l.length : Nat) : K) = ((others.length : Nat) : K) * ((R : Nat) : K) := by
    have h1 : ((l.length : Nat) : K) = (l.map (fun _ => (1 : K))).sum := by
      rw [lsum_const]; ring
    rw [h1, lsum_partition l (fun r => r.fold) hnd hkey (fun _ => (1 : K))]
    rw [lsum_congr (g := fun _ => ((R : Nat) : K))]
    · rw [lsum_const]
    · intro n hn
      rw [lsum_const, mul_one]
      have := congrArg List.length (train_rows_cell Ds others c hn)
      rw [List.length_map] at this
      rw [← hl] at this
      rw [this, hcells n hn]
  funext k
  unfold meanVec
  simp only [List.map_map, Function.comp_def, List.length_map]
  rw [hlen, lsum_partition l (fun r => r.fold) hnd hkey (fun r => r.x k)]
  have hsum : ∀ n ∈ others,
      ((l.filter (fun r => r.fold = n)).map (fun r => r.x k)).sum
        = ((cell Ds c n).map (fun v => v k)).sum := by
    intro n hn
    rw [← train_rows_cell Ds others c hn, ← hl, List.map_map]
    rfl
  rw [lsum_congr hsum]
  rw [lsum_congr (f := fun n => ((cell Ds c n).map (fun v => v k)).sum
        / (((cell Ds c n).length : Nat) : K))
      (g := fun n => ((cell Ds c n).map (fun v => v k)).sum / ((R : Nat) : K))
      (fun n hn => by rw [hcells n hn])]
  rw [lsum_div]
  field_simp

end Rsa.CrossVal
