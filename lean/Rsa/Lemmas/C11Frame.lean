/-
  Helper lemmas for the frame theorems of property C11 (`Rsa.Props.C11.applyOp_frame`,
  `sortBy_frame`, `keep_frame`): an operation addressed to one object of the workspace replaces
  that object by its results and leaves every other object as it was.
-/
import Rsa.Core.Dataset

set_option linter.unusedSectionVars false
set_option linter.unusedVariables false
set_option linter.unusedSimpArgs false

namespace Rsa.Lemmas.C11

open Rsa.Dataset

variable {α : Type}

theorem replaceAt_length {ws new : List (DS α)} {i : Nat} (hi : i < ws.length) :
    (replaceAt ws i new).length + 1 = ws.length + new.length := by
  unfold replaceAt
  simp only [List.length_append, List.length_take, List.length_drop]
  omega

theorem replaceAt_getElem?_lt {ws new : List (DS α)} {i j : Nat} (hi : i < ws.length) (h : j < i) :
    (replaceAt ws i new)[j]? = ws[j]? := by
  unfold replaceAt
  rw [List.append_assoc, List.getElem?_append_left (by rw [List.length_take]; omega)]
  simp [List.getElem?_take, h]

theorem replaceAt_getElem?_gt {ws new : List (DS α)} {i j : Nat} (hi : i < ws.length) (h : i < j) :
    (replaceAt ws i new)[j + new.length - 1]? = ws[j]? := by
  unfold replaceAt
  rw [List.getElem?_append_right (by simp only [List.length_append, List.length_take]; omega)]
  rw [List.getElem?_drop]
  congr 1
  simp only [List.length_append, List.length_take]
  omega

/-- the new objects sit at positions `i .. i + new.length - 1` -/
theorem replaceAt_getElem?_new {ws new : List (DS α)} {i k : Nat} (hi : i < ws.length) (h : k < new.length) :
    (replaceAt ws i new)[i + k]? = new[k]? := by
  unfold replaceAt
  rw [List.getElem?_append_left (by simp only [List.length_append, List.length_take]; omega)]
  rw [List.getElem?_append_right (by rw [List.length_take]; omega)]
  congr 1
  rw [List.length_take]; omega

/-- shape of one step: an operation addressed to object `i` either leaves the workspace as it is
    (`copy`) or replaces object `i` by a list of new objects -/
theorem applyOp_shape [Add α] [Zero α] [Div α] [NatCast α] {ws ws' : List (DS α)} {o : Op} {i : Nat}
    (ht : o.target = some i) (h : applyOp ws o = some ws') :
    ws' = ws ∨ ∃ d new, ws[i]? = some d ∧ ws' = replaceAt ws i new := by
  cases o <;> simp only [Op.target, Option.some.injEq, reduceCtorEq] at ht <;>
    simp only [applyOp, ht] at h
  case copy => exact Or.inl (Option.some.inj h).symm
  all_goals
    right
    cases hd : ws[i]? with
    | none => simp [hd] at h
    | some d =>
      simp only [hd, Option.bind_some, Option.map_some] at h
      first
        | (obtain ⟨a, _, rfl⟩ := Option.map_eq_some_iff.1 h; exact ⟨d, _, rfl, rfl⟩)
        | (cases h; exact ⟨d, _, rfl, rfl⟩)
        | (split at h
           · obtain ⟨a, _, rfl⟩ := Option.map_eq_some_iff.1 h; exact ⟨d, _, rfl, rfl⟩
           · simp at h)

end Rsa.Lemmas.C11
