/-
  Helper lemmas for property C13 (missing dissimilarities): masks, deletion, re-insertion,
  the reshape of the flattened kept values, column recursion for stacks.
-/
import Mathlib.Data.List.Basic
import Mathlib.Data.List.Flatten
import Mathlib.Tactic.Ring
import Mathlib.Tactic.Linarith
import Rsa.Core.Nan

set_option linter.unusedSectionVars false
set_option linter.unusedVariables false
set_option linter.unusedSimpArgs false

namespace Rsa.Nan

open Rsa Rsa.Compare

section mask
variable {α β : Type}

@[simp] theorem maskOf_nil : maskOf ([] : List (Option α)) = [] := rfl
@[simp] theorem maskOf_cons (a : Option α) (v : List (Option α)) :
    maskOf (a :: v) = a.isSome :: maskOf v := rfl
@[simp] theorem delete_nil : delete ([] : List (Option α)) = [] := rfl
@[simp] theorem delete_cons_some (a : α) (v : List (Option α)) : delete (some a :: v) = a :: delete v := rfl
@[simp] theorem delete_cons_none (v : List (Option α)) : delete (none :: v) = delete v := rfl

@[simp] theorem maskOf_length (v : List (Option α)) : (maskOf v).length = v.length := by
  simp [maskOf]

theorem delete_length (v : List (Option α)) : (delete v).length = (maskOf v).count true := by
  induction v with
  | nil => rfl
  | cons a v ih => cases a <;> simp [ih]

@[simp] theorem keep_nil_left (l : List β) : keep [] l = [] := by cases l <;> rfl
@[simp] theorem keep_nil_right (m : List Bool) : keep m ([] : List β) = [] := by
  cases m with
  | nil => rfl
  | cons b m => cases b <;> rfl
@[simp] theorem keep_true (m : List Bool) (a : β) (l : List β) : keep (true :: m) (a :: l) = a :: keep m l := rfl
@[simp] theorem keep_false (m : List Bool) (a : β) (l : List β) : keep (false :: m) (a :: l) = keep m l := rfl

theorem keep_map {γ : Type} (f : β → γ) (m : List Bool) (l : List β) :
    keep m (l.map f) = (keep m l).map f := by
  induction m generalizing l with
  | nil => simp
  | cons b m ih =>
    cases l with
    | nil => simp
    | cons a l => cases b <;> simp [ih]

theorem keep_maskOf' (v : List (Option α)) : keep (maskOf v) v = (delete v).map some := by
  induction v with
  | nil => rfl
  | cons a v ih => cases a <;> simp [ih]

theorem keep_all_true (m : List Bool) (l : List β) (h : ∀ b ∈ m, b = true) (hl : m.length = l.length) :
    keep m l = l := by
  induction m generalizing l with
  | nil => cases l <;> simp_all
  | cons b m ih =>
    cases l with
    | nil => simp at hl
    | cons a l =>
      have hb : b = true := h b (by simp)
      subst hb
      simp only [keep_true]
      rw [ih l (fun c hc => h c (by simp [hc])) (by simpa using hl)]

@[simp] theorem scatter_nil (vs : List α) : scatter [] vs = [] := by cases vs <;> rfl
@[simp] theorem scatter_false (m : List Bool) (vs : List α) :
    scatter (false :: m) vs = none :: scatter m vs := by cases vs <;> rfl
@[simp] theorem scatter_true_cons (m : List Bool) (v : α) (vs : List α) :
    scatter (true :: m) (v :: vs) = some v :: scatter m vs := rfl
@[simp] theorem scatter_true_nil (m : List Bool) :
    scatter (true :: m) ([] : List α) = none :: scatter m [] := rfl

@[simp] theorem scatter_length (m : List Bool) (vs : List α) : (scatter m vs).length = m.length := by
  induction m generalizing vs with
  | nil => simp
  | cons b m ih =>
    cases b
    · simp [ih]
    · cases vs <;> simp [ih]

theorem scatter_delete' (v : List (Option α)) : scatter (maskOf v) (delete v) = v := by
  induction v with
  | nil => rfl
  | cons a v ih => cases a <;> simp [ih]

theorem delete_scatter' (m : List Bool) (vs : List α) (h : vs.length = m.count true) :
    delete (scatter m vs) = vs := by
  induction m generalizing vs with
  | nil => cases vs <;> simp_all
  | cons b m ih =>
    cases b
    · simp only [scatter_false, delete_cons_none]
      exact ih vs (by simpa using h)
    · cases vs with
      | nil => simp at h
      | cons v vs =>
        simp only [scatter_true_cons, delete_cons_some]
        rw [ih vs (by simpa using h)]

theorem maskOf_scatter' (m : List Bool) (vs : List α) (h : vs.length = m.count true) :
    maskOf (scatter m vs) = m := by
  induction m generalizing vs with
  | nil => cases vs <;> simp_all
  | cons b m ih =>
    cases b
    · simp only [scatter_false, maskOf_cons, Option.isSome_none]
      rw [ih vs (by simpa using h)]
    · cases vs with
      | nil => simp at h
      | cons v vs =>
        simp only [scatter_true_cons, maskOf_cons, Option.isSome_some]
        rw [ih vs (by simpa using h)]

/-- mapping over the present values = deleting, mapping, putting back -/
theorem map_map_eq_scatter {γ : Type} (g : α → γ) (v : List (Option α)) :
    v.map (fun o => o.map g) = scatter (maskOf v) ((delete v).map g) := by
  induction v with
  | nil => rfl
  | cons a v ih => cases a <;> simp [ih]

theorem maskOf_map_map {γ : Type} (g : α → γ) (v : List (Option α)) :
    maskOf (v.map (fun o => o.map g)) = maskOf v := by
  induction v with
  | nil => rfl
  | cons a v ih => cases a <;> simp [ih]

theorem delete_map_map {γ : Type} (g : α → γ) (v : List (Option α)) :
    delete (v.map (fun o => o.map g)) = (delete v).map g := by
  induction v with
  | nil => rfl
  | cons a v ih => cases a <;> simp [ih]

theorem delete_map_some (x : List α) : delete (x.map some) = x := by
  induction x with
  | nil => rfl
  | cons a x ih => simp [ih]

theorem maskOf_map_some (x : List α) : maskOf (x.map some) = x.map (fun _ => true) := by
  induction x with
  | nil => rfl
  | cons a x ih => simp [ih]

end mask

/-! ### reshape of the flattened kept values -/

section reshape
variable {α : Type}

theorem flatten_drop_take (L : List (List α)) (k : Nat) (h : ∀ r ∈ L, r.length = k) (i : Nat)
    (hi : i < L.length) : (L.flatten.drop (i * k)).take k = L[i] := by
  induction L generalizing i with
  | nil => simp at hi
  | cons a L ih =>
    have ha : a.length = k := h a (by simp)
    cases i with
    | zero =>
      simp only [Nat.zero_mul, List.drop_zero, List.flatten_cons, List.getElem_cons_zero]
      rw [List.take_append_of_le_length (by omega)]
      rw [List.take_of_length_le (by omega)]
    | succ i =>
      simp only [List.flatten_cons, List.getElem_cons_succ]
      have : (i + 1) * k = a.length + i * k := by rw [ha]; ring
      rw [this, List.drop_append]
      have h1 : List.drop (a.length + i * k) a = [] := List.drop_eq_nil_of_le (by omega)
      rw [h1, List.nil_append, Nat.add_sub_cancel_left]
      exact ih (fun r hr => h r (by simp [hr])) i (by simpa using hi)

theorem flatten_length_const (L : List (List α)) (k : Nat) (h : ∀ r ∈ L, r.length = k) :
    L.flatten.length = L.length * k := by
  induction L with
  | nil => simp
  | cons a L ih =>
    simp only [List.flatten_cons, List.length_append, List.length_cons]
    rw [ih (fun r hr => h r (by simp [hr])), h a (by simp)]
    ring

theorem reshapeRows_flatten (L : List (List α)) (k : Nat) (h : ∀ r ∈ L, r.length = k) :
    reshapeRows L.length L.flatten = L := by
  unfold reshapeRows
  rcases Nat.eq_zero_or_pos L.length with h0 | hpos
  · have : L = [] := List.length_eq_zero_iff.mp h0
    subst this
    simp
  · have hk : L.flatten.length / L.length = k := by
      rw [flatten_length_const L k h]
      exact Nat.mul_div_cancel_left k hpos
    simp only [hk]
    apply List.ext_getElem
    · simp
    · intro i h1 h2
      simp only [List.getElem_map, List.getElem_range]
      exact flatten_drop_take L k h i h2

end reshape

/-! ### columns of a stack: head / tail recursion -/

section columns
variable {β : Type}

theorem colAt_zero (rows : List (List β)) : colAt 0 rows = rows.filterMap List.head? := by
  unfold colAt
  congr 1
  funext r
  cases r <;> simp

theorem colAt_succ (k : Nat) (rows : List (List β)) : colAt (k + 1) rows = colAt k (rows.map List.tail) := by
  unfold colAt
  rw [List.filterMap_map]
  congr 1
  funext r
  cases r <;> simp

theorem range_succ_map {γ : Type} (f : Nat → γ) (n : Nat) :
    (List.range (n + 1)).map f = f 0 :: (List.range n).map (fun k => f (k + 1)) := by
  rw [List.range_succ_eq_map]
  simp [List.map_map, Function.comp_def]

end columns

end Rsa.Nan
