/-
  Helper lemmas for C17, invariance part:
    * the Kendall pair counts only depend on the order relations among the entries;
    * inner products / cosine under positive scaling, mean removal under affine maps;
    * `Real.sqrt` is strictly increasing on the non-negative reals, tie-averaged ranks are
      strictly increasing on the entries.
-/
import Rsa.Lemmas.C03
import Rsa.Lemmas.C03Kendall
import Rsa.Lemmas.C03Whiten
import Rsa.Lemmas.C17Rank

set_option linter.unusedSectionVars false
set_option linter.unusedVariables false
set_option linter.unusedSimpArgs false
set_option linter.unnecessarySimpa false

namespace Rsa.Transform

open Rsa Rsa.Compare

/-! ### Kendall pair counts -/

theorem countPairs_congr {β : Type} {r r' : β → β → Bool} {l : List β}
    (h : ∀ a ∈ l, ∀ b ∈ l, r a b = r' a b) : countPairs r l = countPairs r' l := by
  unfold countPairs
  apply List.countP_congr
  intro p hp
  obtain ⟨h1, h2⟩ := mem_pairsOf hp
  rw [h p.1 h1 p.2 h2]

section counts
variable {K : Type} [Field K] [LinearOrder K] [IsStrictOrderedRing K]

/-- the five pair counts are unchanged when the first vector is mapped by a function that
    is strictly increasing on its entries -/
theorem counts_map_left {f : K → K} {x : List K} (h : OrdEmbOn f x) (y : List K) :
    nCon (x.map f) y = nCon x y ∧ nDis (x.map f) y = nDis x y ∧
    nTieX (x.map f) y = nTieX x y ∧ nTieY (x.map f) y = nTieY x y ∧
    nTieXY (x.map f) y = nTieXY x y := by
  have hz : (x.map f).zip y = (x.zip y).map (Prod.map f id) := by
    rw [List.zip_map_left]
  have key : ∀ p ∈ x.zip y, ∀ q ∈ x.zip y,
      ((f p.1 < f q.1 ↔ p.1 < q.1) ∧ (f q.1 < f p.1 ↔ q.1 < p.1)) := by
    intro p hp q hq
    have hp1 : p.1 ∈ x := (List.of_mem_zip (a := p.1) (b := p.2) hp).1
    have hq1 : q.1 ∈ x := (List.of_mem_zip (a := q.1) (b := q.2) hq).1
    exact ⟨h p.1 hp1 q.1 hq1, h q.1 hq1 p.1 hp1⟩
  unfold nCon nDis nTieX nTieY nTieXY
  rw [hz]
  simp only [countPairs_map]
  refine ⟨?_, ?_, ?_, ?_, ?_⟩ <;>
  · apply countPairs_congr
    intro p hp q hq
    obtain ⟨k1, k2⟩ := key p hp q hq
    simp [concordant, discordant, tieX, tieY, tieXY, tiedB, Prod.map, k1, k2]

theorem counts_map_right {f : K → K} {y : List K} (h : OrdEmbOn f y) (x : List K) :
    nCon x (y.map f) = nCon x y ∧ nDis x (y.map f) = nDis x y ∧
    nTieX x (y.map f) = nTieX x y ∧ nTieY x (y.map f) = nTieY x y ∧
    nTieXY x (y.map f) = nTieXY x y := by
  have hz : x.zip (y.map f) = (x.zip y).map (Prod.map id f) := by
    rw [List.zip_map_right]
  have key : ∀ p ∈ x.zip y, ∀ q ∈ x.zip y,
      ((f p.2 < f q.2 ↔ p.2 < q.2) ∧ (f q.2 < f p.2 ↔ q.2 < p.2)) := by
    intro p hp q hq
    have hp1 : p.2 ∈ y := (List.of_mem_zip (a := p.1) (b := p.2) hp).2
    have hq1 : q.2 ∈ y := (List.of_mem_zip (a := q.1) (b := q.2) hq).2
    exact ⟨h p.2 hp1 q.2 hq1, h q.2 hq1 p.2 hp1⟩
  unfold nCon nDis nTieX nTieY nTieXY
  rw [hz]
  simp only [countPairs_map]
  refine ⟨?_, ?_, ?_, ?_, ?_⟩ <;>
  · apply countPairs_congr
    intro p hp q hq
    obtain ⟨k1, k2⟩ := key p hp q hq
    simp [concordant, discordant, tieX, tieY, tieXY, tiedB, Prod.map, k1, k2]

theorem tauA_map_left {f : K → K} {x : List K} (h : OrdEmbOn f x) (y : List K) :
    tauA (x.map f) y = tauA x y := by
  obtain ⟨_, h2, h3, h4, h5⟩ := counts_map_left h y
  unfold tauA conMinusDis
  rw [h2, h3, h4, h5, List.length_map]

theorem tauA_map_right {f : K → K} {y : List K} (h : OrdEmbOn f y) (x : List K) :
    tauA x (y.map f) = tauA x y := by
  obtain ⟨_, h2, h3, h4, h5⟩ := counts_map_right h x
  unfold tauA conMinusDis
  rw [h2, h3, h4, h5]

end counts

theorem tauB_map_left {f : ℝ → ℝ} {x : List ℝ} (h : OrdEmbOn f x) (y : List ℝ) :
    tauB (x.map f) y = tauB x y := by
  obtain ⟨_, h2, h3, h4, h5⟩ := counts_map_left h y
  unfold tauB conMinusDis
  rw [h2, h3, h4, h5, List.length_map]

theorem tauB_map_right {f : ℝ → ℝ} {y : List ℝ} (h : OrdEmbOn f y) (x : List ℝ) :
    tauB x (y.map f) = tauB x y := by
  obtain ⟨_, h2, h3, h4, h5⟩ := counts_map_right h x
  unfold tauB conMinusDis
  rw [h2, h3, h4, h5]

/-! ### tie-averaged ranks -/

theorem avgRank_map {f : ℝ → ℝ} {x : List ℝ} (h : OrdEmbOn f x) : avgRank (x.map f) = avgRank x :=
  rankList_map h .average

/-- the tie-averaged rank is strictly increasing on the entries -/
theorem ordEmbOn_rankOf (x : List ℝ) : OrdEmbOn (rankOf x) x := by
  intro a ha b hb
  constructor
  · intro hlt
    by_contra hc
    rcases lt_or_eq_of_le (not_lt.mp hc) with h | h
    · exact lt_asymm hlt (rankOf_lt hb h)
    · rw [h] at hlt; exact lt_irrefl _ hlt
  · exact rankOf_lt ha

theorem ordEmbOn_sqrt {x : List ℝ} (hx : ∀ a ∈ x, 0 ≤ a) : OrdEmbOn Real.sqrt x :=
  fun a ha b hb => Real.sqrt_lt_sqrt_iff (hx a ha)

/-! ### scaling and affine maps -/

section dot
variable {K : Type} [Field K] [LinearOrder K] [IsStrictOrderedRing K]

theorem dot_map_mul_left (c : K) (x y : List K) : dot (x.map (c * ·)) y = c * dot x y := by
  induction x generalizing y with
  | nil => simp
  | cons a x ih => cases y with
    | nil => simp
    | cons b y => simp [ih y]; ring

theorem dot_map_mul_right (c : K) (x y : List K) : dot x (y.map (c * ·)) = c * dot x y := by
  rw [dot_comm, dot_map_mul_left, dot_comm]

theorem sum_map_affine (a b : K) (x : List K) :
    (x.map (fun t => a * t + b)).sum = a * x.sum + x.length * b := by
  induction x with
  | nil => simp
  | cons c x ih => simp [ih]; ring

/-- mean removal turns a positive-slope affine map into the scaling by its slope -/
theorem center_map_affine (a b : K) (x : List K) :
    center (x.map (fun t => a * t + b)) = (center x).map (a * ·) := by
  cases x with
  | nil => simp [center]
  | cons c t =>
    have hn : ((c :: t).length : K) ≠ 0 := by
      simp only [List.length_cons]; push_cast; positivity
    have hm : mean ((c :: t).map (fun s => a * s + b)) = a * mean (c :: t) + b := by
      unfold mean
      rw [sum_map_affine, List.length_map]
      field_simp
    unfold center
    rw [hm, List.map_map, List.map_map]
    apply List.map_congr_left
    intro s _
    simp only [Function.comp]
    ring

/-- inner product of two vectors from each of which a constant is subtracted (round 7) -/
theorem dot_map_sub_sub (d e : K) (u v : List K) (h : u.length = v.length) :
    dot (u.map (· - d)) (v.map (· - e)) = dot u v - e * u.sum - d * v.sum + u.length * (d * e) := by
  induction u generalizing v with
  | nil => cases v with
    | nil => simp
    | cons b v => simp at h
  | cons a u ih => cases v with
    | nil => simp at h
    | cons b v =>
      simp only [List.length_cons, Nat.add_right_cancel_iff] at h
      simp only [List.map_cons, dot_cons, List.sum_cons, List.length_cons, ih v h]
      push_cast
      ring

/-- a mean-removed vector sums to zero -/
theorem sum_center (x : List K) : (center x).sum = 0 := by
  cases x with
  | nil => simp [center]
  | cons c t =>
    have hn : ((c :: t).length : K) ≠ 0 := by
      simp only [List.length_cons]; push_cast; positivity
    have h := sum_map_affine (1 : K) (-(mean (c :: t))) (c :: t)
    have e : center (c :: t) = (c :: t).map (fun s => 1 * s + -(mean (c :: t))) := by
      unfold center; apply List.map_congr_left; intro s _; ring
    rw [e, h]
    unfold mean
    field_simp
    ring

end dot

theorem cosine_scale_left {c : ℝ} (hc : 0 < c) (x y : List ℝ) :
    cosine (x.map (c * ·)) y = cosine x y := by
  rw [cosine_eq, cosine_eq, dot_map_mul_left, dot_map_mul_left, dot_map_mul_right]
  have h1 : Real.sqrt (c * (c * dot x x)) = c * Real.sqrt (dot x x) := by
    rw [← mul_assoc, Real.sqrt_mul (mul_self_nonneg c), Real.sqrt_mul_self hc.le]
  rw [h1]
  have hiff : (0 < c * Real.sqrt (dot x x)) ↔ 0 < Real.sqrt (dot x x) :=
    ⟨fun h => by by_contra hn; exact absurd h (not_lt.mpr (mul_nonpos_of_nonneg_of_nonpos hc.le (not_lt.mp hn))),
     fun h => mul_pos hc h⟩
  by_cases hx : 0 < Real.sqrt (dot x x) ∧ 0 < Real.sqrt (dot y y)
  · rw [if_pos ⟨hiff.mpr hx.1, hx.2⟩, if_pos hx]
    have := hx.1.ne'
    field_simp
  · rw [if_neg (fun h => hx ⟨hiff.mp h.1, h.2⟩), if_neg hx]

theorem cosine_scale_right {c : ℝ} (hc : 0 < c) (x y : List ℝ) :
    cosine x (y.map (c * ·)) = cosine x y := by
  rw [cosine_symm', cosine_scale_left hc, cosine_symm']

end Rsa.Transform
