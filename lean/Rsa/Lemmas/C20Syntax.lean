/- C20: the source-spelled model (`Rsa.Importers.Src`, generated constants) equals the literal
   model of `Rsa.Core.Importers`.  Every lemma here is an obligation that fails when the
   corresponding constant of the source changes. -/
import Rsa.Lemmas.C20Bids
import Rsa.Core.C20Syntax

set_option linter.unusedSectionVars false
set_option linter.unusedVariables false
set_option linter.unusedSimpArgs false

namespace Rsa.Importers.Src
open Rsa.Gen.C20 Rsa.Importers

/-! ### the decoded constants -/

theorem cPSeg_eq : cPSeg = '_' := by decide
theorem cPKey_eq : cPKey = '-' := by decide
theorem cPSfxSeg_eq : cPSfxSeg = '_' := by decide
theorem cPExt_eq : cPExt = '.' := by decide
theorem cFSeg_eq : cFSeg = '_' := by decide
theorem cFKey_eq : cFKey = '-' := by decide
theorem cFExt_eq : cFExt = '.' := by decide
theorem cMSeg_eq : cMSeg = '_' := by decide
theorem cMKey_eq : cMKey = '-' := by decide

theorem pKeys_eq : natToStr pKeySub = sSub ∧ natToStr pKeySes = sSes ∧ natToStr pKeyTask = sTask ∧
    natToStr pKeyRun = sRun ∧ natToStr pKeySpace = sSpace ∧ natToStr pKeyDesc = sDesc := by decide

theorem pDeriv_eq : natToStr pDerivDir = sDerivatives ∧ pDerivIdx = 1 ∧ pDerivSkip = 2 := by decide
theorem pMod_eq : pModMinlen = 1 ∧ pModIdxSes = 2 ∧ pModIdx = 1 := by decide

theorem fKeys_eq : natToStr fNamekeySub = sSub ∧ natToStr fNamekeySes = sSes ∧
    natToStr fNamekeyTask = sTask ∧ natToStr fNamekeyRun = sRun ∧
    natToStr fNamekeySpace = sSpace ∧ natToStr fNamekeyDesc = sDesc ∧
    natToStr fDirkeySub = sSub ∧ natToStr fDirkeySes = sSes ∧
    natToStr fDerivDir = sDerivatives := by decide

theorem fNameOrder_eq : natToList fNameOrder = [sSes, sTask, sRun, sSpace, sDesc] := by decide
theorem fDirOrder_eq : natToList fDirOrder = [sDerivative, sSub, sSes, sModality] := by decide


/-! ### parsing -/

theorem findEntity_eq (ent : Str) (l : List Str) : Src.findEntity ent l = Importers.findEntity ent l := by
  induction l with
  | nil => rfl
  | cons s r ih => simp only [Src.findEntity, Importers.findEntity, cPKey_eq, ih]

theorem stripDerivative_eq (parts : List Str) :
    Src.stripDerivative parts = Importers.stripDerivative parts := by
  obtain ⟨h1, h2, h3⟩ := pDeriv_eq
  unfold Src.stripDerivative Importers.stripDerivative
  rw [h1, h2, h3]
  match parts with
  | [] => rfl
  | [d] => by_cases h : d = sDerivatives <;> simp [h]
  | d :: x :: r => by_cases h : d = sDerivatives <;> simp [h]

theorem pickModality_eq (ses : Option Str) (parts : List Str) :
    Src.pickModality ses parts = Importers.pickModality ses parts := by
  obtain ⟨h1, h2, h3⟩ := pMod_eq
  unfold Src.pickModality Importers.pickModality
  rw [h1, h2, h3]
  match parts with
  | [] => simp
  | [a] => simp
  | [a, b] => cases truthy ses <;> simp
  | a :: b :: c :: r => cases truthy ses <;> simp

theorem suffixOf_eq (segs : List Str) : Src.suffixOf segs = Importers.suffixOf segs := by
  simp only [Src.suffixOf, Importers.suffixOf, cPExt_eq]
  cases splitOn '.' (lastOf segs) <;> rfl

theorem extOf_eq (segs : List Str) : Src.extOf segs = Importers.extOf segs := by
  simp only [Src.extOf, Importers.extOf, cPExt_eq]
  cases splitOn '.' (lastOf segs) <;> rfl

theorem bidsParse_eq (p : Str) : Src.bidsParse p = Importers.bidsParse p := by
  obtain ⟨k1, k2, k3, k4, k5, k6⟩ := pKeys_eq
  simp only [Src.bidsParse, Importers.bidsParse, cPSeg_eq, cPSfxSeg_eq, stripDerivative_eq,
    pickModality_eq, findEntity_eq, suffixOf_eq, extOf_eq, k1, k2, k3, k4, k5, k6]
  cases Importers.stripDerivative (normParts p) with
  | error e => rfl
  | ok dp =>
    obtain ⟨d, parts⟩ := dp
    show (match Importers.pickModality _ parts with | .error e => _ | .ok m => _) =
      (match Importers.pickModality _ parts with | .error e => _ | .ok m => _)
    cases Importers.pickModality (Importers.findEntity sSes (splitOn '_' (basename p))) parts <;> rfl

theorem modalitySet_eq (p : Str) : Src.modalitySet p = Importers.modalitySet p := by
  simp only [Src.modalitySet, Importers.modalitySet, stripDerivative_eq, pMod_eq.1]
  cases Importers.stripDerivative (normParts p) <;> rfl

/-! ### formatting -/

theorem entSeg_eq (name : Str) (v : Option Str) : Src.entSeg name v = Importers.entSeg name v := by
  simp only [Src.entSeg, Importers.entSeg, cFKey_eq]

theorem bidsFnameSegs_eq (e : BidsEnt) : Src.bidsFnameSegs e = Importers.bidsFnameSegs e := by
  obtain ⟨k1, k2, k3, k4, k5, k6, _, _, _⟩ := fKeys_eq
  have n1 : nameKey sSes = sSes := by simp [nameKey, k2]
  have n2 : nameKey sTask = sTask := by
    have : sTask ≠ sSes := by decide
    simp [nameKey, k3, this]
  have n3 : nameKey sRun = sRun := by
    have h1 : sRun ≠ sSes := by decide
    have h2 : sRun ≠ sTask := by decide
    simp [nameKey, k4, h1, h2]
  have n4 : nameKey sSpace = sSpace := by
    have h1 : sSpace ≠ sSes := by decide
    have h2 : sSpace ≠ sTask := by decide
    have h3 : sSpace ≠ sRun := by decide
    simp [nameKey, k5, h1, h2, h3]
  have n5 : nameKey sDesc = sDesc := by
    have h1 : sDesc ≠ sSes := by decide
    have h2 : sDesc ≠ sTask := by decide
    have h3 : sDesc ≠ sRun := by decide
    have h4 : sDesc ≠ sSpace := by decide
    simp [nameKey, k6, h1, h2, h3, h4]
  have e1 : entOf e sSes = e.ses := by rfl
  have e2 : entOf e sTask = e.task := by rfl
  have e3 : entOf e sRun = e.run := by rfl
  have e4 : entOf e sSpace = e.space := by rfl
  have e5 : entOf e sDesc = e.desc := by rfl
  simp only [Src.bidsFnameSegs, Importers.bidsFnameSegs, fNameOrder_eq, List.flatMap_cons,
    List.flatMap_nil, n1, n2, n3, n4, n5, e1, e2, e3, e4, e5, entSeg_eq, k1, cFKey_eq, cFExt_eq,
    List.append_nil, List.append_assoc]


theorem bidsFname_eq (e : BidsEnt) : Src.bidsFname e = Importers.bidsFname e := by
  simp only [Src.bidsFname, Importers.bidsFname, cFSeg_eq, bidsFnameSegs_eq]

theorem bidsDirs_eq (e : BidsEnt) : Src.bidsDirs e = Importers.bidsDirs e := by
  obtain ⟨_, _, _, _, _, _, k7, k8, k9⟩ := fKeys_eq
  have d1 : dirOf e sDerivative =
      (if truthy e.derivative then [natToStr fDerivDir, pyStr e.derivative] else []) := by rfl
  have d2 : dirOf e sSub = Src.entSeg (natToStr fDirkeySub) e.sub := by rfl
  have d3 : dirOf e sSes = Src.entSeg (natToStr fDirkeySes) e.ses := by rfl
  have d4 : dirOf e sModality = (if truthy e.modality then [pyStr e.modality] else []) := by rfl
  simp only [Src.bidsDirs, Importers.bidsDirs, fDirOrder_eq, List.flatMap_cons, List.flatMap_nil,
    d1, d2, d3, d4, entSeg_eq, k7, k8, k9, List.append_nil, List.append_assoc]

theorem bidsFormat_eq (e : BidsEnt) : Src.bidsFormat e = Importers.bidsFormat e := by
  simp only [Src.bidsFormat, Importers.bidsFormat, bidsDirs_eq, bidsFname_eq]

theorem bidsReplace_eq (b : BidsEnt) (r : BidsRepl) : Src.bidsReplace b r = Importers.bidsReplace b r := by
  simp only [Src.bidsReplace, Importers.bidsReplace, bidsFormat_eq]

/-! ### the look-ups: which entities each replaces -/

theorem metaRepl_eq (d s : Str) : Src.metaRepl d s = Importers.metaRepl := by
  have : natToStr lkMetaExt = sJson := by decide
  simp only [Src.metaRepl, Importers.metaRepl, decOpt, decStr, this]
  rfl

theorem eventsRepl_eq (d s : Str) : Src.eventsRepl d s = Importers.eventsRepl := by
  have h1 : natToStr lkEventsSuffix = sEvents := by decide
  have h2 : natToStr lkEventsExt = sTsv := by decide
  simp only [Src.eventsRepl, Importers.eventsRepl, decOpt, decStr, h1, h2]
  rfl

theorem tableSiblingRepl_eq (d s : Str) : Src.tableSiblingRepl d s = Importers.tableSiblingRepl d s := by
  have h2 : natToStr lkTableExt = sTsv := by decide
  simp only [Src.tableSiblingRepl, Importers.tableSiblingRepl, decOpt, decStr, h2]
  rfl

theorem mriSiblingRepl_eq (d s : Str) : Src.mriSiblingRepl d s = Importers.mriSiblingRepl d s := by
  simp only [Src.mriSiblingRepl, Importers.mriSiblingRepl, decOpt, decStr]
  rfl

theorem findMetaFor_eq (b : BidsEnt) : Src.findMetaFor b = Importers.findMetaFor b := by
  simp only [Src.findMetaFor, Importers.findMetaFor, bidsReplace_eq, metaRepl_eq]

theorem findEventsFor_eq (b : BidsEnt) : Src.findEventsFor b = Importers.findEventsFor b := by
  simp only [Src.findEventsFor, Importers.findEventsFor, bidsReplace_eq, eventsRepl_eq]

theorem findTableSiblingOf_eq (b : BidsEnt) (d s : Str) :
    Src.findTableSiblingOf b d s = Importers.findTableSiblingOf b d s := by
  simp only [Src.findTableSiblingOf, Importers.findTableSiblingOf, bidsReplace_eq, tableSiblingRepl_eq]

theorem findMriSiblingOf_eq (b : BidsEnt) (d s : Str) :
    Src.findMriSiblingOf b d s = Importers.findMriSiblingOf b d s := by
  simp only [Src.findMriSiblingOf, Importers.findMriSiblingOf, bidsReplace_eq, mriSiblingRepl_eq]

theorem findTableKeyFor_eq (b : BidsEnt) : Src.findTableKeyFor b = Importers.findTableKeyFor b := by
  have h1 : natToStr tkDerivDir = sDerivatives := by decide
  have h2 : natToStr tkPre = sDesc ++ ['-'] := by decide
  have h3 : natToStr tkMid = ['_'] := by decide
  have h4 : natToStr tkPost = ['.', 't', 's', 'v'] := by decide
  simp only [Src.findTableKeyFor, Importers.findTableKeyFor, h1, h2, h3, h4, List.append_assoc,
    List.cons_append, List.nil_append]

theorem findDerivativeFiles_eq (files : List Str) (derivative desc : Str) (tasks : Option (List Str)) :
    Src.findDerivativeFiles files derivative desc tasks =
      Importers.findDerivativeFiles files derivative desc tasks := by
  have h1 : natToStr dfDerivDir = sDerivatives := by decide
  have h2 : natToStr dfGlobPrefix = sSub ++ ['-'] := by decide
  have h3 : natToStr dfDescPre = sDesc ++ ['-'] := by decide
  have h4 : natToStr dfTaskPre = sTask ++ ['-'] := by decide
  have h5 : natToStr dfMetaExt = sDotJson := by decide
  simp only [Src.findDerivativeFiles, Importers.findDerivativeFiles, h1, h2, h3, h4, h5,
    List.append_assoc, List.cons_append, List.nil_append]
  cases tasks <;> rfl

/-! ### fMRIPrep -/

theorem fmriprep_constants :
    natToStr fpDerivative = "fmriprep".toList ∧ natToStr fpDesc = "preproc_bold".toList ∧
    natToStr fpMaskDesc = "brain".toList ∧ natToStr fpMaskSuffix = "mask".toList ∧
    natToStr fpConfDesc = "confounds".toList ∧ natToStr fpConfSuffix = "timeseries".toList ∧
    natToStr fpParcDesc = "aparcaseg".toList ∧ natToStr fpParcSuffix = "dseg".toList := by decide

theorem datasetDescriptors_eq (e : BidsEnt) :
    Src.datasetDescriptors e = Importers.datasetDescriptors e := by
  have h1 : natToList ddOrder = [sSub, sSes, sRun, sTask] := by decide
  have h2 : natToList ddAttrs = [sSub, sSes, sRun, sTask] := by decide
  have h3 : splitOn ',' (natToStr ddGuards) = [[], sSes, sRun, sTask] := by decide
  have e0 : entOf e sSub = e.sub := by rfl
  have e1 : entOf e sSes = e.ses := by rfl
  have e3 : entOf e sRun = e.run := by rfl
  have e2 : entOf e sTask = e.task := by rfl
  have n1 : (sSes = []) = False := by simp [sSes]
  have n2 : (sRun = []) = False := by simp [sRun]
  have n3 : (sTask = []) = False := by simp [sTask]
  simp only [Src.datasetDescriptors, Importers.datasetDescriptors, h1, h2, h3, List.zip_cons_cons,
    List.zip_nil_right, List.flatMap_cons, List.flatMap_nil, e0, e1, e2, e3, n1, n2, n3,
    decide_true, decide_false, Bool.true_or, Bool.false_or, if_true, List.append_nil,
    List.append_assoc]

/-! ### MNE -/

theorem findLastEntity_eq (name : Str) (l : List Str) :
    Src.findLastEntity name l = Importers.findLastEntity name l := by
  induction l with
  | nil => rfl
  | cons s r ih =>
    simp only [Src.findLastEntity, Importers.findLastEntity, cMKey_eq, ih, mneSliceStart]
    cases Importers.findLastEntity name r <;> rfl

theorem mneDescriptors_eq (fname : Str) :
    Src.mneDescriptors fname =
      [(sSub, (Importers.mneDescriptors fname).1), (sRun, (Importers.mneDescriptors fname).2.1),
       (sTask, (Importers.mneDescriptors fname).2.2)] := by
  have h : natToList mKeys = [sSub, sRun, sTask] := by decide
  simp only [Src.mneDescriptors, Importers.mneDescriptors, h, List.map_cons, List.map_nil, cMSeg_eq,
    findLastEntity_eq]


/-! ### Meadows -/

theorem isPetname_eq (pets : List Str) (seg : Str) :
    Src.isPetname pets seg = Importers.isPetname pets seg := by
  have h1 : cMdPet = '-' := by decide
  have h2 : mdPetParts = 2 := by decide
  have h3 : mdPetIdx = 1 := by decide
  simp only [Src.isPetname, Importers.isPetname, h1, h2, h3]
  by_cases hc : seg.contains '-' = true
  · simp only [hc, if_true]
    match splitOn '-' seg with
    | [] => simp
    | [a] => simp
    | [a, b] => simp
    | a :: b :: c :: r => simp
  · have hc' : seg.contains '-' = false := by simpa using hc
    simp only [hc']
    rfl

theorem negIdx_some {β : Type} (l : List β) (k : Nat) (h0 : 0 < k) (hk : k ≤ l.length) :
    ∃ x, negIdx l k = some x := by
  unfold negIdx
  have : l.length - k < l.length := by omega
  exact ⟨l[l.length - k], by simp [h0, hk, List.getElem?_eq_getElem this]⟩

theorem meadowsSegments_eq (pets : List Str) (fpath : Str) :
    Src.meadowsSegments pets fpath = Importers.meadowsSegments pets fpath := by
  have c1 : cMdExt = '.' := by decide
  have c2 : cMdSeg = '_' := by decide
  have c3 : cMdVer = 'v' := by decide
  have n : mdVersionIdx = 3 ∧ mdExpIdx = 1 ∧ mdStructBack = 1 ∧ mdDigitBack = 2 ∧ mdPetBack = 2 ∧
      mdAParticipantBack = 3 ∧ mdAIndexBack = 2 ∧ mdBParticipantBack = 2 ∧ mdCTaskBack = 2 := by
    decide
  obtain ⟨n1, n2, n3, n4, n5, n6, n7, n8, n9⟩ := n
  unfold Src.meadowsSegments Importers.meadowsSegments
  simp only [c1, c2, c3, n1, n2, n3, n4, n5, n6, n7, n8, n9, isPetname_eq]
  match splitOn '.' (basename fpath) with
  | [] => rfl
  | [a] => rfl
  | a :: b :: c :: r => rfl
  | [fname, ext] =>
    simp only
    match hs : splitOn '_' fname with
    | [] => simp [negIdx]
    | [a] => simp [negIdx]
    | [a, b] => simp [negIdx]
    | [a, b, c] => simp [negIdx]
    | a :: b :: c :: d :: rest =>
      obtain ⟨l1, h1⟩ := negIdx_some (a :: b :: c :: d :: rest) 1 (by omega) (by simp)
      obtain ⟨l2, h2⟩ := negIdx_some (a :: b :: c :: d :: rest) 2 (by omega) (by simp)
      obtain ⟨l3, h3⟩ := negIdx_some (a :: b :: c :: d :: rest) 3 (by omega) (by simp)
      simp only [h1, h2, h3, List.getElem?_cons_succ, List.getElem?_cons_zero, meadowsInfoOf]
      by_cases hd : isDigitStr l2 = true
      · simp [hd]
      · by_cases hp : Importers.isPetname pets l2 = true
        · simp [hd, hp]
        · simp [hd, hp]

/-- the keep-test of the json loop, as the source spells it, is equality of the stimulus *lists* -/
theorem sameStim_eq (a b : List Str) : sameStim mlJsonSame a b = (a == b) := by
  have h : mlJsonSame = 1 := by decide
  simp [sameStim, h]

theorem jsonLoop_eq {α : Type} : ∀ (ts : List (JTask α)) (t : Nat) (utvs : List (List α))
    (stim tn : List Str) (ti : List Nat),
    Src.jsonLoop ts t utvs stim tn ti = Importers.jsonLoop ts t utvs stim tn ti
  | [], _, _, _, _, _ => rfl
  | task :: rest, t, utvs, stim, tn, ti => by
    have i1 := jsonLoop_eq rest (t + 1) utvs stim tn ti
    have i2 := jsonLoop_eq rest (t + 1) (utvs ++ [task.rdm]) task.stimuli (tn ++ [task.name]) (ti ++ [t])
    have i3 := jsonLoop_eq rest (t + 1) (utvs ++ [task.rdm]) stim (tn ++ [task.name]) (ti ++ [t])
    unfold Src.jsonLoop at i1 i2 i3 ⊢
    unfold jsonLoopBy Importers.jsonLoop
    simp only [sameStim_eq, i1, i2, i3]
    by_cases h : stim = task.stimuli <;> simp [h]

theorem compsJson_eq {α : Type} (info : MInfo) (tasks : Option (List (JTask α))) :
    Src.compsJson info tasks = Importers.compsJson info tasks := by
  unfold Src.compsJson compsJsonBy Importers.compsJson
  have := @jsonLoop_eq α
  unfold Src.jsonLoop at this
  simp only [this]

/-- the participant test of the multi-participant `.mat` loader, as the source spells it, is
    equality of the stimulus lists (`numpy.array_equal(data[v], stimuli)`) -/
theorem matSame_eq : sameStim mlMatSame = fun (a b : List Str) => a == b := by
  have h : mlMatSame = 1 := by decide
  funext a b
  simp [sameStim, h]

theorem compsMat_eq {α : Type} (info : MInfo) (vars : List (Str × MatVal α)) :
    Src.compsMat info vars = Importers.compsMat info vars := by
  unfold Src.compsMat Importers.compsMat
  rw [matSame_eq]

/-! ### SPM -/

theorem parseRegName_eq (s : Str) : Src.parseRegName s = Importers.parseRegName s := by
  have c1 : cSpName = ' ' := by decide
  have n : spRunTok = 0 ∧ spNameTok = 1 ∧ spRunLo = 3 ∧ spRunHiBack = 1 := by decide
  obtain ⟨n1, n2, n3, n4⟩ := n
  unfold Src.parseRegName Importers.parseRegName
  simp only [c1, n1, n2, n3, n4, dropLastN]
  match splitOn ' ' s with
  | [] => rfl
  | [a] => rfl
  | a :: b :: r => rfl

theorem relocate_eq (base fpath : Str) : Src.relocate base fpath = Importers.relocate base fpath := by
  have c1 : Char.ofNat spRelocFrom = '\\' := by decide
  have c2 : Char.ofNat spRelocTo = '/' := by decide
  have c3 : natToStr spRelocAnchor = sFunc := by decide
  simp only [Src.relocate, Importers.relocate, c1, c2, c3]
  cases findSub sFunc (pyReplace ['\\'] ['/'] fpath) <;> rfl

end Rsa.Importers.Src
