/-
  Helper lemmas for C03 (round 3), rho-a range: the centred sum of squares of tie-averaged
  ranks is at most that of the untied ranks 1..n,
      Σ (rank_i − mean rank)² ≤ (n³ − n)/12      (`rankSS_le`),
  for every list (arbitrary ties).  Route: `rank − (n+1)/2 = (#below − #above)/2`
  (`rankOf_sub_mid`); for a sorted list, by induction on prepending a minimum `b` with `G`
  entries above it and `E = n − G` entries equal to it, the sum of the deviations stays 0 and
  the sum of squares grows by `2EG + G + G² ≤ n² + n` (`dev_sorted`); the sum of squares is
  invariant under permutations (`rankSS_perm`), so sorting loses nothing.
-/
import Rsa.Lemmas.C03Rho

set_option linter.unusedVariables false
set_option linter.unusedSectionVars false
set_option linter.unusedSimpArgs false
set_option linter.unnecessarySeqFocus false
open Rsa Rsa.Compare

namespace Rsa.Compare

/-- number of entries strictly above `a` -/
noncomputable def cntGt (x : List ℝ) (a : ℝ) : ℕ := x.countP (fun b => decide (a < b))

theorem cnt_total (x : List ℝ) (a : ℝ) : cntLt x a + cntEq x a + cntGt x a = x.length := by
  unfold cntLt cntEq cntGt
  induction x with
  | nil => simp
  | cons c x ih =>
    simp only [List.countP_cons, List.length_cons]
    rcases lt_trichotomy c a with h | h | h
    · have h' : ¬ a < c := lt_asymm h
      simp [h, h']; omega
    · subst h; simp; omega
    · have h' : ¬ c < a := lt_asymm h
      simp [h, h']; omega

/-- signed deviation `#below − #above` -/
noncomputable def dev (x : List ℝ) (a : ℝ) : ℝ := (cntLt x a : ℝ) - (cntGt x a : ℝ)

/-- a tie-averaged rank minus the middle rank `(n+1)/2` is half of `#below − #above` -/
theorem rankOf_sub_mid (x : List ℝ) (a : ℝ) :
    rankOf x a - ((x.length : ℝ) + 1) / 2 = dev x a / 2 := by
  have h := cnt_total x a
  have h' : (x.length : ℝ) = (cntLt x a : ℝ) + (cntEq x a : ℝ) + (cntGt x a : ℝ) := by
    exact_mod_cast h.symm
  unfold rankOf dev
  rw [h']; push_cast; ring

theorem sum_ite_count (p : ℝ → Prop) [DecidablePred p] (x : List ℝ) :
    (x.map (fun a => if p a then (1 : ℝ) else 0)).sum = (x.countP (fun a => decide (p a)) : ℝ) := by
  induction x with
  | nil => simp
  | cons c x ih =>
    simp only [List.map_cons, List.sum_cons, List.countP_cons, ih]
    by_cases h : p c <;> simp [h]; ring

theorem sum_map_const' {β : Type} (x : List β) (c : ℝ) : (x.map (fun _ => c)).sum = x.length * c := by
  induction x with
  | nil => simp
  | cons a x ih => simp only [List.map_cons, List.sum_cons, ih, List.length_cons]; push_cast; ring

/-- for a sorted list the deviations sum to 0 and their squares to at most `(n³−n)/3` -/
theorem dev_sorted (l : List ℝ) (hl : l.Pairwise (· ≤ ·)) :
    (l.map (dev l)).sum = 0 ∧
    (l.map (fun a => dev l a * dev l a)).sum ≤ ((l.length : ℝ) ^ 3 - l.length) / 3 := by
  induction l with
  | nil => simp
  | cons b x ih =>
    rw [List.pairwise_cons] at hl
    obtain ⟨hb, hx⟩ := hl
    obtain ⟨ih0, ihD⟩ := ih hx
    have hLb : cntLt x b = 0 := by
      unfold cntLt
      apply List.countP_eq_zero.mpr
      intro a ha
      simp [not_lt.mpr (hb a ha)]
    have hdevb : dev x b = -(cntGt x b : ℝ) := by unfold dev; rw [hLb]; simp
    have hhead : dev (b :: x) b = -(cntGt x b : ℝ) := by
      rw [← hdevb]
      unfold dev cntLt cntGt
      rw [List.countP_cons, List.countP_cons]
      simp
    have htail : ∀ a ∈ x, dev (b :: x) a = dev x a + (if b < a then 1 else 0) := by
      intro a ha
      have h' : ¬ a < b := not_lt.mpr (hb a ha)
      unfold dev cntLt cntGt
      rw [List.countP_cons, List.countP_cons]
      by_cases h : b < a <;> simp [h, h'] <;> ring
    have hmul : ∀ a ∈ x, dev x a * (if b < a then (1 : ℝ) else 0)
        = dev x a + (cntGt x b : ℝ) * (1 - (if b < a then (1 : ℝ) else 0)) := by
      intro a ha
      by_cases h : b < a
      · simp [h]
      · have hab : a = b := le_antisymm (not_lt.mp h) (hb a ha)
        rw [hab, hdevb]
        simp
    have hts : (x.map (fun a => if b < a then (1 : ℝ) else 0)).sum = (cntGt x b : ℝ) := by
      rw [sum_ite_count]; rfl
    have hGn : (cntGt x b : ℝ) ≤ (x.length : ℝ) := by
      exact_mod_cast List.countP_le_length
    constructor
    · rw [List.map_cons, List.sum_cons, hhead, List.map_congr_left htail, List.sum_map_add, ih0, hts]
      ring
    · rw [List.map_cons, List.sum_cons, hhead]
      have hpt : ∀ a ∈ x, dev (b :: x) a * dev (b :: x) a
          = dev x a * dev x a + (2 * dev x a + (2 * (cntGt x b : ℝ)
              + (1 - 2 * (cntGt x b : ℝ)) * (if b < a then (1 : ℝ) else 0))) := by
        intro a ha
        rw [htail a ha]
        have e := hmul a ha
        have tt : (if b < a then (1 : ℝ) else 0) * (if b < a then (1 : ℝ) else 0)
            = (if b < a then (1 : ℝ) else 0) := by by_cases h : b < a <;> simp [h]
        nlinarith
      rw [List.map_congr_left hpt, List.sum_map_add, List.sum_map_add, List.sum_map_add,
        List.sum_map_mul_left, List.sum_map_mul_left, List.sum_map_mul_left, sum_map_const', ih0, hts]
      simp only [List.length_cons]
      push_cast
      have hE : 0 ≤ (x.length : ℝ) - (cntGt x b : ℝ) := by linarith
      nlinarith [mul_self_nonneg ((x.length : ℝ) - (cntGt x b : ℝ)), hE, ihD]

/-- centred sum of squares of the tie-averaged ranks -/
noncomputable def rankSS (x : List ℝ) : ℝ := dot (center (avgRank x)) (center (avgRank x))

theorem rankSS_sorted (l : List ℝ) (hl : l.Pairwise (· ≤ ·)) :
    rankSS l ≤ ((l.length : ℝ) ^ 3 - l.length) / 12 := by
  obtain ⟨h0, hD⟩ := dev_sorted l hl
  rcases l.eq_nil_or_concat with rfl | ⟨l', a', hne⟩
  · simp [rankSS, avgRank, center, dot]
  have hlen : l.length ≠ 0 := by rw [hne]; simp
  have hn : (l.length : ℝ) ≠ 0 := by exact_mod_cast hlen
  have hr : ∀ a, rankOf l a = dev l a / 2 + ((l.length : ℝ) + 1) / 2 := by
    intro a; have := rankOf_sub_mid l a; linarith
  have hmean : mean (avgRank l) = ((l.length : ℝ) + 1) / 2 := by
    unfold mean avgRank
    have : (l.map (rankOf l)) = l.map (fun a => (1 / 2) * dev l a + ((l.length : ℝ) + 1) / 2) := by
      apply List.map_congr_left
      intro a _
      rw [hr a]; ring
    rw [this, List.sum_map_add, List.sum_map_mul_left, sum_map_const', h0, List.length_map]
    field_simp
    ring
  unfold rankSS
  have hc : center (avgRank l) = l.map (fun a => dev l a / 2) := by
    unfold avgRank
    rw [center_map]
    apply List.map_congr_left
    intro a _
    have : mean (l.map (rankOf l)) = ((l.length : ℝ) + 1) / 2 := hmean
    rw [this, hr a]; ring
  rw [hc, dot_map_map]
  have : (l.map (fun a => dev l a / 2 * (dev l a / 2))) = l.map (fun a => (1 / 4) * (dev l a * dev l a)) := by
    apply List.map_congr_left
    intro a _
    ring
  rw [this, List.sum_map_mul_left]
  linarith

theorem rankSS_perm {x x' : List ℝ} (h : x.Perm x') : rankSS x = rankSS x' := by
  unfold rankSS
  let g : ℝ → ℝ × ℝ := fun a => (rankOf x a, rankOf x a)
  have a1 : avgRank x = ((x.map g).map Prod.fst) := by
    simp [avgRank, g, List.map_map, Function.comp_def]
  have a2 : avgRank x = ((x.map g).map Prod.snd) := by
    simp [avgRank, g, List.map_map, Function.comp_def]
  have b1 : avgRank x' = ((x'.map g).map Prod.fst) := by
    simp only [avgRank, g, List.map_map, Function.comp_def]
    apply List.map_congr_left
    intro p _
    exact (rankOf_perm h p).symm
  have b2 : avgRank x' = ((x'.map g).map Prod.snd) := by
    simp only [avgRank, g, List.map_map, Function.comp_def]
    apply List.map_congr_left
    intro p _
    exact (rankOf_perm h p).symm
  have e := dot_center_perm' (h.map g)
  rw [← a1, ← a2, ← b1, ← b2] at e
  exact e

/-- **the centred sum of squares of tie-averaged ranks is at most `(n³ − n)/12`**, the value
    it takes for the untied ranks `1..n` -/
theorem rankSS_le (x : List ℝ) : rankSS x ≤ ((x.length : ℝ) ^ 3 - x.length) / 12 := by
  let s := x.mergeSort (fun a b => decide (a ≤ b))
  have hperm : s.Perm x := List.mergeSort_perm x _
  have hsorted : s.Pairwise (· ≤ ·) := by
    have h1 : s.SortedLE := List.sortedLE_mergeSort
    exact h1.pairwise
  rw [← rankSS_perm hperm, ← hperm.length_eq]
  exact rankSS_sorted s hsorted

end Rsa.Compare
