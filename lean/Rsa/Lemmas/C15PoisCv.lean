/- cross-validated Poisson kernel, one observation per condition and fold -/
import Rsa.Lemmas.C15Cv
import Rsa.Lemmas.C15Single

set_option linter.unusedSectionVars false
set_option linter.unusedVariables false

namespace Rsa.Unb

open Finset

variable {K : Type} [Field K] [LinearOrder K] [IsStrictOrderedRing K]

/-- exactly one observation of condition `a` in fold `f`: sums over the class pick it -/
theorem uAF_unique (c : Cfg K) (a f : Nat) (h : nAF c a f = 1) :
    ∃ i0, ∀ G : Nat → K, ∑ i ∈ range c.nObs, uAF c a f i * G i = G i0 := by
  unfold nAF uAF at h
  rw [Finset.sum_boole] at h
  have hc : ((range c.nObs).filter (fun i => c.desc i = a ∧ c.cv i = f)).card = 1 := by
    exact_mod_cast h
  obtain ⟨i0, hi0⟩ := Finset.card_eq_one.mp hc
  refine ⟨i0, fun G => ?_⟩
  unfold uAF
  simp only [ite_mul, one_mul, zero_mul]
  rw [← Finset.sum_filter, hi0, Finset.sum_singleton]

theorem offdiag_swap (F : Nat) (h : Nat → Nat → K) :
    (∑ f ∈ range F, ∑ g ∈ range F, if f = g then 0 else h f g)
      = ∑ f ∈ range F, ∑ g ∈ range F, if f = g then 0 else h g f := by
  rw [Finset.sum_comm]
  apply Finset.sum_congr rfl; intro f _
  apply Finset.sum_congr rfl; intro g _
  by_cases e : f = g
  · simp [e]
  · have e' : ¬ g = f := fun x => e x.symm
    simp [e, e']

/-- a configuration with the Poisson kernel on complete preprocessed data `(D, L)` -/
structure PoisCfg (c : Cfg K) (P : Nat) (D L : Nat → Nat → K) : Prop where
  kern : ∀ i j, c.kern i j =
    poissonK P (fun ch => some (D i ch, L i ch)) (fun ch => some (D j ch, L j ch))
  posP : 0 < P

theorem PoisCfg.kern_val {c : Cfg K} {P D L} (h : PoisCfg c P D L) (i j : Nat) :
    c.kern i j = (sumTo P (fun ch => (D j ch - D i ch) * (L i ch - L j ch)) / 2, (P : K)) := by
  rw [h.kern]; exact poissonK_compl P (D i) (L i) (D j) (L j)

theorem PoisCfg.kern_symm {c : Cfg K} {P D L} (h : PoisCfg c P D L) :
    ∀ i j, c.kern i j = c.kern j i := by
  intro i j
  rw [h.kern_val, h.kern_val]
  congr 1
  congr 1
  apply sumTo_congr; intro ch _; ring

/-- `Σ_{f≠g}` of a function of the fold pair -/
def offSum (F : Nat) (h : Nat → Nat → K) : K :=
  ∑ f ∈ range F, ∑ g ∈ range F, if f = g then 0 else h f g

theorem rect_pois {c : Cfg K} {P D L} (h : PoisCfg c P D L) (hcv : c.crossval = true)
    (hnum : c.number = true) (F : Nat) (hF : ∀ i, i < c.nObs → c.cv i < F) (a b : Nat)
    (hua : ∀ f, f < F → nAF c a f = 1) (hub : ∀ f, f < F → nAF c b f = 1) :
    rectNum c a b = offSum F (fun f g =>
        (bil P idN (sAF c D b g) (sAF c L a f) - bil P idN (sAF c D b g) (sAF c L b g)
          - bil P idN (sAF c D a f) (sAF c L a f) + bil P idN (sAF c D a f) (sAF c L b g)) / 2) ∧
    rectDen c a b = (P : K) * ((F * (F - 1) : Nat) : K) := by
  have hP : (0 : K) < (P : K) := by exact_mod_cast h.posP
  have hgN : ∀ i j, gO c (cVal c.number) a b i j
      = if c.desc i = a ∧ c.desc j = b ∧ adm c i j = true
        then sumTo P (fun ch => (D j ch - D i ch) * (L i ch - L j ch)) / 2 else 0 := by
    intro i j; unfold gO cVal; rw [h.kern_val, hnum]
    by_cases hc : c.desc i = a ∧ c.desc j = b ∧ adm c i j = true
    · rw [if_pos hc, if_pos ⟨hc.1, hc.2.1, hc.2.2, hP⟩]; simp
    · rw [if_neg hc, if_neg]; rintro ⟨x, y, z, _⟩; exact hc ⟨x, y, z⟩
  have hgD : ∀ i j, gO c (cW c.number) a b i j
      = if c.desc i = a ∧ c.desc j = b ∧ adm c i j = true then (P : K) else 0 := by
    intro i j; unfold gO cW; rw [h.kern_val, hnum]
    by_cases hc : c.desc i = a ∧ c.desc j = b ∧ adm c i j = true
    · rw [if_pos hc, if_pos ⟨hc.1, hc.2.1, hc.2.2, hP⟩]; simp
    · rw [if_neg hc, if_neg]; rintro ⟨x, y, z, _⟩; exact hc ⟨x, y, z⟩
  constructor
  · rw [rectNum_eq_sum]
    simp only [hgN]
    rw [rect_by_folds c F hF hcv a b
      (fun i j => sumTo P (fun ch => (D j ch - D i ch) * (L i ch - L j ch)) / 2)]
    unfold offSum
    apply Finset.sum_congr rfl; intro f hf
    apply Finset.sum_congr rfl; intro g hg
    by_cases e : f = g
    · simp [e]
    · simp only [e, if_false]
      obtain ⟨i0, hi0⟩ := uAF_unique c a f (hua f (Finset.mem_range.mp hf))
      obtain ⟨j0, hj0⟩ := uAF_unique c b g (hub g (Finset.mem_range.mp hg))
      have hsum : (∑ i ∈ range c.nObs, ∑ j ∈ range c.nObs, uAF c a f i * uAF c b g j *
            (sumTo P (fun ch => (D j ch - D i ch) * (L i ch - L j ch)) / 2))
          = sumTo P (fun ch => (D j0 ch - D i0 ch) * (L i0 ch - L j0 ch)) / 2 := by
        have : ∀ i, (∑ j ∈ range c.nObs, uAF c a f i * uAF c b g j *
              (sumTo P (fun ch => (D j ch - D i ch) * (L i ch - L j ch)) / 2))
            = uAF c a f i * (sumTo P (fun ch => (D j0 ch - D i ch) * (L i ch - L j0 ch)) / 2) := by
          intro i
          simp only [mul_assoc]
          rw [← Finset.mul_sum,
            hj0 (fun j => sumTo P (fun ch => (D j ch - D i ch) * (L i ch - L j ch)) / 2)]
        simp only [this]
        exact hi0 (fun i => sumTo P (fun ch => (D j0 ch - D i ch) * (L i ch - L j0 ch)) / 2)
      rw [hsum]
      have eDa : sAF c D a f = D i0 := by funext k; exact hi0 (fun i => D i k)
      have eLa : sAF c L a f = L i0 := by funext k; exact hi0 (fun i => L i k)
      have eDb : sAF c D b g = D j0 := by funext k; exact hj0 (fun i => D i k)
      have eLb : sAF c L b g = L j0 := by funext k; exact hj0 (fun i => L i k)
      rw [eDa, eLa, eDb, eLb, bil_idN, bil_idN, bil_idN, bil_idN]
      congr 1
      simp only [sumTo_eq_sum, ← Finset.sum_sub_distrib, ← Finset.sum_add_distrib]
      apply Finset.sum_congr rfl; intro ch _; ring
  · rw [rectDen_eq_sum]
    simp only [hgD]
    rw [rect_by_folds c F hF hcv a b (fun _ _ => (P : K))]
    by_cases hF1 : 1 ≤ F
    · rw [← count_offdiag F hF1, Finset.mul_sum]
      apply Finset.sum_congr rfl; intro f hf
      rw [Finset.mul_sum]
      apply Finset.sum_congr rfl; intro g hg
      by_cases e : f = g
      · simp [e]
      · simp only [e, if_false, mul_one]
        obtain ⟨i0, hi0⟩ := uAF_unique c a f (hua f (Finset.mem_range.mp hf))
        obtain ⟨j0, hj0⟩ := uAF_unique c b g (hub g (Finset.mem_range.mp hg))
        have : ∀ i, (∑ j ∈ range c.nObs, uAF c a f i * uAF c b g j * (P : K))
            = uAF c a f i * (P : K) := by
          intro i
          simp only [mul_assoc]
          rw [← Finset.mul_sum, hj0 (fun _ => (P : K))]
        simp only [this]
        exact hi0 (fun _ => (P : K))
    · have : F = 0 := by omega
      subst this; simp

theorem foldMean_one (c : Cfg K) (V : Nat → Nat → K) (a f : Nat) (h : nAF c a f = 1) :
    foldMean c.nObs c.desc c.cv V a f = sAF c V a f := by
  funext ch; rw [foldMean_eq, h, div_one]

/-- poisson_cv, one observation per condition and fold: the unbalanced estimator is the
    cross-validated symmetrised KL of `calc_rdm_poisson_cv` -/
theorem specDist_pois_cv {c : Cfg K} {P D L} (h : PoisCfg c P D L) (hcv : c.crossval = true)
    (hnum : c.number = true) (F : Nat) (hF2 : 2 ≤ F) (hF : ∀ i, i < c.nObs → c.cv i < F)
    (a b : Nat) (hua : ∀ f, f < F → nAF c a f = 1) (hub : ∀ f, f < F → nAF c b f = 1) :
    specDist c a b = some (cvPoissonSpec F P (foldMean c.nObs c.desc c.cv D)
      (foldMean c.nObs c.desc c.cv L) a b) := by
  have hP : (0 : K) < (P : K) := by exact_mod_cast h.posP
  have hFF : (0 : K) < ((F * (F - 1) : Nat) : K) := by
    have : 0 < F * (F - 1) := Nat.mul_pos (by omega) (by omega)
    exact_mod_cast this
  have hpos : 0 < (P : K) * ((F * (F - 1) : Nat) : K) := mul_pos hP hFF
  obtain ⟨hNaa, hDaa⟩ := rect_pois h hcv hnum F hF a a hua hua
  obtain ⟨hNbb, hDbb⟩ := rect_pois h hcv hnum F hF b b hub hub
  obtain ⟨hNab, hDab⟩ := rect_pois h hcv hnum F hF a b hua hub
  unfold specDist
  rw [specSim_eq_rect c h.kern_symm, specSim_eq_rect c h.kern_symm, specSim_eq_rect c h.kern_symm,
    hDaa, hDbb, hDab, hNaa, hNbb, hNab]
  simp only [if_pos hpos]
  congr 1
  -- fold means are the single observations
  have mDa : ∀ f, f < F → foldMean c.nObs c.desc c.cv D a f = sAF c D a f :=
    fun f hf => foldMean_one c D a f (hua f hf)
  have mLa : ∀ f, f < F → foldMean c.nObs c.desc c.cv L a f = sAF c L a f :=
    fun f hf => foldMean_one c L a f (hua f hf)
  have mDb : ∀ f, f < F → foldMean c.nObs c.desc c.cv D b f = sAF c D b f :=
    fun f hf => foldMean_one c D b f (hub f hf)
  have mLb : ∀ f, f < F → foldMean c.nObs c.desc c.cv L b f = sAF c L b f :=
    fun f hf => foldMean_one c L b f (hub f hf)
  -- the specification as an off-diagonal sum of bilinear terms
  have hspec : cvPoissonSpec F P (foldMean c.nObs c.desc c.cv D) (foldMean c.nObs c.desc c.cv L) a b
      = offSum F (fun f g =>
          bil P idN (sAF c D a f) (sAF c L a g) - bil P idN (sAF c D a f) (sAF c L b g)
          - bil P idN (sAF c D b f) (sAF c L a g) + bil P idN (sAF c D b f) (sAF c L b g))
        / ((F * (F - 1) : Nat) : K) / (P : K) := by
    unfold cvPoissonSpec offSum
    simp only [sumTo_eq_sum]
    congr 2
    apply Finset.sum_congr rfl; intro f hf
    apply Finset.sum_congr rfl; intro g hg
    by_cases e : f = g
    · simp [e]
    · simp only [e, if_false]
      rw [mDa f (Finset.mem_range.mp hf), mDb f (Finset.mem_range.mp hf),
        mLa g (Finset.mem_range.mp hg), mLb g (Finset.mem_range.mp hg)]
      have := bil_sub_sub P idN (sAF c D a f) (sAF c D b f) (sAF c L a g) (sAF c L b g)
      rw [bil_idN] at this
      simp only [sumTo_eq_sum] at this
      rw [this]
  rw [hspec]
  -- abbreviations: X p q f g = ⟨d_p f, l_q g⟩
  set Xaa := fun f g => bil P idN (sAF c D a f) (sAF c L a g)
  set Xab := fun f g => bil P idN (sAF c D a f) (sAF c L b g)
  set Xba := fun f g => bil P idN (sAF c D b f) (sAF c L a g)
  set Xbb := fun f g => bil P idN (sAF c D b f) (sAF c L b g)
  have split4 : ∀ (h1 h2 h3 h4 : Nat → Nat → K),
      offSum F (fun f g => (h1 f g - h2 f g - h3 f g + h4 f g) / 2)
        = (offSum F h1 - offSum F h2 - offSum F h3 + offSum F h4) / 2 := by
    intro h1 h2 h3 h4
    unfold offSum
    rw [← Finset.sum_sub_distrib, ← Finset.sum_sub_distrib, ← Finset.sum_add_distrib,
      Finset.sum_div]
    apply Finset.sum_congr rfl; intro f _
    rw [← Finset.sum_sub_distrib, ← Finset.sum_sub_distrib, ← Finset.sum_add_distrib,
      Finset.sum_div]
    apply Finset.sum_congr rfl; intro g _
    by_cases e : f = g <;> simp [e]
  have split4' : ∀ (h1 h2 h3 h4 : Nat → Nat → K),
      offSum F (fun f g => h1 f g - h2 f g - h3 f g + h4 f g)
        = offSum F h1 - offSum F h2 - offSum F h3 + offSum F h4 := by
    intro h1 h2 h3 h4
    unfold offSum
    rw [← Finset.sum_sub_distrib, ← Finset.sum_sub_distrib, ← Finset.sum_add_distrib]
    apply Finset.sum_congr rfl; intro f _
    rw [← Finset.sum_sub_distrib, ← Finset.sum_sub_distrib, ← Finset.sum_add_distrib]
    apply Finset.sum_congr rfl; intro g _
    by_cases e : f = g <;> simp [e]
  have sw : ∀ (hh : Nat → Nat → K), offSum F (fun f g => hh g f) = offSum F hh := by
    intro hh; unfold offSum; exact (offdiag_swap F hh).symm
  -- the three rectangle numerators
  have eaa : offSum F (fun f g => (Xaa g f - Xaa g g - Xaa f f + Xaa f g) / 2)
      = (offSum F Xaa - offSum F (fun f g => Xaa g g) - offSum F (fun f g => Xaa f f)
          + offSum F Xaa) / 2 := by
    rw [split4 (fun f g => Xaa g f) (fun f g => Xaa g g) (fun f g => Xaa f f) Xaa, sw Xaa]
  have ebb : offSum F (fun f g => (Xbb g f - Xbb g g - Xbb f f + Xbb f g) / 2)
      = (offSum F Xbb - offSum F (fun f g => Xbb g g) - offSum F (fun f g => Xbb f f)
          + offSum F Xbb) / 2 := by
    rw [split4 (fun f g => Xbb g f) (fun f g => Xbb g g) (fun f g => Xbb f f) Xbb, sw Xbb]
  have eab : offSum F (fun f g => (Xba g f - Xbb g g - Xaa f f + Xab f g) / 2)
      = (offSum F Xba - offSum F (fun f g => Xbb g g) - offSum F (fun f g => Xaa f f)
          + offSum F Xab) / 2 := by
    rw [split4 (fun f g => Xba g f) (fun f g => Xbb g g) (fun f g => Xaa f f) Xab, sw Xba]
  have daa : offSum F (fun f g => Xaa g g) = offSum F (fun f g => Xaa f f) :=
    sw (fun f g => Xaa f f)
  have dbb : offSum F (fun f g => Xbb g g) = offSum F (fun f g => Xbb f f) :=
    sw (fun f g => Xbb f f)
  change offSum F (fun f g => (Xaa g f - Xaa g g - Xaa f f + Xaa f g) / 2) / _ +
      offSum F (fun f g => (Xbb g f - Xbb g g - Xbb f f + Xbb f g) / 2) / _ -
      two * (offSum F (fun f g => (Xba g f - Xbb g g - Xaa f f + Xab f g) / 2) / _) = _
  rw [eaa, ebb, eab, split4' Xaa Xab Xba Xbb, daa, dbb]
  unfold two
  have h1 := ne_of_gt hP
  have h2 := ne_of_gt hFF
  push_cast
  field_simp
  ring

end Rsa.Unb
