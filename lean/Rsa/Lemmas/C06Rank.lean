/- helper lemmas for property C06, part 2: the Wilcoxon signed-rank statistic -/
import Mathlib.Algebra.Order.BigOperators.Group.List
import Rsa.Lemmas.C06
import Rsa.Lemmas.C07Rank

set_option linter.unusedSectionVars false
set_option linter.unusedVariables false
set_option linter.unusedSimpArgs false

namespace Rsa.Lemmas.C06

open Rsa Rsa.Stats Rsa.Compare

section sr
variable {K : Type} [Field K] [LinearOrder K] [IsStrictOrderedRing K]

theorem absG_neg (v : K) : absG (-v) = absG v := by
  simp [absG_eq_abs]

/-- exchanging the two samples negates every difference -/
theorem srDiffs_swap : ∀ (x y : List K), srDiffs y x = (srDiffs x y).map (fun v => -v)
  | [], y => by cases y <;> simp [srDiffs]
  | a :: x, [] => by simp [srDiffs]
  | a :: x, b :: y => by
    have ih := srDiffs_swap x y
    simp only [srDiffs] at ih ⊢
    simp [ih]

theorem srNonzero_map_neg (d : List K) :
    srNonzero (d.map (fun v => -v)) = (srNonzero d).map (fun v => -v) := by
  unfold srNonzero
  rw [List.filter_map]
  congr 1
  apply List.filter_congr
  intro v _
  simp only [Function.comp, neg_lt_zero, neg_pos]
  rw [Bool.or_comm]

theorem srAbs_map_neg (d : List K) : srAbs (d.map (fun v => -v)) = srAbs d := by
  unfold srAbs
  rw [srNonzero_map_neg, List.map_map]
  apply List.map_congr_left
  intro v _
  simp [absG_neg]

theorem srRank_map_neg (d : List K) (v : K) : srRank (d.map (fun v => -v)) (-v) = srRank d v := by
  unfold srRank
  rw [srAbs_map_neg, absG_neg]

theorem srPlus_map_neg (d : List K) : srPlus (d.map (fun v => -v)) = srMinus d := by
  unfold srPlus srMinus
  rw [srNonzero_map_neg, List.map_map]
  congr 1
  apply List.map_congr_left
  intro v _
  simp only [Function.comp, neg_pos, srRank_map_neg]

theorem srMinus_map_neg (d : List K) : srMinus (d.map (fun v => -v)) = srPlus d := by
  unfold srPlus srMinus
  rw [srNonzero_map_neg, List.map_map]
  congr 1
  apply List.map_congr_left
  intro v _
  simp only [Function.comp, neg_lt_zero, srRank_map_neg]

theorem srRanks_map_neg (d : List K) : srRanks (d.map (fun v => -v)) = srRanks d := by
  unfold srRanks
  rw [srNonzero_map_neg, List.map_map]
  apply List.map_congr_left
  intro v _
  simp only [Function.comp, srRank_map_neg]

/-! ### invariance under a permutation of the subjects -/

theorem rankOf_perm {l l' : List K} (h : l.Perm l') (a : K) : rankOf l a = rankOf l' a := by
  unfold rankOf cntLt cntEq
  rw [h.countP_eq, h.countP_eq]

theorem srNonzero_perm {d d' : List K} (h : d.Perm d') : (srNonzero d).Perm (srNonzero d') :=
  h.filter _

theorem srAbs_perm {d d' : List K} (h : d.Perm d') : (srAbs d).Perm (srAbs d') :=
  (srNonzero_perm h).map _

theorem srRank_perm {d d' : List K} (h : d.Perm d') (v : K) : srRank d v = srRank d' v :=
  rankOf_perm (srAbs_perm h) _

theorem srPlus_perm {d d' : List K} (h : d.Perm d') : srPlus d = srPlus d' := by
  unfold srPlus
  rw [fsum_eq_sum, fsum_eq_sum]
  have : (fun v => if 0 < v then srRank d v else 0) = (fun v => if 0 < v then srRank d' v else 0) := by
    funext v; rw [srRank_perm h]
  rw [this]
  exact ((srNonzero_perm h).map _).sum_eq

theorem srMinus_perm {d d' : List K} (h : d.Perm d') : srMinus d = srMinus d' := by
  unfold srMinus
  rw [fsum_eq_sum, fsum_eq_sum]
  have : (fun v => if v < 0 then srRank d v else 0) = (fun v => if v < 0 then srRank d' v else 0) := by
    funext v; rw [srRank_perm h]
  rw [this]
  exact ((srNonzero_perm h).map _).sum_eq

theorem srRanks_perm {d d' : List K} (h : d.Perm d') : (srRanks d).Perm (srRanks d') := by
  unfold srRanks
  have : srRank d = srRank d' := by funext v; exact srRank_perm h v
  rw [this]
  exact (srNonzero_perm h).map _

/-! ### W⁺ + W⁻ is the sum of all ranks -/

theorem srPlus_add_srMinus (d : List K) : srPlus d + srMinus d = (avgRank (srAbs d)).sum := by
  unfold srPlus srMinus
  rw [fsum_eq_sum, fsum_eq_sum, ← List.sum_map_add]
  have e : avgRank (srAbs d) = (srNonzero d).map (srRank d) := by
    unfold avgRank srAbs srRank
    rw [List.map_map]
    rfl
  rw [e]
  congr 1
  apply List.map_congr_left
  intro v hv
  have hv' : v < 0 ∨ 0 < v := by
    have := (List.mem_filter.mp hv).2
    simpa using this
  rcases hv' with h | h
  · simp [h, not_lt.mpr h.le]
  · simp [h, not_lt.mpr h.le]

theorem srPlus_nonneg_aux (l : List K) (a : K) : (0 : K) ≤ rankOf l a := by
  unfold rankOf
  positivity

end sr

theorem srPlus_add_srMinus_real (d : List ℝ) :
    srPlus d + srMinus d = ((srNonzero d).length : ℝ) * ((srNonzero d).length + 1) / 2 := by
  rw [srPlus_add_srMinus, Rsa.Ceiling.sum_avgRank]
  simp [srAbs]

end Rsa.Lemmas.C06
