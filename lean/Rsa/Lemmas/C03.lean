/-
  Helper lemmas for C03 (reusable by C07, C08, C13, C17):
    * list inner products: `dot` as a sum over the zipped list, bilinearity, Cauchy–Schwarz;
    * `HasSqrt ℝ`, the cosine of two lists over `ℝ`: definition, symmetry, range, self, and
      invariance under a simultaneous permutation of the entries;
    * mean removal and tie-averaged ranks are equivariant under simultaneous permutations.
-/
import Mathlib.Analysis.SpecialFunctions.Pow.Real
import Mathlib.Algebra.BigOperators.Ring.List
import Mathlib.Algebra.Order.BigOperators.Group.List
import Mathlib.Tactic.Linarith
import Mathlib.Tactic.Ring
import Mathlib.Tactic.FieldSimp
import Mathlib.Tactic.Positivity
import Rsa.Core.Compare

set_option linter.unusedSectionVars false
set_option linter.unusedVariables false
set_option linter.unusedSimpArgs false

namespace Rsa

noncomputable instance : HasSqrt ℝ := ⟨Real.sqrt⟩

@[simp] theorem hasSqrt_real (x : ℝ) : HasSqrt.sqrt x = Real.sqrt x := rfl

namespace Compare

/-! ### inner products of lists -/

section dot
variable {K : Type} [Field K] [LinearOrder K] [IsStrictOrderedRing K]

@[simp] theorem dot_nil_left (y : List K) : dot ([] : List K) y = 0 := by simp [dot]
@[simp] theorem dot_nil_right (x : List K) : dot x ([] : List K) = 0 := by simp [dot]
@[simp] theorem dot_cons (a b : K) (x y : List K) : dot (a :: x) (b :: y) = a * b + dot x y := by
  simp [dot]

theorem dot_comm (x y : List K) : dot x y = dot y x := by
  induction x generalizing y with
  | nil => simp
  | cons a x ih => cases y with
    | nil => simp
    | cons b y => simp [ih y, mul_comm]

theorem dot_self_nonneg (x : List K) : 0 ≤ dot x x := by
  induction x with
  | nil => simp
  | cons a x ih => simp only [dot_cons]; nlinarith [mul_self_nonneg a]

/-- the inner product of the two components of a list of paired entries -/
theorem dot_map_fst_snd (l : List (K × K)) :
    dot (l.map Prod.fst) (l.map Prod.snd) = (l.map (fun p => p.1 * p.2)).sum := by
  induction l with
  | nil => simp
  | cons p l ih => simp [ih]

theorem dot_map_map {β : Type} (f g : β → K) (l : List β) :
    dot (l.map f) (l.map g) = (l.map (fun p => f p * g p)).sum := by
  induction l with
  | nil => simp
  | cons p l ih => simp [ih]

/-- Cauchy–Schwarz for lists (any lengths; `dot` truncates to the shorter) -/
theorem dot_sq_le (x y : List K) : dot x y * dot x y ≤ dot x x * dot y y := by
  induction x generalizing y with
  | nil => simp
  | cons a x ih => cases y with
    | nil =>
      simp only [dot_nil_right, mul_zero]
      exact le_refl _
    | cons b y =>
      simp only [dot_cons]
      have h := ih y
      have hx := dot_self_nonneg x
      have hy := dot_self_nonneg y
      -- 2 a b S ≤ a² B + b² A  from  S² ≤ A B
      set S := dot x y
      set A := dot x x
      set B := dot y y
      have key : 2 * (a * b) * S ≤ a * a * B + b * b * A := by
        by_contra hc
        push Not at hc
        have hpos : 0 ≤ a * a * B + b * b * A :=
          add_nonneg (mul_nonneg (mul_self_nonneg a) hy) (mul_nonneg (mul_self_nonneg b) hx)
        have h1 : (a * a * B + b * b * A) * (a * a * B + b * b * A) <
            (2 * (a * b) * S) * (2 * (a * b) * S) := by nlinarith
        have h2 : (2 * (a * b) * S) * (2 * (a * b) * S) ≤ 4 * (a * a) * (b * b) * (A * B) := by
          have : 0 ≤ 4 * (a * a) * (b * b) :=
            mul_nonneg (mul_nonneg (by norm_num) (mul_self_nonneg a)) (mul_self_nonneg b)
          nlinarith
        nlinarith [mul_self_nonneg (a * a * B - b * b * A)]
      nlinarith

theorem dot_self_pos_of_mem {x : List K} {a : K} (ha : a ∈ x) (hne : a ≠ 0) : 0 < dot x x := by
  induction x with
  | nil => simp at ha
  | cons b x ih =>
    simp only [dot_cons]
    rcases List.mem_cons.mp ha with rfl | h
    · have : 0 < a * a := mul_self_pos.mpr hne
      linarith [dot_self_nonneg x]
    · have := ih h
      nlinarith [mul_self_nonneg b]

end dot

/-! ### cosine over `ℝ` -/

theorem cosine_eq (x y : List ℝ) :
    cosine x y = if 0 < Real.sqrt (dot x x) ∧ 0 < Real.sqrt (dot y y)
      then dot x y / Real.sqrt (dot x x) / Real.sqrt (dot y y) else 0 := rfl

theorem cosine_pos_def {x y : List ℝ} (hx : 0 < dot x x) (hy : 0 < dot y y) :
    cosine x y = dot x y / (Real.sqrt (dot x x) * Real.sqrt (dot y y)) := by
  rw [cosine_eq, if_pos ⟨Real.sqrt_pos.mpr hx, Real.sqrt_pos.mpr hy⟩, div_div]

theorem cosine_symm' (x y : List ℝ) : cosine x y = cosine y x := by
  rw [cosine_eq, cosine_eq, dot_comm x y]
  by_cases h : 0 < Real.sqrt (dot x x) ∧ 0 < Real.sqrt (dot y y)
  · rw [if_pos h, if_pos h.symm, div_right_comm]
  · rw [if_neg h, if_neg (fun h' => h h'.symm)]

theorem cosine_abs_le_one' (x y : List ℝ) : |cosine x y| ≤ 1 := by
  rw [cosine_eq]
  split_ifs with h
  · obtain ⟨h1, h2⟩ := h
    rw [div_div, abs_div, abs_of_pos (mul_pos h1 h2), div_le_one (mul_pos h1 h2)]
    rw [← Real.sqrt_mul (dot_self_nonneg x)]
    apply Real.abs_le_sqrt
    rw [sq]
    exact dot_sq_le x y
  · simp

theorem cosine_self' {x : List ℝ} (hx : 0 < dot x x) : cosine x x = 1 := by
  rw [cosine_pos_def hx hx, Real.mul_self_sqrt hx.le]
  exact div_self hx.ne'

/-- a simultaneous permutation of the entries of both vectors does not change the cosine -/
theorem cosine_perm' {l l' : List (ℝ × ℝ)} (h : l.Perm l') :
    cosine (l.map Prod.fst) (l.map Prod.snd) = cosine (l'.map Prod.fst) (l'.map Prod.snd) := by
  have e1 : dot (l.map Prod.fst) (l.map Prod.snd) = dot (l'.map Prod.fst) (l'.map Prod.snd) := by
    rw [dot_map_fst_snd, dot_map_fst_snd]; exact (h.map _).sum_eq
  have e2 : dot (l.map Prod.fst) (l.map Prod.fst) = dot (l'.map Prod.fst) (l'.map Prod.fst) := by
    rw [dot_map_map, dot_map_map]; exact (h.map _).sum_eq
  have e3 : dot (l.map Prod.snd) (l.map Prod.snd) = dot (l'.map Prod.snd) (l'.map Prod.snd) := by
    rw [dot_map_map, dot_map_map]; exact (h.map _).sum_eq
  rw [cosine_eq, cosine_eq, e1, e2, e3]

/-! ### mean removal -/

section center
variable {K : Type} [Field K]

theorem mean_perm {x x' : List K} (h : x.Perm x') : mean x = mean x' := by
  unfold mean; rw [h.sum_eq, h.length_eq]

theorem center_map {β : Type} (f : β → K) (l : List β) :
    center (l.map f) = l.map (fun p => f p - mean (l.map f)) := by
  simp [center, List.map_map, Function.comp_def]

end center

/-- mean removal commutes with pairing: the centred vectors of a paired list are the paired
    list mapped by `(a, b) ↦ (a − mean₁, b − mean₂)` -/
theorem center_pairs (l : List (ℝ × ℝ)) :
    let g : ℝ × ℝ → ℝ × ℝ := fun p => (p.1 - mean (l.map Prod.fst), p.2 - mean (l.map Prod.snd))
    center (l.map Prod.fst) = (l.map g).map Prod.fst ∧
    center (l.map Prod.snd) = (l.map g).map Prod.snd := by
  simp [center_map, List.map_map, Function.comp_def]

theorem corr_perm' {l l' : List (ℝ × ℝ)} (h : l.Perm l') :
    corr (l.map Prod.fst) (l.map Prod.snd) = corr (l'.map Prod.fst) (l'.map Prod.snd) := by
  unfold corr
  obtain ⟨a1, a2⟩ := center_pairs l
  obtain ⟨b1, b2⟩ := center_pairs l'
  rw [a1, a2, b1, b2, ← mean_perm (h.map Prod.fst), ← mean_perm (h.map Prod.snd)]
  exact cosine_perm' (h.map _)

/-! ### tie-averaged ranks -/

theorem rankOf_perm {x x' : List ℝ} (h : x.Perm x') (a : ℝ) : rankOf x a = rankOf x' a := by
  unfold rankOf cntLt cntEq
  rw [h.countP_eq, h.countP_eq]

theorem avgRank_map {β : Type} (f : β → ℝ) (l : List β) :
    avgRank (l.map f) = l.map (fun p => rankOf (l.map f) (f p)) := by
  simp [avgRank, List.map_map, Function.comp_def]

theorem spearman_perm' {l l' : List (ℝ × ℝ)} (h : l.Perm l') :
    spearman (l.map Prod.fst) (l.map Prod.snd) = spearman (l'.map Prod.fst) (l'.map Prod.snd) := by
  unfold spearman
  let g : ℝ × ℝ → ℝ × ℝ :=
    fun p => (rankOf (l.map Prod.fst) p.1, rankOf (l.map Prod.snd) p.2)
  have a1 : avgRank (l.map Prod.fst) = (l.map g).map Prod.fst := by
    simp [avgRank_map, g, List.map_map, Function.comp_def]
  have a2 : avgRank (l.map Prod.snd) = (l.map g).map Prod.snd := by
    simp [avgRank_map, g, List.map_map, Function.comp_def]
  have b1 : avgRank (l'.map Prod.fst) = (l'.map g).map Prod.fst := by
    simp only [avgRank_map, g, List.map_map, Function.comp_def]
    apply List.map_congr_left
    intro p _
    exact (rankOf_perm (h.map Prod.fst) p.1).symm
  have b2 : avgRank (l'.map Prod.snd) = (l'.map g).map Prod.snd := by
    simp only [avgRank_map, g, List.map_map, Function.comp_def]
    apply List.map_congr_left
    intro p _
    exact (rankOf_perm (h.map Prod.snd) p.2).symm
  rw [a1, a2, b1, b2]
  exact corr_perm' (h.map g)

/-! ### inner products of centred / ranked vectors under simultaneous permutations -/

theorem dot_perm' {l l' : List (ℝ × ℝ)} (h : l.Perm l') :
    dot (l.map Prod.fst) (l.map Prod.snd) = dot (l'.map Prod.fst) (l'.map Prod.snd) := by
  rw [dot_map_fst_snd, dot_map_fst_snd]; exact (h.map _).sum_eq

theorem dot_center_perm' {l l' : List (ℝ × ℝ)} (h : l.Perm l') :
    dot (center (l.map Prod.fst)) (center (l.map Prod.snd)) =
      dot (center (l'.map Prod.fst)) (center (l'.map Prod.snd)) := by
  obtain ⟨a1, a2⟩ := center_pairs l
  obtain ⟨b1, b2⟩ := center_pairs l'
  rw [a1, a2, b1, b2, ← mean_perm (h.map Prod.fst), ← mean_perm (h.map Prod.snd)]
  exact dot_perm' (h.map _)

theorem rhoA_perm' {l l' : List (ℝ × ℝ)} (h : l.Perm l') :
    rhoA (l.map Prod.fst) (l.map Prod.snd) = rhoA (l'.map Prod.fst) (l'.map Prod.snd) := by
  unfold rhoA
  let g : ℝ × ℝ → ℝ × ℝ :=
    fun p => (rankOf (l.map Prod.fst) p.1, rankOf (l.map Prod.snd) p.2)
  have a1 : avgRank (l.map Prod.fst) = (l.map g).map Prod.fst := by
    simp [avgRank_map, g, List.map_map, Function.comp_def]
  have a2 : avgRank (l.map Prod.snd) = (l.map g).map Prod.snd := by
    simp [avgRank_map, g, List.map_map, Function.comp_def]
  have b1 : avgRank (l'.map Prod.fst) = (l'.map g).map Prod.fst := by
    simp only [avgRank_map, g, List.map_map, Function.comp_def]
    apply List.map_congr_left
    intro p _
    exact (rankOf_perm (h.map Prod.fst) p.1).symm
  have b2 : avgRank (l'.map Prod.snd) = (l'.map g).map Prod.snd := by
    simp only [avgRank_map, g, List.map_map, Function.comp_def]
    apply List.map_congr_left
    intro p _
    exact (rankOf_perm (h.map Prod.snd) p.2).symm
  rw [a1, a2, b1, b2, dot_center_perm' (h.map g)]
  simp only [List.length_map, h.length_eq]

end Compare
end Rsa
