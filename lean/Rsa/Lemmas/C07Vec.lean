/-
  Helper lemmas for C07 (noise ceilings), part 1: entry-wise sums of list vectors, bilinearity of
  `dot`, scale invariance of the cosine, the normalisers of `pool_rdm` over ℝ.
-/
import Rsa.Lemmas.C03
import Rsa.Core.Ceiling

set_option linter.unusedSectionVars false
set_option linter.unusedVariables false
set_option linter.unusedSimpArgs false

namespace Rsa.Ceiling
open Rsa Rsa.Compare

/-! ### `vadd`, `vsumP`, `dot` -/

section field
variable {K : Type} [Field K] [LinearOrder K] [IsStrictOrderedRing K]

@[simp] theorem vadd_nil_left (y : List K) : vadd ([] : List K) y = [] := by simp [vadd]
@[simp] theorem vadd_nil_right (x : List K) : vadd x ([] : List K) = [] := by simp [vadd]
@[simp] theorem vadd_cons (a b : K) (x y : List K) : vadd (a :: x) (b :: y) = (a + b) :: vadd x y := by
  simp [vadd]

theorem vadd_length (x y : List K) : (vadd x y).length = min x.length y.length := by
  simp [vadd]

theorem vadd_comm (x y : List K) : vadd x y = vadd y x := by
  induction x generalizing y with
  | nil => simp
  | cons a x ih => cases y with
    | nil => simp
    | cons b y => simp [ih y, add_comm]

theorem vadd_left_comm (x y z : List K) : vadd x (vadd y z) = vadd y (vadd x z) := by
  induction x generalizing y z with
  | nil => simp
  | cons a x ih => cases y with
    | nil => simp
    | cons b y => cases z with
      | nil => simp
      | cons c z => simp [ih y z, add_left_comm]

theorem dot_vadd_right (c x y : List K) (h : x.length = y.length) :
    dot c (vadd x y) = dot c x + dot c y := by
  induction c generalizing x y with
  | nil => simp
  | cons a c ih => cases x with
    | nil => cases y with
      | nil => simp
      | cons b y => simp at h
    | cons b x => cases y with
      | nil => simp at h
      | cons d y =>
        simp only [vadd_cons, dot_cons]
        rw [ih x y (by simpa using h)]
        ring

theorem dot_vadd_left (x y c : List K) (h : x.length = y.length) :
    dot (vadd x y) c = dot x c + dot y c := by
  rw [dot_comm, dot_vadd_right c x y h, dot_comm c x, dot_comm c y]

theorem dot_replicate_zero_right (c : List K) (p : ℕ) : dot c (List.replicate p (0 : K)) = 0 := by
  induction c generalizing p with
  | nil => simp
  | cons a c ih => cases p with
    | zero => simp
    | succ p => simp [List.replicate_succ, ih p]

theorem vsumP_nil (p : ℕ) : vsumP p ([] : List (List K)) = List.replicate p 0 := rfl

theorem vsumP_cons (p : ℕ) (r : List K) (rows : List (List K)) :
    vsumP p (r :: rows) = vadd r (vsumP p rows) := rfl

theorem vsumP_length (p : ℕ) (rows : List (List K)) (h : ∀ r ∈ rows, r.length = p) :
    (vsumP p rows).length = p := by
  induction rows with
  | nil => simp [vsumP_nil]
  | cons r rows ih =>
    rw [vsumP_cons, vadd_length, h r (List.mem_cons_self ..),
      ih (fun r' hr' => h r' (List.mem_cons_of_mem _ hr'))]
    simp

theorem dot_vsumP (c : List K) (p : ℕ) (rows : List (List K)) (h : ∀ r ∈ rows, r.length = p) :
    dot c (vsumP p rows) = (rows.map (dot c)).sum := by
  induction rows with
  | nil => simp [vsumP_nil, dot_replicate_zero_right]
  | cons r rows ih =>
    have hr := h r (List.mem_cons_self ..)
    have ht : ∀ r' ∈ rows, r'.length = p := fun r' hr' => h r' (List.mem_cons_of_mem _ hr')
    rw [vsumP_cons, dot_vadd_right c r _ (by rw [hr, vsumP_length p rows ht]), ih ht]
    simp

/-- the sum of all rows is row `i` plus the sum of the others -/
theorem vsumP_eraseIdx (p : ℕ) (rows : List (List K)) (i : ℕ) (hi : i < rows.length) :
    vsumP p rows = vadd rows[i] (vsumP p (rows.eraseIdx i)) := by
  induction rows generalizing i with
  | nil => simp at hi
  | cons r rows ih =>
    cases i with
    | zero => simp [vsumP_cons]
    | succ i =>
      have hi' : i < rows.length := by simpa using hi
      simp only [List.eraseIdx_cons_succ, List.getElem_cons_succ, vsumP_cons]
      rw [ih i hi', vadd_left_comm]

theorem dot_map_mul_right (c x : List K) (k : K) : dot c (x.map (· * k)) = dot c x * k := by
  induction c generalizing x with
  | nil => simp
  | cons a c ih => cases x with
    | nil => simp
    | cons b x => simp only [List.map_cons, dot_cons, ih x]; ring

theorem dot_map_mul_left (x c : List K) (k : K) : dot (x.map (· * k)) c = dot x c * k := by
  rw [dot_comm, dot_map_mul_right, dot_comm]

theorem dot_map_div_right (c x : List K) (k : K) : dot c (x.map (· / k)) = dot c x / k := by
  have : x.map (· / k) = x.map (· * k⁻¹) := by simp [div_eq_mul_inv]
  rw [this, dot_map_mul_right, div_eq_mul_inv]

theorem dot_self_eq_sum_sq (x : List K) : dot x x = (x.map fun a => a * a).sum := by
  have := dot_map_map (fun a : K => a) (fun a : K => a) x
  simpa using this

/-- sum of the entries as an inner product with the all-ones vector -/
theorem dot_replicate_one (x : List K) : dot (List.replicate x.length (1 : K)) x = x.sum := by
  induction x with
  | nil => simp
  | cons a x ih => simp [List.replicate_succ, ih]

theorem sum_vsumP (p : ℕ) (rows : List (List K)) (h : ∀ r ∈ rows, r.length = p) :
    (vsumP p rows).sum = (rows.map List.sum).sum := by
  have h1 := dot_replicate_one (vsumP p rows)
  rw [vsumP_length p rows h] at h1
  rw [← h1, dot_vsumP _ p rows h]
  congr 1
  apply List.map_congr_left
  intro r hr
  rw [← dot_replicate_one r, h r hr]

/-! ### mean removal -/

theorem sum_map_sub_const (x : List K) (b : K) : (x.map (· - b)).sum = x.sum - x.length * b := by
  induction x with
  | nil => simp
  | cons a x ih => simp only [List.map_cons, List.sum_cons, ih, List.length_cons]; push_cast; ring

theorem sum_center (x : List K) : (center x).sum = 0 := by
  unfold center mean
  rw [sum_map_sub_const]
  by_cases h : (x.length : K) = 0
  · have : x.length = 0 := by exact_mod_cast h
    have : x = [] := List.eq_nil_of_length_eq_zero this
    subst this; simp
  · field_simp; ring

theorem mean_center (x : List K) : mean (center x) = 0 := by
  unfold mean; rw [sum_center]; simp

theorem center_of_mean_zero (x : List K) (h : mean x = 0) : center x = x := by
  unfold center; rw [h]; simp

theorem center_center (x : List K) : center (center x) = center x :=
  center_of_mean_zero _ (mean_center x)

theorem center_length (x : List K) : (center x).length = x.length := by simp [center]

theorem mean_map_sub_const (x : List K) (b : K) (hx : x ≠ []) :
    mean (x.map (· - b)) = mean x - b := by
  unfold mean
  rw [sum_map_sub_const, List.length_map]
  have : (x.length : K) ≠ 0 := by
    have : x.length ≠ 0 := fun h => hx (List.eq_nil_of_length_eq_zero h)
    exact_mod_cast this
  field_simp

/-- shifting a vector by a constant does not change its centred version -/
theorem center_map_sub_const (x : List K) (b : K) : center (x.map (· - b)) = center x := by
  by_cases hx : x = []
  · subst hx; simp [center]
  · unfold center
    rw [mean_map_sub_const x b hx]
    simp [List.map_map, Function.comp_def]

theorem mean_map_affine (x : List K) (k b : K) (hx : x ≠ []) :
    mean (x.map (fun a => k * a + b)) = k * mean x + b := by
  unfold mean
  have h1 : (x.map (fun a => k * a + b)).sum = k * x.sum + x.length * b := by
    induction x with
    | nil => simp
    | cons a x ih =>
      by_cases hx' : x = []
      · subst hx'; simp
      · simp only [List.map_cons, List.sum_cons, ih hx', List.length_cons]; push_cast; ring
  have : (x.length : K) ≠ 0 := by
    have : x.length ≠ 0 := fun h => hx (List.eq_nil_of_length_eq_zero h)
    exact_mod_cast this
  rw [h1, List.length_map]
  field_simp

theorem center_map_affine (x : List K) (k b : K) :
    center (x.map (fun a => k * a + b)) = (center x).map (· * k) := by
  by_cases hx : x = []
  · subst hx; simp [center]
  · unfold center
    rw [mean_map_affine x k b hx]
    simp only [List.map_map, Function.comp_def]
    apply List.map_congr_left
    intro a _
    ring

end field

/-! ### cosine over ℝ: scalar form and scale invariance -/

/-- the cosine as a function of the three inner products -/
noncomputable def cosS (b X Y : ℝ) : ℝ :=
  if 0 < Real.sqrt X ∧ 0 < Real.sqrt Y then b / Real.sqrt X / Real.sqrt Y else 0

theorem cosine_eq_cosS (x y : List ℝ) : cosine x y = cosS (dot x y) (dot x x) (dot y y) := rfl

theorem cosS_scale (b X Y k : ℝ) (hk : 0 < k) : cosS (k * b) (k * k * X) Y = cosS b X Y := by
  unfold cosS
  have hs : Real.sqrt (k * k * X) = k * Real.sqrt X := by
    rw [Real.sqrt_mul (mul_self_nonneg k), Real.sqrt_mul_self hk.le]
  rw [hs]
  by_cases h : 0 < Real.sqrt X ∧ 0 < Real.sqrt Y
  · rw [if_pos h, if_pos ⟨mul_pos hk h.1, h.2⟩]
    have := h.1.ne'
    have := h.2.ne'
    field_simp
  · rw [if_neg h, if_neg]
    rintro ⟨h1, h2⟩
    exact h ⟨by
      by_contra hc
      have : Real.sqrt X = 0 := le_antisymm (not_lt.mp hc) (Real.sqrt_nonneg X)
      rw [this] at h1; simp at h1, h2⟩

theorem cosine_scale_left (x y : List ℝ) (k : ℝ) (hk : 0 < k) :
    cosine (x.map (· * k)) y = cosine x y := by
  rw [cosine_eq_cosS, cosine_eq_cosS, dot_map_mul_left, dot_map_mul_left, dot_map_mul_right]
  have : dot x x * k * k = k * k * dot x x := by ring
  rw [this, mul_comm (dot x y) k]
  exact cosS_scale _ _ _ k hk

theorem cosine_scale_right (x y : List ℝ) (k : ℝ) (hk : 0 < k) :
    cosine x (y.map (· * k)) = cosine x y := by
  rw [cosine_symm', cosine_scale_left y x k hk, cosine_symm']

theorem cosine_div_left (x y : List ℝ) (k : ℝ) (hk : 0 < k) :
    cosine (x.map (· / k)) y = cosine x y := by
  have : x.map (· / k) = x.map (· * k⁻¹) := by simp [div_eq_mul_inv]
  rw [this]
  exact cosine_scale_left x y _ (inv_pos.mpr hk)

/-! ### the normalisers over ℝ -/

theorem rms_eq (x : List ℝ) : rms x = Real.sqrt (dot x x / x.length) := by
  unfold rms mean
  rw [hasSqrt_real, dot_self_eq_sum_sq, List.length_map]

theorem rms_nonneg (x : List ℝ) : 0 ≤ rms x := by rw [rms_eq]; exact Real.sqrt_nonneg _

/-- the generated guard (`np.where(norm == 0, 1, norm)` on a norm `≥ 0`, i.e. `norm ≤ 0`) in the form
    the lemmas use -/
theorem nonzero_def (s : ℝ) : nonzero s = if 0 < s then s else 1 := by
  unfold nonzero Rsa.Gen.C07.nonzeroGuard
  by_cases h : 0 < s
  · rw [if_pos h, if_neg (by push_cast; exact not_le.mpr h)]
  · rw [if_neg h, if_pos (by push_cast; exact not_lt.mp h)]; norm_num

theorem nonzeroP_eq (s : ℝ) : nonzeroP s = nonzero s := by
  rw [nonzero_def]
  unfold nonzeroP Rsa.Gen.C07.poolingNonzeroGuard
  by_cases h : 0 < s
  · rw [if_pos h, if_neg (by push_cast; exact not_le.mpr h)]
  · rw [if_neg h, if_pos (by push_cast; exact not_lt.mp h)]; norm_num

theorem nonzero_of_pos {s : ℝ} (h : 0 < s) : nonzero s = s := by rw [nonzero_def, if_pos h]

theorem nonzero_of_not_pos {s : ℝ} (h : ¬ 0 < s) : nonzero s = 1 := by rw [nonzero_def, if_neg h]

theorem nonzero_pos (s : ℝ) : 0 < nonzero s := by
  rw [nonzero_def]; split_ifs with h
  · exact h
  · exact one_pos

/-- a vector of zero root mean square is the zero vector -/
theorem eq_zero_of_rms_zero {x : List ℝ} (h : ¬ 0 < rms x) {a : ℝ} (ha : a ∈ x) : a = 0 := by
  by_contra hne
  apply h
  rw [rms_eq]
  apply Real.sqrt_pos.mpr
  have hl : 0 < (x.length : ℝ) := by
    have : 0 < x.length := List.length_pos_iff.mpr (List.ne_nil_of_mem ha)
    exact_mod_cast this
  exact div_pos (dot_self_pos_of_mem ha hne) hl

/-- on the entries of the vector itself the `_nonzero` guard agrees with plain division over ℝ
    (a zero-RMS vector is zero, and `0 / 1 = 0 / 0`) -/
theorem applyD_cosF (x : List ℝ) : applyD cosF x = x.map (· / rms x) := by
  unfold applyD
  apply List.map_congr_left
  intro a ha
  unfold cosF Rsa.Gen.C07.cosScale
  by_cases h : 0 < rms x
  · rw [nonzero_of_pos h]
  · rw [nonzero_of_not_pos h, eq_zero_of_rms_zero h ha]; simp

theorem applyD_corrF (x : List ℝ) : applyD corrF x = applyD cosF (center x) := by
  unfold applyD corrF cosF Rsa.Gen.C07.corrScale Rsa.Gen.C07.corrCenter Rsa.Gen.C07.cosScale
  rw [center_center]
  simp [center, List.map_map, Function.comp_def]

theorem rms_pos {x : List ℝ} (hx : 0 < dot x x) : 0 < rms x := by
  rw [rms_eq]
  apply Real.sqrt_pos.mpr
  have hl : x ≠ [] := by rintro rfl; simp at hx
  have : 0 < (x.length : ℝ) := by
    have : 0 < x.length := List.length_pos_iff.mpr hl
    exact_mod_cast this
  exact div_pos hx this

theorem rms_scale (x : List ℝ) (k : ℝ) (hk : 0 < k) : rms (x.map (· * k)) = rms x * k := by
  rw [rms_eq, rms_eq, dot_map_mul_left, dot_map_mul_right, List.length_map]
  have : dot x x * k * k / (x.length : ℝ) = k * k * (dot x x / x.length) := by ring
  rw [this, Real.sqrt_mul (mul_self_nonneg k), Real.sqrt_mul_self hk.le, mul_comm]

theorem applyD_cosF_scale (x : List ℝ) (k : ℝ) (hk : 0 < k) :
    applyD cosF (x.map (· * k)) = applyD cosF x := by
  rw [applyD_cosF, applyD_cosF, rms_scale x k hk]
  simp only [List.map_map, Function.comp_def]
  apply List.map_congr_left
  intro a _
  by_cases h : rms x = 0
  · simp [h]
  · field_simp

theorem applyD_length (f : List ℝ → ℝ → ℝ) (x : List ℝ) : (applyD f x).length = x.length := by
  simp [applyD]

/-! ### `meanRows` -/

theorem meanRows_eq (p : ℕ) (rows : List (List ℝ)) (hne : rows ≠ []) (h : ∀ r ∈ rows, r.length = p) :
    meanRows rows = (vsumP p rows).map (· / (rows.length : ℝ)) := by
  unfold meanRows
  cases rows with
  | nil => exact absurd rfl hne
  | cons r rows => simp [h r (List.mem_cons_self ..)]

theorem meanRows_length (p : ℕ) (rows : List (List ℝ)) (hne : rows ≠ [])
    (h : ∀ r ∈ rows, r.length = p) : (meanRows rows).length = p := by
  rw [meanRows_eq p rows hne h, List.length_map, vsumP_length p rows h]

theorem sum_map_div (x : List ℝ) (k : ℝ) : (x.map (· / k)).sum = x.sum / k := by
  induction x with
  | nil => simp
  | cons a x ih => simp [ih, add_div]

end Rsa.Ceiling
