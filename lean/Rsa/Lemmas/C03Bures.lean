/-
  Helper lemmas for C03 (round 3): the Bures fidelity under two *routine contracts*
    (S)  the matrix square root squares back:        `S * S = A`            (`IsSqrtOf`)
    (E)  `eigvalsh` returns the roots of the characteristic polynomial with multiplicity
         (built into `trSqrtSpec`)
  instead of the two trace identities assumed in round 1.  For real square matrices:
    * `fidelity_indep_sqrt`  `trSqrtSpec (S * B * S) = trSqrtSpec (A * B)` for any `S * S = A`
                             (the spectrum of `S B S` is that of `A B`: `charpoly_mul_comm`);
    * `fidelity_symm`        hence symmetric in `A`, `B`;
    * `fidelity_conj`        unchanged under `A ↦ P A Pᵀ`, `B ↦ P B Pᵀ` with `Pᵀ P = 1`
                             (in particular a simultaneous permutation of the conditions);
    * `fidelity_self`        `= tr A` for positive semidefinite `A` (spectral theorem: the
                             eigenvalues of `A²` are the squares of those of `A`).
-/
import Mathlib.Analysis.Matrix.Spectrum
import Mathlib.Analysis.Matrix.PosDef
import Mathlib.LinearAlgebra.Matrix.Charpoly.Basic
import Mathlib.Analysis.SpecialFunctions.Pow.Real

set_option linter.unusedVariables false
set_option linter.unusedSectionVars false
set_option linter.unusedSimpArgs false

open Matrix Polynomial

namespace Rsa.Bures

variable {n : ℕ}

/-- `np.sum(np.sqrt(np.maximum(np.linalg.eigvalsh(M), 0)))`, with `eigvalsh M` = the roots of the
    characteristic polynomial of `M`, with multiplicity -/
noncomputable def trSqrtSpec (M : Matrix (Fin n) (Fin n) ℝ) : ℝ :=
  ((M.charpoly.roots).map (fun l => Real.sqrt (max l 0))).sum

/-- the contract on `Asq`: it squares back to `A` (positivity of `Asq` is not needed) -/
def IsSqrtOf (S A : Matrix (Fin n) (Fin n) ℝ) : Prop := S * S = A

theorem trSqrtSpec_nonneg (M : Matrix (Fin n) (Fin n) ℝ) : 0 ≤ trSqrtSpec M := by
  unfold trSqrtSpec
  apply Multiset.sum_nonneg
  intro x hx
  obtain ⟨l, _, rfl⟩ := Multiset.mem_map.mp hx
  exact Real.sqrt_nonneg _

theorem fidelity_indep_sqrt (A B S : Matrix (Fin n) (Fin n) ℝ) (hS : IsSqrtOf S A) :
    trSqrtSpec (S * B * S) = trSqrtSpec (A * B) := by
  unfold trSqrtSpec
  have : (S * B * S).charpoly = (A * B).charpoly := by
    rw [Matrix.charpoly_mul_comm (S * B) S, ← Matrix.mul_assoc, hS]
  rw [this]

theorem fidelity_symm (A B SA SB : Matrix (Fin n) (Fin n) ℝ) (hA : IsSqrtOf SA A)
    (hB : IsSqrtOf SB B) : trSqrtSpec (SA * B * SA) = trSqrtSpec (SB * A * SB) := by
  rw [fidelity_indep_sqrt A B SA hA, fidelity_indep_sqrt B A SB hB]
  unfold trSqrtSpec
  rw [Matrix.charpoly_mul_comm]

theorem fidelity_conj (A B S S' P : Matrix (Fin n) (Fin n) ℝ) (hP : Pᵀ * P = 1)
    (hS : IsSqrtOf S A) (hS' : IsSqrtOf S' (P * A * Pᵀ)) :
    trSqrtSpec (S' * (P * B * Pᵀ) * S') = trSqrtSpec (S * B * S) := by
  rw [fidelity_indep_sqrt _ _ S' hS', fidelity_indep_sqrt A B S hS]
  unfold trSqrtSpec
  have e : P * A * Pᵀ * (P * B * Pᵀ) = P * (A * B * Pᵀ) := by
    calc P * A * Pᵀ * (P * B * Pᵀ) = P * A * (Pᵀ * P) * B * Pᵀ := by
          simp only [Matrix.mul_assoc]
      _ = P * (A * B * Pᵀ) := by rw [hP]; simp only [Matrix.mul_one, Matrix.mul_assoc]
  rw [e, Matrix.charpoly_mul_comm, Matrix.mul_assoc, hP, Matrix.mul_one]

theorem trace_conj (A P : Matrix (Fin n) (Fin n) ℝ) (hP : Pᵀ * P = 1) :
    (P * A * Pᵀ).trace = A.trace := by
  rw [Matrix.trace_mul_comm, ← Matrix.mul_assoc, hP, Matrix.one_mul]

/-- the characteristic polynomial of the square of a symmetric matrix -/
theorem charpoly_sq (A : Matrix (Fin n) (Fin n) ℝ) (hA : A.IsHermitian) :
    (A * A).charpoly = ∏ i, (X - C ((hA.eigenvalues i) * (hA.eigenvalues i))) := by
  have hs := hA.spectral_theorem
  rw [Unitary.conjStarAlgAut_apply] at hs
  set U : Matrix (Fin n) (Fin n) ℝ := (hA.eigenvectorUnitary : Matrix (Fin n) (Fin n) ℝ) with hU
  set D : Matrix (Fin n) (Fin n) ℝ := diagonal (RCLike.ofReal ∘ hA.eigenvalues) with hD
  have hUU : star U * U = 1 := by
    have := hA.eigenvectorUnitary.2
    exact (Unitary.mem_iff.mp this).1
  have e : A * A = U * (D * D * star U) := by
    conv_lhs => rw [hs]
    calc U * D * star U * (U * D * star U) = U * D * (star U * U) * D * star U := by
          simp only [Matrix.mul_assoc]
      _ = U * (D * D * star U) := by rw [hUU]; simp only [Matrix.mul_one, Matrix.mul_assoc]
  rw [e, Matrix.charpoly_mul_comm, Matrix.mul_assoc, hUU, Matrix.mul_one, hD,
    Matrix.diagonal_mul_diagonal, Matrix.charpoly_diagonal]
  simp

theorem fidelity_self (A S : Matrix (Fin n) (Fin n) ℝ) (hS : IsSqrtOf S A) (hA : A.PosSemidef) :
    trSqrtSpec (S * A * S) = A.trace := by
  rw [fidelity_indep_sqrt A A S hS]
  unfold trSqrtSpec
  have hH := hA.isHermitian
  rw [charpoly_sq A hH, Polynomial.roots_prod]
  · rw [hH.trace_eq_sum_eigenvalues]
    simp only [Polynomial.roots_X_sub_C, Multiset.bind_singleton, Multiset.map_map,
      Function.comp_def]
    have : ∀ i, Real.sqrt (max (hH.eigenvalues i * hH.eigenvalues i) 0) = hH.eigenvalues i := by
      intro i
      have h0 := hA.eigenvalues_nonneg i
      rw [max_eq_left (mul_self_nonneg _), Real.sqrt_mul_self h0]
    simp only [this]
    simp [Finset.sum]
  · rw [Finset.prod_ne_zero_iff]
    intro i _
    exact Polynomial.X_sub_C_ne_zero _

/-- a simultaneous permutation of rows and columns keeps the characteristic polynomial -/
theorem charpoly_perm (π : Equiv.Perm (Fin n)) (M : Matrix (Fin n) (Fin n) ℝ) :
    (M.submatrix π π).charpoly = M.charpoly := by
  have := Matrix.charpoly_reindex π.symm M
  rwa [Matrix.reindex_apply, Equiv.symm_symm] at this

/-- permuting the conditions of both kernels together keeps the fidelity -/
theorem fidelity_perm (A B S S' : Matrix (Fin n) (Fin n) ℝ) (π : Equiv.Perm (Fin n))
    (hS : IsSqrtOf S A) (hS' : IsSqrtOf S' (A.submatrix π π)) :
    trSqrtSpec (S' * B.submatrix π π * S') = trSqrtSpec (S * B * S) := by
  rw [fidelity_indep_sqrt _ _ S' hS', fidelity_indep_sqrt A B S hS]
  unfold trSqrtSpec
  rw [Matrix.submatrix_mul_equiv, charpoly_perm]

theorem trace_perm (π : Equiv.Perm (Fin n)) (A : Matrix (Fin n) (Fin n) ℝ) :
    (A.submatrix π π).trace = A.trace := by
  unfold Matrix.trace
  simp only [Matrix.diag, Matrix.submatrix_apply]
  exact Equiv.sum_comp π (fun i => A i i)

end Rsa.Bures
