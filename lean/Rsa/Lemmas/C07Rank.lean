/-
  Helper lemmas for C07, part 5: rho-a.  Among all candidate vectors (with arbitrary ties), the
  tie-averaged rank vector of `m` itself maximises `⟨rank(c), m⟩` — a pairwise argument that
  needs no sorting: `rank(c)_j = Σ_k h(c_j, c_k) + ½` with `h(a,b) + h(b,a) = 1`, so every unordered
  pair contributes a convex combination of `m_j, m_k`, which is at most `max(m_j, m_k)`, the
  contribution it makes when `c = m`.  Hence the mean rank vector maximises the mean rho-a.
-/
import Rsa.Lemmas.C07Opt
import Mathlib.Algebra.Order.BigOperators.Group.List

set_option linter.unusedSectionVars false
set_option linter.unusedVariables false
set_option linter.unusedSimpArgs false

namespace Rsa.Ceiling
open Rsa Rsa.Compare

/-- 1 if `b` is below `a`, ½ if tied, 0 if above -/
noncomputable def hval (a b : ℝ) : ℝ := if b < a then 1 else if a < b then 0 else 1 / 2

theorem hval_nonneg (a b : ℝ) : 0 ≤ hval a b := by
  unfold hval; split_ifs <;> norm_num

theorem hval_add (a b : ℝ) : hval a b + hval b a = 1 := by
  unfold hval
  rcases lt_trichotomy a b with h | h | h
  · rw [if_neg (not_lt.mpr h.le), if_pos h, if_pos h]; norm_num
  · subst h; simp; norm_num
  · rw [if_pos h, if_neg (not_lt.mpr h.le), if_pos h]; norm_num

theorem rankOf_eq_sum (x : List ℝ) (a : ℝ) : rankOf x a = (x.map (hval a)).sum + 1 / 2 := by
  unfold rankOf cntLt cntEq
  induction x with
  | nil => simp
  | cons b x ih =>
    simp only [List.countP_cons, List.map_cons, List.sum_cons]
    have : ((List.countP (fun b => decide (b < a)) x : ℕ) : ℝ)
        + (((List.countP (fun b => !decide (b < a) && !decide (a < b)) x : ℕ) : ℝ) + 1) / ((2 : ℕ) : ℝ)
        = (x.map (hval a)).sum + 1 / 2 := ih
    rcases lt_trichotomy a b with h | h | h
    · have hb : hval a b = 0 := by unfold hval; rw [if_neg (not_lt.mpr h.le), if_pos h]
      rw [hb]
      simp only [not_lt.mpr h.le, h, decide_false, decide_true, Bool.not_true, Bool.not_false,
        Bool.and_false, if_false, if_true]
      push_cast at this ⊢
      linarith
    · subst h
      have hb : hval a a = 1 / 2 := by unfold hval; simp
      rw [hb]
      simp only [lt_irrefl, decide_false, Bool.not_false, Bool.and_self, if_false, if_true]
      push_cast at this ⊢
      linarith
    · have hb : hval a b = 1 := by unfold hval; rw [if_pos h]
      rw [hb]
      simp only [not_lt.mpr h.le, h, decide_false, decide_true, Bool.not_true, Bool.not_false,
        Bool.false_and, if_false, if_true]
      push_cast at this ⊢
      linarith

/-! ### double sums over a list -/

/-- `Σ_{a ∈ l} Σ_{b ∈ l} f a b` -/
def dsum {β : Type} (l : List β) (f : β → β → ℝ) : ℝ := (l.map fun a => (l.map (f a)).sum).sum

theorem sum_sum_swap {β γ : Type} (l : List β) (l' : List γ) (f : β → γ → ℝ) :
    (l.map fun a => (l'.map (f a)).sum).sum = (l'.map fun b => (l.map fun a => f a b).sum).sum := by
  induction l with
  | nil => simp
  | cons x l ih =>
    simp only [List.map_cons, List.sum_cons, ih]
    rw [← List.sum_map_add]

theorem dsum_swap {β : Type} (l : List β) (f : β → β → ℝ) : dsum l f = dsum l (fun a b => f b a) :=
  sum_sum_swap l l f

theorem dsum_add {β : Type} (l : List β) (f g : β → β → ℝ) :
    dsum l (fun a b => f a b + g a b) = dsum l f + dsum l g := by
  unfold dsum
  rw [← List.sum_map_add]
  congr 1
  apply List.map_congr_left
  intro a _
  rw [← List.sum_map_add]

theorem dsum_le {β : Type} (l : List β) (f g : β → β → ℝ) (h : ∀ a ∈ l, ∀ b ∈ l, f a b ≤ g a b) :
    dsum l f ≤ dsum l g := by
  unfold dsum
  apply List.sum_le_sum
  intro a ha
  apply List.sum_le_sum
  intro b hb
  exact h a ha b hb

theorem dsum_congr {β : Type} (l : List β) (f g : β → β → ℝ) (h : ∀ a ∈ l, ∀ b ∈ l, f a b = g a b) :
    dsum l f = dsum l g := by
  unfold dsum
  congr 1
  apply List.map_congr_left
  intro a ha
  congr 1
  apply List.map_congr_left
  intro b hb
  exact h a ha b hb

theorem dsum_map {β γ : Type} (l : List β) (e : β → γ) (f : γ → γ → ℝ) :
    dsum (l.map e) f = dsum l (fun a b => f (e a) (e b)) := by
  simp [dsum, List.map_map, Function.comp_def]

theorem dsum_const_one {β : Type} (l : List β) : dsum l (fun _ _ => (1 : ℝ)) = l.length * l.length := by
  simp [dsum]

/-- symmetrisation: twice a double sum is the double sum of the symmetrised summand -/
theorem two_dsum {β : Type} (l : List β) (f : β → β → ℝ) :
    2 * dsum l f = dsum l (fun a b => f a b + f b a) := by
  rw [dsum_add, ← dsum_swap]; ring

/-! ### the sum of tie-averaged ranks is `p(p+1)/2` -/

theorem sum_avgRank (x : List ℝ) : (avgRank x).sum = x.length * (x.length + 1) / 2 := by
  have h1 : (avgRank x).sum = dsum x hval + x.length / 2 := by
    unfold avgRank dsum
    have : x.map (rankOf x) = x.map (fun a => (x.map (hval a)).sum + 1 / 2) := by
      apply List.map_congr_left; intro a _; exact rankOf_eq_sum x a
    rw [this, List.sum_map_add]
    simp
    ring
  have h2 : 2 * dsum x hval = x.length * x.length := by
    rw [two_dsum, ← dsum_const_one]
    apply dsum_congr
    intro a _ b _
    exact hval_add a b
  rw [h1]; linarith

/-! ### `⟨rank(c), m⟩ ≤ ⟨rank(m), m⟩` -/

/-- `⟨rank of the first components, second components⟩` of a list of pairs -/
theorem rank_dot_pairs (L : List (ℝ × ℝ)) :
    dot (avgRank (L.map Prod.fst)) (L.map Prod.snd)
      = dsum L (fun q q' => hval q.1 q'.1 * q.2) + (L.map Prod.snd).sum / 2 := by
  rw [avgRank_map, dot_map_map]
  have : L.map (fun q => rankOf (L.map Prod.fst) q.1 * q.2)
      = L.map (fun q => (L.map (fun q' => hval q.1 q'.1 * q.2)).sum + q.2 / 2) := by
    apply List.map_congr_left
    intro q _
    rw [rankOf_eq_sum, List.map_map, List.sum_map_mul_right]
    simp only [Function.comp_def]
    ring
  rw [this, List.sum_map_add]
  unfold dsum
  congr 1
  have : L.map (fun q => q.2 / 2) = (L.map Prod.snd).map (· / 2) := by
    simp [List.map_map, Function.comp_def]
  rw [this, sum_map_div]

theorem pair_le_max (a b ma mb : ℝ) : hval a b * ma + hval b a * mb ≤ max ma mb := by
  have h1 := hval_nonneg a b
  have h2 := hval_nonneg b a
  have h3 := hval_add a b
  have : hval b a = 1 - hval a b := by linarith
  rw [this]
  rcases le_total ma mb with h | h
  · rw [max_eq_right h]; nlinarith
  · rw [max_eq_left h]; nlinarith

theorem pair_eq_max (a b : ℝ) : hval a b * a + hval b a * b = max a b := by
  unfold hval
  rcases lt_trichotomy a b with h | h | h
  · rw [if_neg (not_lt.mpr h.le), if_pos h, if_pos h, max_eq_right h.le]; ring
  · subst h; simp; ring
  · rw [if_pos h, if_neg (not_lt.mpr h.le), if_pos h, max_eq_left h.le]; ring

/-- **rank rearrangement with ties**: no candidate's rank vector has a larger inner product with
    `m` than the rank vector of `m` itself -/
theorem rank_dot_le (c m : List ℝ) (h : c.length = m.length) :
    dot (avgRank c) m ≤ dot (avgRank m) m := by
  set L := c.zip m with hL
  set L' := m.map (fun a => (a, a)) with hL'
  have c1 : L.map Prod.fst = c := List.map_fst_zip (by omega)
  have c2 : L.map Prod.snd = m := List.map_snd_zip (by omega)
  have m1 : L'.map Prod.fst = m := by simp [hL', List.map_map, Function.comp_def]
  have m2 : L'.map Prod.snd = m := by simp [hL', List.map_map, Function.comp_def]
  have e1 := rank_dot_pairs L
  have e2 := rank_dot_pairs L'
  rw [c1, c2] at e1
  rw [m1, m2] at e2
  rw [e1, e2]
  -- both double sums against the double sum of maxima over m
  have g1 : dsum L (fun q q' => max q.2 q'.2) = dsum m (fun a b => max a b) := by
    rw [← c2, dsum_map]
  have g2 : dsum L' (fun q q' => max q.2 q'.2) = dsum m (fun a b => max a b) := by
    rw [hL', dsum_map]
  have u1 : 2 * dsum L (fun q q' => hval q.1 q'.1 * q.2) ≤ dsum L (fun q q' => max q.2 q'.2) := by
    rw [two_dsum]
    apply dsum_le
    intro q _ q' _
    exact pair_le_max q.1 q'.1 q.2 q'.2
  have u2 : 2 * dsum L' (fun q q' => hval q.1 q'.1 * q.2) = dsum L' (fun q q' => max q.2 q'.2) := by
    rw [two_dsum]
    apply dsum_congr
    intro q hq q' hq'
    have hq1 : q.1 = q.2 := by
      obtain ⟨a, _, rfl⟩ := List.mem_map.mp hq; rfl
    have hq2 : q'.1 = q'.2 := by
      obtain ⟨a, _, rfl⟩ := List.mem_map.mp hq'; rfl
    rw [hq1, hq2]
    exact pair_eq_max q.2 q'.2
  linarith

/-! ### rho-a in terms of raw rank inner products -/

theorem dot_sub_const (u v : List ℝ) (a b : ℝ) (h : u.length = v.length) :
    dot (u.map (· - a)) (v.map (· - b)) = dot u v - a * v.sum - b * u.sum + u.length * a * b := by
  induction u generalizing v with
  | nil => cases v with
    | nil => simp
    | cons y v => simp at h
  | cons x u ih => cases v with
    | nil => simp at h
    | cons y v =>
      simp only [List.map_cons, dot_cons, List.sum_cons, List.length_cons]
      rw [ih v (by simpa using h)]
      push_cast; ring

theorem dot_center_center (u v : List ℝ) (h : u.length = v.length) :
    dot (center u) (center v) = dot u v - u.sum * v.sum / u.length := by
  unfold center
  rw [dot_sub_const u v _ _ h]
  unfold mean
  rw [← h]
  by_cases hz : (u.length : ℝ) = 0
  · have : u.length = 0 := by exact_mod_cast hz
    have hu : u = [] := List.eq_nil_of_length_eq_zero this
    have hv : v = [] := List.eq_nil_of_length_eq_zero (by rw [← h, this])
    subst hu hv; simp
  · field_simp; ring

theorem avgRank_length (x : List ℝ) : (avgRank x).length = x.length := by simp [avgRank]

/-- rho-a from the raw inner product of the two rank vectors -/
theorem rhoA_eq (x y : List ℝ) (h : x.length = y.length) :
    rhoA x y = (dot (avgRank x) (avgRank y)
      - (x.length * (x.length + 1) / 2) * (x.length * (x.length + 1) / 2) / x.length)
      / ((x.length : ℝ) * x.length * x.length - x.length) * ((12 : ℕ) : ℝ) := by
  unfold rhoA
  rw [dot_center_center _ _ (by rw [avgRank_length, avgRank_length, h]), sum_avgRank, sum_avgRank,
    avgRank_length, ← h]

/-- **optimality of the rank pool for rho-a**: for every candidate `c` (ties allowed) the summed
    rho-a with the data RDMs is at most that of the mean rank vector -/
theorem sum_rhoA_le_pool (c : List ℝ) (p : ℕ) (rows : List (List ℝ)) (hne : rows ≠ [])
    (hlen : ∀ r ∈ rows, r.length = p) (hc : c.length = p) :
    (rows.map (rhoA c)).sum ≤ (rows.map (rhoA (poolD .rhoA rows))).sum := by
  set P := poolD .rhoA rows with hP
  have hW : ∀ w ∈ rows.map (applyD rankF), w.length = p := map_applyD_length rankF p rows hlen
  have hPe : P = (vsumP p (rows.map (applyD rankF))).map (· / (rows.length : ℝ)) := by
    rw [hP]
    show meanRows (rows.map (applyD rankF)) = _
    rw [meanRows_eq p _ (by simpa using hne) hW, List.length_map]
  have hPl : P.length = p := by rw [hPe, List.length_map, vsumP_length p _ hW]
  have hn : 0 < (rows.length : ℝ) := by
    have : 0 < rows.length := List.length_pos_iff.mpr hne
    exact_mod_cast this
  -- for any u: Σ_i ⟨u, rank r_i⟩ = n ⟨u, P⟩
  have hsum : ∀ u : List ℝ, (rows.map (fun r => dot u (avgRank r))).sum = rows.length * dot u P := by
    intro u
    rw [hPe, dot_map_div_right, dot_vsumP u p _ hW, List.map_map]
    have : (rows.map (dot u ∘ applyD rankF)) = rows.map (fun r => dot u (avgRank r)) := by
      apply List.map_congr_left; intro r _; rfl
    rw [this]; field_simp
  -- every rho-a in raw form, with the same constants
  set s0 : ℝ := (p : ℝ) * (p + 1) / 2 with hs0
  set d : ℝ := (p : ℝ) * p * p - p with hd
  have hform : ∀ x : List ℝ, x.length = p → ∀ r ∈ rows,
      rhoA x r = (dot (avgRank x) (avgRank r) - s0 * s0 / p) / d * ((12 : ℕ) : ℝ) := by
    intro x hx r hr
    rw [rhoA_eq x r (by rw [hx, hlen r hr]), hx]
  have hsumform : ∀ x : List ℝ, x.length = p →
      (rows.map (rhoA x)).sum
        = (rows.length * dot (avgRank x) P - rows.length * (s0 * s0 / p)) / d * ((12 : ℕ) : ℝ) := by
    intro x hx
    rw [List.map_congr_left (hform x hx), ← hsum (avgRank x)]
    have : rows.map (fun r => (dot (avgRank x) (avgRank r) - s0 * s0 / p) / d * ((12 : ℕ) : ℝ))
        = ((rows.map (fun r => dot (avgRank x) (avgRank r))).map (· - s0 * s0 / p)).map
            (fun t => t * (((12 : ℕ) : ℝ) / d)) := by
      rw [List.map_map, List.map_map]; apply List.map_congr_left; intro r _
      simp only [Function.comp_def]; ring
    rw [this, List.sum_map_mul_right, List.map_id', sum_map_sub_const, List.length_map]
    ring
  rw [hsumform c hc, hsumform P hPl]
  have hkey := rank_dot_le c P (by rw [hc, hPl])
  have hd0 : 0 ≤ d := by
    rw [hd]
    have h1 : (0 : ℝ) ≤ p := Nat.cast_nonneg p
    rcases Nat.eq_zero_or_pos p with h0 | h0
    · simp [h0]
    · have : (1 : ℝ) ≤ p := by exact_mod_cast h0
      nlinarith [mul_nonneg h1 h1]
  have h12 : (0 : ℝ) ≤ ((12 : ℕ) : ℝ) := by norm_num
  apply mul_le_mul_of_nonneg_right _ h12
  apply div_le_div_of_nonneg_right _ hd0
  have := mul_le_mul_of_nonneg_left hkey hn.le
  linarith

end Rsa.Ceiling
