/-
  Helper lemmas for C08, part 3: the list algorithms — first arg-max / arg-min folds,
  the θ of an interpolation model, `subsample` / `selection`, the active-set exit test,
  the executable KKT predicate.
-/
import Mathlib.Data.List.GetD
import Rsa.Lemmas.C08Inst
import Rsa.Lemmas.Tri

set_option linter.unusedSectionVars false
set_option linter.unusedVariables false
set_option linter.unusedSimpArgs false

namespace Rsa
namespace Fit
open Rsa.Compare

/-! ### first arg-max / arg-min -/

theorem argmax_fold_inv (r : List ℝ) : ∀ (pre : List ℝ) (bi : ℕ) (bv : ℝ), pre ≠ [] →
    bi < pre.length → pre.getD bi 0 = bv →
    (∀ j, j < pre.length → pre.getD j 0 ≤ bv) → (∀ j, j < bi → pre.getD j 0 < bv) →
    let res := r.foldl (fun (acc : ℕ × ℕ × ℝ) b =>
      if acc.2.2 < b then (acc.1 + 1, acc.1 + 1, b) else (acc.1 + 1, acc.2.1, acc.2.2))
      (pre.length - 1, bi, bv)
    res.2.1 < (pre ++ r).length ∧ (pre ++ r).getD res.2.1 0 = res.2.2 ∧
    (∀ j, j < (pre ++ r).length → (pre ++ r).getD j 0 ≤ res.2.2) ∧
    (∀ j, j < res.2.1 → (pre ++ r).getD j 0 < res.2.2) := by
  induction r with
  | nil =>
    intro pre bi bv _ h1 h2 h3 h4
    simpa using ⟨h1, h2, h3, h4⟩
  | cons b r ih =>
    intro pre bi bv hne h1 h2 h3 h4
    have hL : pre.length - 1 + 1 = pre.length := by
      have : 0 < pre.length := List.length_pos_of_ne_nil hne
      omega
    have hlen : (pre ++ [b]).length - 1 = pre.length := by simp
    have happ : pre ++ b :: r = (pre ++ [b]) ++ r := by simp
    have hne' : pre ++ [b] ≠ [] := by simp
    have gl : ∀ j, j < pre.length → (pre ++ [b]).getD j 0 = pre.getD j 0 :=
      fun j hj => List.getD_append _ _ _ _ hj
    have gr : (pre ++ [b]).getD pre.length 0 = b := by
      rw [List.getD_append_right _ _ _ _ (le_refl _)]; simp
    simp only [List.foldl_cons]
    by_cases hb : bv < b
    · rw [if_pos hb, hL, happ]
      have key := ih (pre ++ [b]) pre.length b hne' (by simp) gr
        (by
          intro j hj
          simp only [List.length_append, List.length_singleton] at hj
          by_cases hjl : j < pre.length
          · rw [gl j hjl]; exact le_of_lt (lt_of_le_of_lt (h3 j hjl) hb)
          · have : j = pre.length := by omega
            rw [this, gr])
        (by
          intro j hj
          rw [gl j hj]; exact lt_of_le_of_lt (h3 j hj) hb)
      simp only [hlen] at key
      exact key
    · rw [if_neg hb, hL, happ]
      have key := ih (pre ++ [b]) bi bv hne' (by simp; omega) (by rw [gl bi h1]; exact h2)
        (by
          intro j hj
          simp only [List.length_append, List.length_singleton] at hj
          by_cases hjl : j < pre.length
          · rw [gl j hjl]; exact h3 j hjl
          · have : j = pre.length := by omega
            rw [this, gr]; exact not_lt.mp hb)
        (by
          intro j hj
          rw [gl j (lt_trans hj h1)]; exact h4 j hj)
      simp only [hlen] at key
      exact key

theorem argmaxFirst_spec (a : ℝ) (r : List ℝ) :
    (argmaxFirst (a :: r)).1 < (a :: r).length ∧
    (a :: r).getD (argmaxFirst (a :: r)).1 0 = (argmaxFirst (a :: r)).2 ∧
    (∀ j, j < (a :: r).length → (a :: r).getD j 0 ≤ (argmaxFirst (a :: r)).2) ∧
    (∀ j, j < (argmaxFirst (a :: r)).1 → (a :: r).getD j 0 < (argmaxFirst (a :: r)).2) := by
  have := argmax_fold_inv r [a] 0 a (by simp) (by simp) (by simp)
    (by intro j hj; simp at hj; subst hj; simp) (by intro j hj; omega)
  simpa [argmaxFirst] using this

theorem argmin_fold_inv (r : List ℝ) : ∀ (pre : List ℝ) (bi : ℕ) (bv : ℝ), pre ≠ [] →
    bi < pre.length → pre.getD bi 0 = bv →
    (∀ j, j < pre.length → bv ≤ pre.getD j 0) → (∀ j, j < bi → bv < pre.getD j 0) →
    let res := r.foldl (fun (acc : ℕ × ℕ × ℝ) b =>
      if b < acc.2.2 then (acc.1 + 1, acc.1 + 1, b) else (acc.1 + 1, acc.2.1, acc.2.2))
      (pre.length - 1, bi, bv)
    res.2.1 < (pre ++ r).length ∧ (pre ++ r).getD res.2.1 0 = res.2.2 ∧
    (∀ j, j < (pre ++ r).length → res.2.2 ≤ (pre ++ r).getD j 0) ∧
    (∀ j, j < res.2.1 → res.2.2 < (pre ++ r).getD j 0) := by
  induction r with
  | nil =>
    intro pre bi bv _ h1 h2 h3 h4
    simpa using ⟨h1, h2, h3, h4⟩
  | cons b r ih =>
    intro pre bi bv hne h1 h2 h3 h4
    have hL : pre.length - 1 + 1 = pre.length := by
      have : 0 < pre.length := List.length_pos_of_ne_nil hne
      omega
    have hlen : (pre ++ [b]).length - 1 = pre.length := by simp
    have happ : pre ++ b :: r = (pre ++ [b]) ++ r := by simp
    have hne' : pre ++ [b] ≠ [] := by simp
    have gl : ∀ j, j < pre.length → (pre ++ [b]).getD j 0 = pre.getD j 0 :=
      fun j hj => List.getD_append _ _ _ _ hj
    have gr : (pre ++ [b]).getD pre.length 0 = b := by
      rw [List.getD_append_right _ _ _ _ (le_refl _)]; simp
    simp only [List.foldl_cons]
    by_cases hb : b < bv
    · rw [if_pos hb, hL, happ]
      have key := ih (pre ++ [b]) pre.length b hne' (by simp) gr
        (by
          intro j hj
          simp only [List.length_append, List.length_singleton] at hj
          by_cases hjl : j < pre.length
          · rw [gl j hjl]; exact le_of_lt (lt_of_lt_of_le hb (h3 j hjl))
          · have : j = pre.length := by omega
            rw [this, gr])
        (by
          intro j hj
          rw [gl j hj]; exact lt_of_lt_of_le hb (h3 j hj))
      simp only [hlen] at key
      exact key
    · rw [if_neg hb, hL, happ]
      have key := ih (pre ++ [b]) bi bv hne' (by simp; omega) (by rw [gl bi h1]; exact h2)
        (by
          intro j hj
          simp only [List.length_append, List.length_singleton] at hj
          by_cases hjl : j < pre.length
          · rw [gl j hjl]; exact h3 j hjl
          · have : j = pre.length := by omega
            rw [this, gr]; exact not_lt.mp hb)
        (by
          intro j hj
          rw [gl j (lt_trans hj h1)]; exact h4 j hj)
      simp only [hlen] at key
      exact key

theorem argminFirst_spec (a : ℝ) (r : List ℝ) :
    (argminFirst (a :: r)).1 < (a :: r).length ∧
    (a :: r).getD (argminFirst (a :: r)).1 0 = (argminFirst (a :: r)).2 ∧
    (∀ j, j < (a :: r).length → (argminFirst (a :: r)).2 ≤ (a :: r).getD j 0) ∧
    (∀ j, j < (argminFirst (a :: r)).1 → (argminFirst (a :: r)).2 < (a :: r).getD j 0) := by
  have := argmin_fold_inv r [a] 0 a (by simp) (by simp) (by simp)
    (by intro j hj; simp at hj; subst hj; simp) (by intro j hj; omega)
  simpa [argminFirst] using this

/-! ### θ of an interpolation model -/

/-- the generated leaves of `fit_interpolate` say: `θ[i] = w`, `θ[i+1] = 1 − w` -/
theorem interpTheta_spec (k i : ℕ) (w : ℝ) :
    interpTheta k i w =
      (List.range k).map (fun j => if j = i then w else if j = i + 1 then 1 - w else 0) := by
  unfold interpTheta
  simp [Rsa.Gen.C08.interpFirst, Rsa.Gen.C08.interpSecond, Rsa.Gen.C08.interpSecondIndex]

/-- the result is assembled exactly as the closure `loss_opt` builds its argument -/
theorem interpThetaRes_eq (k i : ℕ) (w : ℝ) : interpThetaRes k i w = interpTheta k i w := by
  unfold interpThetaRes interpTheta
  simp [Rsa.Gen.C08.interpFirst, Rsa.Gen.C08.interpSecond, Rsa.Gen.C08.interpSecondIndex,
    Rsa.Gen.C08.interpResFirst, Rsa.Gen.C08.interpResSecond, Rsa.Gen.C08.interpResSecondIndex]

theorem interpTheta_length (k i : ℕ) (w : ℝ) : (interpTheta k i w).length = k := by
  simp [interpTheta]

theorem interpTheta_getD (k i : ℕ) (w : ℝ) (j : ℕ) (hj : j < k) :
    (interpTheta k i w).getD j 0 = if j = i then w else if j = i + 1 then 1 - w else 0 := by
  have hl : j < (interpTheta k i w).length := by rw [interpTheta_length]; exact hj
  rw [List.getD_eq_getElem _ _ hl]
  simp [interpTheta_spec]

theorem interpTheta_sum (k i : ℕ) (w : ℝ) (hi : i + 1 < k) : (interpTheta k i w).sum = 1 := by
  rw [interpTheta_spec]
  have e : (fun j => if j = i then w else if j = i + 1 then 1 - w else (0 : ℝ)) =
      fun j => (if j = i then w else 0) + (if j = i + 1 then 1 - w else 0) := by
    funext j
    by_cases h1 : j = i
    · subst h1; simp
    · simp [h1]
  rw [e, sum_range_map, Finset.sum_add_distrib, Finset.sum_ite_eq', Finset.sum_ite_eq']
  have h1 : i ∈ Finset.range k := Finset.mem_range.mpr (by omega)
  have h2 : i + 1 ∈ Finset.range k := Finset.mem_range.mpr hi
  rw [if_pos h1, if_pos h2]; ring

/-! ### `subsample`, `selection` -/

theorem subsample_length' {β : Type} (n : ℕ) (sel : List ℕ) (v : List β) :
    (subsample n sel v).length = sel.length * (sel.length - 1) / 2 := by
  simp [subsample, pairsOf_length]

theorem subsample_congr {β : Type} (n : ℕ) (sel : List ℕ) (v v' : List β)
    (h : ∀ i ∈ sel, ∀ j ∈ sel, entryNan n v i j = entryNan n v' i j) :
    subsample n sel v = subsample n sel v' := by
  unfold subsample
  apply List.map_congr_left
  intro p hp
  obtain ⟨h1, h2⟩ := mem_pairsOf hp
  exact h p.1 h1 p.2 h2

theorem selection_perm' (desc value : List ℕ) :
    (selection desc value).Perm
      (value.flatMap (fun v => (List.range desc.length).filter (fun i => desc.getD i 0 == v))) := by
  unfold selection
  exact List.mergeSort_perm _ _

theorem selection_sorted' (desc value : List ℕ) :
    (selection desc value).Pairwise (fun a b => a ≤ b) := by
  unfold selection
  have := List.pairwise_mergeSort (le := fun a b : ℕ => decide (a ≤ b))
    (by intro a b c hab hbc; simp at *; omega) (by intro a b; simp; omega)
    (value.flatMap (fun v => (List.range desc.length).filter (fun i => desc.getD i 0 == v)))
  simpa using this

/-- number of unordered pairs `{a, b}` (`a ≠ b`) in the pair enumeration of a list:
    the product of the multiplicities -/
theorem count_pairs_mult (l : List ℕ) (a b : ℕ) (hab : a ≠ b) :
    (pairsOf l).countP (fun p => (p.1 == a && p.2 == b) || (p.1 == b && p.2 == a)) =
      l.count a * l.count b := by
  induction l with
  | nil => simp [pairsOf]
  | cons x xs ih =>
    simp only [pairsOf, List.countP_append, List.countP_map, ih, List.count_cons]
    have hfun : ((fun p : ℕ × ℕ => (p.1 == a && p.2 == b) || (p.1 == b && p.2 == a)) ∘ fun y => (x, y)) =
        fun y => (x == a && y == b) || (x == b && y == a) := rfl
    rw [hfun]
    by_cases hxa : x = a
    · subst hxa
      have hxb : (x == b) = false := by simpa using hab
      simp only [beq_self_eq_true, Bool.true_and, hxb, Bool.false_and, Bool.or_false, if_true]
      rw [← List.count_eq_countP]
      simp [hab]; ring
    · by_cases hxb : x = b
      · subst hxb
        have hxa' : (x == a) = false := by simpa using hxa
        simp only [beq_self_eq_true, Bool.true_and, hxa', Bool.false_and, Bool.false_or]
        rw [← List.count_eq_countP]
        simp [hxa]; ring
      · have h1 : (x == a) = false := by simpa using hxa
        have h2 : (x == b) = false := by simpa using hxb
        simp [h1, h2]

/-! ### active-set loop: what the exit test guarantees -/

noncomputable def amStep (w : List ℝ) (acc : Option (ℕ × ℝ)) (i : ℕ) : Option (ℕ × ℝ) :=
  match acc with
  | none => some (i, w.getD i 0)
  | some (j, b) => if b < w.getD i 0 then some (i, w.getD i 0) else some (j, b)

theorem amStep_none (w : List ℝ) (i : ℕ) : amStep w none i = some (i, w.getD i 0) := rfl

theorem amStep_lt (w : List ℝ) (i j : ℕ) (b : ℝ) (h : b < w.getD i 0) :
    amStep w (some (j, b)) i = some (i, w.getD i 0) := by
  show (if b < w.getD i 0 then some (i, w.getD i 0) else some (j, b)) = _
  rw [if_pos h]

theorem amStep_ge (w : List ℝ) (i j : ℕ) (b : ℝ) (h : ¬ b < w.getD i 0) :
    amStep w (some (j, b)) i = some (j, b) := by
  show (if b < w.getD i 0 then some (i, w.getD i 0) else some (j, b)) = _
  rw [if_neg h]

theorem amStep_isSome (w : List ℝ) (acc : Option (ℕ × ℝ)) (i : ℕ) : (amStep w acc i).isSome := by
  cases acc with
  | none => rw [amStep_none]; rfl
  | some jb =>
    obtain ⟨j, b⟩ := jb
    by_cases h : b < w.getD i 0
    · rw [amStep_lt w i j b h]; rfl
    · rw [amStep_ge w i j b h]; rfl

theorem amFold_none (w : List ℝ) (L : List ℕ) (acc : Option (ℕ × ℝ)) :
    L.foldl (amStep w) acc = none → L = [] := by
  induction L generalizing acc with
  | nil => intro _; rfl
  | cons i L ih =>
    intro h
    simp only [List.foldl_cons] at h
    have hs := amStep_isSome w acc i
    cases L with
    | nil => simp only [List.foldl_nil] at h; rw [h] at hs; simp at hs
    | cons i2 L2 => have := ih _ h; simp at this

theorem amFold_some (w : List ℝ) (L : List ℕ) : ∀ (acc : Option (ℕ × ℝ)) (j : ℕ) (b : ℝ),
    L.foldl (amStep w) acc = some (j, b) →
    (∀ i ∈ L, w.getD i 0 ≤ b) ∧ (∀ j0 b0, acc = some (j0, b0) → b0 ≤ b) := by
  induction L with
  | nil =>
    intro acc j b h
    simp only [List.foldl_nil] at h
    refine ⟨by simp, ?_⟩
    intro j0 b0 hacc
    rw [hacc] at h; cases h; exact le_refl _
  | cons i L ih =>
    intro acc j b h
    simp only [List.foldl_cons] at h
    obtain ⟨hL, hacc'⟩ := ih _ j b h
    have hstep : (w.getD i 0 ≤ b) ∧ (∀ j0 b0, acc = some (j0, b0) → b0 ≤ b) := by
      cases acc with
      | none =>
        refine ⟨hacc' i (w.getD i 0) (amStep_none w i), ?_⟩
        intro j0 b0 h0; cases h0
      | some jb =>
        obtain ⟨j1, b1⟩ := jb
        by_cases hlt : b1 < w.getD i 0
        · have := hacc' i (w.getD i 0) (amStep_lt w i j1 b1 hlt)
          refine ⟨this, ?_⟩
          intro j0 b0 h0; cases h0; linarith
        · have := hacc' j1 b1 (amStep_ge w i j1 b1 hlt)
          refine ⟨by linarith [not_lt.mp hlt], ?_⟩
          intro j0 b0 h0; cases h0; exact this
    refine ⟨?_, hstep.2⟩
    intro i' hi'
    rcases List.mem_cons.mp hi' with rfl | h'
    · exact hstep.1
    · exact hL i' h'

theorem argmaxActive_eq (p : List Bool) (w : List ℝ) :
    argmaxActive p w =
      ((List.range w.length).filter (fun i => !(p.getD i false))).foldl (amStep w) none := by
  unfold argmaxActive
  congr 1
  funext acc i
  unfold amStep
  cases acc with
  | none => rfl
  | some jb => rfl

theorem argmaxActive_none {p : List Bool} {w : List ℝ} (h : argmaxActive p w = none) :
    ∀ i, i < w.length → p.getD i false = true := by
  rw [argmaxActive_eq] at h
  have := amFold_none w _ _ h
  intro i hi
  by_contra hc
  have hm : i ∈ (List.range w.length).filter (fun i => !(p.getD i false)) := by
    simp only [List.mem_filter, List.mem_range]
    exact ⟨hi, by simpa using hc⟩
  rw [this] at hm
  simp at hm

theorem argmaxActive_some {p : List Bool} {w : List ℝ} {im : ℕ} {wmax : ℝ}
    (h : argmaxActive p w = some (im, wmax)) :
    ∀ i, i < w.length → p.getD i false = false → w.getD i 0 ≤ wmax := by
  rw [argmaxActive_eq] at h
  obtain ⟨hL, _⟩ := amFold_some w _ none im wmax h
  intro i hi hp
  apply hL
  simp only [List.mem_filter, List.mem_range]
  exact ⟨hi, by rw [hp]; rfl⟩

/-- when the outer loop ends through its test, no coefficient fixed at zero has a gradient
    above the threshold in force at the returned point (dual feasibility on the active set).
    The threshold is loop state: `tol` on entry, `tolNext x` after an iteration that produced
    `x`; it is never above `tolNext` of the current point. -/
theorem nnlsOuter_exit (tn : List ℝ → ℝ) (G : List (List ℝ)) (c : List ℝ) :
    ∀ (fuel : ℕ) (tol : ℝ) (x : List ℝ) (p : List Bool) (w : List ℝ),
      (nnlsOuter tn G c fuel tol x p w).2.2.2 = true → tol ≤ tn x →
      ∀ i, i < (nnlsOuter tn G c fuel tol x p w).2.2.1.length →
        (nnlsOuter tn G c fuel tol x p w).2.1.getD i false = false →
        (nnlsOuter tn G c fuel tol x p w).2.2.1.getD i 0 ≤ tn (nnlsOuter tn G c fuel tol x p w).1 := by
  intro fuel
  induction fuel with
  | zero => intro tol x p w h; simp [nnlsOuter] at h
  | succ fuel ih =>
    intro tol x p w
    rw [nnlsOuter]
    cases ham : argmaxActive p w with
    | none =>
      intro _ _ i hi hp
      have := argmaxActive_none ham i hi
      simp only at hp
      rw [this] at hp; cases hp
    | some iw =>
      obtain ⟨im, wmax⟩ := iw
      simp only
      by_cases hlt : tol < wmax
      · rw [if_pos hlt]
        simp only [Bool.and_eq_true]
        intro h _
        exact ih _ _ _ _ h.1 (le_refl _)
      · rw [if_neg hlt]
        intro _ htol i hi hp
        exact le_trans (le_trans (argmaxActive_some ham i hi hp) (not_lt.mp hlt)) htol

/-! ### the executable KKT predicate -/

theorem vsub_map {β : Type} (l : List β) (f g : β → ℝ) :
    vsub (l.map f) (l.map g) = l.map (fun a => f a - g a) := by
  induction l with
  | nil => simp [vsub]
  | cons a l ih => simp only [List.map_cons]; rw [← ih]; simp [vsub]

theorem dot_nonpos (θ l : List ℝ) (hθ : ∀ t ∈ θ, 0 ≤ t) (hl : ∀ v ∈ l, v ≤ 0) : dot θ l ≤ 0 := by
  induction θ generalizing l with
  | nil => simp
  | cons t θ ih => cases l with
    | nil => simp
    | cons v l =>
      rw [dot_cons_cons]
      have h1 : 0 ≤ t := hθ t (by simp)
      have h2 : v ≤ 0 := hl v (by simp)
      have := ih l (fun t' ht' => hθ t' (List.mem_cons_of_mem _ ht'))
        (fun v' hv' => hl v' (List.mem_cons_of_mem _ hv'))
      nlinarith

theorem dot_zero_of_products (x w : List ℝ)
    (h : ∀ a ∈ List.zipWith (fun wi xi => wi * xi) w x, a = 0) : dot x w = 0 := by
  induction x generalizing w with
  | nil => simp
  | cons t x ih => cases w with
    | nil => simp
    | cons v w =>
      rw [dot_cons_cons]
      have h0 : v * t = 0 := h (v * t) (by simp)
      have := ih w (fun a ha => h a (by simp [ha]))
      rw [this, mul_comm, h0]; ring

theorem kktOk_zero_sound (G : List (List ℝ)) (c x : List ℝ) (h : kktOk 0 G c x = true) :
    (∀ t ∈ x, 0 ≤ t) ∧ (∀ v ∈ vsub c (matVec G x), v ≤ 0) ∧ dot x (vsub c (matVec G x)) = 0 := by
  unfold kktOk at h
  simp only [Bool.and_eq_true, List.all_eq_true, Bool.not_eq_true', decide_eq_false_iff_not,
    not_lt, zero_sub, neg_zero] at h
  obtain ⟨⟨h1, h2⟩, h3⟩ := h
  refine ⟨h1, h2, ?_⟩
  apply dot_zero_of_products
  intro a ha
  have := h3 a ha
  exact le_antisymm this.1 this.2

end Fit
end Rsa
