/-
  Helper lemmas for property C11 (index lists, gathers, descriptor rows).
-/
import Mathlib.Data.List.Basic
import Mathlib.Data.List.Nodup
import Mathlib.Data.List.Range
import Mathlib.Data.List.Perm.Basic
import Mathlib.Data.List.Pairwise
import Rsa.Core.Dataset

set_option linter.unusedSectionVars false
set_option linter.unusedVariables false
set_option linter.unusedSimpArgs false

namespace Rsa.Lemmas.C11

open Rsa.Dataset

variable {β γ : Type}

/-! ### indicesWhere -/

theorem mem_indicesWhere {p : β → Bool} {l : List β} {i : Nat} :
    i ∈ indicesWhere p l ↔ ∃ x, l[i]? = some x ∧ p x = true := by
  unfold indicesWhere
  simp only [List.mem_filter, List.mem_range]
  constructor
  · rintro ⟨hi, h⟩
    cases hx : l[i]? with
    | none => simp [hx] at h
    | some x => exact ⟨x, rfl, by simpa [hx] using h⟩
  · rintro ⟨x, hx, hp⟩
    refine ⟨?_, by simp [hx, hp]⟩
    by_contra hcon
    have : l[i]? = none := List.getElem?_eq_none (by omega)
    simp [this] at hx

theorem indicesWhere_lt {p : β → Bool} {l : List β} : ∀ i ∈ indicesWhere p l, i < l.length := by
  intro i hi
  unfold indicesWhere at hi
  exact List.mem_range.1 (List.mem_filter.1 hi).1

theorem indicesWhere_sorted (p : β → Bool) (l : List β) :
    (indicesWhere p l).Pairwise (· < ·) := by
  unfold indicesWhere
  exact List.Pairwise.filter _ List.pairwise_lt_range

theorem indicesWhere_nodup (p : β → Bool) (l : List β) : (indicesWhere p l).Nodup := by
  unfold indicesWhere
  exact List.Nodup.filter _ List.nodup_range

theorem indicesWhere_cons (p : β → Bool) (x : β) (l : List β) :
    indicesWhere p (x :: l) = (if p x then [0] else []) ++ (indicesWhere p l).map (· + 1) := by
  unfold indicesWhere
  rw [List.length_cons, List.range_succ_eq_map, List.filter_cons]
  simp only [List.getElem?_cons_zero]
  rw [List.filter_map]
  have : ((fun i => ((x :: l)[i]?).any p) ∘ Nat.succ) = (fun i => (l[i]?).any p) := by
    funext i; simp
  rw [this]
  simp only [Option.any_some]
  split <;> simp_all

theorem indicesWhere_map (p : γ → Bool) (f : β → γ) (l : List β) :
    indicesWhere p (l.map f) = indicesWhere (fun x => p (f x)) l := by
  unfold indicesWhere
  rw [List.length_map]
  apply List.filter_congr
  intro i _
  cases h : l[i]? <;> simp [h]

theorem indicesWhere_congr {p q : β → Bool} {l : List β} (h : ∀ x ∈ l, p x = q x) :
    indicesWhere p l = indicesWhere q l := by
  unfold indicesWhere
  apply List.filter_congr
  intro i _
  cases hx : l[i]? with
  | none => rfl
  | some x => exact h x (List.mem_of_getElem? hx)

/-! ### gather -/

theorem gather_nil (l : List β) : gather [] l = [] := rfl

theorem gather_cons_of_lt {i : Nat} {idx : List Nat} {l : List β} (h : i < l.length) :
    gather (i :: idx) l = l[i] :: gather idx l := by
  unfold gather
  simp [List.filterMap_cons, List.getElem?_eq_getElem h]

theorem gather_append (a b : List Nat) (l : List β) :
    gather (a ++ b) l = gather a l ++ gather b l := by
  unfold gather; simp

theorem gather_flatMap {δ : Type} (us : List δ) (f : δ → List Nat) (l : List β) :
    gather (us.flatMap f) l = us.flatMap (fun u => gather (f u) l) := by
  induction us with
  | nil => rfl
  | cons u us ih => simp [List.flatMap_cons, gather_append, ih]

theorem gather_length {idx : List Nat} {l : List β} (h : ∀ i ∈ idx, i < l.length) :
    (gather idx l).length = idx.length := by
  induction idx with
  | nil => rfl
  | cons i idx ih =>
    have hi : i < l.length := h i (by simp)
    rw [gather_cons_of_lt hi]
    simp [ih (fun j hj => h j (by simp [hj]))]

theorem gather_getElem? {idx : List Nat} {l : List β} (h : ∀ i ∈ idx, i < l.length) (k : Nat) :
    (gather idx l)[k]? = (idx[k]?).bind (fun i => l[i]?) := by
  induction idx generalizing k with
  | nil => simp [gather]
  | cons i idx ih =>
    have hi : i < l.length := h i (by simp)
    rw [gather_cons_of_lt hi]
    cases k with
    | zero => simp [List.getElem?_eq_getElem hi]
    | succ k => simpa using ih (fun j hj => h j (by simp [hj])) k

theorem gather_map_succ (idx : List Nat) (x : β) (l : List β) :
    gather (idx.map (· + 1)) (x :: l) = gather idx l := by
  unfold gather
  rw [List.filterMap_map]
  congr 1

theorem gather_range (l : List β) : gather (List.range l.length) l = l := by
  apply List.ext_getElem?
  intro k
  rw [gather_getElem? (fun i hi => List.mem_range.1 hi)]
  by_cases hk : k < l.length
  · simp [List.getElem?_range hk]
  · have h1 : (List.range l.length)[k]? = none := List.getElem?_eq_none (by simp; omega)
    have h2 : l[k]? = none := List.getElem?_eq_none (by omega)
    simp [h1, h2]

theorem gather_mem {idx : List Nat} {l : List β} {x : β} (h : x ∈ gather idx l) : x ∈ l := by
  unfold gather at h
  obtain ⟨i, _, hi⟩ := List.mem_filterMap.1 h
  exact List.mem_of_getElem? hi

theorem gather_map (idx : List Nat) (f : β → γ) (l : List β) :
    gather idx (l.map f) = (gather idx l).map f := by
  unfold gather
  rw [List.map_filterMap]
  congr 1
  funext i
  simp

/-- the bridge "as coded = as specified": gathering at the positions where the label
    satisfies `p` is filtering the labelled items, in original order -/
theorem gather_indicesWhere (p : β → Bool) : ∀ (col : List β) (rows : List γ),
    col.length = rows.length →
    gather (indicesWhere p col) rows = ((col.zip rows).filter (fun lr => p lr.1)).map (·.2)
  | [], [], _ => by simp [indicesWhere, gather]
  | x :: col, y :: rows, h => by
    have h' : col.length = rows.length := by simpa using h
    rw [indicesWhere_cons, gather_append, gather_map_succ, gather_indicesWhere p col rows h']
    by_cases hp : p x = true
    · simp [hp, gather]
    · simp [hp, gather]
  | [], _ :: _, h => by simp at h
  | _ :: _, [], h => by simp at h


/-! ### uniqueFirst, inverse, selections -/

section uniq
variable [DecidableEq β]

theorem mem_uniqueFirst {l : List β} {x : β} : x ∈ uniqueFirst l ↔ x ∈ l := by
  induction l with
  | nil => simp [uniqueFirst]
  | cons y l ih =>
    simp only [uniqueFirst, List.mem_cons, List.mem_filter, ih]
    by_cases h : x = y <;> simp [h]

theorem nodup_uniqueFirst (l : List β) : (uniqueFirst l).Nodup := by
  induction l with
  | nil => simp [uniqueFirst]
  | cons y l ih =>
    simp only [uniqueFirst, List.nodup_cons, List.mem_filter]
    exact ⟨by simp, ih.filter _⟩

/-! #### the generated decision leaves, unfolded (a source edit that changes one of them
     breaks the corresponding lemma and every theorem built on it) -/

theorem selMatch_eq (k iv : Nat) : (Rsa.Gen.C11.selMatch k iv == 1) = (k == iv) := by
  unfold Rsa.Gen.C11.selMatch
  by_cases h : k = iv <;> simp [h]

theorem avgMatch_eq (k iv : Nat) : (Rsa.Gen.C11.avgMatch k iv == 1) = (k == iv) := by
  unfold Rsa.Gen.C11.avgMatch
  by_cases h : k = iv <;> simp [h]

theorem mergeIsSame_eq (n : Nat) : (Rsa.Gen.C11.mergeIsSame n == 1) = (n == 1) := by
  unfold Rsa.Gen.C11.mergeIsSame
  by_cases h : n = 1 <;> simp [h]

theorem fromDfIsConst_eq (n : Nat) : (Rsa.Gen.C11.fromDfIsConst n == 1) = (n == 1) := by
  unfold Rsa.Gen.C11.fromDfIsConst
  by_cases h : n = 1 <;> simp [h]

theorem subsetTimeKeep_eq (a x b : Rat) :
    (Rsa.Gen.C11.subsetTimeKeep a x b == 1) = (decide (a ≤ x) && decide (x ≤ b)) := by
  unfold Rsa.Gen.C11.subsetTimeKeep
  by_cases h1 : a ≤ x <;> by_cases h2 : x ≤ b <;> simp [h1, h2]

theorem selectionAvg_eq_selectionOf (col : List β) (iv : Nat) : selectionAvg col iv = selectionOf col iv := by
  unfold selectionAvg selectionOf
  simp only [selMatch_eq, avgMatch_eq]

/-- `l[0::2]` and `l[1::2]` -/
theorem sliceFrom_evens_odds {γ : Type} : ∀ (l : List γ), sliceFrom 0 2 l = evens l ∧ sliceFrom 1 2 l = odds l
  | [] => by simp [sliceFrom, evens, odds]
  | [x] => by simp [sliceFrom, evens, odds]
  | x :: y :: r => by
    have ih := sliceFrom_evens_odds r
    simp [sliceFrom, evens, odds, ih.1, ih.2]

theorem oddEven_eq_ref (by_ : String) (d : DS α) : oddEven by_ d = oddEvenRef by_ d := by
  unfold oddEven oddEvenRef
  cases splitObs by_ d with
  | none => rfl
  | some parts =>
    have h1 : sliceFrom Rsa.Gen.C11.oddStart Rsa.Gen.C11.oeStep parts = evens parts :=
      (sliceFrom_evens_odds parts).1
    have h2 : sliceFrom Rsa.Gen.C11.evenStart Rsa.Gen.C11.oeStep parts = odds parts :=
      (sliceFrom_evens_odds parts).2
    simp only [h1, h2]

/-- one distinct value ⇔ every entry equals the first -/
theorem uniqueFirst_cons_length_one {x0 : β} {xs : List β} :
    (uniqueFirst (x0 :: xs)).length = 1 ↔ ∀ y ∈ xs, y = x0 := by
  rw [uniqueFirst, List.length_cons]
  constructor
  · intro h y hy
    have h0 : ((uniqueFirst xs).filter (fun y => y ≠ x0)).length = 0 := by omega
    have hnil := List.eq_nil_of_length_eq_zero h0
    by_cases hne : y = x0
    · exact hne
    · have : y ∈ (uniqueFirst xs).filter (fun y => y ≠ x0) :=
        List.mem_filter.2 ⟨mem_uniqueFirst.2 hy, by simpa using hne⟩
      rw [hnil] at this
      simp at this
  · intro h
    have : (uniqueFirst xs).filter (fun y => y ≠ x0) = [] := by
      apply List.filter_eq_nil_iff.2
      intro y hy
      simp [h y (mem_uniqueFirst.1 hy)]
    rw [this]
    rfl

/-- `len({s.descriptors[k] for s in sets}) == 1` ⇔ every set has the first set's value -/
theorem sameEverywhere_iff {d0 : DS α} {rest : List (DS α)} {k : String} :
    sameEverywhere (d0 :: rest) k = true ↔ ∀ s ∈ d0 :: rest, s.desc.lookup k = d0.desc.lookup k := by
  unfold sameEverywhere
  rw [mergeIsSame_eq]
  simp only [List.map_cons, beq_iff_eq]
  rw [uniqueFirst_cons_length_one]
  simp only [List.mem_map, forall_exists_index, and_imp, forall_apply_eq_imp_iff₂, List.mem_cons,
    forall_eq_or_imp, true_and]

/-- `np.where(inverse == i_v)` selects exactly the positions holding the `i_v`-th unique value -/
theorem selectionOf_eq (col : List β) (iv : Nat) (h : iv < (uniqueFirst col).length) :
    selectionOf col iv = indicesWhere (fun x => x == (uniqueFirst col)[iv]) col := by
  unfold selectionOf inverse
  simp only [selMatch_eq]
  rw [indicesWhere_map]
  apply indicesWhere_congr
  intro x hx
  have hxu : x ∈ uniqueFirst col := mem_uniqueFirst.2 hx
  have hnd := nodup_uniqueFirst col
  by_cases hxe : x = (uniqueFirst col)[iv]
  · subst hxe
    simp [List.Nodup.idxOf_getElem hnd]
  · have : (uniqueFirst col).idxOf x ≠ iv := by
      intro hc
      apply hxe
      have hlt : (uniqueFirst col).idxOf x < (uniqueFirst col).length := List.idxOf_lt_length_iff.2 hxu
      have := List.getElem_idxOf hlt
      simp only [hc] at this
      exact this.symm
    simp [hxe, this]

/-- the groups of a split: every position is in exactly one group -/
theorem groups_perm_range (col : List β) :
    ((uniqueFirst col).flatMap (fun u => indicesWhere (fun x => x == u) col)).Perm
      (List.range col.length) := by
  apply (List.perm_ext_iff_of_nodup ?_ List.nodup_range).2
  · intro i
    simp only [List.mem_flatMap, mem_uniqueFirst, mem_indicesWhere, List.mem_range, beq_iff_eq]
    constructor
    · rintro ⟨u, _, x, hx, _⟩
      by_contra hcon
      have : col[i]? = none := List.getElem?_eq_none (by omega)
      simp [this] at hx
    · intro hi
      exact ⟨col[i], List.getElem_mem hi, col[i], List.getElem?_eq_getElem hi, rfl⟩
  · rw [List.nodup_flatMap]
    refine ⟨fun u _ => indicesWhere_nodup _ _, ?_⟩
    refine List.Pairwise.imp_of_mem ?_ (nodup_uniqueFirst col)
    intro u v _ _ huv
    rw [Function.onFun, List.disjoint_left]
    intro i hu hv
    obtain ⟨x, hx, hxu⟩ := mem_indicesWhere.1 hu
    obtain ⟨y, hy, hyv⟩ := mem_indicesWhere.1 hv
    rw [hx] at hy
    cases hy
    simp only [beq_iff_eq] at hxu hyv
    exact huv (hxu.symm.trans hyv)

end uniq

/-! ### stable argsort -/

theorem zipIdx_mem_getElem? {l : List β} {x : β} {i : Nat} (h : (x, i) ∈ l.zipIdx) :
    l[i]? = some x := by
  rw [List.mem_zipIdx_iff_getElem?] at h
  simpa using h

theorem argsort_perm (le : β → β → Bool) (col : List β) :
    (argsortStable le col).Perm (List.range col.length) := by
  unfold argsortStable
  have h1 : ((col.zipIdx).mergeSort (fun a b => le a.1 b.1)).Perm col.zipIdx := List.mergeSort_perm _ _
  have h2 := h1.map (·.2)
  refine h2.trans ?_
  have : col.zipIdx.map (·.2) = List.range col.length := by
    simp [List.zipIdx_map_snd, List.range_eq_range']
  rw [this]

theorem argsort_lt (le : β → β → Bool) (col : List β) :
    ∀ i ∈ argsortStable le col, i < col.length := by
  intro i hi
  exact List.mem_range.1 ((argsort_perm le col).mem_iff.1 hi)

theorem argsort_gather (le : β → β → Bool) (col : List β) :
    gather (argsortStable le col) col = ((col.zipIdx).mergeSort (fun a b => le a.1 b.1)).map (·.1) := by
  unfold argsortStable gather
  rw [List.filterMap_map]
  have hmem : ∀ a ∈ (col.zipIdx).mergeSort (fun a b => le a.1 b.1), a ∈ col.zipIdx :=
    fun a ha => List.mem_mergeSort.1 ha
  generalize (col.zipIdx).mergeSort (fun a b => le a.1 b.1) = s at hmem
  induction s with
  | nil => rfl
  | cons a s ih =>
    have ha : col[a.2]? = some a.1 := zipIdx_mem_getElem? (hmem a (by simp))
    simp only [List.filterMap_cons, Function.comp, ha, List.map_cons]
    congr 1
    exact ih (fun b hb => hmem b (by simp [hb]))

theorem argsort_sorted (le : β → β → Bool)
    (trans : ∀ a b c, le a b → le b c → le a c) (total : ∀ a b, le a b || le b a)
    (col : List β) : (gather (argsortStable le col) col).Pairwise (fun a b => le a b) := by
  rw [argsort_gather]
  rw [List.pairwise_map]
  exact List.pairwise_mergeSort (le := fun (a b : β × Nat) => le a.1 b.1)
    (fun a b c => trans a.1 b.1 c.1) (fun a b => total a.1 b.1) _

theorem argsort_stable (le : β → β → Bool)
    (trans : ∀ a b c, le a b → le b c → le a c) (total : ∀ a b, le a b || le b a)
    (col : List β) (i j : Nat) (hij : i < j) (hj : j < col.length)
    (hle : le (col[i]'(by omega)) col[j] = true) :
    [i, j].Sublist (argsortStable le col) := by
  unfold argsortStable
  have hi : i < col.length := by omega
  have hsub : [(col[i], i), (col[j], j)].Sublist col.zipIdx := by
    have h0 : [i, j].Sublist (List.range col.length) := by
      have : [i, j] = (List.range col.length).filter (fun k => k == i || k == j) := by
        symm
        apply List.Perm.eq_of_pairwise (le := fun a b => a < b)
        · intro a b _ _ h1 h2; omega
        · exact List.Pairwise.filter _ List.pairwise_lt_range
        · simp [hij]
        · apply (List.perm_ext_iff_of_nodup (List.Nodup.filter _ List.nodup_range) ?_).2
          · intro a; simp; omega
          · simp; omega
      rw [this]
      exact List.filter_sublist
    have h1 := h0.map (fun k => ((col[k]?).getD col[i], k))
    have hz : col.zipIdx = (List.range col.length).map (fun k => ((col[k]?).getD col[i], k)) := by
      apply List.ext_getElem?
      intro k
      by_cases hk : k < col.length
      · simp [List.getElem?_zipIdx, hk, List.getElem?_range hk]
      · have a1 : col.zipIdx[k]? = none := List.getElem?_eq_none (by simp; omega)
        have a2 : ((List.range col.length).map (fun k => ((col[k]?).getD col[i], k)))[k]? = none :=
          List.getElem?_eq_none (by simp; omega)
        rw [a1, a2]
    rw [hz]
    simpa [hi, hj] using h1
  have := List.pair_sublist_mergeSort (le := fun (a b : β × Nat) => le a.1 b.1)
    (fun a b c => trans a.1 b.1 c.1) (fun a b => total a.1 b.1) (a := (col[i], i)) (b := (col[j], j))
    hle hsub
  simpa using this.map (·.2)


/-! ### descriptor tables -/

theorem Tbl.gather_wf {t : Tbl} {n : Nat} {idx : List Nat} (h : t.wf n) (hidx : ∀ i ∈ idx, i < n) :
    (Tbl.gather idx t).wf idx.length := by
  intro kc hkc
  unfold Tbl.gather at hkc
  obtain ⟨kc0, h0, rfl⟩ := List.mem_map.1 hkc
  exact gather_length (fun i hi => by rw [h kc0 h0]; exact hidx i hi)

theorem Tbl.row_gather {t : Tbl} {n : Nat} {idx : List Nat} (h : t.wf n) (hidx : ∀ i ∈ idx, i < n)
    (k : Nat) : (Tbl.gather idx t).row k = match idx[k]? with | some i => t.row i | none => [] := by
  unfold Tbl.gather Tbl.row
  rw [List.filterMap_map]
  cases hk : idx[k]? with
  | none =>
    simp only
    rw [List.filterMap_eq_nil_iff]
    intro kc hkc
    have := gather_getElem? (l := kc.2) (idx := idx) (fun i hi => by rw [h kc hkc]; exact hidx i hi) k
    simp [Function.comp, this, hk]
  | some i =>
    simp only
    apply List.filterMap_congr
    intro kc hkc
    have := gather_getElem? (l := kc.2) (idx := idx) (fun i hi => by rw [h kc hkc]; exact hidx i hi) k
    simp [Function.comp, this, hk]

theorem Tbl.row_append (a b : Tbl) (i : Nat) : Tbl.row (a ++ b) i = Tbl.row a i ++ Tbl.row b i := by
  unfold Tbl.row; simp

theorem Tbl.mem_row {t : Tbl} {i : Nat} {k : String} {x : Lbl} :
    (k, x) ∈ Tbl.row t i ↔ ∃ c, (k, c) ∈ t ∧ c[i]? = some x := by
  unfold Tbl.row
  simp only [List.mem_filterMap, Option.map_eq_some_iff, Prod.mk.injEq]
  constructor
  · rintro ⟨kc, hkc, y, hy, rfl, rfl⟩
    exact ⟨kc.2, hkc, hy⟩
  · rintro ⟨c, hc, hx⟩
    exact ⟨(k, c), hc, x, hx, rfl, rfl⟩

/-! ### the labelled view under gathers -/

variable {α : Type}

theorem cellAt_eq_some {d : DS α} {i j t : Nat} {c : Cell α} :
    cellAt d i j t = some c ↔
      ∃ r cv v, d.meas[i]? = some r ∧ r[j]? = some cv ∧ cv[t]? = some v ∧
        c = ⟨v, d.obs.row i, d.chan.row j, d.time.row t, d.desc⟩ := by
  unfold cellAt
  simp only [Option.bind_eq_some_iff, Option.map_eq_some_iff]
  constructor
  · rintro ⟨r, hr, cv, hc, v, hv, rfl⟩
    exact ⟨r, cv, v, hr, hc, hv, rfl⟩
  · rintro ⟨r, cv, v, hr, hc, hv, rfl⟩
    exact ⟨r, hr, cv, hc, v, hv, rfl⟩

theorem gatherObs_cellAt {d : DS α} {no nc nt : Nat} (h : d.WF no nc nt) {idx : List Nat}
    (hidx : ∀ i ∈ idx, i < no) (k j t : Nat) :
    cellAt (gatherObs idx d) k j t = (idx[k]?).bind (fun i => cellAt d i j t) := by
  have hm : ∀ i ∈ idx, i < d.meas.length := fun i hi => by rw [h.obsLen]; exact hidx i hi
  unfold cellAt gatherObs
  simp only
  rw [gather_getElem? hm k, Tbl.row_gather h.obsT hidx k]
  cases hk : idx[k]? with
  | none => simp
  | some i => simp

theorem gatherChan_cellAt {d : DS α} {no nc nt : Nat} (h : d.WF no nc nt) {idx : List Nat}
    (hidx : ∀ j ∈ idx, j < nc) (i k t : Nat) :
    cellAt (gatherChan idx d) i k t = (idx[k]?).bind (fun j => cellAt d i j t) := by
  unfold cellAt gatherChan
  simp only [List.getElem?_map]
  rw [Tbl.row_gather h.chanT hidx k]
  cases hr : d.meas[i]? with
  | none => cases idx[k]? <;> simp
  | some r =>
    have hrl : r.length = nc := h.chanLen r (List.mem_of_getElem? hr)
    have hg := gather_getElem? (l := r) (idx := idx) (fun j hj => by rw [hrl]; exact hidx j hj) k
    simp only [Option.map_some, Option.bind_some, hg]
    cases hk : idx[k]? with
    | none => simp
    | some j => simp

theorem gatherTime_cellAt {d : DS α} {no nc nt : Nat} (h : d.WF no nc nt) {idx : List Nat}
    (hidx : ∀ t ∈ idx, t < nt) (i j k : Nat) :
    cellAt (gatherTime idx d) i j k = (idx[k]?).bind (fun t => cellAt d i j t) := by
  unfold cellAt gatherTime
  simp only [List.getElem?_map]
  rw [Tbl.row_gather h.timeT hidx k]
  cases hr : d.meas[i]? with
  | none => cases idx[k]? <;> simp
  | some r =>
    simp only [Option.map_some, Option.bind_some, List.getElem?_map]
    cases hc : r[j]? with
    | none => cases idx[k]? <;> simp
    | some cv =>
      have hcl : cv.length = nt :=
        h.timeLen r (List.mem_of_getElem? hr) cv (List.mem_of_getElem? hc)
      have hg := gather_getElem? (l := cv) (idx := idx) (fun t ht => by rw [hcl]; exact hidx t ht) k
      simp only [Option.map_some, Option.bind_some, hg]
      cases hk : idx[k]? with
      | none => simp
      | some t => simp

theorem gatherObs_wf {d : DS α} {no nc nt : Nat} (h : d.WF no nc nt) {idx : List Nat}
    (hidx : ∀ i ∈ idx, i < no) : (gatherObs idx d).WF idx.length nc nt := by
  have hm : ∀ i ∈ idx, i < d.meas.length := fun i hi => by rw [h.obsLen]; exact hidx i hi
  exact {
    obsLen := gather_length hm
    chanLen := fun r hr => h.chanLen r (gather_mem hr)
    timeLen := fun r hr => h.timeLen r (gather_mem hr)
    obsT := Tbl.gather_wf h.obsT hidx
    chanT := h.chanT
    timeT := h.timeT }

theorem gatherChan_wf {d : DS α} {no nc nt : Nat} (h : d.WF no nc nt) {idx : List Nat}
    (hidx : ∀ i ∈ idx, i < nc) : (gatherChan idx d).WF no idx.length nt := by
  refine { obsLen := by simp [gatherChan, h.obsLen], chanLen := ?_, timeLen := ?_,
           obsT := h.obsT, chanT := Tbl.gather_wf h.chanT hidx, timeT := h.timeT }
  · intro r hr
    obtain ⟨r0, h0, rfl⟩ := List.mem_map.1 hr
    exact gather_length (fun j hj => by rw [h.chanLen r0 h0]; exact hidx j hj)
  · intro r hr c hc
    obtain ⟨r0, h0, rfl⟩ := List.mem_map.1 hr
    exact h.timeLen r0 h0 c (gather_mem hc)

theorem gatherTime_wf {d : DS α} {no nc nt : Nat} (h : d.WF no nc nt) {idx : List Nat}
    (hidx : ∀ i ∈ idx, i < nt) : (gatherTime idx d).WF no nc idx.length := by
  refine { obsLen := by simp [gatherTime, h.obsLen], chanLen := ?_, timeLen := ?_,
           obsT := h.obsT, chanT := h.chanT, timeT := Tbl.gather_wf h.timeT hidx }
  · intro r hr
    obtain ⟨r0, h0, rfl⟩ := List.mem_map.1 hr
    simp [h.chanLen r0 h0]
  · intro r hr c hc
    obtain ⟨r0, h0, rfl⟩ := List.mem_map.1 hr
    obtain ⟨c0, hc0, rfl⟩ := List.mem_map.1 hc
    exact gather_length (fun t ht => by rw [h.timeLen r0 h0 c0 hc0]; exact hidx t ht)


/-! ### block indexing (reshape / repeat / tile) -/

theorem flatMap_getElem?_block {δ : Type} (f : δ → List β) (n : Nat) :
    ∀ (l : List δ), (∀ x ∈ l, (f x).length = n) → ∀ (b t : Nat), t < n →
      (l.flatMap f)[b * n + t]? = (l[b]?).bind (fun x => (f x)[t]?)
  | [], _, b, t, _ => by simp
  | x :: l, hlen, b, t, ht => by
    have hx : (f x).length = n := hlen x (by simp)
    rw [List.flatMap_cons]
    cases b with
    | zero =>
      simp only [Nat.zero_mul, Nat.zero_add, List.getElem?_cons_zero, Option.bind_some]
      rw [List.getElem?_append_left (by omega)]
    | succ b =>
      have : (b + 1) * n + t = (f x).length + (b * n + t) := by rw [hx, Nat.succ_mul]; omega
      rw [this, List.getElem?_append_right (by omega)]
      simp only [Nat.add_sub_cancel_left, List.getElem?_cons_succ]
      exact flatMap_getElem?_block f n l (fun y hy => hlen y (by simp [hy])) b t ht

theorem flatten_getElem?_block (n : Nat) (l : List (List β)) (h : ∀ x ∈ l, x.length = n)
    (b t : Nat) (ht : t < n) : l.flatten[b * n + t]? = (l[b]?).bind (fun x => x[t]?) := by
  have := flatMap_getElem?_block (fun x : List β => x) n l h b t ht
  simpa [List.flatMap_id'] using this


theorem Tbl.minus_of_disjoint {t : Tbl} {ks : List String} (h : ∀ kc ∈ t, kc.1 ∉ ks) :
    t.minus ks = t := by
  unfold Tbl.minus
  rw [List.filter_eq_self]
  intro kc hkc
  simpa using h kc hkc

theorem Tbl.minus_sub {t : Tbl} {ks : List String} : ∀ kc ∈ t.minus ks, kc ∈ t :=
  fun kc h => (List.mem_filter.1 h).1

theorem Tbl.row_minus_sub {t : Tbl} {ks : List String} {i : Nat} :
    ∀ p ∈ (t.minus ks).row i, p ∈ t.row i := by
  intro p hp
  obtain ⟨k, x⟩ := p
  obtain ⟨c, hc, hx⟩ := Tbl.mem_row.1 hp
  exact Tbl.mem_row.2 ⟨c, Tbl.minus_sub _ hc, hx⟩

/-- reassigning columns computed key-wise: the kept columns are those of `t.minus` -/
theorem Tbl.update_map (t new0 : Tbl) (f g : Col → Col) :
    Tbl.update (t.map (fun kc => (kc.1, f kc.2))) (new0.map (fun kc => (kc.1, g kc.2)))
      = ((t.minus new0.keys).map (fun kc => (kc.1, f kc.2))) ++ new0.map (fun kc => (kc.1, g kc.2)) := by
  unfold Tbl.update Tbl.minus
  congr 1
  rw [List.filter_map]
  congr 1
  apply List.filter_congr
  intro kc _
  simp [Tbl.keys, List.map_map, Function.comp]

theorem nChan_eq {d : DS α} {no nc nt : Nat} (h : d.WF no nc nt) (hno : 0 < no) : d.nChan = nc := by
  unfold DS.nChan
  cases hm : d.meas with
  | nil => have := h.obsLen; rw [hm] at this; simp at this; omega
  | cons r rs => exact h.chanLen r (by rw [hm]; simp)

theorem nTime_eq {d : DS α} {no nc nt : Nat} (h : d.WF no nc nt) (hno : 0 < no) (hnc : 0 < nc) :
    d.nTime = nt := by
  unfold DS.nTime
  cases hm : d.meas with
  | nil => have := h.obsLen; rw [hm] at this; simp at this; omega
  | cons r rs =>
    have hr : r.length = nc := h.chanLen r (by rw [hm]; simp)
    cases hc : r with
    | nil => rw [hc] at hr; simp at hr; omega
    | cons c cs => exact h.timeLen r (by rw [hm]; simp) c (by rw [hc]; simp)

/-- `time_as_channels`: the measurement of (observation i, channel j, time t) sits in row i,
    column j·n_time + t and carries its observation labels and its channel and time labels
    (a channel descriptor whose key is also a time descriptor key is reassigned) -/
theorem timeAsChan_cellAt {d : DS α} {no nc nt : Nat} (h : d.WF no nc nt)
    (i j t : Nat) (c : Cell α) (hc : cellAt d i j t = some c) :
    cellAt (timeAsChan d) i (j * nt + t) 0
      = some ⟨c.v, c.o, (d.chan.minus d.time.keys).row j ++ c.t, [], c.d⟩ := by
  obtain ⟨r, cv, v, hr, hcv, hv, rfl⟩ := cellAt_eq_some.1 hc
  have hrm : r ∈ d.meas := List.mem_of_getElem? hr
  have hi : i < no := by rw [← h.obsLen]; exact (List.getElem?_eq_some_iff.1 hr).1
  have hj : j < nc := by rw [← h.chanLen r hrm]; exact (List.getElem?_eq_some_iff.1 hcv).1
  have ht : t < nt := by
    rw [← h.timeLen r hrm cv (List.mem_of_getElem? hcv)]; exact (List.getElem?_eq_some_iff.1 hv).1
  have hNT : d.nTime = nt := nTime_eq h (by omega) (by omega)
  have hNC : d.nChan = nc := nChan_eq h (by omega)
  apply cellAt_eq_some.2
  refine ⟨r.flatten.map (fun v => [v]), [v], v, ?_, ?_, by simp, ?_⟩
  · simp [timeAsChan, hr]
  · rw [List.getElem?_map, flatten_getElem?_block nt r (h.timeLen r hrm) j t ht]
    simp [hcv, hv]
  · simp only [timeAsChan, hNT, hNC]
    rw [Tbl.update_map d.chan d.time (fun c => c.flatMap (fun x => List.replicate nt x))
      (fun c => (List.replicate nc c).flatten), Tbl.row_append]
    congr 1
    · congr 1
      · -- repeated channel descriptors
        unfold Tbl.row
        rw [List.filterMap_map]
        apply List.filterMap_congr
        intro kc hkc
        have hl : kc.2.length = nc := h.chanT kc (Tbl.minus_sub _ hkc)
        simp only [Function.comp]
        rw [flatMap_getElem?_block (fun x => List.replicate nt x) nt kc.2 (by simp) j t ht]
        cases hx : kc.2[j]? with
        | none => simp
        | some x => simp [ht]
      · -- tiled time descriptors
        unfold Tbl.row
        rw [List.filterMap_map]
        apply List.filterMap_congr
        intro kc hkc
        have hl : kc.2.length = nt := h.timeT kc hkc
        simp only [Function.comp]
        rw [flatten_getElem?_block nt (List.replicate nc kc.2) (by simp [List.mem_replicate]; intros; exact hl) j t ht]
        simp [List.getElem?_replicate, hj]

theorem col_mem {t : Tbl} {k : String} {c : Col} (h : t.col k = some c) : (k, c) ∈ t := by
  unfold Tbl.col at h
  induction t with
  | nil => simp at h
  | cons kc t ih =>
    obtain ⟨k0, c0⟩ := kc
    rw [List.lookup_cons] at h
    by_cases hk : k == k0
    · simp only [hk] at h
      cases h
      have : k = k0 := by simpa using hk
      subst this
      simp
    · simp only [hk] at h
      exact List.mem_cons_of_mem _ (ih h)

theorem taoOrder_lt (col : Col) : ∀ s ∈ taoOrder col, s < col.length := by
  intro s hs
  unfold taoOrder at hs
  obtain ⟨u, _, hu⟩ := List.mem_flatMap.1 hs
  exact indicesWhere_lt s hu

/-- `time_as_observations`: block b (time point `order[b]`), observation i -/
theorem timeAsObs_cellAt {d d' : DS α} {no nc nt : Nat} (h : d.WF no nc nt) {by_ : String}
    {col : Col} (hcol : d.time.col by_ = some col) (hd' : timeAsObs by_ d = some d')
    (b s i j : Nat) (hb : (taoOrder col)[b]? = some s)
    (c : Cell α) (hc : cellAt d i j s = some c) :
    cellAt d' (b * no + i) j 0
      = some ⟨c.v, (d.obs.minus d.time.keys).row i ++ c.t, c.c, [], c.d⟩ := by
  obtain ⟨r, cv, v, hr, hcv, hv, rfl⟩ := cellAt_eq_some.1 hc
  have hrm : r ∈ d.meas := List.mem_of_getElem? hr
  have hi : i < no := by rw [← h.obsLen]; exact (List.getElem?_eq_some_iff.1 hr).1
  have hs : s < cv.length := (List.getElem?_eq_some_iff.1 hv).1
  have hcl : col.length = nt := h.timeT _ (col_mem hcol)
  have hord : ∀ s' ∈ taoOrder col, s' < nt := fun s' hs' => hcl ▸ taoOrder_lt col s' hs'
  unfold timeAsObs at hd'
  rw [hcol] at hd'
  simp only [Option.some.injEq] at hd'
  subst hd'
  apply cellAt_eq_some.2
  refine ⟨r.map (fun c => gather [s] c), [v], v, ?_, ?_, by simp, ?_⟩
  · simp only
    rw [← h.obsLen]
    rw [flatMap_getElem?_block (fun s => d.meas.map (fun r => r.map (fun c => gather [s] c)))
      d.meas.length (taoOrder col) (by simp) b i (by rw [h.obsLen]; exact hi)]
    simp [hb, hr]
  · simp only [List.getElem?_map, hcv, Option.map_some]
    rw [gather_cons_of_lt hs]
    simp [gather, (List.getElem?_eq_some_iff.1 hv).2]
  · simp only [Cell.mk.injEq, true_and]
    refine ⟨?_, by simp [Tbl.row]⟩
    rw [Tbl.update_map d.obs d.time (fun c => ((taoOrder col).map (fun _ => c)).flatten)
      (fun c => (gather (taoOrder col) c).flatMap (fun x => List.replicate d.meas.length x)),
      Tbl.row_append]
    congr 1
    · unfold Tbl.row
      rw [List.filterMap_map]
      apply List.filterMap_congr
      intro kc hkc
      have hl : kc.2.length = no := h.obsT kc (Tbl.minus_sub _ hkc)
      simp only [Function.comp]
      rw [flatten_getElem?_block no _ (by simp; intros; exact hl) b i hi]
      have hblt : b < (taoOrder col).length := (List.getElem?_eq_some_iff.1 hb).1
      simp [List.getElem?_replicate, hblt]
    · unfold Tbl.row
      rw [List.filterMap_map]
      apply List.filterMap_congr
      intro kc hkc
      have hl : kc.2.length = nt := h.timeT kc hkc
      simp only [Function.comp]
      rw [h.obsLen, flatMap_getElem?_block (fun x => List.replicate no x) no _ (by simp) b i hi]
      rw [gather_getElem? (fun s' hs' => by rw [hl]; exact hord s' hs') b]
      simp only [hb, Option.bind_some]
      cases hx : kc.2[s]? with
      | none => simp
      | some x => simp [hi]


/-! ### merge -/

theorem lookup_mem {δ : Type} {t : List (String × δ)} {k : String} {c : δ} (h : t.lookup k = some c) :
    (k, c) ∈ t := by
  induction t with
  | nil => simp at h
  | cons kc t ih =>
    obtain ⟨k0, c0⟩ := kc
    rw [List.lookup_cons] at h
    by_cases hk : k == k0
    · simp only [hk] at h
      cases h
      have : k = k0 := by simpa using hk
      subst this
      simp
    · simp only [hk] at h
      exact List.mem_cons_of_mem _ (ih h)

theorem lookup_of_key_mem {δ : Type} {t : List (String × δ)} {k : String} (h : k ∈ t.map (·.1)) :
    ∃ c, t.lookup k = some c := by
  induction t with
  | nil => simp at h
  | cons kc t ih =>
    obtain ⟨k0, c0⟩ := kc
    rw [List.lookup_cons]
    by_cases hk : k == k0
    · exact ⟨c0, by simp [hk]⟩
    · simp only [hk]
      apply ih
      simp only [List.map_cons, List.mem_cons] at h
      rcases h with h | h
      · exact absurd (by simpa using h) (by simpa using hk)
      · exact h

theorem sharedKeys_mem {δ : Type} {ds : List (List (String × δ))} {k : String}
    (h : k ∈ sharedKeys ds) : ∀ d ∈ ds, k ∈ d.map (·.1) := by
  cases ds with
  | nil => simp [sharedKeys] at h
  | cons d0 rest =>
    simp only [sharedKeys, List.mem_filter, List.all_eq_true, List.contains_iff_mem] at h
    intro d hd
    rcases List.mem_cons.1 hd with rfl | hd
    · exact h.1
    · exact h.2 d hd

theorem flatten_getElem?_offset : ∀ (l : List (List β)) (p i : Nat) (x : List β),
    l[p]? = some x → i < x.length → l.flatten[((l.take p).map List.length).sum + i]? = x[i]?
  | [], p, i, x, hp, _ => by simp at hp
  | y :: l, 0, i, x, hp, hi => by
    simp only [List.getElem?_cons_zero, Option.some.injEq] at hp
    subst hp
    simp [List.getElem?_append_left hi]
  | y :: l, p + 1, i, x, hp, hi => by
    simp only [List.getElem?_cons_succ] at hp
    have ih := flatten_getElem?_offset l p i x hp hi
    simp only [List.take_succ_cons, List.map_cons, List.sum_cons, List.flatten_cons]
    rw [Nat.add_assoc, List.getElem?_append_right (by omega)]
    simpa using ih

theorem flatten_getElem?_some : ∀ (l : List (List β)) (k : Nat) (y : β), l.flatten[k]? = some y →
    ∃ p x i, l[p]? = some x ∧ x[i]? = some y ∧ k = ((l.take p).map List.length).sum + i
  | [], k, y, h => by simp at h
  | z :: l, k, y, h => by
    rw [List.flatten_cons] at h
    by_cases hk : k < z.length
    · rw [List.getElem?_append_left hk] at h
      exact ⟨0, z, k, by simp, h, by simp⟩
    · rw [List.getElem?_append_right (by omega)] at h
      obtain ⟨p, x, i, hp, hx, hki⟩ := flatten_getElem?_some l (k - z.length) y h
      refine ⟨p + 1, x, i, by simpa using hp, hx, ?_⟩
      simp only [List.take_succ_cons, List.map_cons, List.sum_cons]
      omega

theorem _root_.Rsa.Dataset.Sub.refl (c : Cell α) : Sub c c := ⟨rfl, fun _ h => h⟩
theorem _root_.Rsa.Dataset.Sub.trans {a b c : Cell α} (h1 : Sub a b) (h2 : Sub b c) : Sub a c :=
  ⟨h1.1.trans h2.1, fun p hp => h2.2 p (h1.2 p hp)⟩

theorem mem_labels {c : Cell α} {p : String × Lbl} :
    p ∈ c.labels ↔ p ∈ c.o ∨ p ∈ c.c ∨ p ∈ c.t ∨ p ∈ c.d := by
  unfold Cell.labels
  simp only [List.mem_append]
  tauto

theorem partCol_length {sets : List (DS α)} {nc nt : Nat}
    (hwf : ∀ s ∈ sets, ∃ no, s.WF no nc nt) {key : String} (hkey : key ∈ mergedObsKeys sets) :
    ∀ s ∈ sets, (partCol (varyKeys sets) key s).length = s.meas.length := by
  intro s hs
  obtain ⟨no, hw⟩ := hwf s hs
  unfold partCol
  by_cases hv : (varyKeys sets).contains key = true
  · simp only [hv, if_true]
    have hk : key ∈ sharedKeys (sets.map (·.desc)) := by
      have : key ∈ varyKeys sets := by simpa using hv
      cases sets with
      | nil => simp [varyKeys, sharedKeys] at this
      | cons d0 rest => exact (List.mem_filter.1 this).1
    obtain ⟨v, hv'⟩ := lookup_of_key_mem (sharedKeys_mem hk s.desc (List.mem_map_of_mem hs))
    simp [hv']
  · simp only [hv]
    have hk : key ∈ sharedKeys (sets.map (·.obs)) := by
      unfold mergedObsKeys at hkey
      rcases List.mem_append.1 hkey with h | h
      · exact (List.mem_filter.1 h).1
      · exact absurd (by simpa using h) hv
    obtain ⟨c, hc⟩ := lookup_of_key_mem (sharedKeys_mem hk s.obs (List.mem_map_of_mem hs))
    have : s.obs.col key = some c := hc
    simp only [this, Option.getD_some, Bool.false_eq_true, if_false]
    rw [hw.obsT _ (col_mem this), hw.obsLen]

/-- soundness of `merge_datasets`: the result is rectangular with aligned descriptor columns
    and every labelled measurement of it is a labelled measurement of one of the parts,
    with no label it did not carry there -/
theorem merge_sound {sets : List (DS α)} {m : DS α} {nc nt : Nat} (hm : merge sets = some m)
    (hwf : ∀ s ∈ sets, ∃ no, s.WF no nc nt)
    (hch : ∀ s ∈ sets, ∀ j, ∀ p ∈ m.chan.row j, p ∈ s.chan.row j)
    (htm : ∀ s ∈ sets, ∀ t, ∀ p ∈ m.time.row t, p ∈ s.time.row t) :
    (∃ no, m.WF no nc nt) ∧
      ∀ c', IsCell m c' → ∃ s ∈ sets, ∃ c, IsCell s c ∧ Sub c' c := by
  cases hsets : sets with
  | nil => simp [hsets, merge] at hm
  | cons d0 rest =>
    have hd0 : d0 ∈ sets := by rw [hsets]; simp
    have hm' := hm
    rw [hsets] at hm
    simp only [merge, Option.some.injEq] at hm
    rw [← hsets] at hm
    have hmeas : m.meas = (sets.map (·.meas)).flatten := by rw [← hm]
    have hobs : m.obs = (mergedObsKeys sets).map
        (fun k => (k, (sets.map (partCol (varyKeys sets) k)).flatten)) := by rw [← hm]
    have hdesc : m.desc = (sameKeys sets).filterMap
        (fun k => (d0.desc.lookup k).map (fun v => (k, v))) := by rw [← hm]
    have hchan : m.chan = d0.chan := by rw [← hm]
    have htime : m.time = d0.time := by rw [← hm]
    constructor
    · obtain ⟨no0, hw0⟩ := hwf d0 hd0
      refine ⟨m.meas.length, ⟨rfl, ?_, ?_, ?_, hchan ▸ hw0.chanT, htime ▸ hw0.timeT⟩⟩
      · intro r hr
        rw [hmeas] at hr
        obtain ⟨x, hx, hrx⟩ := List.mem_flatten.1 hr
        obtain ⟨s, hs, rfl⟩ := List.mem_map.1 hx
        obtain ⟨no, hw⟩ := hwf s hs
        exact hw.chanLen r hrx
      · intro r hr
        rw [hmeas] at hr
        obtain ⟨x, hx, hrx⟩ := List.mem_flatten.1 hr
        obtain ⟨s, hs, rfl⟩ := List.mem_map.1 hx
        obtain ⟨no, hw⟩ := hwf s hs
        exact hw.timeLen r hrx
      · intro kc hkc
        rw [hobs] at hkc
        obtain ⟨k, hk, rfl⟩ := List.mem_map.1 hkc
        simp only
        rw [hmeas, List.length_flatten, List.length_flatten, List.map_map, List.map_map]
        congr 1
        apply List.map_congr_left
        intro s hs
        exact partCol_length hwf hk s hs
    · rintro c' ⟨k, j, t, hc'⟩
      obtain ⟨r, cv, v, hr, hcv, hv, rfl⟩ := cellAt_eq_some.1 hc'
      rw [hmeas] at hr
      obtain ⟨p, x, i, hp, hx, hki⟩ := flatten_getElem?_some _ k r hr
      rw [List.getElem?_map] at hp
      cases hsp : sets[p]? with
      | none => simp [hsp] at hp
      | some s =>
        simp only [hsp, Option.map_some, Option.some.injEq] at hp
        subst hp
        have hs : s ∈ sets := List.mem_of_getElem? hsp
        refine ⟨s, by rw [← hsets]; exact hs, ⟨v, s.obs.row i, s.chan.row j, s.time.row t, s.desc⟩,
          ⟨i, j, t, cellAt_eq_some.2 ⟨r, cv, v, hx, hcv, hv, rfl⟩⟩, rfl, ?_⟩
        intro q hq
        rw [mem_labels] at hq ⊢
        simp only at hq ⊢
        rcases hq with hq | hq | hq | hq
        · -- observation labels
          obtain ⟨key, xv⟩ := q
          obtain ⟨colm, hcolm, hxv⟩ := Tbl.mem_row.1 hq
          rw [hobs] at hcolm
          obtain ⟨key', hkey, heq⟩ := List.mem_map.1 hcolm
          simp only [Prod.mk.injEq] at heq
          obtain ⟨rfl, rfl⟩ := heq
          have hlen := partCol_length hwf hkey
          have hi : i < s.meas.length := (List.getElem?_eq_some_iff.1 hx).1
          have hoff : ((List.take p (sets.map (·.meas))).map List.length).sum
              = ((List.take p (sets.map (partCol (varyKeys sets) key'))).map List.length).sum := by
            rw [← List.map_take, ← List.map_take, List.map_map, List.map_map]
            congr 1
            apply List.map_congr_left
            intro s' hs'
            exact (hlen s' (List.mem_of_mem_take hs')).symm
          rw [hki, hoff, flatten_getElem?_offset _ p i (partCol (varyKeys sets) key' s)
            (by simp [hsp]) (by rw [hlen s hs]; exact hi)] at hxv
          unfold partCol at hxv
          by_cases hvk : (varyKeys sets).contains key' = true
          · simp only [hvk, if_true] at hxv
            cases hl : s.desc.lookup key' with
            | none => simp [hl] at hxv
            | some v' =>
              simp only [hl] at hxv
              have : xv = v' := by
                have := List.mem_of_getElem? hxv
                exact (List.mem_replicate.1 this).2
              subst this
              right; right; right
              exact lookup_mem hl
          · simp only [hvk, Bool.false_eq_true, if_false] at hxv
            cases hl : s.obs.col key' with
            | none => simp [hl] at hxv
            | some c0 =>
              simp only [hl, Option.getD_some] at hxv
              left
              exact Tbl.mem_row.2 ⟨c0, col_mem hl, hxv⟩
        · right; left; exact hch s hs j q hq
        · right; right; left; exact htm s hs t q hq
        · right; right; right
          rw [hdesc] at hq
          obtain ⟨key, hkey, hkv⟩ := List.mem_filterMap.1 hq
          cases hl0 : d0.desc.lookup key with
          | none => simp [hl0] at hkv
          | some v0 =>
            simp only [hl0, Option.map_some, Option.some.injEq] at hkv
            subst hkv
            have hall : s.desc.lookup key = d0.desc.lookup key := by
              rw [hsets] at hkey
              simp only [sameKeys, List.mem_filter] at hkey
              exact (sameEverywhere_iff.1 hkey.2) s (by rw [← hsets]; exact hs)
            have : s.desc.lookup key = some v0 := by
              rw [hl0] at hall
              exact hall
            exact lookup_mem this

end Rsa.Lemmas.C11
