/-
  Helper lemmas for C07, part 4: the whitened inner product `xᵀV⁻¹y`, computed through any correct
  linear solver, is an `IPForm`; the model's whitened similarity `wsim` is its cosine.
-/
import Rsa.Lemmas.C07Loo

set_option linter.unusedSectionVars false
set_option linter.unusedVariables false
set_option linter.unusedSimpArgs false

namespace Rsa.Ceiling
open Rsa Rsa.Compare

/-- contract of the linear solve (`scipy.sparse.linalg.cg` / the library's shortcut / `Compare.solve`):
    on right-hand sides of length `m` it returns a solution of `V s = b` of length `m` -/
def IsSolver (V : List (List ℝ)) (m : ℕ) (sol : List ℝ → List ℝ) : Prop :=
  ∀ b, b.length = m → (sol b).length = m ∧ matVec V (sol b) = b

/-- `xᵀV⁻¹y` through a solver -/
def wform (sol : List ℝ → List ℝ) (x y : List ℝ) : ℝ := dot x (sol y)

theorem wform_eq_Q {V : List (List ℝ)} {m : ℕ} (hV : SymPosDef V m) {sol : List ℝ → List ℝ}
    (hs : IsSolver V m sol) (x y : List ℝ) (hx : x.length = m) (hy : y.length = m) :
    wform sol x y = Q V m (fun i => (sol y).getD i 0) (fun i => (sol x).getD i 0) := by
  obtain ⟨lx, ex⟩ := hs x hx
  obtain ⟨ly, ey⟩ := hs y hy
  unfold wform
  calc dot x (sol y) = dot (matVec V (sol x)) (sol y) := by rw [ex]
    _ = dot (sol y) (matVec V (sol x)) := dot_comm _ _
    _ = _ := dot_matVec hV.rows hV.cols (sol y) (sol x) ly lx

theorem ipForm_whitened {V : List (List ℝ)} {m : ℕ} (hV : SymPosDef V m) {sol : List ℝ → List ℝ}
    (hs : IsSolver V m sol) : IPForm m (wform sol) where
  symm := fun x y hx hy => by
    rw [wform_eq_Q hV hs x y hx hy, wform_eq_Q hV hs y x hy hx, Q_symm hV.symm]
  add_left := fun x y z hx hy _ => by
    unfold wform; exact dot_vadd_left x y _ (by rw [hx, hy])
  smul_left := fun x z k _ _ => by
    unfold wform; rw [dot_map_mul_left, mul_comm]
  nonneg := fun x hx => by
    rw [wform_eq_Q hV hs x x hx hx]; exact Q_nonneg hV _
  cs := fun x y hx hy => by
    have h1 := wform_eq_Q hV hs x y hx hy
    rw [h1, wform_eq_Q hV hs x x hx hx, wform_eq_Q hV hs y y hy hy]
    have := Q_sq_le hV (fun i => (sol y).getD i 0) (fun i => (sol x).getD i 0)
    linarith

/-- a non-zero vector has positive whitened norm -/
theorem wform_pos {V : List (List ℝ)} {m : ℕ} (hV : SymPosDef V m) {sol : List ℝ → List ℝ}
    (hs : IsSolver V m sol) (r : List ℝ) (hr : r.length = m) (hne : ∃ c ∈ r, c ≠ 0) :
    0 < wform sol r r := by
  obtain ⟨ls, es⟩ := hs r hr
  rw [wform_eq_Q hV hs r r hr hr]
  apply hV.pos
  by_contra hz
  push Not at hz
  obtain ⟨c', hc', hcne⟩ := hne
  apply hcne
  rw [← es] at hc'
  obtain ⟨i, hi, rfl⟩ := List.getElem_of_mem hc'
  have hi' : i < V.length := by simpa [matVec] using hi
  have : (matVec V (sol r))[i] = (matVec V (sol r)).getD i 0 := (List.getD_eq_getElem _ _ hi).symm
  rw [this, matVec_getD, dot_eq_sum_range' (V.getD i []) (sol r) m
    (by rw [List.getD_eq_getElem _ _ hi']; exact hV.cols _ (List.getElem_mem hi')) ls]
  apply Finset.sum_eq_zero
  intro j hj
  rw [hz j (Finset.mem_range.mp hj), mul_zero]

/-- the model's whitened similarity is the cosine of the whitened form computed by `Compare.solve` -/
theorem wsim_eq_cosB (V : List (List ℝ)) (x y : List ℝ) :
    wsim V x y = cosB (wform (solve V)) x y := by
  unfold wsim whitenedCos wcosFrom cosB cosS wform
  simp only [hasSqrt_real]
  by_cases h : 0 < dot x (solve V x) ∧ 0 < dot y (solve V y)
  · rw [if_pos h, if_pos ⟨Real.sqrt_pos.mpr h.1, Real.sqrt_pos.mpr h.2⟩]
  · rw [if_neg h, if_neg]
    rintro ⟨h1, h2⟩
    exact h ⟨Real.sqrt_pos.mp h1, Real.sqrt_pos.mp h2⟩

end Rsa.Ceiling
