/-
  Helper lemmas for C08, part 2: the three concrete inner products, the coded Gram matrix /
  right-hand side, the coded cosine pooling, positive rescaling.
-/
import Rsa.Lemmas.C08

set_option linter.unusedSectionVars false
set_option linter.unusedVariables false
set_option linter.unusedSimpArgs false

namespace Rsa
namespace Fit
open Rsa.Compare

/-! ### the plain inner product -/

theorem isIP_dot (m : ℕ) : IsIP m (dot : List ℝ → List ℝ → ℝ) where
  add_left a b c ha hb hc := dot_vadd_left a b c (ha.trans hb.symm) (hb.trans hc.symm)
  smul_left t a c _ _ := dot_vscale_left t a c
  zero_left c _ := dot_replicate_zero m c
  symm a b _ _ := dot_comm' a b
  nonneg a _ := dot_self_nonneg a

/-! ### mean removal is linear -/

section center
variable {K : Type} [Field K]

theorem center_length (a : List K) : (center a).length = a.length := by simp [center]

theorem sum_vadd (a b : List K) (h : a.length = b.length) : (vadd a b).sum = a.sum + b.sum := by
  induction a generalizing b with
  | nil => cases b with
    | nil => simp [vadd]
    | cons _ _ => simp at h
  | cons x a ih => cases b with
    | nil => simp at h
    | cons y b =>
      simp only [List.length_cons, Nat.add_right_cancel_iff] at h
      have : vadd (x :: a) (y :: b) = (x + y) :: vadd a b := by simp [vadd]
      rw [this, List.sum_cons, List.sum_cons, List.sum_cons, ih b h]; ring

theorem sum_vscale (t : K) (a : List K) : (vscale t a).sum = t * a.sum := by
  induction a with
  | nil => simp [vscale]
  | cons x a ih =>
    have : vscale t (x :: a) = (t * x) :: vscale t a := by simp [vscale]
    rw [this, List.sum_cons, List.sum_cons, ih]; ring

theorem map_sub_vadd (a b : List K) (c1 c2 : K) :
    (vadd a b).map (fun x => x - (c1 + c2)) = vadd (a.map (fun x => x - c1)) (b.map (fun x => x - c2)) := by
  induction a generalizing b with
  | nil => simp [vadd]
  | cons x a ih => cases b with
    | nil => simp [vadd]
    | cons y b =>
      have h1 : vadd (x :: a) (y :: b) = (x + y) :: vadd a b := by simp [vadd]
      have h2 : vadd ((x :: a).map (fun x => x - c1)) ((y :: b).map (fun x => x - c2)) =
          ((x - c1) + (y - c2)) :: vadd (a.map (fun x => x - c1)) (b.map (fun x => x - c2)) := by
        simp [vadd]
      rw [h1, h2, List.map_cons, ih b]
      congr 1; ring

theorem center_vadd (a b : List K) (h : a.length = b.length) :
    center (vadd a b) = vadd (center a) (center b) := by
  unfold center
  have hm : mean (vadd a b) = mean a + mean b := by
    unfold mean
    rw [sum_vadd a b h, vadd_length, h, Nat.min_self, add_div]
  rw [hm, map_sub_vadd]

theorem center_vscale (t : K) (a : List K) : center (vscale t a) = vscale t (center a) := by
  unfold center
  have hm : mean (vscale t a) = t * mean a := by
    unfold mean
    rw [sum_vscale, vscale_length, mul_div_assoc]
  rw [hm]
  simp [vscale, List.map_map, Function.comp_def, mul_sub]

theorem center_replicate_zero (m : ℕ) : center (List.replicate m (0 : K)) = List.replicate m 0 := by
  unfold center mean
  simp

end center

/-- the inner product of the mean-removed vectors (Pearson) -/
theorem isIP_center (m : ℕ) : IsIP m (fun a b : List ℝ => dot (center a) (center b)) where
  add_left a b c ha hb hc := by
    show dot (center (vadd a b)) (center c) = _
    rw [center_vadd a b (ha.trans hb.symm)]
    exact dot_vadd_left _ _ _ (by rw [center_length, center_length, ha, hb])
      (by rw [center_length, center_length, hb, hc])
  smul_left t a c _ _ := by
    show dot (center (vscale t a)) (center c) = _
    rw [center_vscale]; exact dot_vscale_left t _ _
  zero_left c _ := by
    show dot (center (List.replicate m 0)) (center c) = 0
    rw [center_replicate_zero]; exact dot_replicate_zero m _
  symm a b _ _ := dot_comm' _ _
  nonneg a _ := dot_self_nonneg _

/-! ### the inner product weighted by a symmetric positive definite matrix -/

/-- `aᵀ W b` (for the whitened criteria `W = V⁻¹`) -/
noncomputable def ipW (W : List (List ℝ)) (a b : List ℝ) : ℝ := dot a (matVec W b)

theorem isIP_W {W : List (List ℝ)} {m : ℕ} (hW : SymPosDef W m) : IsIP m (ipW W) where
  add_left a b c ha hb hc := by
    unfold ipW
    exact dot_vadd_left a b _ (ha.trans hb.symm) (by rw [matVec_length, hW.rows, hb])
  smul_left t a c _ _ := dot_vscale_left t a _
  zero_left c _ := dot_replicate_zero m _
  symm a b ha hb := by
    unfold ipW
    rw [dot_matVec hW.rows hW.cols a b ha hb, dot_matVec hW.rows hW.cols b a hb ha]
    exact Q_symm hW.symm _ _
  nonneg a ha := by
    unfold ipW
    rw [dot_matVec hW.rows hW.cols a a ha ha]
    exact Q_nonneg hW _

/-! ### the coded Gram matrix and right-hand side -/

section gram
variable {m : ℕ} {ip : List ℝ → List ℝ → ℝ}

/-- row `a` of `X θ` is `ip a (predict B θ)`: the normal equations `X θ = rhs` say that the
    residual is orthogonal to every basis vector -/
theorem gram_row (h : IsIP m ip) (B : List (List ℝ)) (θ a : List ℝ)
    (hB : ∀ b ∈ B, b.length = m) (ha : a.length = m) :
    dot (B.map (fun b => ip a b)) θ = ip a (predict m B θ) := by
  rw [h.symm a _ ha (predict_length' m B θ hB), h.predict_left B θ a hB ha, dot_comm']
  congr 1
  apply List.map_congr_left
  intro b hb
  exact h.symm a b ha (hB b hb)

theorem gram_matVec_ip (h : IsIP m ip) (B : List (List ℝ)) (θ : List ℝ)
    (hB : ∀ b ∈ B, b.length = m) :
    matVec (B.map (fun a => B.map (fun b => ip a b))) θ = B.map (fun a => ip a (predict m B θ)) := by
  unfold matVec
  rw [List.map_map]
  apply List.map_congr_left
  intro a ha
  exact gram_row h B θ a hB (hB a ha)

end gram

/-! ### positive rescaling does not change a similarity -/

section scale
variable {m : ℕ} {ip : List ℝ → List ℝ → ℝ}

theorem simIp_scale (h : IsIP m ip) (t : ℝ) (ht : 0 < t) (a b : List ℝ) (ha : a.length = m)
    (hb : b.length = m) : simIp ip (vscale t a) b = simIp ip a b := by
  have hsa : (vscale t a).length = m := by rw [vscale_length, ha]
  have e1 : ip (vscale t a) b = t * ip a b := h.smul_left t a b ha hb
  have e2 : ip (vscale t a) (vscale t a) = t * t * ip a a := by
    rw [h.smul_left t a _ ha hsa, h.smul_right t a a ha ha]; ring
  have e3 : Real.sqrt (t * t * ip a a) = t * Real.sqrt (ip a a) := by
    rw [Real.sqrt_mul (mul_self_nonneg t), Real.sqrt_mul_self ht.le]
  unfold simIp
  rw [e1, e2, e3]
  by_cases hg : 0 < Real.sqrt (ip a a) ∧ 0 < Real.sqrt (ip b b)
  · rw [if_pos hg, if_pos ⟨mul_pos ht hg.1, hg.2⟩]
    have := hg.1.ne'
    field_simp
  · rw [if_neg hg, if_neg]
    intro hh
    exact hg ⟨(mul_pos_iff_of_pos_left ht).mp hh.1, hh.2⟩

theorem predict_vscale (m : ℕ) (B : List (List ℝ)) (θ : List ℝ) (t : ℝ)
    (hB : ∀ b ∈ B, b.length = m) :
    predict m B (vscale t θ) = vscale t (predict m B θ) := by
  apply list_ext_getD
  · rw [vscale_length, predict_length' m B _ hB, predict_length' m B _ hB]
  · intro k hk
    rw [predict_length' m B _ hB] at hk
    rw [vscale_getD, predict_getD m B _ hB k hk, predict_getD m B _ hB k hk, dot_vscale_left]

end scale

/-! ### dividing by the norm -/

theorem dot_map_div (θ : List ℝ) (s : ℝ) :
    dot (θ.map (fun t => t / s)) (θ.map (fun t => t / s)) = dot θ θ / (s * s) := by
  induction θ with
  | nil => simp
  | cons t θ ih =>
    simp only [List.map_cons, dot_cons_cons, ih]
    by_cases hs : s = 0
    · subst hs; simp
    · field_simp

theorem map_div_eq_vscale (θ : List ℝ) (s : ℝ) : θ.map (fun t => t / s) = vscale (1 / s) θ := by
  unfold vscale
  apply List.map_congr_left
  intro t _
  ring

end Fit
end Rsa
