/- helper lemmas for property C16: the embeddings of C10 / C11 objects (`Rsa.Core.StoreLink`)
   are well-formed, storable objects of `Rsa.Core.Store` -/
import Rsa.Core.StoreLink
import Rsa.Lemmas.C16Hist
import Rsa.Lemmas.C11Inv

set_option linter.unusedSectionVars false
set_option linter.unusedVariables false
set_option linter.unusedSimpArgs false

namespace Rsa.Store

/-! ### chains, columns, dictionaries -/

theorem size_chainFrom (j : Nat) (vs : List Val) : (chainFrom j vs).size = vs.length := by
  induction vs generalizing j with
  | nil => rfl
  | cons v r ih => simp [chainFrom, Val.size, ih (j + 1)]

theorem storable_chainFrom (c : Codec) (j : Nat) (vs : List Val) (h : ∀ v ∈ vs, fieldOk c v = true) :
    storable c (chainFrom j vs) = true := by
  induction vs generalizing j with
  | nil => rfl
  | cons v r ih =>
    simp only [chainFrom, storable_dcons, Bool.and_eq_true]
    exact ⟨h v (by simp), ih (j + 1) (fun x hx => h x (by simp [hx]))⟩

theorem fieldOk_mkList (c : Codec) (items : Val) (h : storable c items = true) :
    fieldOk c (mkList items) = true := by
  simp only [fieldOk, mkList, Val.isDict, if_true, storable_dcons, Bool.and_eq_true]
  exact ⟨fieldOk_natVal c _, h⟩

theorem fieldOk_colVal (entries : List Val) (el : List Atom)
    (h : ∀ v ∈ entries, fieldOk .utf8 v = true) : fieldOk .utf8 (colVal entries el) = true := by
  unfold colVal
  by_cases hc : (el.all Atom.isNum || el.all Atom.isStr) = true
  · simp only [hc, if_true, fieldOk, Val.isDict, Bool.false_eq_true, if_false,
      storableLeaf_utf8_tens, hc]
  · simp only [hc, if_false]
    exact fieldOk_mkList _ _ (storable_chainFrom _ _ _ h)

/-- a per-element descriptor value of length `n` -/
def colOk (n : Nat) (v : Val) : Prop :=
  (∃ c sh el, v = .tens c (n :: sh) el) ∨ (∃ x items, v = .dcons listKey x items ∧ items.size = n)

theorem colOk_colVal (n : Nat) (entries : List Val) (el : List Atom) (h1 : entries.length = n)
    (h2 : el.length = n) : colOk n (colVal entries el) := by
  unfold colVal
  by_cases hc : (el.all Atom.isNum || el.all Atom.isStr) = true
  · simp only [hc, if_true]
    exact Or.inl ⟨.list, [], el, by rw [h2]⟩
  · simp only [hc, if_false, mkList]
    exact Or.inr ⟨_, _, rfl, by rw [size_chainFrom, h1]⟩

theorem colOk_mkList (n : Nat) (entries : List Val) (h1 : entries.length = n) :
    colOk n (mkList (chainFrom 0 entries)) :=
  Or.inr ⟨_, _, rfl, by rw [size_chainFrom, h1]⟩

theorem elemOk_mkDict (n : Nat) (l : List (String × Val)) (h : ∀ kv ∈ l, colOk n kv.2) :
    elemOk n (mkDict l) = true := by
  induction l with
  | nil => rfl
  | cons kv r ih =>
    obtain ⟨k, v⟩ := kv
    have hr := ih (fun x hx => h x (by simp [hx]))
    rcases h (k, v) (by simp) with ⟨c, sh, el, e⟩ | ⟨x, items, e, hs⟩
    · simp only at e
      subst e
      simp [mkDict, elemOk, hr]
    · simp only at e
      subst e
      simp [mkDict, elemOk, hr, hs]

theorem checkLens_of_elemOk (n : Nat) (d : Val) (h : elemOk n d = true) : checkLens n d = true := by
  induction d with
  | none => rfl
  | str s => rfl
  | tens c sh el => rfl
  | dnil => rfl
  | dcons k v r ihv ihr =>
    cases v with
    | tens c sh el =>
      cases sh with
      | nil => simp [elemOk] at h
      | cons m rest =>
        simp only [elemOk, Bool.and_eq_true] at h
        simp [checkLens, lenOk, h.1, ihr h.2]
    | dcons k2 x items =>
      simp only [elemOk, Bool.and_eq_true] at h
      have hk : k2 = listKey := by simpa using h.1.1
      have hs : items.size = n := by simpa using h.1.2
      simp [checkLens, lenOk, Val.isList, hk, Val.size, hs, ihr h.2]
    | none => simp [elemOk] at h
    | str s => simp [elemOk] at h
    | dnil => simp [elemOk] at h

theorem storable_mkDict (c : Codec) (l : List (String × Val)) (h : ∀ kv ∈ l, fieldOk c kv.2 = true) :
    storable c (mkDict l) = true := by
  induction l with
  | nil => rfl
  | cons kv r ih =>
    simp only [mkDict, storable_dcons, Bool.and_eq_true]
    exact ⟨h kv (by simp), ih (fun x hx => h x (by simp [hx]))⟩

theorem isDict_mkDict (l : List (String × Val)) : (mkDict l).isDict = true := by
  cases l <;> rfl

theorem fieldOk_mkDict (c : Codec) (l : List (String × Val)) (h : ∀ kv ∈ l, fieldOk c kv.2 = true) :
    fieldOk c (mkDict l) = true := by
  simp only [fieldOk, isDict_mkDict, if_true]
  exact storable_mkDict c l h

theorem get?_mkDict_map {β : Type} (f : β → Val) (l : List (String × β)) (k : String) :
    ((mkDict (l.map (fun kc => (kc.1, f kc.2)))).get? k).isSome = (l.map (·.1)).contains k := by
  induction l with
  | nil => rfl
  | cons kv r ih =>
    simp only [List.map_cons, mkDict, Val.get?, List.contains_cons]
    by_cases h : kv.1 = k
    · simp [h]
    · have h' : (k == kv.1) = false := by
        simp only [beq_eq_false_iff_ne, ne_eq]
        exact fun e => h e.symm
      simp [h, h', ih]

theorem fieldOk_scalar (a : Atom) : fieldOk .utf8 (.tens .scalar [] [a]) = true := by
  cases a <;> simp [fieldOk, Val.isDict, storableLeaf, Atom.isNum, Atom.isStr]

theorem fieldOk_str (c : Codec) (s : String) : fieldOk c (.str s) = true := rfl

theorem fieldOk_nums (c : Codec) (cont : Cont) (sh : List Nat) (el : List Atom)
    (h : el.all Atom.isNum = true) : fieldOk c (.tens cont sh el) = true := by
  simp [fieldOk, Val.isDict, storableLeaf, h]

theorem all_isNum_map {β : Type} (f : β → Atom) (l : List β) (h : ∀ x, (f x).isNum = true) :
    (l.map f).all Atom.isNum = true := by
  simp [List.all_eq_true, h]

/-! ### C11 datasets -/

theorem fieldOk_dsLblVal (l : Rsa.Dataset.Lbl) : fieldOk .utf8 (dsLblVal l) = true := by
  cases l with
  | num q => exact fieldOk_scalar _
  | str s => rfl
  | flt q => exact fieldOk_scalar _
  | na => rfl

theorem fieldOk_ofTbl (t : Rsa.Dataset.Tbl) : fieldOk .utf8 (ofTbl t) = true := by
  unfold ofTbl
  apply fieldOk_mkDict
  intro kv hkv
  simp only [List.mem_map] at hkv
  obtain ⟨kc, _, rfl⟩ := hkv
  apply fieldOk_colVal
  intro v hv
  simp only [List.mem_map] at hv
  obtain ⟨l, _, rfl⟩ := hv
  exact fieldOk_dsLblVal l

theorem fieldOk_ofRow (r : Rsa.Dataset.Row) : fieldOk .utf8 (ofRow r) = true := by
  unfold ofRow
  apply fieldOk_mkDict
  intro kv hkv
  simp only [List.mem_map] at hkv
  obtain ⟨kc, _, rfl⟩ := hkv
  exact fieldOk_dsLblVal _

theorem elemOk_ofTbl (t : Rsa.Dataset.Tbl) (n : Nat) (h : t.wf n) : elemOk n (ofTbl t) = true := by
  unfold ofTbl
  apply elemOk_mkDict
  intro kv hkv
  simp only [List.mem_map] at hkv
  obtain ⟨kc, hkc, rfl⟩ := hkv
  exact colOk_colVal n _ _ (by simp [h kc hkc]) (by simp [h kc hkc])

theorem ratAtom_isNum (q : Rat) : (ratAtom q).isNum = true := rfl

/-- a reachable (aligned) C11 dataset with at least one observation and one channel is a
    well-formed object of the save / load model -/
theorem good_ofDS (d : Rsa.Dataset.DS Rat) (no nc nt : Nat) (h : d.WF no nc nt)
    (hno : 0 < d.nObs) (hnc : 0 < d.nChan)
    (ht : d.temporal = true → (d.time.map (·.1)).contains "time" = true) :
    Good .dataset (ofDS d) := by
  have e1 : d.nObs = no := h.obsLen
  obtain ⟨r0, rest, hm⟩ : ∃ r0 rest, d.meas = r0 :: rest := by
    cases hmm : d.meas with
    | nil => simp [Rsa.Dataset.DS.nObs, hmm] at hno
    | cons r0 rest => exact ⟨r0, rest, rfl⟩
  have e2 : d.nChan = nc := by
    simp only [Rsa.Dataset.DS.nChan, hm]
    exact h.chanLen r0 (by simp [hm])
  obtain ⟨c0, crest, hr0⟩ : ∃ c0 crest, r0 = c0 :: crest := by
    cases hrr : r0 with
    | nil => simp [Rsa.Dataset.DS.nChan, hm, hrr] at hnc
    | cons c0 crest => exact ⟨c0, crest, rfl⟩
  have e3 : d.nTime = nt := by
    simp only [Rsa.Dataset.DS.nTime, hm, hr0]
    exact h.timeLen r0 (by simp [hm]) c0 (by simp [hr0])
  unfold ofDS
  by_cases htemp : d.temporal = true
  · simp only [htemp, if_true]
    refine Or.inr ⟨_, _, _, _, _, rfl, ?_⟩
    simp only [temporalWF, Bool.and_eq_true]
    refine ⟨⟨⟨?_, ?_⟩, ?_⟩, ?_⟩
    · exact checkLens_of_elemOk _ _ (elemOk_ofTbl _ _ (e1 ▸ h.obsT))
    · exact checkLens_of_elemOk _ _ (elemOk_ofTbl _ _ (e2 ▸ h.chanT))
    · exact checkLens_of_elemOk _ _ (elemOk_ofTbl _ _ (e3 ▸ h.timeT))
    · unfold ofTbl
      have := get?_mkDict_map (fun (col : Rsa.Dataset.Col) =>
        colVal (col.map dsLblVal) (col.map dsLblAtom)) d.time "time"
      rw [this]
      exact ht htemp
  · have htemp' : d.temporal = false := by simpa using htemp
    simp only [htemp', Bool.false_eq_true, if_false]
    refine Or.inl ⟨"Dataset", _, _, _, _, rfl, Or.inl rfl, ?_⟩
    simp only [datasetWF, Bool.and_eq_true]
    exact ⟨checkLens_of_elemOk _ _ (elemOk_ofTbl _ _ (e1 ▸ h.obsT)),
      checkLens_of_elemOk _ _ (elemOk_ofTbl _ _ (e2 ▸ h.chanT))⟩

/-- … and its dictionary is storable -/
theorem storable_ofDS (d : Rsa.Dataset.DS Rat) :
    ∃ dd, toDict .dataset (ofDS d) = .ok dd ∧ storable .utf8 dd = true := by
  unfold ofDS
  by_cases htemp : d.temporal = true
  · simp only [htemp, if_true]
    refine ⟨_, datasetToDict_mkTemporal _ _ _ _ _, ?_⟩
    simp only [mkDict, storable_dcons, Bool.and_eq_true, storable]
    exact ⟨fieldOk_nums _ _ _ _ (all_isNum_map _ _ ratAtom_isNum), fieldOk_ofRow _, fieldOk_ofTbl _,
      fieldOk_ofTbl _, fieldOk_ofTbl _, rfl, trivial⟩
  · have htemp' : d.temporal = false := by simpa using htemp
    simp only [htemp', Bool.false_eq_true, if_false]
    refine ⟨_, datasetToDict_mkDataset "Dataset" _ _ _ _ (by decide), ?_⟩
    simp only [mkDict, storable_dcons, Bool.and_eq_true, storable]
    exact ⟨fieldOk_nums _ _ _ _ (all_isNum_map _ _ ratAtom_isNum), fieldOk_ofRow _, fieldOk_ofTbl _,
      fieldOk_ofTbl _, rfl, trivial⟩

/-- every dataset of every workspace reachable by C11's operations from one aligned dataset is
    aligned (the well-formedness half of C11's `reachable_inv`) -/
theorem run_wfex (init : Rsa.Dataset.DS Rat) (hw : Rsa.Dataset.WFex init)
    (ops : List Rsa.Dataset.Op) (hops : ∀ o ∈ ops, Rsa.Lemmas.C11.keepsValues o) :
    ∀ d ∈ Rsa.Dataset.run [init] ops, Rsa.Dataset.WFex d := by
  suffices H : ∀ (ops : List Rsa.Dataset.Op) (ws : List (Rsa.Dataset.DS Rat)),
      (∀ o ∈ ops, Rsa.Lemmas.C11.keepsValues o) → (∀ d ∈ ws, Rsa.Dataset.WFex d) →
      ∀ d ∈ Rsa.Dataset.run ws ops, Rsa.Dataset.WFex d by
    exact H ops [init] hops (fun x hx => by
      have : x = init := by simpa using hx
      rw [this]; exact hw)
  intro ops
  induction ops with
  | nil => intro ws _ hws d hd; exact hws d (by simpa [Rsa.Dataset.run] using hd)
  | cons o ops ih =>
    intro ws hk hws d hd
    simp only [Rsa.Dataset.run, List.foldl_cons] at hd
    have hk' : ∀ o' ∈ ops, Rsa.Lemmas.C11.keepsValues o' := fun o' ho' => hk o' (by simp [ho'])
    cases hstep : Rsa.Dataset.applyOp ws o with
    | none =>
      simp only [hstep, Option.getD_none] at hd
      exact ih ws hk' hws d hd
    | some ws' =>
      simp only [hstep, Option.getD_some] at hd
      exact ih ws' hk' (fun x hx =>
        (Rsa.Lemmas.C11.applyOp_derives hws (hk o (by simp)) hstep x hx).1) d hd

end Rsa.Store
