/- C20: look-up sessions on one layout — the stateful code (`runStep`, caches as written) answers
   every call like the stateless specification (`pureAns`), for every coherent state. -/
import Rsa.Core.Importers

set_option linter.unusedSectionVars false
set_option linter.unusedVariables false
set_option linter.unusedSimpArgs false

namespace Rsa.Importers

variable {γ : Type}

theorem coherent_empty (L : Lookups) (fs : Str → Option γ) (nib : Bool) :
    Coherent L fs ({ nibabel := nib, objs := [] } : Session γ) := by
  intro o ho; cases ho

theorem coherent_append (L : Lookups) (fs : Str → Option γ) (s : Session γ) (nib : Bool)
    (es : List BidsEnt) (hc : Coherent L fs s) :
    Coherent L fs ({ nibabel := nib, objs := s.objs ++ es.map (fun e => { ent := e }) } : Session γ) := by
  intro o ho m hm
  rcases List.mem_append.mp ho with h | h
  · exact hc o h m hm
  · obtain ⟨e, _, rfl⟩ := List.mem_map.mp h
    cases hm

/-- the sidecar a file keeps (or finds now) is its own; its data is that file's content -/
theorem sidecar_spec (L : Lookups) (fs : Str → Option γ) (s : Session γ) (hc : Coherent L fs s)
    (o : FileObj γ) (hmem : o ∈ s.objs) :
    (sidecarOf L o).1 = L.metaFor o.ent ∧ loadData fs (sidecarOf L o) = fs (L.metaFor o.ent) := by
  unfold sidecarOf loadData
  cases hcache : o.metaCache with
  | none => exact ⟨rfl, rfl⟩
  | some m' =>
    obtain ⟨h1, h2⟩ := hc o hmem m' hcache
    refine ⟨h1, ?_⟩
    simp only
    cases hd : m'.2 with
    | none => simp only [h1]
    | some d => rw [← h1]; exact (h2 d hd).symm

/-- one step: same answer as the specification, same files handed out, caches stay coherent -/
theorem runStep_spec (L : Lookups) (fs : Str → Option γ) (files : List Str) (s : Session γ)
    (hc : Coherent L fs s) (st : Step) :
    (runStep L fs files s st).2 = pureAns L fs files (s.objs.map (·.ent)) st ∧
    (runStep L fs files s st).1.objs.map (·.ent) = tblStep L files (s.objs.map (·.ent)) st ∧
    Coherent L fs (runStep L fs files s st).1 := by
  have look : ∀ (h : Nat) (f : BidsEnt → Str),
      (withObj s h fun o => (s, Ans.file (f o.ent) (fs (f o.ent)))).2
        = pureFile fs (s.objs.map (·.ent)) h f ∧
      (withObj s h fun o => (s, Ans.file (f o.ent) (fs (f o.ent)))).1 = s := by
    intro h f
    unfold withObj pureFile
    rw [List.getElem?_map]
    cases s.objs[h]? <;> simp
  cases st with
  | newFile p =>
    simp only [runStep, pureAns, tblStep]
    cases hp : L.parse p with
    | error e => exact ⟨rfl, rfl, hc⟩
    | ok e =>
      refine ⟨rfl, by simp, ?_⟩
      have := coherent_append L fs s s.nibabel [e] hc
      simpa using this
  | findFiles d desc tasks =>
    simp only [runStep, pureAns, tblStep]
    cases hf : L.derivativeFiles files d desc tasks with
    | error e => exact ⟨rfl, rfl, hc⟩
    | ok ps =>
      dsimp only
      cases hm : ps.mapM L.parse with
      | error e => dsimp only; exact ⟨rfl, rfl, hc⟩
      | ok es =>
        dsimp only
        refine ⟨rfl, ?_, coherent_append L fs s true es hc⟩
        simp [List.map_append, List.map_map, Function.comp_def]
  | findMeta h =>
    simp only [runStep, pureAns, tblStep]
    exact ⟨(look h L.metaFor).1, by rw [(look h L.metaFor).2], by rw [(look h L.metaFor).2]; exact hc⟩
  | findEvents h =>
    simp only [runStep, pureAns, tblStep]
    exact ⟨(look h L.eventsFor).1, by rw [(look h L.eventsFor).2], by rw [(look h L.eventsFor).2]; exact hc⟩
  | tableSibling h desc suffix =>
    simp only [runStep, pureAns, tblStep]
    have l := look h (fun e => L.tableSibling e desc suffix)
    exact ⟨l.1, by rw [l.2], by rw [l.2]; exact hc⟩
  | mriSibling h desc suffix =>
    simp only [runStep, pureAns, tblStep]
    have l := look h (fun e => L.mriSibling e desc suffix)
    exact ⟨l.1, by rw [l.2], by rw [l.2]; exact hc⟩
  | tableKey h =>
    simp only [runStep, pureAns, tblStep]
    exact ⟨(look h L.tableKey).1, by rw [(look h L.tableKey).2], by rw [(look h L.tableKey).2]; exact hc⟩
  | getMeta h =>
    simp only [runStep, pureAns, tblStep, withObj, pureFile]
    rw [List.getElem?_map]
    cases ho : s.objs[h]? with
    | none => exact ⟨rfl, rfl, hc⟩
    | some o =>
      have hmem : o ∈ s.objs := List.mem_of_getElem? ho
      obtain ⟨k1, k2⟩ := sidecar_spec L fs s hc o hmem
      simp only [Option.map_some, k1, k2]
      refine ⟨trivial, ?_, ?_⟩
      · simp only [List.map_set]
        have hlt : h < s.objs.length := (List.getElem?_eq_some_iff.mp ho).1
        have he : s.objs[h] = o := (List.getElem?_eq_some_iff.mp ho).2
        have : o.ent = (s.objs.map (·.ent))[h]'(by simpa using hlt) := by simp [he]
        rw [this]
        exact List.set_getElem_self _
      · intro o' ho' m hm
        rcases List.mem_or_eq_of_mem_set ho' with h' | h'
        · exact hc o' h' m hm
        · subst h'
          simp only [Option.some.injEq] at hm
          subst hm
          exact ⟨rfl, fun d hd => hd⟩

/-- a whole session, by induction over the calls -/
theorem runSession_spec (L : Lookups) (fs : Str → Option γ) (files : List Str) (steps : List Step) :
    ∀ (s : Session γ), Coherent L fs s →
      runSession L fs files s steps = pureSession L fs files (s.objs.map (·.ent)) steps := by
  induction steps with
  | nil => intro s _; rfl
  | cons st r ih =>
    intro s hc
    obtain ⟨h1, h2, h3⟩ := runStep_spec L fs files s hc st
    simp only [runSession, pureSession]
    rw [h1, ih _ h3, h2]

/-- the answers to a session extended by one call: the earlier answers, then the new one -/
theorem pureSession_snoc (L : Lookups) (fs : Str → Option γ) (files : List Str) (pre : List Step)
    (st : Step) : ∀ tbl, pureSession L fs files tbl (pre ++ [st]) =
      pureSession L fs files tbl pre ++ [pureAns L fs files (pre.foldl (tblStep L files) tbl) st] := by
  induction pre with
  | nil => intro tbl; rfl
  | cons a r ih => intro tbl; simp only [List.cons_append, pureSession, List.foldl_cons, ih]

end Rsa.Importers
