/-
  Helper lemmas for property C02, part 7: the inverse by certificate (`certInv`).
  A candidate that passes the exact check `A · B = I` is the matrix inverse; hence the pair
  precision computed by the model is `((A_m⁻¹ + A_n⁻¹)/2)⁻¹` (Mathlib's `Matrix` inverse), which
  is symmetric for symmetric precisions and commutes with a simultaneous permutation of rows and
  columns.  This discharges the two contracts on `inv` used by the round-1/2 theorems.
-/
import Mathlib.LinearAlgebra.Matrix.NonsingularInverse
import Rsa.Lemmas.C02Inv

set_option linter.unusedSectionVars false
set_option linter.unusedVariables false
set_option linter.unusedSimpArgs false
set_option linter.unusedDecidableInType false

namespace Rsa.CrossVal

open List
open scoped Matrix

variable {L F : Type} [LinearOrder L] [LinearOrder F]
variable {K : Type} [Field K] [LinearOrder K] [IsStrictOrderedRing K]

/-- `np.unique` of a list is the strictly increasing list with the same members (used to
    evaluate concrete witnesses: `mergeSort` itself does not reduce by `decide`) -/
theorem sortedDistinct_eq {β : Type} [LinearOrder β] {l l' : List β} (hs : l'.Pairwise (· < ·))
    (h1 : ∀ b ∈ l, b ∈ l') (h2 : ∀ b ∈ l', b ∈ l) : sortedDistinct l = l' := by
  have hp : (sortedDistinct l).Perm l' :=
    (List.perm_ext_iff_of_nodup (sortedDistinct_nodup l) (hs.imp (fun h => ne_of_lt h))).mpr
      (fun b => by rw [mem_sortedDistinct]; exact ⟨h1 b, h2 b⟩)
  exact List.Perm.eq_of_pairwise (le := (· < ·)) (fun a b _ _ h1 h2 => absurd h1 (lt_asymm h2))
    (sortedDistinct_sorted l) hs hp

/-- the pairs of a run of consecutive numbers, as two nested `range` loops -/
theorem pairsOf_range' (k s : Nat) :
    pairsOf (List.range' s k)
      = (List.range' s k).flatMap (fun i => (List.range' (i + 1) (s + k - (i + 1))).map (fun j => (i, j))) := by
  induction k generalizing s with
  | zero => simp [pairsOf]
  | succ k ih =>
    rw [List.range'_succ]
    simp only [pairsOf, List.flatMap_cons]
    have e1 : s + (k + 1) - (s + 1) = k := by omega
    have e2 : s + 1 + k = s + (k + 1) := by omega
    rw [e1, ih (s + 1), e2]

theorem sumR_eq_fin (P : Nat) (f : Nat → K) : sumR P f = ∑ i : Fin P, f i.1 := by
  have h : sumR P f = ∑ i ∈ Finset.range P, f i := by
    unfold sumR
    induction P with
    | zero => simp
    | succ n ih =>
      rw [List.range_succ, List.map_append, List.sum_append, ih, Finset.sum_range_succ]
      simp
  rw [h, Finset.sum_range]

/-- the `P × P` block of a matrix-as-function as a Mathlib matrix -/
def toM (P : Nat) (A : Nat → Nat → K) : Matrix (Fin P) (Fin P) K := Matrix.of fun j k => A j.1 k.1

/-- a Mathlib matrix as a function of two naturals (0 outside the block) -/
def ofM (P : Nat) (M : Matrix (Fin P) (Fin P) K) : Nat → Nat → K :=
  fun k l => if h : k < P ∧ l < P then M ⟨k, h.1⟩ ⟨l, h.2⟩ else 0

theorem ofM_toM {P : Nat} {A : Nat → Nat → K} {M : Matrix (Fin P) (Fin P) K} (h : toM P A = M)
    {k l : Nat} (hk : k < P) (hl : l < P) : A k l = ofM P M k l := by
  unfold ofM
  rw [dif_pos ⟨hk, hl⟩, ← h]
  rfl

/-- the statement-level pair precision: the inverse of the mean of the two folds'
    covariances `A_m⁻¹`, `A_n⁻¹` — no reference to any algorithm -/
noncomputable def truePairPrec (P : Nat) (prec : F → List (List K)) (m n : F) : Nat → Nat → K :=
  ofM P (((2 : K)⁻¹ • ((toM P (matFn (prec m)))⁻¹ + (toM P (matFn (prec n)))⁻¹))⁻¹)

/-! ### what a passed certificate means -/

theorem certInv_some {cand : List (List K) → List (List K)} {P : Nat} {A B : List (List K)}
    (h : certInv cand P A = some B) :
    noiseShapeOk P B = true ∧ toM P (matFn B) = (toM P (matFn A))⁻¹ := by
  unfold certInv at h
  split at h
  · rename_i hc
    cases h
    unfold isInvCert at hc
    rw [Bool.and_eq_true] at hc
    refine ⟨hc.1, (Matrix.inv_eq_right_inv ?_).symm⟩
    ext j k
    rw [Matrix.mul_apply, Matrix.one_apply]
    have h1 := List.all_eq_true.mp hc.2 j.1 (List.mem_range.mpr j.2)
    have h2 := List.all_eq_true.mp h1 k.1 (List.mem_range.mpr k.2)
    have h3 := of_decide_eq_true h2
    unfold mmulP at h3
    rw [sumR_eq_fin] at h3
    simp only [toM, Matrix.of_apply]
    rw [h3]
    unfold eye
    simp [Fin.ext_iff]
  · simp at h

theorem invOr_of_isSome {cand : List (List K) → List (List K)} {P : Nat} {A : List (List K)}
    (h : (certInv cand P A).isSome = true) : certInv cand P A = some (invOr cand P A) := by
  unfold invOr
  obtain ⟨B, hB⟩ := Option.isSome_iff_exists.mp h
  rw [hB]
  rfl

theorem getD_zipWith {β γ δ : Type} (g : β → γ → δ) (l1 : List β) (l2 : List γ) (i : Nat)
    (h1 : i < l1.length) (h2 : i < l2.length) (d : δ) (d1 : β) (d2 : γ) :
    (List.zipWith g l1 l2).getD i d = g (l1.getD i d1) (l2.getD i d2) := by
  simp only [List.getD_eq_getElem?_getD, List.getElem?_zipWith, List.getElem?_eq_getElem h1,
    List.getElem?_eq_getElem h2, Option.map₂_some_some, Option.getD_some]

theorem shape_row {P : Nat} {A : List (List K)} (h : noiseShapeOk P A = true) {k : Nat}
    (hk : k < P) : k < A.length ∧ (A.getD k []).length = P := by
  unfold noiseShapeOk at h
  rw [Bool.and_eq_true] at h
  have hl : A.length = P := of_decide_eq_true h.1
  have hk' : k < A.length := by omega
  refine ⟨hk', ?_⟩
  rw [List.getD_eq_getElem?_getD, List.getElem?_eq_getElem hk', Option.getD_some]
  exact of_decide_eq_true (List.all_eq_true.mp h.2 _ (List.getElem_mem hk'))

theorem matFn_matAvg {P : Nat} {A B : List (List K)} (hA : noiseShapeOk P A = true)
    (hB : noiseShapeOk P B = true) {k l : Nat} (hk : k < P) (hl : l < P) :
    matFn (matAvg A B) k l = (matFn A k l + matFn B k l) / 2 := by
  obtain ⟨hka, hra⟩ := shape_row hA hk
  obtain ⟨hkb, hrb⟩ := shape_row hB hk
  unfold matFn matAvg Rsa.Gen.C02.pairCov
  rw [getD_zipWith _ A B k hka hkb [] [] [],
    getD_zipWith _ _ _ l (by omega) (by omega) 0 0 0]
  push_cast
  rfl

theorem toM_matAvg {P : Nat} {A B : List (List K)} (hA : noiseShapeOk P A = true)
    (hB : noiseShapeOk P B = true) :
    toM P (matFn (matAvg A B)) = (2 : K)⁻¹ • (toM P (matFn A) + toM P (matFn B)) := by
  ext j k
  simp only [toM, Matrix.of_apply, Matrix.smul_apply, Matrix.add_apply, smul_eq_mul]
  rw [matFn_matAvg hA hB j.2 k.2]
  ring

/-- **the model's pair precision is the true one** whenever all certificates of the run hold -/
theorem pairPrec_cert (cand : List (List K) → List (List K)) (P : Nat) (prec : F → List (List K))
    {S : List F} (hok : foldPrecCertsOk cand P (S.map prec) = true)
    {m n : F} (hm : m ∈ S) (hn : n ∈ S) (hmn : m ≠ n) {k l : Nat} (hk : k < P) (hl : l < P) :
    pairPrec (invOr cand P) prec m n k l = truePairPrec P prec m n k l := by
  unfold foldPrecCertsOk at hok
  rw [Bool.and_eq_true] at hok
  have hone : ∀ f ∈ S, noiseShapeOk P (invOr cand P (prec f)) = true ∧
      toM P (matFn (invOr cand P (prec f))) = (toM P (matFn (prec f)))⁻¹ := by
    intro f hf
    have := List.all_eq_true.mp hok.1 (prec f) (List.mem_map.mpr ⟨f, hf, rfl⟩)
    exact certInv_some (invOr_of_isSome this)
  have hpair : ∀ p ∈ pairsOf S,
      toM P (pairPrec (invOr cand P) prec p.1 p.2)
        = ((2 : K)⁻¹ • ((toM P (matFn (prec p.1)))⁻¹ + (toM P (matFn (prec p.2)))⁻¹))⁻¹ := by
    intro p hp
    obtain ⟨h1, h2⟩ := mem_pairsOf hp
    have hmem : (invOr cand P (prec p.1), invOr cand P (prec p.2))
        ∈ pairsOf ((S.map prec).map (invOr cand P)) := by
      rw [List.map_map, pairsOf_map]
      exact List.mem_map.mpr ⟨p, hp, rfl⟩
    have := List.all_eq_true.mp hok.2 _ hmem
    have hc := (certInv_some (invOr_of_isSome this)).2
    unfold pairPrec
    rw [hc, toM_matAvg (hone p.1 h1).1 (hone p.2 h2).1, (hone p.1 h1).2, (hone p.2 h2).2]
  unfold truePairPrec
  rcases mem_pairsOf_or hm hn hmn with h | h
  · exact ofM_toM (hpair (m, n) h) hk hl
  · rw [pairPrec_comm, add_comm]
    exact ofM_toM (hpair (n, m) h) hk hl

/-! ### properties of the true pair precision -/

/-- symmetric precisions give symmetric pair precisions -/
theorem truePairPrec_symm (P : Nat) (prec : F → List (List K)) {m n : F}
    (hm : ∀ k l, k < P → l < P → matFn (prec m) k l = matFn (prec m) l k)
    (hn : ∀ k l, k < P → l < P → matFn (prec n) k l = matFn (prec n) l k) (k l : Nat) :
    truePairPrec P prec m n k l = truePairPrec P prec m n l k := by
  have ht : ∀ f : F, (∀ k l, k < P → l < P → matFn (prec f) k l = matFn (prec f) l k) →
      (toM P (matFn (prec f)))ᵀ = toM P (matFn (prec f)) := by
    intro f hf
    ext j k
    simp only [toM, Matrix.transpose_apply, Matrix.of_apply]
    exact hf k.1 j.1 k.2 j.2
  set X := (2 : K)⁻¹ • ((toM P (matFn (prec m)))⁻¹ + (toM P (matFn (prec n)))⁻¹) with hX
  have hXt : Xᵀ = X := by
    rw [hX, Matrix.transpose_smul, Matrix.transpose_add, Matrix.transpose_nonsing_inv,
      Matrix.transpose_nonsing_inv, ht m hm, ht n hn]
  have hXi : (X⁻¹)ᵀ = X⁻¹ := by rw [Matrix.transpose_nonsing_inv, hXt]
  unfold truePairPrec
  rw [← hX]
  unfold ofM
  by_cases h : k < P ∧ l < P
  · rw [dif_pos h, dif_pos ⟨h.2, h.1⟩]
    have := congrFun (congrFun hXi ⟨k, h.1⟩) ⟨l, h.2⟩
    rw [Matrix.transpose_apply] at this
    exact this.symm
  · rw [dif_neg h, dif_neg (fun h' => h ⟨h'.2, h'.1⟩)]

/-- a permutation of `0 … P−1` given as a function, as an equivalence of `Fin P` -/
noncomputable def finPerm {P : Nat} {σ : Nat → Nat}
    (hσ : ((List.range P).map σ).Perm (List.range P)) : Fin P ≃ Fin P :=
  Equiv.ofBijective (fun k => ⟨σ k.1, perm_range_lt hσ k.2⟩) (by
    apply Finite.injective_iff_bijective.mp
    intro a b hab
    have hnd : ((List.range P).map σ).Nodup := hσ.nodup_iff.mpr List.nodup_range
    exact Fin.ext (List.inj_on_of_nodup_map hnd (List.mem_range.mpr a.2) (List.mem_range.mpr b.2)
      (Fin.mk.inj hab)))

/-- precisions permuted alike ⇒ the pair precision is permuted alike -/
theorem truePairPrec_perm (P : Nat) (σ : Nat → Nat)
    (hσ : ((List.range P).map σ).Perm (List.range P)) (prec prec' : F → List (List K)) {m n : F}
    (hm : ∀ k l, k < P → l < P → matFn (prec' m) k l = matFn (prec m) (σ k) (σ l))
    (hn : ∀ k l, k < P → l < P → matFn (prec' n) k l = matFn (prec n) (σ k) (σ l))
    {k l : Nat} (hk : k < P) (hl : l < P) :
    truePairPrec P prec' m n k l = truePairPrec P prec m n (σ k) (σ l) := by
  set e := finPerm hσ with he
  have ht : ∀ f : F, (∀ k l, k < P → l < P → matFn (prec' f) k l = matFn (prec f) (σ k) (σ l)) →
      toM P (matFn (prec' f)) = (toM P (matFn (prec f))).submatrix e e := by
    intro f hf
    ext j k
    simp only [toM, Matrix.submatrix_apply, Matrix.of_apply]
    exact hf j.1 k.1 j.2 k.2
  unfold truePairPrec
  rw [ht m hm, ht n hn, Matrix.inv_submatrix_equiv, Matrix.inv_submatrix_equiv]
  have hsub : (2 : K)⁻¹ • ((toM P (matFn (prec m)))⁻¹.submatrix e e
        + (toM P (matFn (prec n)))⁻¹.submatrix e e)
      = ((2 : K)⁻¹ • ((toM P (matFn (prec m)))⁻¹ + (toM P (matFn (prec n)))⁻¹)).submatrix e e := rfl
  rw [hsub, Matrix.inv_submatrix_equiv]
  unfold ofM
  rw [dif_pos ⟨hk, hl⟩, dif_pos ⟨perm_range_lt hσ hk, perm_range_lt hσ hl⟩]
  rfl

end Rsa.CrossVal
