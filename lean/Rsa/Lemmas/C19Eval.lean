/- helper lemmas for property C19 (round 3): legacy iteration, task construction, split-point check,
   boundary geometry -/
import Mathlib.Algebra.Order.Field.Basic
import Mathlib.Algebra.Order.Ring.Cast
import Mathlib.Data.Int.Cast.Lemmas
import Mathlib.Tactic.Ring
import Mathlib.Tactic.Linarith
import Rsa.Lemmas.C19Geom

set_option linter.unusedSectionVars false
set_option linter.unusedVariables false
set_option linter.unusedSimpArgs false
set_option linter.style.longLine false

namespace Rsa.Searchlight

/-! ### Python's legacy iteration protocol on a list-backed `__getitem__` -/

/-- iterating `l[0], l[1], …` until the first failure enumerates `l` from position `i`,
    provided the fuel outlasts the list -/
theorem iterGet_getElem? {β : Type} (l : List β) : ∀ (fuel i : Nat), l.length < fuel + i →
    iterGet (fun j => l[j]?) fuel i = l.drop i := by
  intro fuel
  induction fuel with
  | zero =>
    intro i h
    rw [iterGet, List.drop_eq_nil_of_le (by omega)]
  | succ k ih =>
    intro i h
    rw [iterGet]
    by_cases hi : i < l.length
    · simp only [List.getElem?_eq_getElem hi]
      rw [ih (i + 1) (by omega), ← List.drop_eq_getElem_cons hi]
    · simp only [List.getElem?_eq_none (Nat.le_of_not_lt hi)]
      rw [List.drop_eq_nil_of_le (Nat.le_of_not_lt hi)]

/-- `sl_RDM[i]` is entry `i` of the rows paired with the voxel indices -/
theorem getItem_eq_zip {α : Type} (R : SlResult α) (i : Nat) :
    getItem R i = (R.rows.zip R.voxelIndex)[i]? := by
  unfold getItem
  rw [List.zip, List.getElem?_zipWith]
  cases R.rows[i]? <;> cases R.voxelIndex[i]? <;> simp

/-- the tasks built by `for x in sl_RDM` are the rows paired with their voxel index, in row
    order -/
theorem slTasks_eq_zip {α : Type} (R : SlResult α) : slTasks R = R.rows.zip R.voxelIndex := by
  unfold slTasks
  have h : getItem R = fun j => (R.rows.zip R.voxelIndex)[j]? := funext (getItem_eq_zip R)
  rw [h, iterGet_getElem? _ _ 0 (by simp only [List.length_zip]; omega)]
  rfl

theorem range_map_getD {β δ : Type} (l : List β) (d : β) (F : β → δ) :
    (List.range l.length).map (fun i => F (l.getD i d)) = l.map F := by
  apply List.ext_getElem
  · simp
  · intro i h1 h2
    have hi : i < l.length := by simpa using h2
    simp [List.getD_eq_getElem?_getD, hi]

/-- slot-per-task collection fills every slot with the result of its own task, whatever the
    completion order, as soon as every task runs -/
theorem parCollect_all {τ γ : Type} (sched : List Nat) (ts : List τ) (f : τ → γ)
    (hs : ∀ i, i < ts.length → i ∈ sched) :
    parCollect sched ts f = ts.map (fun t => some (f t)) := by
  unfold parCollect collect
  have h := scatter_all (fun i => some ((ts[i]?).map f)) ts.length none sched hs
  refine (congrArg (List.map Option.join) h).trans ?_
  apply List.ext_getElem
  · simp
  · intro i h1 h2
    have hi : i < ts.length := by simpa using h2
    simp [hi]

/-! ### the executable split-point check -/

theorem ptsOkB_iff (n : Nat) : ∀ pts : List Nat, ptsOkB n pts = true ↔ PtsOk n pts := by
  intro pts
  induction pts with
  | nil => simp [ptsOkB, PtsOk]
  | cons p ps ih =>
    cases ps with
    | nil => simp [ptsOkB, PtsOk]
    | cons q qs =>
      simp only [ptsOkB, Bool.and_eq_true, decide_eq_true_eq, ih]
      unfold PtsOk
      constructor
      · rintro ⟨⟨hpq, hpn⟩, hs, hb⟩
        refine ⟨List.pairwise_cons.mpr ⟨?_, hs⟩, ?_⟩
        · intro x hx
          rcases List.mem_cons.mp hx with rfl | hx'
          · exact hpq
          · exact Nat.le_trans hpq ((List.pairwise_cons.mp hs).1 x hx')
        · intro x hx
          rcases List.mem_cons.mp hx with rfl | hx'
          · exact hpn
          · exact hb x hx'
      · rintro ⟨hs, hb⟩
        have hs' := List.pairwise_cons.mp hs
        exact ⟨⟨hs'.1 q List.mem_cons_self, hb p List.mem_cons_self⟩, hs'.2,
          fun x hx => hb x (List.mem_cons_of_mem _ hx)⟩

/-! ### boundary geometry -/

theorem sqDist_nonneg (v : Vox) (c : Ctr) : 0 ≤ sqDist v c := by
  unfold sqDist
  have h1 := mul_self_nonneg ((v.1 : Int) - c.1)
  have h2 := mul_self_nonneg ((v.2.1 : Int) - c.2.1)
  have h3 := mul_self_nonneg ((v.2.2 : Int) - c.2.2)
  omega

theorem sqDist_eq_zero {v c : Vox} (h : sqDist v (ctrOf c) = 0) : v = c := by
  obtain ⟨x, y, z⟩ := v
  obtain ⟨a, b, d⟩ := c
  simp only [sqDist, ctrOf] at h
  have h1 := mul_self_nonneg ((x : Int) - a)
  have h2 := mul_self_nonneg ((y : Int) - b)
  have h3 := mul_self_nonneg ((z : Int) - d)
  have e1 : ((x : Int) - a) * ((x : Int) - a) = 0 := by omega
  have e2 : ((y : Int) - b) * ((y : Int) - b) = 0 := by omega
  have e3 : ((z : Int) - d) * ((z : Int) - d) = 0 := by omega
  have f1 := mul_self_eq_zero.mp e1
  have f2 := mul_self_eq_zero.mp e2
  have f3 := mul_self_eq_zero.mp e3
  have g1 : x = a := by omega
  have g2 : y = b := by omega
  have g3 : z = d := by omega
  subst g1 g2 g3; rfl

theorem axis_sq_lt {x a n : Nat} (hx : x < n) (ha : a < n) :
    ((x : Int) - a) * ((x : Int) - a) < (n : Int) * n := by
  have h1 : (0 : Int) ≤ (n : Int) - 1 - ((x : Int) - a) := by omega
  have h2 : (0 : Int) ≤ (n : Int) - 1 + ((x : Int) - a) := by omega
  have h3 := mul_nonneg h1 h2
  have hn : (1 : Int) ≤ n := by omega
  nlinarith

/-- two voxels of the volume are closer than the volume's diagonal -/
theorem sqDist_lt_diag {s : Shape} {v c : Vox} (hv : InVol s v) (hc : InVol s c) :
    sqDist v (ctrOf c) < (s.1 : Int) * s.1 + (s.2.1 : Int) * s.2.1 + (s.2.2 : Int) * s.2.2 := by
  obtain ⟨x, y, z⟩ := v
  obtain ⟨a, b, d⟩ := c
  obtain ⟨h1, h2, h3⟩ := hv
  obtain ⟨k1, k2, k3⟩ := hc
  simp only at h1 h2 h3 k1 k2 k3
  simp only [sqDist, ctrOf]
  have e1 := axis_sq_lt h1 k1
  have e2 := axis_sq_lt h2 k2
  have e3 := axis_sq_lt h3 k3
  omega

end Rsa.Searchlight
