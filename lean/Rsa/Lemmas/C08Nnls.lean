/-
  Helper lemmas for C08, part 5: the active-set non-negative least squares model
  (`nnlsInner` / `nnlsOuter` / `nnls`).  Under the linear-solve contract `SolveOK`
  (every call of `solve` on a sub-Gram matrix returns a solution of the restricted normal
  equations), a run that reports `exited = true` returns a point that passes the
  executable Karush–Kuhn–Tucker predicate `kktOk`; the inner loop never runs out of fuel.
-/
import Rsa.Lemmas.C08Pool

set_option linter.unusedSectionVars false
set_option linter.unusedVariables false
set_option linter.unusedSimpArgs false

namespace Rsa
namespace Fit
open Rsa.Compare

/-- contract of `np.linalg.solve` on every passive set: the Gauss–Jordan result has the right
    length and solves the restricted normal equations -/
def SolveOK (G : List (List ℝ)) (c : List ℝ) : Prop :=
  ∀ p : List Bool, p.length = c.length →
    (solve (subMat (whereTrue p) G) (gather (whereTrue p) c)).length = (whereTrue p).length ∧
    matVec (subMat (whereTrue p) G) (solve (subMat (whereTrue p) G) (gather (whereTrue p) c)) =
      gather (whereTrue p) c

/-! ### `getD` and `set` -/

theorem getD_set_eq {β : Type} (l : List β) (i : ℕ) (a d : β) (h : i < l.length) :
    (l.set i a).getD i d = a := by
  simp [List.getD_eq_getElem?_getD, List.getElem?_set, h]

theorem getD_set_ne {β : Type} (l : List β) (i j : ℕ) (a d : β) (h : i ≠ j) :
    (l.set i a).getD j d = l.getD j d := by
  simp [List.getD_eq_getElem?_getD, List.getElem?_set, h]

/-! ### `whereTrue`, `gather`, `scatter` -/

theorem mem_whereTrue (p : List Bool) (i : ℕ) :
    i ∈ whereTrue p ↔ i < p.length ∧ p.getD i false = true := by
  simp [whereTrue]

theorem whereTrue_nodup (p : List Bool) : (whereTrue p).Nodup := by
  unfold whereTrue
  exact List.Nodup.filter _ List.nodup_range

theorem whereTrue_length_le (p : List Bool) : (whereTrue p).length ≤ p.length := by
  unfold whereTrue
  have := List.length_filter_le (fun i => p.getD i false) (List.range p.length)
  simpa using this

theorem gather_length (idx : List ℕ) (v : List ℝ) : (gather idx v).length = idx.length := by
  simp [gather]

theorem scatter_cons (x : List ℝ) (i : ℕ) (idx : List ℕ) (v : ℝ) (vals : List ℝ) :
    scatter x (i :: idx) (v :: vals) = scatter (x.set i v) idx vals := by
  simp [scatter]

theorem scatter_length (idx : List ℕ) : ∀ (x vals : List ℝ),
    (scatter x idx vals).length = x.length := by
  induction idx with
  | nil => intro x vals; simp [scatter]
  | cons i idx ih =>
    intro x vals
    cases vals with
    | nil => simp [scatter]
    | cons v vals => rw [scatter_cons, ih]; simp

theorem scatter_getD_not_mem (idx : List ℕ) : ∀ (x vals : List ℝ) (j : ℕ), j ∉ idx →
    (scatter x idx vals).getD j 0 = x.getD j 0 := by
  induction idx with
  | nil => intro x vals j _; simp [scatter]
  | cons i idx ih =>
    intro x vals j hj
    cases vals with
    | nil => simp [scatter]
    | cons v vals =>
      have h1 : j ∉ idx := fun h => hj (List.mem_cons_of_mem _ h)
      have h2 : i ≠ j := fun h => hj (by simp [h])
      rw [scatter_cons, ih _ _ j h1, getD_set_ne _ _ _ _ _ h2]

theorem scatter_getD_mem (idx : List ℕ) : ∀ (x vals : List ℝ), idx.Nodup →
    (∀ i ∈ idx, i < x.length) → ∀ (t : ℕ) (ht : t < idx.length) (ht' : t < vals.length),
    (scatter x idx vals).getD idx[t] 0 = vals[t] := by
  induction idx with
  | nil => intro x vals _ _ t ht; simp at ht
  | cons i idx ih =>
    intro x vals hnd hlt t ht ht'
    cases vals with
    | nil => simp at ht'
    | cons v vals =>
      rw [scatter_cons]
      have hnd' := List.nodup_cons.mp hnd
      cases t with
      | zero =>
        simp only [List.getElem_cons_zero]
        rw [scatter_getD_not_mem _ _ _ _ hnd'.1, getD_set_eq _ _ _ _ (hlt i (by simp))]
      | succ t =>
        simp only [List.getElem_cons_succ]
        apply ih _ _ hnd'.2
        intro i' hi'
        rw [List.length_set]
        exact hlt i' (List.mem_cons_of_mem _ hi')

theorem gather_scatter (x : List ℝ) (idx : List ℕ) (vals : List ℝ) (hnd : idx.Nodup)
    (hlt : ∀ i ∈ idx, i < x.length) (hl : vals.length = idx.length) :
    gather idx (scatter x idx vals) = vals := by
  apply List.ext_getElem
  · rw [gather_length, hl]
  · intro t h1 h2
    rw [gather_length] at h1
    have := scatter_getD_mem idx x vals hnd hlt t h1 h2
    simpa [gather] using this

/-! ### `dot` through a passive set -/

theorem sum_filter_map (L : List ℕ) (q : ℕ → Bool) (h : ℕ → ℝ) :
    ((L.filter q).map h).sum = (L.map (fun i => if q i then h i else 0)).sum := by
  induction L with
  | nil => simp
  | cons a L ih =>
    cases hq : q a
    · simp [List.filter_cons, hq, ih]
    · simp [List.filter_cons, hq, ih]

theorem dot_eq_list_sum (a b : List ℝ) (m : ℕ) (ha : a.length = m) (hb : b.length = m) :
    dot a b = ((List.range m).map (fun i => a.getD i 0 * b.getD i 0)).sum := by
  rw [dot_eq_sum_range' a b m ha hb, sum_range_map]

/-- a vector that vanishes off the passive set only sees the passive columns of a row -/
theorem dot_gather_whereTrue (p : List Bool) (row x : List ℝ) (hrow : row.length = p.length)
    (hx : x.length = p.length)
    (hoff : ∀ i, i < p.length → p.getD i false = false → x.getD i 0 = 0) :
    dot row x = dot (gather (whereTrue p) row) (gather (whereTrue p) x) := by
  unfold gather whereTrue
  rw [dot_map_map, sum_filter_map, dot_eq_list_sum row x p.length hrow hx]
  congr 1
  apply List.map_congr_left
  intro i hi
  have hi' := List.mem_range.mp hi
  cases hpi : p.getD i false
  · have h0 := hoff i hi' hpi
    simp only [h0, mul_zero]
    simp
  · simp

theorem vsub_matVec_length (G : List (List ℝ)) (c x : List ℝ) (hG : G.length = c.length) :
    (vsub c (matVec G x)).length = c.length := by
  simp [vsub, matVec, hG]

theorem vsub_matVec_getD (G : List (List ℝ)) (c x : List ℝ) (hG : G.length = c.length) (i : ℕ)
    (hi : i < c.length) :
    (vsub c (matVec G x)).getD i 0 = c.getD i 0 - dot (G.getD i []) x := by
  have h1 : i < (vsub c (matVec G x)).length := by rw [vsub_matVec_length G c x hG]; exact hi
  have h2 : i < G.length := by rw [hG]; exact hi
  rw [List.getD_eq_getElem _ _ h1, List.getD_eq_getElem _ _ hi, List.getD_eq_getElem _ _ h2]
  simp [vsub, matVec]

/-- the contract, row by row -/
theorem solveOK_row {G : List (List ℝ)} {c : List ℝ} (h : SolveOK G c) (p : List Bool)
    (hp : p.length = c.length) (i : ℕ) (hi : i ∈ whereTrue p) :
    dot (gather (whereTrue p) (G.getD i []))
      (solve (subMat (whereTrue p) G) (gather (whereTrue p) c)) = c.getD i 0 := by
  have h2 := (h p hp).2
  have e : gather (whereTrue p) c = (whereTrue p).map (fun i => c.getD i 0) := rfl
  rw [e] at h2
  rw [e]
  unfold matVec subMat at h2
  rw [List.map_map] at h2
  exact List.map_inj_left.mp h2 i hi

/-! ### the blocking fold -/

theorem foldl_opt_none {β γ : Type} (f : Option β → γ → Option β) (hf : ∀ a i, f a i ≠ none) :
    ∀ (L : List γ) (acc : Option β), L.foldl f acc = none → L = [] := by
  intro L
  induction L with
  | nil => intro _ _; rfl
  | cons i L ih =>
    intro acc h
    simp only [List.foldl_cons] at h
    have hL := ih _ h
    subst hL
    simp only [List.foldl_nil] at h
    exact absurd h (hf acc i)

theorem foldl_opt_mem {β : Type} (f : Option (ℕ × β) → ℕ → Option (ℕ × β))
    (hf : ∀ a i j b, f a i = some (j, b) → j = i ∨ ∃ b', a = some (j, b')) :
    ∀ (L : List ℕ) (acc : Option (ℕ × β)) (j : ℕ) (b : β), L.foldl f acc = some (j, b) →
      j ∈ L ∨ ∃ b', acc = some (j, b') := by
  intro L
  induction L with
  | nil =>
    intro acc j b h
    simp only [List.foldl_nil] at h
    exact Or.inr ⟨b, h⟩
  | cons i L ih =>
    intro acc j b h
    simp only [List.foldl_cons] at h
    rcases ih _ j b h with h1 | ⟨b', h1⟩
    · exact Or.inl (List.mem_cons_of_mem _ h1)
    · rcases hf acc i j b' h1 with h2 | h2
      · exact Or.inl (by simp [h2])
      · exact Or.inr h2

noncomputable def bkStep (xp s : List ℝ) (acc : Option (ℕ × ℝ)) (i : ℕ) : Option (ℕ × ℝ) :=
  match acc with
  | none => some (i, xp.getD i 0 / (xp.getD i 0 - s.getD i 0))
  | some (j, b) =>
    if xp.getD i 0 / (xp.getD i 0 - s.getD i 0) < b then
      some (i, xp.getD i 0 / (xp.getD i 0 - s.getD i 0)) else some (j, b)

theorem blocking_eq (xp s : List ℝ) :
    blocking xp s =
      ((List.range s.length).filter (fun i => decide (s.getD i 0 < 0))).foldl (bkStep xp s) none := by
  unfold blocking
  congr 1
  funext acc i
  unfold bkStep
  cases acc with
  | none => rfl
  | some jb => rfl

theorem bkStep_ne_none (xp s : List ℝ) (acc : Option (ℕ × ℝ)) (i : ℕ) : bkStep xp s acc i ≠ none := by
  unfold bkStep
  cases acc with
  | none => simp
  | some jb =>
    obtain ⟨j, b⟩ := jb
    simp only
    split <;> simp

theorem bkStep_index (xp s : List ℝ) (acc : Option (ℕ × ℝ)) (i j : ℕ) (b : ℝ)
    (h : bkStep xp s acc i = some (j, b)) : j = i ∨ ∃ b', acc = some (j, b') := by
  unfold bkStep at h
  cases acc with
  | none =>
    simp only [Option.some.injEq, Prod.mk.injEq] at h
    exact Or.inl h.1.symm
  | some jb =>
    obtain ⟨j1, b1⟩ := jb
    simp only at h
    split at h
    · simp only [Option.some.injEq, Prod.mk.injEq] at h
      exact Or.inl h.1.symm
    · simp only [Option.some.injEq, Prod.mk.injEq] at h
      exact Or.inr ⟨b1, by rw [h.1]⟩

/-- no blocking coefficient: the candidate solution is non-negative -/
theorem blocking_none {xp s : List ℝ} (h : blocking xp s = none) :
    ∀ t, t < s.length → 0 ≤ s.getD t 0 := by
  rw [blocking_eq] at h
  have hnil := foldl_opt_none (bkStep xp s) (bkStep_ne_none xp s) _ _ h
  intro t ht
  by_contra hc
  have hm : t ∈ (List.range s.length).filter (fun i => decide (s.getD i 0 < 0)) := by
    simp only [List.mem_filter, List.mem_range, decide_eq_true_eq]
    exact ⟨ht, not_le.mp hc⟩
  rw [hnil] at hm
  simp at hm

/-- the blocking index is a position of the candidate solution with a negative entry -/
theorem blocking_some {xp s : List ℝ} {ia : ℕ} {alpha : ℝ} (h : blocking xp s = some (ia, alpha)) :
    ia < s.length ∧ s.getD ia 0 < 0 := by
  rw [blocking_eq] at h
  rcases foldl_opt_mem (bkStep xp s) (bkStep_index xp s) _ _ ia alpha h with h1 | ⟨b', h1⟩
  · simpa only [List.mem_filter, List.mem_range, decide_eq_true_eq] using h1
  · cases h1

/-! ### the inner loop -/

/-- invariant of the inner loop -/
structure InnerInv (G : List (List ℝ)) (c x : List ℝ) (p : List Bool) (s : List ℝ) : Prop where
  xlen : x.length = c.length
  plen : p.length = c.length
  off : ∀ i, i < c.length → p.getD i false = false → x.getD i 0 = 0
  hs : s = solve (subMat (whereTrue p) G) (gather (whereTrue p) c)

theorem innerInv_step {G : List (List ℝ)} {c x : List ℝ} {p : List Bool} {s : List ℝ}
    (h : InnerInv G c x p s) (gi : ℕ) (vals : List ℝ) :
    InnerInv G c ((scatter x (whereTrue p) vals).set gi 0) (p.set gi false)
      (solve (subMat (whereTrue (p.set gi false)) G) (gather (whereTrue (p.set gi false)) c)) where
  xlen := by rw [List.length_set, scatter_length, h.xlen]
  plen := by rw [List.length_set, h.plen]
  hs := rfl
  off := by
    intro i hi hpi
    by_cases hig : gi = i
    · subst hig
      exact getD_set_eq _ _ _ _ (by rw [scatter_length, h.xlen]; exact hi)
    · rw [getD_set_ne _ _ _ _ _ hig] at hpi ⊢
      have hnm : i ∉ whereTrue p := by
        intro hm
        have := ((mem_whereTrue p i).mp hm).2
        rw [hpi] at this; cases this
      rw [scatter_getD_not_mem _ _ _ _ hnm]
      exact h.off i hi hpi

theorem nnlsInner_inv (G : List (List ℝ)) (c : List ℝ) :
    ∀ (fuel : ℕ) (x : List ℝ) (p : List Bool) (s : List ℝ), InnerInv G c x p s →
      (nnlsInner G c fuel x p s).2.2.2 = true →
      InnerInv G c (nnlsInner G c fuel x p s).1 (nnlsInner G c fuel x p s).2.1
        (nnlsInner G c fuel x p s).2.2.1 ∧
      blocking (gather (whereTrue (nnlsInner G c fuel x p s).2.1) (nnlsInner G c fuel x p s).1)
        (nnlsInner G c fuel x p s).2.2.1 = none := by
  intro fuel
  induction fuel with
  | zero =>
    intro x p s hinv hflag
    simp only [nnlsInner] at hflag ⊢
    exact ⟨hinv, Option.isNone_iff_eq_none.mp hflag⟩
  | succ fuel ih =>
    intro x p s hinv
    rw [nnlsInner]
    cases hb : blocking (gather (whereTrue p) x) s with
    | none =>
      intro _
      exact ⟨hinv, hb⟩
    | some iv =>
      obtain ⟨ia, alpha⟩ := iv
      simp only
      intro hflag
      exact ih _ _ _ (innerInv_step hinv _ _) hflag

/-! ### the outer loop -/

/-- invariant of the outer loop at its head -/
structure OuterInv (G : List (List ℝ)) (c x : List ℝ) (p : List Bool) (w : List ℝ) : Prop where
  xlen : x.length = c.length
  plen : p.length = c.length
  off : ∀ i, i < c.length → p.getD i false = false → x.getD i 0 = 0
  nonneg : ∀ i, i < c.length → 0 ≤ x.getD i 0
  hw : w = vsub c (matVec G x)
  won : ∀ i, i < c.length → p.getD i false = true → w.getD i 0 = 0

theorem outerInv_init (G : List (List ℝ)) (c : List ℝ) (hG : G.length = c.length) :
    OuterInv G c (List.replicate c.length 0) (List.replicate c.length false) c where
  xlen := by simp
  plen := by simp
  off := fun i _ _ => replicate_getD_zero _ _
  nonneg := fun i _ => le_of_eq (replicate_getD_zero _ _).symm
  hw := by
    apply list_ext_getD
    · rw [vsub_matVec_length G c _ hG]
    · intro i hi
      rw [vsub_matVec_getD G c _ hG i hi, dot_comm', dot_replicate_zero, sub_zero]
  won := by
    intro i hi h
    rw [List.getD_eq_getElem _ _ (by simpa using hi)] at h
    simp at h

/-- after an inner loop that ended through its test, the scattered solution re-establishes
    the outer invariant -/
theorem outerInv_of_inner {G : List (List ℝ)} {c x : List ℝ} {p : List Bool} {s : List ℝ}
    (hG : G.length = c.length) (hrows : ∀ r ∈ G, r.length = c.length) (hsolve : SolveOK G c)
    (h : InnerInv G c x p s) (hb : blocking (gather (whereTrue p) x) s = none) :
    OuterInv G c (scatter x (whereTrue p) s) p (vsub c (matVec G (scatter x (whereTrue p) s))) := by
  have hslen : s.length = (whereTrue p).length := by rw [h.hs]; exact (hsolve p h.plen).1
  have hnd := whereTrue_nodup p
  have hlt : ∀ i ∈ whereTrue p, i < x.length := by
    intro i hi
    rw [h.xlen, ← h.plen]; exact ((mem_whereTrue p i).mp hi).1
  have hs0 := blocking_none hb
  have hoff : ∀ i, i < c.length → p.getD i false = false →
      (scatter x (whereTrue p) s).getD i 0 = 0 := by
    intro i hi hpi
    have hnm : i ∉ whereTrue p := by
      intro hm
      have := ((mem_whereTrue p i).mp hm).2
      rw [hpi] at this; cases this
    rw [scatter_getD_not_mem _ _ _ _ hnm]
    exact h.off i hi hpi
  refine ⟨by rw [scatter_length, h.xlen], h.plen, hoff, ?_, rfl, ?_⟩
  · intro i hi
    cases hpi : p.getD i false
    · exact le_of_eq (hoff i hi hpi).symm
    · have hm : i ∈ whereTrue p := (mem_whereTrue p i).mpr ⟨by rw [h.plen]; exact hi, hpi⟩
      obtain ⟨t, ht, rfl⟩ := List.mem_iff_getElem.mp hm
      have ht' : t < s.length := by rw [hslen]; exact ht
      rw [scatter_getD_mem _ _ _ hnd hlt t ht ht']
      have := hs0 t ht'
      rwa [List.getD_eq_getElem _ _ ht'] at this
  · intro i hi hpi
    have hm : i ∈ whereTrue p := (mem_whereTrue p i).mpr ⟨by rw [h.plen]; exact hi, hpi⟩
    have hrow : (G.getD i []).length = p.length := by
      have hi' : i < G.length := by rw [hG]; exact hi
      rw [List.getD_eq_getElem _ _ hi', h.plen]
      exact hrows _ (List.getElem_mem hi')
    rw [vsub_matVec_getD G c _ hG i hi,
      dot_gather_whereTrue p _ _ hrow (by rw [scatter_length, h.xlen, h.plen])
        (by rw [h.plen]; exact hoff),
      gather_scatter x _ s hnd hlt hslen, h.hs, solveOK_row hsolve p h.plen i hm, sub_self]

theorem innerInv_of_outer {G : List (List ℝ)} {c x : List ℝ} {p : List Bool} {w : List ℝ}
    (h : OuterInv G c x p w) (im : ℕ) :
    InnerInv G c x (p.set im true)
      (solve (subMat (whereTrue (p.set im true)) G) (gather (whereTrue (p.set im true)) c)) where
  xlen := h.xlen
  plen := by rw [List.length_set, h.plen]
  hs := rfl
  off := by
    intro i hi hpi
    by_cases him : im = i
    · subst him
      rw [getD_set_eq _ _ _ _ (by rw [h.plen]; exact hi)] at hpi
      cases hpi
    · rw [getD_set_ne _ _ _ _ _ him] at hpi
      exact h.off i hi hpi

theorem nnlsOuter_inv (tn : List ℝ → ℝ) {G : List (List ℝ)} {c : List ℝ} (hG : G.length = c.length)
    (hrows : ∀ r ∈ G, r.length = c.length) (hsolve : SolveOK G c) :
    ∀ (fuel : ℕ) (tol : ℝ) (x : List ℝ) (p : List Bool) (w : List ℝ), OuterInv G c x p w →
      (nnlsOuter tn G c fuel tol x p w).2.2.2 = true →
      OuterInv G c (nnlsOuter tn G c fuel tol x p w).1 (nnlsOuter tn G c fuel tol x p w).2.1
        (nnlsOuter tn G c fuel tol x p w).2.2.1 := by
  intro fuel
  induction fuel with
  | zero => intro tol x p w _ h; simp [nnlsOuter] at h
  | succ fuel ih =>
    intro tol x p w hinv
    rw [nnlsOuter]
    cases ham : argmaxActive p w with
    | none => intro _; exact hinv
    | some iw =>
      obtain ⟨im, wmax⟩ := iw
      simp only
      by_cases hlt : tol < wmax
      · rw [if_pos hlt]
        simp only [Bool.and_eq_true]
        intro hflag
        obtain ⟨hi1, hi2⟩ := nnlsInner_inv G c _ _ _ _ (innerInv_of_outer hinv im) hflag.2
        exact ih _ _ _ _ (outerInv_of_inner hG hrows hsolve hi1 hi2) hflag.1
      · rw [if_neg hlt]
        intro _; exact hinv

/-! ### the result -/

theorem maxAbs_fold_nonneg (l : List ℝ) : ∀ acc : ℝ, 0 ≤ acc →
    0 ≤ l.foldl (fun acc a => let b := if a < 0 then 0 - a else a; if acc < b then b else acc) acc := by
  induction l with
  | nil => intro acc h; exact h
  | cons a l ih =>
    intro acc h
    simp only [List.foldl_cons]
    apply ih
    have key : ∀ b : ℝ, 0 ≤ (if acc < b then b else acc) := by
      intro b
      split
      · rename_i hlt; exact le_trans h (le_of_lt hlt)
      · exact h
    exact key _

theorem maxAbs_nonneg (l : List ℝ) : 0 ≤ maxAbs l := maxAbs_fold_nonneg l 0 (le_refl _)

/-- the outer invariant together with the exit test is the executable KKT predicate -/
theorem kktOk_of_inv {tol : ℝ} {G : List (List ℝ)} {c x : List ℝ} {p : List Bool} {w : List ℝ}
    (htol : 0 ≤ tol) (hG : G.length = c.length) (h : OuterInv G c x p w)
    (hex : ∀ i, i < w.length → p.getD i false = false → w.getD i 0 ≤ tol) :
    kktOk tol G c x = true := by
  have hwlen : w.length = c.length := by rw [h.hw]; exact vsub_matVec_length G c x hG
  have hwle : ∀ i, i < c.length → w.getD i 0 ≤ tol := by
    intro i hi
    cases hpi : p.getD i false
    · exact hex i (by rw [hwlen]; exact hi) hpi
    · rw [h.won i hi hpi]; exact htol
  have hprod : ∀ i, i < c.length → w.getD i 0 * x.getD i 0 = 0 := by
    intro i hi
    cases hpi : p.getD i false
    · rw [h.off i hi hpi, mul_zero]
    · rw [h.won i hi hpi, zero_mul]
  unfold kktOk
  simp only [← h.hw]
  simp only [Bool.and_eq_true, List.all_eq_true, Bool.not_eq_true', decide_eq_false_iff_not, not_lt]
  refine ⟨⟨?_, ?_⟩, ?_⟩
  · intro a ha
    obtain ⟨i, hi, rfl⟩ := List.mem_iff_getElem.mp ha
    have := h.nonneg i (by rw [← h.xlen]; exact hi)
    rwa [List.getD_eq_getElem _ _ hi] at this
  · intro a ha
    obtain ⟨i, hi, rfl⟩ := List.mem_iff_getElem.mp ha
    have := hwle i (by rw [← hwlen]; exact hi)
    rwa [List.getD_eq_getElem _ _ hi] at this
  · intro a ha
    obtain ⟨i, hi, rfl⟩ := List.mem_iff_getElem.mp ha
    have hi' := hi
    simp only [List.length_zipWith, hwlen, h.xlen, min_self] at hi'
    have h1 : i < w.length := by rw [hwlen]; exact hi'
    have h2 : i < x.length := by rw [h.xlen]; exact hi'
    have := hprod i hi'
    rw [List.getD_eq_getElem _ _ h1, List.getD_eq_getElem _ _ h2] at this
    rw [List.getElem_zipWith, this]
    constructor <;> linarith

/-- the generated threshold `100 · eps · max|c|` is non-negative -/
theorem nnlsTol_nonneg {eps a : ℝ} (heps : 0 ≤ eps) (ha : 0 ≤ a) : 0 ≤ Rsa.Gen.C08.nnlsTol eps a := by
  unfold Rsa.Gen.C08.nnlsTol
  have : (0 : ℝ) ≤ ((100 : ℕ) : ℝ) := by norm_num
  exact mul_nonneg (mul_nonneg this heps) ha

/-- the threshold re-set at the end of an iteration (`100 · eps · max(max|c|, max(|ATA|·x))`) is
    never below the one set before the loop -/
theorem nnlsTol_le_iter {eps a q : ℝ} (heps : 0 ≤ eps) :
    Rsa.Gen.C08.nnlsTol eps a ≤ Rsa.Gen.C08.nnlsTolIter eps a q := by
  unfold Rsa.Gen.C08.nnlsTol Rsa.Gen.C08.nnlsTolIter
  have : (0 : ℝ) ≤ ((100 : ℕ) : ℝ) * eps := mul_nonneg (by norm_num) heps
  exact mul_le_mul_of_nonneg_left (le_max_left a q) this

theorem nnlsTolAt_nonneg {eps : ℝ} (heps : 0 ≤ eps) (G : List (List ℝ)) (c x : List ℝ) :
    0 ≤ nnlsTolAt eps G c x :=
  le_trans (nnlsTol_nonneg heps (maxAbs_nonneg c)) (nnlsTol_le_iter heps)

/-- in exact arithmetic (`eps = 0`) both thresholds are 0 -/
theorem nnlsTolAt_zero (G : List (List ℝ)) (c x : List ℝ) : nnlsTolAt (0 : ℝ) G c x = 0 := by
  simp [nnlsTolAt, Rsa.Gen.C08.nnlsTolIter]

/-- the invariant holds for the triple returned by `nnls` when it reports `exited = true`, and
    no coefficient fixed at zero has a gradient above the threshold in force at the returned point -/
theorem nnls_exit_inv (eps : ℝ) (G : List (List ℝ)) (c : List ℝ) (heps : 0 ≤ eps)
    (hG : G.length = c.length) (hrows : ∀ r ∈ G, r.length = c.length)
    (hsolve : SolveOK G c) (hexit : (nnls eps G c).2.2 = true) :
    ∃ p : List Bool, OuterInv G c (nnls eps G c).1 p (nnls eps G c).2.1 ∧
      ∀ i, i < (nnls eps G c).2.1.length → p.getD i false = false →
        (nnls eps G c).2.1.getD i 0 ≤ nnlsTolAt eps G c (nnls eps G c).1 := by
  unfold nnls at hexit ⊢
  simp only at hexit ⊢
  exact ⟨_, nnlsOuter_inv _ hG hrows hsolve _ _ _ _ _ (outerInv_init G c hG) hexit,
    nnlsOuter_exit _ G c _ _ _ _ _ hexit (nnlsTol_le_iter heps)⟩

/-- **main result**: under the linear-solve contract, a run of the modelled active-set solver
    that reports `exited = true` returns a point that passes the executable KKT predicate with the
    threshold in force at that point -/
theorem nnls_exit_kkt (eps : ℝ) (G : List (List ℝ)) (c : List ℝ) (heps : 0 ≤ eps)
    (hG : G.length = c.length) (hrows : ∀ r ∈ G, r.length = c.length)
    (hsolve : SolveOK G c) (hexit : (nnls eps G c).2.2 = true) :
    kktOk (nnlsTolAt eps G c (nnls eps G c).1) G c (nnls eps G c).1 = true := by
  obtain ⟨p, hinv, hex⟩ := nnls_exit_inv eps G c heps hG hrows hsolve hexit
  exact kktOk_of_inv (nnlsTolAt_nonneg heps G c _) hG hinv hex

/-- the outer invariant at the returned point (no sign condition on `eps` needed) -/
theorem nnls_exit_outerInv (eps : ℝ) (G : List (List ℝ)) (c : List ℝ)
    (hG : G.length = c.length) (hrows : ∀ r ∈ G, r.length = c.length)
    (hsolve : SolveOK G c) (hexit : (nnls eps G c).2.2 = true) :
    ∃ p : List Bool, OuterInv G c (nnls eps G c).1 p (nnls eps G c).2.1 := by
  unfold nnls at hexit ⊢
  simp only at hexit ⊢
  exact ⟨_, nnlsOuter_inv _ hG hrows hsolve _ _ _ _ _ (outerInv_init G c hG) hexit⟩

/-- the returned gradient is the gradient at the returned point -/
theorem nnls_exit_w (eps : ℝ) (G : List (List ℝ)) (c : List ℝ)
    (hG : G.length = c.length) (hrows : ∀ r ∈ G, r.length = c.length)
    (hsolve : SolveOK G c) (hexit : (nnls eps G c).2.2 = true) :
    (nnls eps G c).2.1 = vsub c (matVec G (nnls eps G c).1) := by
  obtain ⟨p, hinv⟩ := nnls_exit_outerInv eps G c hG hrows hsolve hexit
  exact hinv.hw

theorem nnls_exit_length (eps : ℝ) (G : List (List ℝ)) (c : List ℝ)
    (hG : G.length = c.length) (hrows : ∀ r ∈ G, r.length = c.length)
    (hsolve : SolveOK G c) (hexit : (nnls eps G c).2.2 = true) :
    (nnls eps G c).1.length = c.length := by
  obtain ⟨p, hinv⟩ := nnls_exit_outerInv eps G c hG hrows hsolve hexit
  exact hinv.xlen

theorem nnls_exit_nonneg (eps : ℝ) (G : List (List ℝ)) (c : List ℝ)
    (hG : G.length = c.length) (hrows : ∀ r ∈ G, r.length = c.length)
    (hsolve : SolveOK G c) (hexit : (nnls eps G c).2.2 = true) :
    ∀ t ∈ (nnls eps G c).1, 0 ≤ t := by
  obtain ⟨p, hinv⟩ := nnls_exit_outerInv eps G c hG hrows hsolve hexit
  intro a ha
  obtain ⟨i, hi, rfl⟩ := List.mem_iff_getElem.mp ha
  have := hinv.nonneg i (by rw [← hinv.xlen]; exact hi)
  rwa [List.getD_eq_getElem _ _ hi] at this

/-! ### the inner loop never runs out of fuel -/

theorem whereTrue_set_false (p : List Bool) (gi : ℕ) :
    whereTrue (p.set gi false) = (whereTrue p).filter (fun i => decide (i ≠ gi)) := by
  unfold whereTrue
  rw [List.length_set, List.filter_filter]
  apply List.filter_congr
  intro i hi
  have hi' := List.mem_range.mp hi
  by_cases hig : gi = i
  · subst hig
    rw [getD_set_eq _ _ _ _ hi']
    simp
  · rw [getD_set_ne _ _ _ _ _ hig]
    have : i ≠ gi := fun h => hig h.symm
    simp [this]

theorem whereTrue_set_false_length (p : List Bool) (gi : ℕ) (h : gi ∈ whereTrue p) :
    (whereTrue (p.set gi false)).length < (whereTrue p).length := by
  rw [whereTrue_set_false]
  exact List.length_filter_lt_length_iff_exists.mpr ⟨gi, h, by simp⟩

/-- under the contract every iteration of the inner loop removes one passive coefficient, so
    a fuel of at least the number of passive coefficients is never exhausted -/
theorem nnlsInner_fuel_suffices (G : List (List ℝ)) (c : List ℝ) (hsolve : SolveOK G c) :
    ∀ (fuel : ℕ) (x : List ℝ) (p : List Bool) (s : List ℝ), p.length = c.length →
      s = solve (subMat (whereTrue p) G) (gather (whereTrue p) c) →
      (whereTrue p).length ≤ fuel → (nnlsInner G c fuel x p s).2.2.2 = true := by
  intro fuel
  induction fuel with
  | zero =>
    intro x p s hp hs hfuel
    have hslen : s.length = (whereTrue p).length := by rw [hs]; exact (hsolve p hp).1
    simp only [nnlsInner]
    cases hb : blocking (gather (whereTrue p) x) s with
    | none => rfl
    | some iv =>
      obtain ⟨ia, alpha⟩ := iv
      have := (blocking_some hb).1
      omega
  | succ fuel ih =>
    intro x p s hp hs hfuel
    have hslen : s.length = (whereTrue p).length := by rw [hs]; exact (hsolve p hp).1
    rw [nnlsInner]
    cases hb : blocking (gather (whereTrue p) x) s with
    | none => rfl
    | some iv =>
      obtain ⟨ia, alpha⟩ := iv
      simp only
      have hia : ia < (whereTrue p).length := by rw [← hslen]; exact (blocking_some hb).1
      have hm : (whereTrue p).getD ia 0 ∈ whereTrue p := by
        rw [List.getD_eq_getElem _ _ hia]; exact List.getElem_mem hia
      have hdec := whereTrue_set_false_length p _ hm
      exact ih _ _ _ (by rw [List.length_set, hp]) rfl (by omega)

/-- in `nnlsOuter` (inner fuel `c.length + 1`) the inner flag is always `true` -/
theorem nnlsOuter_inner_flag (G : List (List ℝ)) (c : List ℝ) (hsolve : SolveOK G c)
    (x : List ℝ) (p : List Bool) (hp : p.length = c.length) (im : ℕ) :
    (nnlsInner G c (c.length + 1) x (p.set im true)
      (solve (subMat (whereTrue (p.set im true)) G)
        (gather (whereTrue (p.set im true)) c))).2.2.2 = true := by
  have hp' : (p.set im true).length = c.length := by rw [List.length_set, hp]
  apply nnlsInner_fuel_suffices G c hsolve _ _ _ _ hp' rfl
  have := whereTrue_length_le (p.set im true)
  omega

/-- the passive-set mask keeps its length through the inner loop -/
theorem nnlsInner_p_length (G : List (List ℝ)) (c : List ℝ) :
    ∀ (fuel : ℕ) (x : List ℝ) (p : List Bool) (s : List ℝ),
      (nnlsInner G c fuel x p s).2.1.length = p.length := by
  intro fuel
  induction fuel with
  | zero => intro x p s; simp [nnlsInner]
  | succ fuel ih =>
    intro x p s
    rw [nnlsInner]
    cases hb : blocking (gather (whereTrue p) x) s with
    | none => rfl
    | some iv =>
      obtain ⟨ia, alpha⟩ := iv
      simp only
      rw [ih, List.length_set]

/-- `nnlsOuter` with the inner flags ignored: its Boolean only says whether the *outer* loop
    ended through its test -/
noncomputable def nnlsOuterNoInner (tn : List ℝ → ℝ) (G : List (List ℝ)) (c : List ℝ) :
    ℕ → ℝ → List ℝ → List Bool → List ℝ → List ℝ × List Bool × List ℝ × Bool
  | 0, _, x, p, w => (x, p, w, false)
  | fuel + 1, tol, x, p, w =>
    match argmaxActive p w with
    | none => (x, p, w, true)
    | some (im, wmax) =>
      if tol < wmax then
        let p1 := p.set im true
        let idx1 := whereTrue p1
        let s1 := solve (subMat idx1 G) (gather idx1 c)
        let r := nnlsInner G c (c.length + 1) x p1 s1
        let x3 := scatter r.1 (whereTrue r.2.1) r.2.2.1
        let w3 := vsub c (matVec G x3)
        nnlsOuterNoInner tn G c fuel (tn x3) x3 r.2.1 w3
      else (x, p, w, true)

/-- under the contract the inner flags never matter: `nnlsOuter` is the loop whose Boolean
    only records the outer exit -/
theorem nnlsOuter_eq_noInner (tn : List ℝ → ℝ) (G : List (List ℝ)) (c : List ℝ) (hsolve : SolveOK G c) :
    ∀ (fuel : ℕ) (tol : ℝ) (x : List ℝ) (p : List Bool) (w : List ℝ), p.length = c.length →
      nnlsOuter tn G c fuel tol x p w = nnlsOuterNoInner tn G c fuel tol x p w := by
  intro fuel
  induction fuel with
  | zero => intro tol x p w _; rfl
  | succ fuel ih =>
    intro tol x p w hp
    rw [nnlsOuter, nnlsOuterNoInner]
    cases ham : argmaxActive p w with
    | none => rfl
    | some iw =>
      obtain ⟨im, wmax⟩ := iw
      simp only
      by_cases hlt : tol < wmax
      · rw [if_pos hlt, if_pos hlt, nnlsOuter_inner_flag G c hsolve x p hp im, Bool.and_true]
        rw [ih _ _ _ _ (by rw [nnlsInner_p_length, List.length_set, hp])]
      · rw [if_neg hlt, if_neg hlt]

/-! ### non-vacuity: the hypotheses of `nnls_exit_kkt` on a concrete instance -/

/-- the contract holds on a small non-diagonal instance (all four passive sets) -/
example : SolveOK [[2, 1], [1, 2]] [1, -1] := by
  intro p hp
  match p, hp with
  | [a, b], _ =>
    cases a <;> cases b <;>
      norm_num [solve, elimStep, subMat, gather, whereTrue, matVec, dot, List.range_succ,
        List.getD_cons_zero, List.getD_cons_succ]

/-- on that instance the modelled solver exits through its tests and returns `[1/2, 0]` -/
example : nnls (0 : ℝ) [[2, 1], [1, 2]] [1, -1] = ([1 / 2, 0], [0, -3 / 2], true) := by
  norm_num [nnls, nnlsOuter, nnlsInner, argmaxActive, blocking, maxAbs, scatter, vsub, nnlsTolAt,
    Rsa.Gen.C08.nnlsTol, Rsa.Gen.C08.nnlsTolIter, Rsa.Gen.C08.nnlsIterBound, Rsa.Gen.C08.nnlsStepLen,
    Rsa.Gen.C08.nnlsStepUpdate, solve, elimStep, subMat, gather, whereTrue, matVec, dot, List.range_succ,
    List.getD_cons_zero, List.getD_cons_succ, List.replicate_succ, List.set_cons_zero,
    List.set_cons_succ]

end Fit
end Rsa
