/- bilinear kernels on complete data: pair averages are kernels of the condition means -/
import Rsa.Lemmas.C15Rect
import Rsa.Lemmas.C15Loop

set_option linter.unusedSectionVars false
set_option linter.unusedVariables false

namespace Rsa.Unb

open Finset

variable {K : Type} [Field K] [LinearOrder K] [IsStrictOrderedRing K]

/-- a complete observation (no missing channel) -/
def compl (x : Nat → K) : Nat → Option K := fun c => some (x c)

theorem sumTo_one (P : Nat) : sumTo P (fun _ => (1 : K)) = (P : K) := by
  rw [sumTo_eq_sum]; simp

theorem euclidK_compl (P : Nat) (x y : Nat → K) :
    euclidK P (compl x) (compl y) = (sumTo P (fun c => x c * y c), (P : K)) := by
  unfold euclidK prodAt oneAt compl
  simp only [sumTo_one]

theorem mahalK_compl (P : Nat) (N : Nat → Nat → K) (x y : Nat → K) :
    mahalK false P N (compl x) (compl y) = (bil P N x y, (P : K)) := by
  unfold mahalK bil oneAt fstAt sndAt compl
  simp only [sumTo_one, Bool.false_eq_true, if_false]

theorem bil_eq_sum (P : Nat) (N : Nat → Nat → K) (x y : Nat → K) :
    bil P N x y = ∑ k ∈ range P, x k * ∑ l ∈ range P, N l k * y l := by
  unfold bil; simp only [sumTo_eq_sum]

theorem bil_idN (P : Nat) (x y : Nat → K) : bil P idN x y = sumTo P (fun c => x c * y c) := by
  rw [bil_eq_sum, sumTo_eq_sum]
  apply Finset.sum_congr rfl; intro k hk
  congr 1
  unfold idN
  rw [Finset.sum_eq_single k]
  · simp
  · intro l _ hl; simp [hl]
  · intro h; exact absurd hk h

theorem bil_symm (P : Nat) (N : Nat → Nat → K) (hN : ∀ k l, N k l = N l k) (x y : Nat → K) :
    bil P N x y = bil P N y x := by
  rw [bil_eq_sum, bil_eq_sum]
  simp only [Finset.mul_sum]
  rw [Finset.sum_comm]
  apply Finset.sum_congr rfl; intro k _
  apply Finset.sum_congr rfl; intro l _
  rw [hN k l]; ring

/-- bilinearity over weighted finite sums of observations -/
theorem bil_sum_sum (P : Nat) (N : Nat → Nat → K) (n : Nat) (u v : Nat → K)
    (X Y : Nat → Nat → K) :
    (∑ i ∈ range n, ∑ j ∈ range n, u i * v j * bil P N (X i) (Y j))
      = bil P N (fun k => ∑ i ∈ range n, u i * X i k) (fun k => ∑ j ∈ range n, v j * Y j k) := by
  simp only [bil_eq_sum]
  simp only [Finset.mul_sum, Finset.sum_mul]
  rw [sum4_comm P n (fun j i k l => u i * X i k * (N l k * (v j * Y j l)))]
  conv_rhs => rw [Finset.sum_comm]
  apply Finset.sum_congr rfl; intro i _
  apply Finset.sum_congr rfl; intro j _
  apply Finset.sum_congr rfl; intro k _
  apply Finset.sum_congr rfl; intro l _
  ring

theorem bil_div_left (P : Nat) (N : Nat → Nat → K) (x y : Nat → K) (r : K) :
    bil P N (fun k => x k / r) y = bil P N x y / r := by
  simp only [bil_eq_sum, Finset.sum_div]
  apply Finset.sum_congr rfl; intro k _; ring

theorem bil_div_right (P : Nat) (N : Nat → Nat → K) (x y : Nat → K) (r : K) :
    bil P N x (fun k => y k / r) = bil P N x y / r := by
  simp only [bil_eq_sum, Finset.sum_div, Finset.mul_sum]
  apply Finset.sum_congr rfl; intro k _
  apply Finset.sum_congr rfl; intro l _; ring

theorem bil_sub_sub (P : Nat) (N : Nat → Nat → K) (x y z w : Nat → K) :
    bil P N (fun k => x k - y k) (fun k => z k - w k)
      = bil P N x z - bil P N x w - bil P N y z + bil P N y w := by
  simp only [bil_eq_sum, Finset.mul_sum, ← Finset.sum_sub_distrib, ← Finset.sum_add_distrib]
  apply Finset.sum_congr rfl; intro k _
  apply Finset.sum_congr rfl; intro l _; ring

theorem nOf_cast (nObs : Nat) (desc : Nat → Nat) (a : Nat) :
    ((nOf nObs desc a : Nat) : K) = ∑ i ∈ range nObs, if desc i = a then (1 : K) else 0 := by
  induction nObs with
  | zero => simp [nOf]
  | succ m ih =>
    rw [nOf, Finset.sum_range_succ, ← ih]
    by_cases h : desc m = a <;> simp [h]

theorem condMean_eq (nObs : Nat) (desc : Nat → Nat) (V : Nat → Nat → K) (a ch : Nat) :
    condMean nObs desc V a ch
      = (∑ i ∈ range nObs, (if desc i = a then (1 : K) else 0) * V i ch) / (nOf nObs desc a : K) := by
  unfold condMean
  rw [sumTo_eq_sum]
  congr 1
  apply Finset.sum_congr rfl; intro i _
  by_cases h : desc i = a <;> simp [h]

/-- a configuration of `calc` on complete data with a bilinear kernel and constant weight `P` -/
structure BilCfg (c : Cfg K) (P : Nat) (N : Nat → Nat → K) (V : Nat → Nat → K) : Prop where
  kern : ∀ i j, c.kern i j = (bil P N (V i) (V j), (P : K))
  symm : ∀ k l, N k l = N l k
  posP : 0 < P

theorem BilCfg.kern_symm {c : Cfg K} {P N V} (h : BilCfg c P N V) :
    ∀ i j, c.kern i j = c.kern j i := by
  intro i j; rw [h.kern, h.kern, bil_symm P N h.symm]

/-- without cross-validation, weighting by number: rectangle sums are products of class sums -/
theorem rect_plain {c : Cfg K} {P N V} (h : BilCfg c P N V) (hcv : c.crossval = false)
    (hnum : c.number = true) (a b : Nat) :
    rectNum c a b = (nOf c.nObs c.desc a : K) * (nOf c.nObs c.desc b : K) *
        bil P N (condMean c.nObs c.desc V a) (condMean c.nObs c.desc V b)
        ∨ (nOf c.nObs c.desc a = 0 ∨ nOf c.nObs c.desc b = 0) := by
  by_cases ha : nOf c.nObs c.desc a = 0
  · right; left; exact ha
  by_cases hb : nOf c.nObs c.desc b = 0
  · right; right; exact hb
  left
  have hP : (0 : K) < (P : K) := by exact_mod_cast h.posP
  rw [rectNum_eq_sum]
  have hg : ∀ i j, gO c (cVal c.number) a b i j
      = (if c.desc i = a then (1 : K) else 0) * (if c.desc j = b then (1 : K) else 0) *
          bil P N (V i) (V j) := by
    intro i j
    unfold gO adm cVal
    rw [h.kern, hcv, hnum]
    by_cases h1 : c.desc i = a <;> by_cases h2 : c.desc j = b <;> simp [h1, h2, hP]
  simp only [hg]
  rw [bil_sum_sum]
  have hca : ((nOf c.nObs c.desc a : Nat) : K) ≠ 0 := by exact_mod_cast ha
  have hcb : ((nOf c.nObs c.desc b : Nat) : K) ≠ 0 := by exact_mod_cast hb
  have e1 : condMean c.nObs c.desc V a = fun k =>
      (∑ i ∈ range c.nObs, (if c.desc i = a then (1 : K) else 0) * V i k) / (nOf c.nObs c.desc a : K) := by
    funext k; exact condMean_eq _ _ _ _ _
  have e2 : condMean c.nObs c.desc V b = fun k =>
      (∑ i ∈ range c.nObs, (if c.desc i = b then (1 : K) else 0) * V i k) / (nOf c.nObs c.desc b : K) := by
    funext k; exact condMean_eq _ _ _ _ _
  rw [e1, e2, bil_div_left, bil_div_right]
  field_simp

theorem rectDen_plain {c : Cfg K} {P N V} (h : BilCfg c P N V) (hcv : c.crossval = false)
    (hnum : c.number = true) (a b : Nat) :
    rectDen c a b = (nOf c.nObs c.desc a : K) * (nOf c.nObs c.desc b : K) * (P : K) := by
  have hP : (0 : K) < (P : K) := by exact_mod_cast h.posP
  rw [rectDen_eq_sum]
  have hg : ∀ i j, gO c (cW c.number) a b i j
      = (if c.desc i = a then (1 : K) else 0) * ((if c.desc j = b then (1 : K) else 0) * (P : K)) := by
    intro i j
    unfold gO adm cW
    rw [h.kern, hcv, hnum]
    by_cases h1 : c.desc i = a <;> by_cases h2 : c.desc j = b <;> simp [h1, h2, hP]
  simp only [hg, ← Finset.mul_sum, ← Finset.sum_mul, nOf_cast]
  ring

/-- the pair average of a bilinear kernel is the kernel of the two condition means per channel -/
theorem specSim_plain {c : Cfg K} {P N V} (h : BilCfg c P N V) (hcv : c.crossval = false)
    (hnum : c.number = true) (a b : Nat) (ha : 0 < nOf c.nObs c.desc a)
    (hb : 0 < nOf c.nObs c.desc b) :
    specSim c a b
      = some (bil P N (condMean c.nObs c.desc V a) (condMean c.nObs c.desc V b) / (P : K)) := by
  have hP : (0 : K) < (P : K) := by exact_mod_cast h.posP
  have hca : (0 : K) < ((nOf c.nObs c.desc a : Nat) : K) := by exact_mod_cast ha
  have hcb : (0 : K) < ((nOf c.nObs c.desc b : Nat) : K) := by exact_mod_cast hb
  obtain ⟨hN, hD⟩ := spec_eq_rect c h.kern_symm a b
  have hR := rect_plain h hcv hnum a b
  rcases hR with hR | hR
  swap
  · rcases hR with hR | hR <;> omega
  have hRD := rectDen_plain h hcv hnum a b
  have hf : (0 : K) < (if a = b then (1 : K) / 2 else 1) := by
    by_cases e : a = b <;> simp [e]
  unfold specSim
  rw [hN, hD, hR, hRD]
  have hpos : 0 < (if a = b then (1 : K) / 2 else 1) *
      (((nOf c.nObs c.desc a : Nat) : K) * ((nOf c.nObs c.desc b : Nat) : K) * (P : K)) := by
    positivity
  rw [if_pos hpos]
  congr 1
  have h1 := ne_of_gt hf
  have h2 := ne_of_gt hca
  have h3 := ne_of_gt hcb
  have h4 := ne_of_gt hP
  field_simp

end Rsa.Unb
