/- helper lemmas for property C05 (fold index arithmetic, selection by value) -/
import Mathlib.Data.List.Basic
import Mathlib.Data.List.Nodup
import Mathlib.Data.List.Perm.Basic
import Mathlib.Data.List.Range
import Mathlib.Tactic.Ring
import Mathlib.Tactic.Linarith
import Rsa.Core.Folds
import Rsa.Lemmas.Tri

set_option linter.unusedSectionVars false
set_option linter.unusedVariables false
set_option linter.unusedSimpArgs false

namespace Rsa.Folds

/-! ### `uniq` -/

theorem mem_insertU {x z : Nat} {l : List Nat} : z ∈ insertU x l ↔ z = x ∨ z ∈ l := by
  induction l with
  | nil => simp [insertU]
  | cons y ys ih =>
    unfold insertU
    split
    · simp
    · split
      · rename_i h1 h2
        subst h2
        simp
      · simp only [List.mem_cons, ih]
        tauto

theorem sorted_insertU {x : Nat} {l : List Nat} (h : l.Pairwise (· < ·)) :
    (insertU x l).Pairwise (· < ·) := by
  induction l with
  | nil => simp [insertU]
  | cons y ys ih =>
    unfold insertU
    rw [List.pairwise_cons] at h
    split
    · rename_i hxy
      refine List.pairwise_cons.2 ⟨?_, List.pairwise_cons.2 h⟩
      intro a ha
      rcases List.mem_cons.1 ha with rfl | ha
      · exact hxy
      · exact Nat.lt_trans hxy (h.1 a ha)
    · split
      · exact List.pairwise_cons.2 h
      · rename_i h1 h2
        refine List.pairwise_cons.2 ⟨?_, ih h.2⟩
        intro a ha
        rcases mem_insertU.1 ha with rfl | ha
        · omega
        · exact h.1 a ha

theorem mem_uniq {z : Nat} {l : List Nat} : z ∈ uniq l ↔ z ∈ l := by
  induction l with
  | nil => simp [uniq]
  | cons y ys ih =>
    have : uniq (y :: ys) = insertU y (uniq ys) := rfl
    rw [this, mem_insertU, ih, List.mem_cons]

theorem uniq_sorted (l : List Nat) : (uniq l).Pairwise (· < ·) := by
  induction l with
  | nil => simp [uniq]
  | cons y ys ih => exact sorted_insertU ih

theorem uniq_nodup (l : List Nat) : (uniq l).Nodup :=
  (uniq_sorted l).imp (fun h => Nat.ne_of_lt h)

theorem mem_descList {n : Nat} {desc : Nat → Nat} {v : Nat} :
    v ∈ descList n desc ↔ ∃ j, j < n ∧ desc j = v := by
  simp [descList]

/-! ### positions of a fold -/

theorem mem_foldTestIdx {n s r g i : Nat} :
    i ∈ foldTestIdx n s r g ↔ (g * s ≤ i ∧ i < g * s + s) ∨ (g < r ∧ i = n - (g + 1)) := by
  unfold foldTestIdx
  by_cases h : g < r <;> simp [h, List.mem_range'_1]

/-- the fold that holds position `i` -/
def foldOf (n k i : Nat) : Nat := if i < k * (n / k) then i / (n / k) else n - 1 - i

theorem mem_fold_iff {n k g i : Nat} (hk : 1 ≤ k) (hkn : k ≤ n) (hg : g < k) (hi : i < n) :
    i ∈ foldTestIdx n (n / k) (n % k) g ↔ g = foldOf n k i := by
  rw [mem_foldTestIdx]
  have hs : 0 < n / k := Nat.div_pos hkn hk
  have hn : k * (n / k) + n % k = n := Nat.div_add_mod n k
  have hr : n % k < k := Nat.mod_lt n hk
  have hgs : (g + 1) * (n / k) ≤ k * (n / k) := Nat.mul_le_mul_right _ hg
  have hgs' : (g + 1) * (n / k) = g * (n / k) + n / k := by ring
  unfold foldOf
  generalize hS : n / k = s at *
  generalize hR : n % k = r at *
  generalize hKS : k * s = ks at *
  generalize hGS : g * s = gs at *
  by_cases hlt : i < ks
  · simp only [hlt, if_true]
    constructor
    · rintro (⟨h1, h2⟩ | ⟨h1, h2⟩)
      · have : i / s = g := by
          apply Nat.div_eq_of_lt_le
          · first | exact h1 | (rw [hGS]; exact h1)
          · first | exact h2 | (rw [hgs']; exact h2)
        exact this.symm
      · omega
    · intro h
      left
      subst h
      constructor
      · rw [← hGS]; exact Nat.div_mul_le_self i s
      · rw [← hGS]
        have := Nat.lt_div_mul_add (a := i) hs
        omega
  · simp only [hlt, if_false]
    constructor
    · rintro (⟨h1, h2⟩ | ⟨h1, h2⟩)
      · omega
      · omega
    · intro h
      right
      omega

theorem foldTestIdx_lt {n k g i : Nat} (hk : 1 ≤ k) (hkn : k ≤ n) (hg : g < k)
    (h : i ∈ foldTestIdx n (n / k) (n % k) g) : i < n := by
  rw [mem_foldTestIdx] at h
  have hn : k * (n / k) + n % k = n := Nat.div_add_mod n k
  have hgs : (g + 1) * (n / k) ≤ k * (n / k) := Nat.mul_le_mul_right _ hg
  have hgs' : (g + 1) * (n / k) = g * (n / k) + n / k := by ring
  rcases h with ⟨h1, h2⟩ | ⟨h1, h2⟩
  · omega
  · omega

theorem foldTestIdx_nodup {n k g : Nat} (hk : 1 ≤ k) (hkn : k ≤ n) (hg : g < k) :
    (foldTestIdx n (n / k) (n % k) g).Nodup := by
  unfold foldTestIdx
  have hn : k * (n / k) + n % k = n := Nat.div_add_mod n k
  have hgs : (g + 1) * (n / k) ≤ k * (n / k) := Nat.mul_le_mul_right _ hg
  have hgs' : (g + 1) * (n / k) = g * (n / k) + n / k := by ring
  by_cases h : g < n % k
  · simp only [h, if_true]
    rw [List.nodup_append]
    refine ⟨List.nodup_range' (h := Nat.one_pos), by simp, ?_⟩
    intro a ha b hb
    simp only [List.mem_singleton] at hb
    rw [List.mem_range'_1] at ha
    omega
  · simpa [h] using (List.nodup_range' (s := g * (n / k)) (n := n / k) (h := Nat.one_pos))

theorem foldTestIdx_length (n s r g : Nat) :
    (foldTestIdx n s r g).length = s + (if g < r then 1 else 0) := by
  unfold foldTestIdx
  by_cases h : g < r <;> simp [h]

theorem foldTestIdx_ne_nil {n k g : Nat} (hk : 1 ≤ k) (hkn : k ≤ n) :
    foldTestIdx n (n / k) (n % k) g ≠ [] := by
  intro h
  have := congrArg List.length h
  rw [foldTestIdx_length] at this
  have hs : 0 < n / k := Nat.div_pos hkn hk
  simp at this
  omega

theorem fold_disjoint {n k g g' : Nat} (hk : 1 ≤ k) (hkn : k ≤ n) (hg : g < k) (hg' : g' < k)
    (hne : g ≠ g') :
    List.Disjoint (foldTestIdx n (n / k) (n % k) g) (foldTestIdx n (n / k) (n % k) g') := by
  intro i hi hi'
  have hlt := foldTestIdx_lt hk hkn hg hi
  rw [mem_fold_iff hk hkn hg hlt] at hi
  rw [mem_fold_iff hk hkn hg' hlt] at hi'
  exact hne (hi.trans hi'.symm)

theorem foldOf_lt {n k i : Nat} (hk : 1 ≤ k) (hkn : k ≤ n) (hi : i < n) : foldOf n k i < k := by
  unfold foldOf
  have hs : 0 < n / k := Nat.div_pos hkn hk
  have hn : k * (n / k) + n % k = n := Nat.div_add_mod n k
  have hr : n % k < k := Nat.mod_lt n hk
  split
  · rename_i h
    rw [Nat.div_lt_iff_lt_mul hs]
    exact h
  · omega

theorem folds_perm {n k : Nat} (hk : 1 ≤ k) (hkn : k ≤ n) :
    ((List.range k).flatMap (foldTestIdx n (n / k) (n % k))).Perm (List.range n) := by
  rw [List.perm_ext_iff_of_nodup]
  · intro i
    simp only [List.mem_flatMap, List.mem_range]
    constructor
    · rintro ⟨g, hg, hi⟩
      exact foldTestIdx_lt hk hkn hg hi
    · intro hi
      exact ⟨foldOf n k i, foldOf_lt hk hkn hi,
        (mem_fold_iff hk hkn (foldOf_lt hk hkn hi) hi).2 rfl⟩
  · rw [List.nodup_flatMap]
    constructor
    · intro g hg
      exact foldTestIdx_nodup hk hkn (List.mem_range.1 hg)
    · have h := List.pairwise_lt_range (n := k)
      refine h.imp_of_mem ?_
      intro a b ha hb hab
      exact fold_disjoint hk hkn (List.mem_range.1 ha) (List.mem_range.1 hb) (Nat.ne_of_lt hab)
  · exact List.nodup_range

theorem mem_foldTrainIdx {n k i : Nat} {t : List Nat} (hk : 1 < k) :
    i ∈ foldTrainIdx n k t ↔ i < n ∧ i ∉ t := by
  unfold foldTrainIdx
  have : ¬ k ≤ 1 := by omega
  simp [this]

/-! ### values at positions -/

theorem mem_valsAt {sel idx : List Nat} {v : Nat} :
    v ∈ valsAt sel idx ↔ ∃ i ∈ idx, sel[i]? = some v := by
  simp [valsAt, List.mem_filterMap]

theorem getElem?_inj_of_nodup {sel : List Nat} (h : sel.Nodup) {i j v : Nat}
    (hi : sel[i]? = some v) (hj : sel[j]? = some v) : i = j := by
  rw [List.getElem?_eq_some_iff] at hi hj
  obtain ⟨hi1, hi2⟩ := hi
  obtain ⟨hj1, hj2⟩ := hj
  exact (List.Nodup.getElem_inj_iff h).1 (hi2.trans hj2.symm)

theorem valsAt_disjoint {sel a b : List Nat} (h : sel.Nodup) (hab : List.Disjoint a b) :
    List.Disjoint (valsAt sel a) (valsAt sel b) := by
  intro v hv hv'
  obtain ⟨i, hi, hiv⟩ := mem_valsAt.1 hv
  obtain ⟨j, hj, hjv⟩ := mem_valsAt.1 hv'
  have := getElem?_inj_of_nodup h hiv hjv
  subst this
  exact hab hi hj

theorem valsAt_length {sel idx : List Nat} (h : ∀ i ∈ idx, i < sel.length) :
    (valsAt sel idx).length = idx.length := by
  induction idx with
  | nil => simp [valsAt]
  | cons x xs ih =>
    have hx : x < sel.length := h x List.mem_cons_self
    have : valsAt sel (x :: xs) = sel[x] :: valsAt sel xs := by
      simp [valsAt, List.filterMap_cons, List.getElem?_eq_getElem hx]
    rw [this, List.length_cons, List.length_cons, ih]
    intro i hi
    exact h i (List.mem_cons_of_mem _ hi)

theorem valsAt_sub {sel idx : List Nat} {v : Nat} (h : v ∈ valsAt sel idx) : v ∈ sel := by
  obtain ⟨i, _, hiv⟩ := mem_valsAt.1 h
  exact List.mem_of_getElem? hiv

/-! ### selection by descriptor value -/

theorem mem_subsetSel {n : Nat} {desc : Nat → Nat} {value : List Nat} {j : Nat} :
    j ∈ subsetSel n desc value ↔ j < n ∧ desc j ∈ value := by
  simp [subsetSel]

theorem mem_subsampleSel {n : Nat} {desc : Nat → Nat} {value : List Nat} {j : Nat} :
    j ∈ subsampleSel n desc value ↔ j < n ∧ desc j ∈ value := by
  simp only [subsampleSel, List.mem_flatMap, List.mem_filter, List.mem_range, beq_iff_eq]
  constructor
  · rintro ⟨v, hv, hj, rfl⟩
    exact ⟨hj, hv⟩
  · rintro ⟨hj, hv⟩
    exact ⟨desc j, hv, hj, rfl⟩

theorem mem_selRows {o : Obj} {sub : Bool} {rv : Option (List Nat)} {j : Nat} :
    j ∈ selRows o sub rv ↔ j < o.nR ∧ ∀ v, rv = some v → o.rdesc j ∈ v := by
  cases rv with
  | none => simp [selRows]
  | some v =>
    cases sub <;> simp [selRows, mem_subsetSel, mem_subsampleSel]

theorem mem_selConds {o : Obj} {pv : Option (List Nat)} {i : Nat} :
    i ∈ selConds o pv ↔ i < o.nC ∧ ∀ v, pv = some v → o.pdesc i ∈ v := by
  cases pv with
  | none => simp [selConds]
  | some v => simp [selConds, mem_subsetSel]

/-! ### masks over the condensed vector -/

theorem zip_map_filterMap {β γ : Type} (l : List β) (f : β → γ) (p : β → Bool) :
    (l.zip (l.map f)).filterMap (fun pv => if p pv.1 then some pv.2 else none)
      = (l.filter p).map f := by
  induction l with
  | nil => rfl
  | cons x xs ih =>
    by_cases hx : p x = true
    · simp [hx, ih]
    · have hx' : p x = false := by simpa using hx
      simp [hx', ih]

theorem maskVec_eq {α : Type} (nC : Nat) (keep : Nat → Bool) (e : Nat → Nat → α) :
    maskVec nC keep ((pairs nC).map (fun q => e q.1 q.2))
      = (pairsOf ((List.range nC).filter keep)).map (fun q => e q.1 q.2) := by
  unfold maskVec
  rw [pairsOf_filter]
  exact zip_map_filterMap (pairs nC) (fun q => e q.1 q.2) (fun q => keep q.1 && keep q.2)

/-! ### `_concat_sampling` -/

theorem mem_concatSampling {s1 s2 : List Nat} {x : Nat} :
    x ∈ concatSampling s1 s2 ↔ x ∈ s1 ∧ x ∈ s2 := by
  simp only [concatSampling, List.mem_flatMap, List.mem_filter, beq_iff_eq]
  constructor
  · rintro ⟨v, hv, hx, rfl⟩
    exact ⟨hx, hv⟩
  · rintro ⟨h1, h2⟩
    exact ⟨x, h2, h1, rfl⟩

theorem count_concatSampling (s1 : List Nat) {s2 : List Nat} (h : s2.Nodup) (v : Nat) :
    (concatSampling s1 s2).count v = if v ∈ s2 then s1.count v else 0 := by
  induction s2 with
  | nil => simp [concatSampling]
  | cons y ys ih =>
    rw [List.nodup_cons] at h
    have hcs : concatSampling s1 (y :: ys) = s1.filter (fun x => x == y) ++ concatSampling s1 ys := by
      simp [concatSampling]
    rw [hcs, List.count_append, ih h.2]
    by_cases hvy : v = y
    · subst hvy
      have hc : (s1.filter (fun x => x == v)).count v = s1.count v := by
        rw [List.count_filter]
        simp
      simp [h.1, hc]
    · have hc : (s1.filter (fun x => x == y)).count v = 0 := by
        rw [List.count_eq_zero]
        intro hmem
        rw [List.mem_filter] at hmem
        have := hmem.2
        simp at this
        exact hvy this
      have hvy' : ¬ (v = y) := hvy
      simp [hc, List.mem_cons, hvy']


/-! ### round 2: additions (nothing above is changed) -/

theorem mem_zip_range {β : Type} {k g : Nat} {l : List β} {b : β} :
    (g, b) ∈ (List.range k).zip l ↔ g < k ∧ l[g]? = some b := by
  rw [List.mem_iff_getElem?]
  constructor
  · rintro ⟨n, hn⟩
    rw [List.getElem?_zip_eq_some] at hn
    obtain ⟨h1, h2⟩ := hn
    rw [List.getElem?_eq_some_iff] at h1
    obtain ⟨hlt, heq⟩ := h1
    rw [List.length_range] at hlt
    rw [List.getElem_range] at heq
    simp only at heq h2
    subst heq
    exact ⟨hlt, h2⟩
  · rintro ⟨hg, hb⟩
    exact ⟨g, List.getElem?_zip_eq_some.2 ⟨List.getElem?_range hg, hb⟩⟩

theorem count_filter_contains (l ids : List Nat) (v : Nat) :
    (l.filter (fun x => ids.contains x)).count v = if v ∈ ids then l.count v else 0 := by
  by_cases h : v ∈ ids
  · simp only [h, if_true]
    rw [List.count_filter]
    simpa using h
  · simp only [h, if_false]
    rw [List.count_eq_zero]
    intro hm
    rw [List.mem_filter] at hm
    exact h (by simpa using hm.2)

end Rsa.Folds
