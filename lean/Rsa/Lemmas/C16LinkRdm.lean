/- helper lemmas for property C16: every object of a store reachable by the C10 operations
   (`Rsa.Rdm.stepE`) keeps, besides C10's own invariant, what the RDMs constructor establishes
   of the rdm descriptors (every column as long as the stack, `index` on both axes) — and is
   therefore a well-formed, storable object of the save / load model -/
import Rsa.Lemmas.C10Step
import Rsa.Lemmas.C16Link

set_option linter.unusedSectionVars false
set_option linter.unusedVariables false
set_option linter.unusedSimpArgs false

namespace Rsa.Rdm

open Rsa

variable {α : Type} [Zero α]

/-- what C10's invariant does not record: every rdm descriptor column is as long as the
    stack; both descriptor tables have an `index` -/
structure RExtra (o : Obj α) : Prop where
  rshape : ∀ kv ∈ o.rdesc, kv.2.length = o.vecs.length
  rindex : o.rdesc.has "index" = true
  pindex : o.pdesc.has "index" = true

theorem has_addIndex (d : Desc) (n : Nat) : (d.addIndex n).has "index" = true := by
  unfold Desc.addIndex
  split
  · assumption
  · simp [Desc.has, Desc.keys]

theorem has_pick (d : Desc) (sel : List Nat) (k : String) : (d.pick sel).has k = d.has k := by
  simp [Desc.has, Desc.keys, Desc.pick, List.map_map, Function.comp_def]

theorem has_set_self (d : Desc) (k : String) (col : List Lbl) : (d.set k col).has k = true := by
  unfold Desc.set
  split
  · rename_i h
    simp only [Desc.has, Desc.keys, List.contains_eq_mem, List.mem_map, decide_eq_true_eq] at h ⊢
    obtain ⟨kv, hkv, hk⟩ := h
    exact ⟨_, ⟨kv, hkv, rfl⟩, by simp [hk]⟩
  · simp [Desc.has, Desc.keys]

theorem has_set_of_has (d : Desc) (k k' : String) (col : List Lbl) (h : d.has k' = true) :
    (d.set k col).has k' = true := by
  by_cases hk : k = k'
  · subst hk; exact has_set_self d k col
  · unfold Desc.set
    split
    · simp only [Desc.has, Desc.keys, List.contains_eq_mem, List.mem_map, decide_eq_true_eq] at h ⊢
      obtain ⟨kv, hkv, hk'⟩ := h
      refine ⟨_, ⟨kv, hkv, rfl⟩, ?_⟩
      have hne : ¬ kv.1 = k := fun e => hk (e.symm.trans hk')
      simp only [hne, if_false]
      exact hk'
    · simp only [Desc.has, Desc.keys, List.map_append, List.contains_eq_mem, List.mem_append,
        decide_eq_true_eq] at h ⊢
      exact Or.inl h

theorem extra_mk2d {vecs : List (List (Option α))} {od : ODesc} {rd pd : Desc} {o : Obj α}
    (h : mk2d vecs od rd pd = some o) : RExtra o := by
  obtain ⟨v, rest, _, _, hv, _, hrd, hpd, _, _, hrs⟩ := mk2d_some h
  refine ⟨?_, ?_, ?_⟩
  · rw [hrd, hv]; exact pshape_addIndex hrs
  · rw [hrd]; exact has_addIndex _ _
  · rw [hpd]; exact has_addIndex _ _

theorem extra_mk3d {n : Nat} {vecs : List (List (Option α))} {od : ODesc} {rd pd : Desc} {o : Obj α}
    (h : mk3d n vecs od rd pd = some o) : RExtra o := by
  obtain ⟨_, _, _, hv, _, hrd, hpd, _, _, hrs⟩ := mk3d_some h
  refine ⟨?_, ?_, ?_⟩
  · rw [hrd, hv]; exact pshape_addIndex hrs
  · rw [hrd]; exact has_addIndex _ _
  · rw [hpd]; exact has_addIndex _ _

theorem extra_getitem {o o' : Obj α} {sel : List Nat} (h : o.getitem sel = some o') : RExtra o' := by
  unfold Obj.getitem at h
  split at h
  · exact extra_mk2d h
  · simp at h

theorem extra_reorder {o o' : Obj α} {ord : List Nat} (he : RExtra o) (h : o.reorder ord = some o') :
    RExtra o' := by
  unfold Obj.reorder at h
  split at h
  · simp only [Option.some.injEq] at h
    subst h
    exact ⟨by simpa using he.rshape, he.rindex, by simpa [has_pick] using he.pindex⟩
  · simp at h

theorem extra_reindex {o : Obj α} (he : RExtra o) (re : Bool) : RExtra (o.reindex re) := by
  unfold Obj.reindex
  split
  · exact ⟨he.rshape, he.rindex, has_set_self _ _ _⟩
  · exact he

theorem extra_permute {o o' : Obj α} {p : List Nat} (h : o.permute p = some o') : RExtra o' := by
  unfold Obj.permute at h
  split at h
  · exact extra_mk3d h
  · simp at h

theorem extra_append {o r o' : Obj α} (he : RExtra o) (hr : RExtra r) (h : o.append r = some o') :
    RExtra o' := by
  unfold Obj.append at h
  split at h
  · rename_i hc
    simp only [Option.some.injEq] at h
    subst h
    simp only [Bool.and_eq_true, List.all_eq_true] at hc
    refine ⟨?_, has_set_self _ _ _, he.pindex⟩
    intro kv hkv
    simp only [List.length_append]
    rcases Desc.mem_set hkv with hm | hm
    · simp only [List.mem_map] at hm
      obtain ⟨kv0, h0, rfl⟩ := hm
      have hk : r.rdesc.has kv0.1 = true :=
        hc.2 kv0.1 (by simp only [Desc.keys, List.mem_map]; exact ⟨kv0, h0, rfl⟩)
      obtain ⟨c, hcget⟩ := Desc.get_of_mem_keys (d := r.rdesc) (k := kv0.1)
        (by simpa [Desc.has] using hk)
      simp only [hcget, Option.getD_some, List.length_append]
      rw [he.rshape kv0 h0, hr.rshape _ (Desc.get_mem hcget)]
    · subst hm
      simp [rangeLbl_length, Obj.nRdm]
  · simp at h

theorem extra_alignTo {o o' : Obj α} {t : String} {auth : List Lbl} (he : RExtra o)
    (h : o.alignTo t auth = some o') : RExtra o' := by
  unfold Obj.alignTo at h
  simp only [Option.bind_eq_bind, Option.bind_eq_some_iff] at h
  obtain ⟨other, _, h⟩ := h
  split at h
  · simp only [Option.pure_def, Option.some.injEq] at h
    subst h; exact he
  · split at h
    · exact extra_reorder he h
    · simp at h

theorem extra_mapM_alignTo {t : String} {auth : List Lbl} :
    ∀ {rest aligned : List (Obj α)}, (∀ o ∈ rest, RExtra o) →
      rest.mapM (fun r => r.alignTo t auth) = some aligned → ∀ o ∈ aligned, RExtra o := by
  intro rest
  induction rest with
  | nil =>
    intro aligned _ h o ho
    simp at h; subst h; simp at ho
  | cons r rs ih =>
    intro aligned hall h o ho
    simp only [List.mapM_cons, Option.bind_eq_bind, Option.bind_eq_some_iff, Option.pure_def,
      Option.some.injEq] at h
    obtain ⟨r', hr', rs', hrs', rfl⟩ := h
    rcases List.mem_cons.mp ho with e | e
    · subst e; exact extra_alignTo (hall r (by simp)) hr'
    · exact ih (fun x hx => hall x (by simp [hx])) hrs' o e

theorem extra_alignAll {first : Obj α} {rest aligned : List (Obj α)} {ot : Option String}
    (hall : ∀ o ∈ rest, RExtra o) (h : alignAll first rest ot = some aligned) :
    ∀ o ∈ aligned, RExtra o := by
  unfold alignAll at h
  cases ot with
  | none => simp only [Option.some.injEq] at h; subst h; exact hall
  | some t =>
    simp only [Option.bind_eq_bind, Option.bind_eq_some_iff] at h
    obtain ⟨auth, _, h⟩ := h
    exact extra_mapM_alignTo hall h

def StoreExtra (s : Store α) : Prop := ∀ o ∈ s, RExtra o

theorem storeExtra_append {s : Store α} {o : Obj α} (h : StoreExtra s) (ho : RExtra o) :
    StoreExtra (s ++ [o]) := by
  intro x hx
  rcases List.mem_append.mp hx with e | e
  · exact h x e
  · have : x = o := by simpa using e
    subst this; exact ho

theorem storeExtra_set {s : Store α} {o : Obj α} (i : Nat) (h : StoreExtra s) (ho : RExtra o) :
    StoreExtra (s.set i o) := by
  intro x hx
  rcases List.mem_or_eq_of_mem_set hx with e | e
  · exact h x e
  · subst e; exact ho

theorem storeExtra_get {s : Store α} {o : Obj α} {i : Nat} (h : StoreExtra s) (ho : s[i]? = some o) :
    RExtra o := h o (List.mem_of_getElem? ho)

theorem storeExtra_writeBack :
    ∀ (is : List Nat) {s : Store α} {args : List (Obj α)}, StoreExtra s → (∀ o ∈ args, RExtra o) →
      StoreExtra (writeBack s is args) := by
  intro is
  induction is with
  | nil => intro s args h _; simpa [writeBack] using h
  | cons i is ih =>
    intro s args h hall
    cases args with
    | nil => simpa [writeBack] using h
    | cons a as =>
      simp only [writeBack]
      exact ih (storeExtra_set i h (hall a (by simp))) (fun x hx => hall x (by simp [hx]))

theorem mem_of_mapM_get {s : Store α} :
    ∀ {is : List Nat} {objs : List (Obj α)}, is.mapM (fun i => s[i]?) = some objs →
      ∀ o ∈ objs, o ∈ s := by
  intro is
  induction is with
  | nil => intro objs h o ho; simp at h; subst h; simp at ho
  | cons i is ih =>
    intro objs h o ho
    simp only [List.mapM_cons, Option.bind_eq_bind, Option.bind_eq_some_iff, Option.pure_def,
      Option.some.injEq] at h
    obtain ⟨x, hx, xs, hxs, rfl⟩ := h
    rcases List.mem_cons.mp ho with e | e
    · subst e; exact List.mem_of_getElem? hx
    · exact ih hxs o e

theorem extra_fromPartials {objs : List (Obj α)} {allP : Option (List Lbl)} {d : String} {o : Obj α}
    (h : fromPartials objs allP d = some o) : RExtra o := by
  unfold fromPartials at h
  split at h
  · simp at h
  · split at h
    · simp at h
    · split at h
      · simp at h
      · unfold fromPartialsWith at h
        split at h
        · simp at h
        · split at h
          · simp at h
          · split at h
            · simp at h
            · dsimp only at h
              split at h
              · exact extra_mk2d h
              · simp at h

/-- every successful step keeps the extra invariant of every object in the store -/
theorem stepE_extra {s s' : Store α} (cm : Bool) (h : StoreExtra s) (op : Op)
    (hs : stepE cm s op = some s') : StoreExtra s' := by
  cases op with
  | getitem i sel =>
    simp only [stepE, Option.bind_eq_bind, Option.bind_eq_some_iff, bindNew, Option.map_eq_some_iff] at hs
    obtain ⟨o, ho, o', ho', rfl⟩ := hs
    exact storeExtra_append h (extra_getitem ho')
  | subset i b v =>
    simp only [stepE, Option.bind_eq_bind, Option.bind_eq_some_iff, bindNew, Option.map_eq_some_iff] at hs
    obtain ⟨o, ho, o', ho', rfl⟩ := hs
    simp only [Obj.subset, Option.bind_eq_bind, Option.bind_eq_some_iff] at ho'
    obtain ⟨col, hc, ho'⟩ := ho'
    exact storeExtra_append h (extra_getitem ho')
  | subsample i b v =>
    simp only [stepE, Option.bind_eq_bind, Option.bind_eq_some_iff, bindNew, Option.map_eq_some_iff] at hs
    obtain ⟨o, ho, o', ho', rfl⟩ := hs
    simp only [Obj.subsample, Option.bind_eq_bind, Option.bind_eq_some_iff] at ho'
    obtain ⟨col, hc, ho'⟩ := ho'
    exact storeExtra_append h (extra_getitem ho')
  | subsetPattern i b v =>
    simp only [stepE, Option.bind_eq_bind, Option.bind_eq_some_iff, bindNew, Option.map_eq_some_iff] at hs
    obtain ⟨o, ho, o', ho', rfl⟩ := hs
    simp only [Obj.subsetPattern, Option.bind_eq_bind, Option.bind_eq_some_iff] at ho'
    obtain ⟨col, hc, ho'⟩ := ho'
    split at ho'
    · simp at ho'
    · exact storeExtra_append h (extra_mk2d ho')
  | subsamplePattern i b v =>
    simp only [stepE, Option.bind_eq_bind, Option.bind_eq_some_iff, bindNew, Option.map_eq_some_iff] at hs
    obtain ⟨o, ho, o', ho', rfl⟩ := hs
    simp only [Obj.subsamplePattern, Option.bind_eq_bind, Option.bind_eq_some_iff] at ho'
    obtain ⟨col, hc, ho'⟩ := ho'
    exact storeExtra_append h (extra_mk3d ho')
  | reorder i ord =>
    simp only [stepE, Option.bind_eq_bind, Option.bind_eq_some_iff, replaceAt, Option.map_eq_some_iff] at hs
    obtain ⟨o, ho, o', ho', rfl⟩ := hs
    exact storeExtra_set i h (extra_reorder (storeExtra_get h ho) ho')
  | sortAlpha i b re =>
    simp only [stepE, Option.bind_eq_bind, Option.bind_eq_some_iff, replaceAt, Option.map_eq_some_iff] at hs
    obtain ⟨o, ho, o', ho', rfl⟩ := hs
    simp only [Obj.sortAlpha, Option.bind_eq_bind, Option.bind_eq_some_iff, Option.pure_def,
      Option.some.injEq] at ho'
    obtain ⟨col, hc, o2, ho2, rfl⟩ := ho'
    exact storeExtra_set i h (extra_reindex (extra_reorder (storeExtra_get h ho) ho2) re)
  | sortList i b m re =>
    simp only [stepE, Option.bind_eq_bind, Option.bind_eq_some_iff, replaceAt, Option.map_eq_some_iff] at hs
    obtain ⟨o, ho, o', ho', rfl⟩ := hs
    simp only [Obj.sortList, Option.bind_eq_bind, Option.bind_eq_some_iff] at ho'
    obtain ⟨col, hc, ho'⟩ := ho'
    split at ho'
    · simp only [Option.bind_eq_bind, Option.bind_eq_some_iff, Option.pure_def,
        Option.some.injEq] at ho'
      obtain ⟨o2, ho2, rfl⟩ := ho'
      exact storeExtra_set i h (extra_reindex (extra_reorder (storeExtra_get h ho) ho2) re)
    · simp at ho'
  | append i j =>
    simp only [stepE, Option.bind_eq_bind, Option.bind_eq_some_iff, replaceAt, Option.map_eq_some_iff] at hs
    obtain ⟨o, ho, r, hr, o', ho', rfl⟩ := hs
    exact storeExtra_set i h (extra_append (storeExtra_get h ho) (storeExtra_get h hr) ho')
  | concat is tgt =>
    simp only [stepE, Option.bind_eq_bind, Option.bind_eq_some_iff, Option.pure_def] at hs
    obtain ⟨objs, hobjs, ⟨res, args⟩, hc, hs'⟩ := hs
    simp only [Option.some.injEq] at hs'
    subst hs'
    have hmem := mem_of_mapM_get hobjs
    unfold concatObjs at hc
    cases objs with
    | nil => simp at hc
    | cons first rest =>
      simp only [Option.bind_eq_bind, Option.bind_eq_some_iff, Option.pure_def] at hc
      obtain ⟨rd, hrd0, ot, hot, hc⟩ := hc
      split at hc
      · simp at hc
      simp only [Option.bind_eq_some_iff] at hc
      obtain ⟨aligned, hal, res', hres, hc⟩ := hc
      simp only [Option.some.injEq, Prod.mk.injEq] at hc
      obtain ⟨rfl, rfl⟩ := hc
      have hfirst : RExtra first := h first (hmem first (by simp))
      have hrest : ∀ o ∈ rest, RExtra o := fun o ho => h o (hmem o (by simp [ho]))
      have hal' := extra_alignAll hrest hal
      cases cm
      · simpa using storeExtra_append h (extra_mk2d hres)
      · simp only [if_true]
        refine storeExtra_append (storeExtra_writeBack is h ?_) (extra_mk2d hres)
        intro x hx
        rcases List.mem_cons.mp hx with e | e
        · subst e; exact hfirst
        · exact hal' x e
  | copy i =>
    simp only [stepE, Option.bind_eq_bind, Option.bind_eq_some_iff, bindNew, Option.map_eq_some_iff] at hs
    obtain ⟨o, ho, o', ho', rfl⟩ := hs
    exact storeExtra_append h (extra_mk2d ho')
  | fromPartials is allP d =>
    simp only [stepE, Option.bind_eq_bind, Option.bind_eq_some_iff, bindNew, Option.map_eq_some_iff] at hs
    obtain ⟨objs, hobjs, res, hres, rfl⟩ := hs
    exact storeExtra_append h (extra_fromPartials hres)
  | permute i p =>
    simp only [stepE, Option.bind_eq_bind, Option.bind_eq_some_iff, bindNew, Option.map_eq_some_iff] at hs
    obtain ⟨o, ho, o', ho', rfl⟩ := hs
    exact storeExtra_append h (extra_permute ho')
  | inversePermute i =>
    simp only [stepE, Option.bind_eq_bind, Option.bind_eq_some_iff, bindNew, Option.map_eq_some_iff] at hs
    obtain ⟨o, ho, o', ho', rfl⟩ := hs
    unfold Obj.inversePermute at ho'
    split at ho'
    · exact storeExtra_append h (extra_permute ho')
    · simp at ho'

theorem run_extra (cm : Bool) (ops : List Op) :
    ∀ {s : Store α}, StoreExtra s → StoreExtra (run cm s ops) := by
  induction ops with
  | nil => intro s h; simpa [run] using h
  | cons op ops ih =>
    intro s h
    simp only [run, List.foldl_cons]
    apply ih
    unfold step
    cases hs : stepE cm s op with
    | none => simpa using h
    | some s' => simpa using stepE_extra cm h op hs

end Rsa.Rdm

namespace Rsa.Store

open Rsa Rsa.Rdm

/-! ### the embedding of a reachable C10 object is well-formed and storable -/

theorem fieldOk_rdmLblVal (l : Lbl) : fieldOk .utf8 (rdmLblVal l) = true := by
  cases l with
  | int i => exact fieldOk_scalar _
  | str s => rfl
  | arr l => exact fieldOk_nums _ _ _ _ (all_isNum_map _ _ (fun _ => rfl))
  | none => rfl

theorem fieldOk_rdmColVal (col : List Lbl) : fieldOk .utf8 (rdmColVal col) = true := by
  have hent : ∀ v ∈ col.map rdmLblVal, fieldOk .utf8 v = true := by
    intro v hv
    simp only [List.mem_map] at hv
    obtain ⟨l, _, rfl⟩ := hv
    exact fieldOk_rdmLblVal l
  unfold rdmColVal
  split
  · exact fieldOk_colVal _ _ hent
  · exact fieldOk_mkList _ _ (storable_chainFrom _ _ _ hent)

theorem colOk_rdmColVal (n : Nat) (col : List Lbl) (h : col.length = n) : colOk n (rdmColVal col) := by
  unfold rdmColVal
  split
  · exact colOk_colVal n _ _ (by simp [h]) (by simp [h])
  · exact colOk_mkList n _ (by simp [h])

theorem fieldOk_ofDesc (d : Desc) : fieldOk .utf8 (ofDesc d) = true := by
  unfold ofDesc
  apply fieldOk_mkDict
  intro kv hkv
  simp only [List.mem_map] at hkv
  obtain ⟨kc, _, rfl⟩ := hkv
  exact fieldOk_rdmColVal _

theorem fieldOk_ofODesc (d : ODesc) : fieldOk .utf8 (ofODesc d) = true := by
  unfold ofODesc
  apply fieldOk_mkDict
  intro kv hkv
  simp only [List.mem_map] at hkv
  obtain ⟨kc, _, rfl⟩ := hkv
  exact fieldOk_rdmLblVal _

theorem elemOk_ofDesc (d : Desc) (n : Nat) (h : ∀ kv ∈ d, kv.2.length = n) :
    elemOk n (ofDesc d) = true := by
  unfold ofDesc
  apply elemOk_mkDict
  intro kv hkv
  simp only [List.mem_map] at hkv
  obtain ⟨kc, hkc, rfl⟩ := hkv
  exact colOk_rdmColVal n _ (h kc hkc)

theorem index_ofDesc (d : Desc) (h : d.has "index" = true) :
    ((ofDesc d).get? "index").isSome = true := by
  unfold ofDesc
  have := get?_mkDict_map rdmColVal d "index"
  rw [this]
  exact h

theorem nFromReduced_c16_eq (m : Nat) : Rsa.Gen.C16.nFromReduced m = Rsa.Gen.C10.nFromReduced m := rfl

theorem optNum_isNum (x : Option Rat) : (optNum x).isNum = true := by
  cases x <;> rfl

/-- an object that satisfies C10's invariant and the constructor's descriptor facts is, as an
    attribute dictionary, a well-formed RDMs object of the save / load model -/
theorem good_ofObj (meas : Val) {s0 : Rdm.Store Rat} {o : Obj Rat} {g : GObj} (hinv : ObjInv s0 o g)
    (he : RExtra o) : Good .rdms (ofObj meas o) := by
  refine ⟨_, _, _, _, _, rfl, ?_⟩
  simp only [rdmsWF, Bool.and_eq_true]
  have hn : Rsa.Gen.C16.nFromReduced (triLen o.nCond) = o.nCond := by
    rw [nFromReduced_c16_eq]; exact nFromReduced_triLen o.nCond hinv.ncond
  refine ⟨⟨⟨elemOk_ofDesc _ _ he.rshape, index_ofDesc _ he.rindex⟩, ?_⟩, index_ofDesc _ he.pindex⟩
  rw [hn]
  exact elemOk_ofDesc _ _ hinv.pshape

theorem storable_ofObj (meas : Val) (hm : fieldOk .utf8 meas = true) (o : Obj Rat) :
    toDict .rdms (ofObj meas o) = .ok (ofObj meas o) ∧ storable .utf8 (ofObj meas o) = true := by
  refine ⟨rdmsToDict_mkRdms _ _ _ _ _, ?_⟩
  unfold ofObj
  rw [storable_mkRdms]
  simp only [Bool.and_eq_true, Bool.and_true]
  exact ⟨fieldOk_nums _ _ _ _ (all_isNum_map _ _ optNum_isNum), fieldOk_ofODesc _, fieldOk_ofDesc _,
    fieldOk_ofDesc _, hm⟩

/-- every object of every store reachable from well-formed initial objects (that carry the
    constructor's `index` descriptors) by any sequence of C10 operations -/
theorem reachable_good (s0 : Rdm.Store Rat) (hwf : ∀ o ∈ s0, o.WF)
    (hidx : ∀ o ∈ s0, o.rdesc.has "index" = true ∧ o.pdesc.has "index" = true)
    (cm : Bool) (ops : List Rdm.Op) (k : Nat) (o : Obj Rat)
    (hk : (Rdm.run cm s0 ops)[k]? = some o) (meas : Val) : Good .rdms (ofObj meas o) := by
  have hinv := run_inv' cm ops (init_inv' hwf)
  obtain ⟨go, _, hobj⟩ := storeInv_get hinv hk
  have hex : StoreExtra (Rdm.run cm s0 ops) :=
    run_extra cm ops (fun x hx => ⟨(hwf x hx).rshape, (hidx x hx).1, (hidx x hx).2⟩)
  exact good_ofObj meas hobj (storeExtra_get hex hk)

end Rsa.Store

